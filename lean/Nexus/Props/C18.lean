/-
  C18 — Meta API and meta events mirror the realm's actual state.

  Property text.  "The session, registration and subscription meta procedures answer consistently
  with the realm's state as of all requests completed before the call: counts equal the lengths of
  the lists, every listed id can be fetched, lookup/match agree with how a call or publication to
  that URI would actually be routed, and unknown ids yield the documented errors.  Each change is
  announced by exactly one meta event of the right kind and order (session on_join/on_leave;
  on_create before on_subscribe/on_register; on_unsubscribe/on_unregister before on_delete), to
  that realm's subscribers of the meta topic (subscription meta events are not echoed to the
  session that caused them), and a refused or ineffective request announces nothing; kill
  procedures end exactly the targeted sessions with the given reason and never the caller;
  testaments are published or flushed exactly as requested."

  The theorems are about `Realm.metaProc` (router/realm.go `metaProcedureHandler` and the handlers
  in realm.go / dealer.go / broker.go it dispatches to) for EVERY realm state `r` (no invariant
  is needed: a meta procedure reads the very tables the router routes with), and about the exact
  outputs of the state-changing transitions (`stepOp`, `Realm.leave`, `Broker.syncSubscribe`,
  `Broker.syncUnsubscribe`, `syncRegister`, `syncUnregister`).  The answer `(m, r')` of a meta
  procedure is the message handed back through the meta session and the new realm state.

  clause                                                          theorem
  --------------------------------------------------------------  -------------------------------
  session.count = length of session.list (same filter; invalid     C18_session_count_list
  filter: both invalid_argument); no filter: all attached sessions
  every listed session id can be fetched with session.get          C18_session_get_listed
  unknown / malformed session id → wamp.error.no_such_session      C18_session_get_unknown
  registration.list lists exactly the ids of `ds.d.regs` by kind   C18_reg_list
  every listed registration can be fetched; count_callees =        C18_reg_get_listed
  length of list_callees
  unknown registration id → wamp.error.no_such_registration        C18_reg_unknown
  (get, list_callees, count_callees)
  registration.match p = the registration a CALL to p is routed    C18_reg_match_routes
  to (`Dealer.matchProcedure`, the first thing `syncCall` does);
  registration.lookup = the exact-table lookup (uri, match kind)
  subscription.list lists exactly the ids of `broker.subs`         C18_sub_list
  every listed subscription can be fetched (subscription.get)      C18_sub_get_listed
  count_subscribers = length of list_subscribers, for EVERY       C18_sub_count_list
  existing subscription (also a memberless pre-created history
  subscription: empty list, count 0)
  the details shown by session.get / carried by on_join never     C18_no_transport_auth
  contain a `transport.auth` dict
  unknown subscription id → wamp.error.no_such_subscription        C18_sub_unknown
  subscription.match t = the subscriptions a PUBLISH to t is        C18_sub_match_routes
  delivered through (`Broker.matching`, what `syncPublish`
  iterates); subscription.lookup = exact-table lookup
  join → exactly one on_join (cleaned details)                     C18_events_join
  leave (every mode but the realm shutdown, kill_all included)   C18_events_leave
  → registration meta events, then testaments, on_leave LAST;
  shutdown: silent by design
  SUBSCRIBE creating → on_create then on_subscribe; joining →      C18_events_subscribe
  on_subscribe only; already a member → none
  UNSUBSCRIBE → on_unsubscribe then on_delete iff emptied;         C18_events_unsubscribe
  not a member / unknown id → ERROR only, no meta event, no change
  a departing session's memberships are announced like an          C18_events_departure
  UNSUBSCRIBE: per subscription on_unsubscribe, then on_delete
  iff the subscription was deleted with it; nothing else
  subscription meta events never go to the causing session         C18_events_not_echoed
  REGISTER new → [on_create, on_register]; shared join →            C18_events_register
  [on_register]; refused → none, state unchanged; `wamp.*`
  (meta session) registrations announce nothing
  UNREGISTER → [on_unregister] then on_delete iff deleted;         C18_events_unregister
  refused → none
  kill procedures: exactly the selected sessions that are not      C18_kill
  already ending get the GOODBYE with the given reason/message;
  never the caller
  add_testament stores under the caller, in the requested scope     C18_testament_add, C18_testament_flush,
  (default destroyed) — nothing for a caller that is no longer      C18_testament_add_unattached
  attached; flush_testaments empties exactly the scope

  HISTORY.  An earlier version of this file proved `C18_sub_count_list_full_fails`: for a
  subscription without subscribers (a pre-created history subscription) `list_subscribers` answered
  ERROR no_such_subscription while `count_subscribers` answered 0.  The real router did the same;
  it was fixed in /repo a37425d (list_subscribers answers the empty list for an existing
  subscription), the model follows, and the clause is now proved at full strength.

  ASSUMPTION made explicit where needed: ids handed to a meta procedure are read with `AsID`, which
  accepts `1 … 2^53`; session ids (`sidOf k = 2^40 + k`) and router-assigned ids are in that range
  for every id a history can produce within the "fewer than 2^53 ids" assumption of DESIGN §3.
-/
import Nexus.L2.Proofs.RealmMetaEvents
import Nexus.L2.Proofs.RealmLeave

namespace Nexus.C18
open Nexus.L2 Nexus.L2.Realm Nexus.Gen.N

/-! ## Sessions -/

/-- `session.count` and `session.list` with the same arguments: either both refuse the filter
    (invalid_argument) or they answer the length of, resp. the ids of, the same selection of
    attached sessions; without arguments the selection is all of `r.clients`.  Neither changes the
    state. -/
theorem C18_session_count_list (r : Realm) (req : Nat) (details : Dict) (args : List WVal) (kw : Dict) :
    (metaProc r MetaProcSessionCount req details args kw = (mErr req ErrInvalidArgument, r) ∧
     metaProc r MetaProcSessionList req details args kw = (mErr req ErrInvalidArgument, r)) ∨
    (∃ sel : List Session,
      metaProc r MetaProcSessionCount req details args kw = (mYield req [.int sel.length], r) ∧
      metaProc r MetaProcSessionList req details args kw = (mYield req [.list (sel.map (fun c => sidVal c.key))], r) ∧
      (∀ c ∈ sel, c ∈ r.clients) ∧ (args = [] → sel = r.clients)) := by
  rw [metaProc_sessionCount, metaProc_sessionList]
  cases hf : sessFilter args with
  | none => exact Or.inl ⟨rfl, rfl⟩
  | some f =>
    refine Or.inr ⟨sessSel r f, rfl, rfl, fun c hc => (List.mem_filter.mp hc).1, ?_⟩
    intro ha
    subst ha
    have : f = [] := by simpa [sessFilter] using hf.symm
    subst this
    simp [sessSel]

/-- Every session the list shows can be fetched: `session.get` of the id of an attached session
    answers with (cleaned) details of a session with that id, never with an error. -/
theorem C18_session_get_listed (r : Realm) (req : Nat) (details : Dict) (kw : Dict) (c : Session)
    (hc : c ∈ r.clients) (hid : sidOf c.key ≤ maxID) :
    ∃ s ∈ r.clients, sidOf s.key = sidOf c.key ∧
      metaProc r MetaProcSessionGet req details [sidVal c.key] kw = (mYield req [.dict (r.cleanDetails s.details)], r) := by
  rw [metaProc_sessionGet]
  have hpos : 0 < sidOf c.key := by unfold sidOf sidBase; split <;> omega
  have hasid : (sidVal c.key).asID = some (sidOf c.key) := by
    unfold sidVal WVal.asID
    simp only
    rw [if_pos ⟨by exact_mod_cast hpos, by exact_mod_cast hid⟩]
    simp
  simp only [hasid]
  cases hk : r.keyOfSid (sidOf c.key) with
  | none =>
    have := List.find?_eq_none.mp hk c hc
    simp at this
  | some s =>
    have hs := List.mem_of_find?_eq_some hk
    have he : sidOf s.key = sidOf c.key := by simpa using List.find?_some hk
    exact ⟨s, hs, he, rfl⟩

example : sidOf 5 ≤ maxID := by decide

/-- Unknown or malformed session ids give wamp.error.no_such_session. -/
theorem C18_session_get_unknown (r : Realm) (req : Nat) (details : Dict) (kw : Dict) :
    metaProc r MetaProcSessionGet req details [] kw = (mErr req ErrNoSuchSession, r) ∧
    (∀ a rest, a.asID = none → metaProc r MetaProcSessionGet req details (a :: rest) kw = (mErr req ErrNoSuchSession, r)) ∧
    (∀ a rest sid, a.asID = some sid → (∀ c ∈ r.clients, sidOf c.key ≠ sid) →
      metaProc r MetaProcSessionGet req details (a :: rest) kw = (mErr req ErrNoSuchSession, r)) := by
  refine ⟨by rw [metaProc_sessionGet], ?_, ?_⟩
  · intro a rest h
    rw [metaProc_sessionGet]; simp only [h]
  · intro a rest sid h hno
    rw [metaProc_sessionGet]
    have : r.keyOfSid sid = none := List.find?_eq_none.mpr (fun c hc => by simpa using hno c hc)
    simp only [h, this]

/-- `cleanSessionDetails`: whatever the session details are (strict mode or not), the dict answered
    by `wamp.session.get` and carried by `wamp.session.on_join` (`r.cleanDetails details`) never has a
    `transport` dict containing an `auth` dict. -/
theorem C18_no_transport_auth (r : Realm) (details : Dict) (t a : Dict)
    (h : Dict.get? (r.cleanDetails details) "transport" = some (.dict t)) : Dict.get? t "auth" ≠ some (.dict a) :=
  cleanDetails_no_transport_auth r details t a h

-- non-vacuity: details with transport.auth; the shown transport keeps the other keys
example : Dict.get? (({} : Realm).cleanDetails [("transport", .dict [("type", .str "ws"), ("auth", .dict [("pw", .str "x")])])])
    "transport" = some (.dict [("type", .str "ws")]) := rfl

/-! ## Registrations -/

/-- `registration.list` answers exactly the ids of the registration table, split by match kind. -/
theorem C18_reg_list (r : Realm) (req : Nat) (details : Dict) (args : List WVal) (kw : Dict) :
    metaProc r MetaProcRegList req details args kw =
      (mYield req [.dict [(MatchExact, .list (((r.ds.d.regs.filter (fun g => g.kind == .exact)).map (fun g => .int g.id)))),
                          (MatchPrefix, .list (((r.ds.d.regs.filter (fun g => g.kind == .pfx)).map (fun g => .int g.id)))),
                          (MatchWildcard, .list (((r.ds.d.regs.filter (fun g => g.kind == .wild)).map (fun g => .int g.id))))]], r) := by
  rw [metaProc_regList]
  simp [idLists, List.filter_map, List.map_map, Function.comp_def]

/-- Every listed registration can be fetched, and its callee count equals the length of its callee
    list: for the id of any registration of the table, `get`, `list_callees`, `count_callees`
    answer about one and the same registration `g'` with that id (the registration itself when
    ids are distinct, which `DealerInv` guarantees). -/
theorem C18_reg_get_listed (r : Realm) (req : Nat) (details : Dict) (kw : Dict) (g : Reg) (hg : g ∈ r.ds.d.regs)
    (hpos : 0 < g.id) (hid : g.id ≤ maxID) :
    ∃ g' ∈ r.ds.d.regs, g'.id = g.id ∧
      metaProc r MetaProcRegGet req details [.int g.id] kw =
        (mYield req [regDetailsDict g'.id g'.proc g'.«match» g'.policy], r) ∧
      metaProc r MetaProcRegListCallees req details [.int g.id] kw = (mYield req [.list (g'.callees.map sidVal)], r) ∧
      metaProc r MetaProcRegCountCallees req details [.int g.id] kw =
        (mYield req [.int (g'.callees.map sidVal).length], r) := by
  have hasid : (WVal.int g.id).asID = some g.id := by
    unfold WVal.asID
    simp only
    rw [if_pos ⟨by exact_mod_cast hpos, by exact_mod_cast hid⟩]
    simp
  have harg : regArg r [.int g.id] = r.ds.d.findReg g.id := by simp [regArg, hasid]
  cases hf : r.ds.d.findReg g.id with
  | none =>
    have := List.find?_eq_none.mp hf g hg
    simp at this
  | some g' =>
    have hm := List.mem_of_find?_eq_some hf
    have he : g'.id = g.id := by simpa using List.find?_some hf
    refine ⟨g', hm, he, ?_, ?_, ?_⟩
    · rw [metaProc_regGet, harg, hf]
    · rw [metaProc_regListCallees, harg, hf]
    · rw [metaProc_regCountCallees, harg, hf]; simp

/-- Unknown or malformed registration ids give wamp.error.no_such_registration. -/
theorem C18_reg_unknown (r : Realm) (req : Nat) (details : Dict) (args : List WVal) (kw : Dict)
    (h : regArg r args = none) :
    metaProc r MetaProcRegGet req details args kw = (mErr req ErrNoSuchRegistration, r) ∧
    metaProc r MetaProcRegListCallees req details args kw = (mErr req ErrNoSuchRegistration, r) ∧
    metaProc r MetaProcRegCountCallees req details args kw = (mErr req ErrNoSuchRegistration, r) := by
  rw [metaProc_regGet, metaProc_regListCallees, metaProc_regCountCallees, h]
  exact ⟨rfl, rfl, rfl⟩

-- `regArg` is none for: no argument, a non-id argument, an id that is not in the table
example (r : Realm) : regArg r [] = none ∧ regArg r [.str "x"] = none ∧ regArg r [.int 0] = none := ⟨rfl, rfl, rfl⟩
example (r : Realm) (id : Nat) (h : ∀ g ∈ r.ds.d.regs, g.id ≠ id) (a : WVal) (ha : a.asID = some id) :
    regArg r [a] = none := by
  simp only [regArg, ha]
  exact List.find?_eq_none.mpr (fun g hg => by simpa using h g hg)

/-- `registration.match [p]` answers the id of exactly the registration `Dealer.matchProcedure p`
    selects — the function `syncCall` routes a CALL with (exact, then longest prefix, then longest
    wildcard) — or 0 when a CALL to `p` would get no_such_procedure; `registration.lookup [p, {match}]`
    answers the id of the registration stored under exactly (p, kind of match), or 0. -/
theorem C18_reg_match_routes (r : Realm) (req : Nat) (details : Dict) (kw : Dict) (p : String) (rest : List WVal) :
    metaProc r MetaProcRegMatch req details (.str p :: rest) kw =
      (mYield req [.int (match r.ds.d.matchProcedure p with | some g => g.id | none => 0)], r) ∧
    metaProc r MetaProcRegLookup req details (.str p :: rest) kw =
      (mYield req [.int (match r.ds.d.findProc p (matchKind (lookupMatchOpt (.str p :: rest))) with
                         | some g => g.id | none => 0)], r) ∧
    (∀ env caller creq opts args ckw rnd, r.ds.d.matchProcedure p = none → (r.ds.d.byCall? ⟨caller, creq⟩) = none →
      syncCall env r.ds caller creq opts p args ckw rnd =
        { st := r.ds, sends := [⟨caller, errMsg tCALL creq ErrNoSuchProcedure⟩] }) := by
  refine ⟨by rw [metaProc_regMatch]; rfl, by rw [metaProc_regLookup]; rfl, ?_⟩
  intro env caller creq opts args ckw rnd hm hb
  unfold syncCall
  simp only [hm, hb]

/-! ## Subscriptions -/

theorem C18_sub_list (r : Realm) (req : Nat) (details : Dict) (args : List WVal) (kw : Dict) :
    metaProc r MetaProcSubList req details args kw =
      (mYield req [.dict [(MatchExact, .list (((r.broker.subs.filter (fun s => s.kind == .exact)).map (fun s => .int s.id)))),
                          (MatchPrefix, .list (((r.broker.subs.filter (fun s => s.kind == .pfx)).map (fun s => .int s.id)))),
                          (MatchWildcard, .list (((r.broker.subs.filter (fun s => s.kind == .wild)).map (fun s => .int s.id))))]], r) := by
  rw [metaProc_subList]
  simp [idLists, List.filter_map, List.map_map, Function.comp_def]

/-- Every listed subscription can be fetched with `subscription.get`. -/
theorem C18_sub_get_listed (r : Realm) (req : Nat) (details : Dict) (kw : Dict) (s : Sub) (hs : s ∈ r.broker.subs)
    (hpos : 0 < s.id) (hid : s.id ≤ maxID) :
    ∃ s' ∈ r.broker.subs, s'.id = s.id ∧ subArg r [.int s.id] = some s' ∧
      metaProc r MetaProcSubGet req details [.int s.id] kw = (mYield req [subDetailsDict s'], r) := by
  have hasid : (WVal.int s.id).asID = some s.id := by
    unfold WVal.asID
    simp only
    rw [if_pos ⟨by exact_mod_cast hpos, by exact_mod_cast hid⟩]
    simp
  have harg : subArg r [.int s.id] = r.broker.findId s.id := by simp [subArg, hasid]
  cases hf : r.broker.findId s.id with
  | none =>
    have := List.find?_eq_none.mp hf s hs
    simp at this
  | some s' =>
    have hm := List.mem_of_find?_eq_some hf
    have he : s'.id = s.id := by simpa using List.find?_some hf
    exact ⟨s', hm, he, by rw [harg, hf], by rw [metaProc_subGet, harg, hf]⟩

/-- For EVERY existing subscription (with or without subscribers), `count_subscribers` equals the
    length of `list_subscribers`, and the list is the subscription's members. -/
theorem C18_sub_count_list (r : Realm) (req : Nat) (details : Dict) (args : List WVal) (kw : Dict) (s : Sub)
    (hs : subArg r args = some s) :
    metaProc r MetaProcSubListSubscribers req details args kw = (mYield req [.list (s.members.map sidVal)], r) ∧
    metaProc r MetaProcSubCountSubscribers req details args kw = (mYield req [.int (s.members.map sidVal).length], r) := by
  rw [metaProc_subListSubscribers, metaProc_subCountSubscribers, hs]
  simp

-- the former counterexample: a pre-created history subscription nobody subscribed to
example : let r0 : Realm := { broker := { subs := [{ id := 1, topic := "t", «match» := "", members := [] }], nextSub := 1,
                                            hist := [{ sub := 1, limit := 10, entries := [] }] } }
    metaProc r0 MetaProcSubCountSubscribers 7 [] [.int 1] [] = (mYield 7 [.int 0], r0) ∧
    metaProc r0 MetaProcSubListSubscribers 7 [] [.int 1] [] = (mYield 7 [.list []], r0) := by
  intro r0
  have harg : subArg r0 [.int 1] = some { id := 1, topic := "t", «match» := "", members := [] } := rfl
  rw [metaProc_subCountSubscribers, metaProc_subListSubscribers, harg]
  exact ⟨rfl, rfl⟩

/-- Unknown or malformed subscription ids give wamp.error.no_such_subscription. -/
theorem C18_sub_unknown (r : Realm) (req : Nat) (details : Dict) (args : List WVal) (kw : Dict)
    (h : subArg r args = none) :
    metaProc r MetaProcSubGet req details args kw = (mErr req ErrNoSuchSubscription, r) ∧
    metaProc r MetaProcSubListSubscribers req details args kw = (mErr req ErrNoSuchSubscription, r) ∧
    metaProc r MetaProcSubCountSubscribers req details args kw = (mErr req ErrNoSuchSubscription, r) := by
  rw [metaProc_subGet, metaProc_subListSubscribers, metaProc_subCountSubscribers, h]
  exact ⟨rfl, rfl, rfl⟩

/-- `subscription.match [t]` answers the ids of exactly the subscriptions `Broker.matching t`
    yields, in that order — the list `syncPublish` iterates to deliver a PUBLISH to `t` (exact,
    then prefix, then wildcard matches); `subscription.lookup [t, {match}]` answers the id stored
    under exactly (t, kind of match), or 0. -/
theorem C18_sub_match_routes (r : Realm) (req : Nat) (details : Dict) (kw : Dict) (t : String) (rest : List WVal) :
    metaProc r MetaProcSubMatch req details (.str t :: rest) kw =
      (mYield req [.list ((r.broker.matching t).map (fun p => .int p.1.id))], r) ∧
    metaProc r MetaProcSubLookup req details (.str t :: rest) kw =
      (mYield req [.int (match r.broker.findTopic t (matchKind (lookupMatchOpt (.str t :: rest))) with
                         | some s => s.id | none => 0)], r) ∧
    (∀ sess now (p : Publication), p.topic = t →
      (r.broker.syncPublish sess now p).2 =
        (r.broker.matching t).flatMap (fun x => eventsFor sess p (mkFilter p.opts) x.1 x.2)) := by
  refine ⟨by rw [metaProc_subMatch]; rfl, by rw [metaProc_subLookup]; rfl, ?_⟩
  intro sess now p hp
  rw [syncPublish_sends, hp]

/-! ## Meta events -/

/-- A join is announced by exactly one `wamp.session.on_join` publication task carrying the
    cleaned session details; nothing else is queued. -/
theorem C18_events_join (r : Realm) (k : SessKey) (isLocal : Bool) (details : Dict) (roles : Roles) (cap : Nat) :
    (r.stepOp (.join k isLocal details roles cap)).tasks =
      r.tasks ++ [.metaPub { topic := MetaEventSessionOnJoin, args := [.dict (r.cleanDetails details)] }] := by
  rw [stepOp_join]; rfl

/-- A departure in any non-shutdown mode (lost, killed by kill / kill_by_* / kill_all, aborted,
    violation) appends, after whatever
    the table removal queued (the `on_unregister` / `on_delete` publications of the dealer, in
    registration order), the testaments and LAST exactly one `wamp.session.on_leave`
    [session id, authid, authrole] — also for sessions ended by kill_all (F30 fixed); only the realm
    shutdown announces nothing.  (The broker's announcements of the departure — `on_unsubscribe`, then
    `on_delete`, per subscription of the session — are EVENTs sent during the table removal, not tasks:
    `C18_events_departure`.) -/
theorem C18_events_leave (r : Realm) (k : SessKey) (s : Session) (mode : LeaveMode)
    (hf : r.clients.find? (fun c => c.key == k) = some s) :
    (mode.isShutdown = false →
      (r.leave k mode).tasks =
        leaveBaseTasks r k mode ++ (testamentTasks (bucketOf r k) ++
          [.metaPub { topic := MetaEventSessionOnLeave,
                      args := [sidVal s.key, detailOr s.details "authid", detailOr s.details "authrole"] }])) ∧
    (mode.isShutdown = true → (r.leave k mode).tasks = leaveBaseTasks r k mode) := by
  refine ⟨fun h => ?_, fun h => ?_⟩
  · rw [leave_tasks' mode hf, h]; rfl
  · rw [leave_tasks' mode hf, h]; simp

/-- SUBSCRIBE.  Creating a subscription: SUBSCRIBED, then the `on_create` EVENTs, then the
    `on_subscribe` EVENTs (so each observer gets on_create before on_subscribe), two publication
    ids.  Joining an existing subscription: SUBSCRIBED then `on_subscribe` only.  Already a member:
    SUBSCRIBED again, NO meta event, broker unchanged. -/
theorem C18_events_subscribe (b : Broker) (k : SessKey) (req : Nat) (topic m : String) (p : Nat) :
    (b.findTopic topic (matchKind m) = none →
      (b.syncSubscribe k req topic m p).2.1 =
        [⟨k, .subscribed req (b.nextSub + 1)⟩] ++
          (afterCreate b k topic m).metaEvent MetaEventSubOnCreate (pubBase + p) k [sidVal k, subDetailsDict (newSub b k topic m)] ++
          (afterCreate b k topic m).metaEvent MetaEventSubOnSubscribe (pubBase + p + 1) k [sidVal k, .int (b.nextSub + 1)] ∧
      (b.syncSubscribe k req topic m p).2.2 = 2) ∧
    (∀ sub, b.findTopic topic (matchKind m) = some sub → k ∉ sub.members →
      (b.syncSubscribe k req topic m p).2.1 =
        [⟨k, .subscribed req sub.id⟩] ++
          (afterJoin b k sub).metaEvent MetaEventSubOnSubscribe (pubBase + p) k [sidVal k, .int sub.id] ∧
      (b.syncSubscribe k req topic m p).2.2 = 1) ∧
    (∀ sub, b.findTopic topic (matchKind m) = some sub → k ∈ sub.members →
      b.syncSubscribe k req topic m p = (b, [⟨k, .subscribed req sub.id⟩], 0)) := by
  refine ⟨fun h => ?_, fun sub h hk => ?_, fun sub h hk => syncSubscribe_again h hk⟩
  · rw [syncSubscribe_create h]; exact ⟨rfl, rfl⟩
  · rw [syncSubscribe_join_sends h hk]; exact ⟨rfl, rfl⟩

/-- UNSUBSCRIBE by a member: UNSUBSCRIBED, `on_unsubscribe`, then `on_delete` iff the subscription
    was emptied (and has no history store).  By a non-member or for an unknown id: one ERROR
    no_such_subscription, no meta event, broker unchanged. -/
theorem C18_events_unsubscribe (b : Broker) (k : SessKey) (req subId p : Nat) :
    (∀ sub, b.findId subId = some sub → k ∈ sub.members →
      (b.syncUnsubscribe k req subId p).2.1 =
        [⟨k, .unsubscribed req⟩] ++
          (b.syncUnsubscribe k req subId p).1.metaEvent MetaEventSubOnUnsubscribe (pubBase + p) k [sidVal k, .int subId] ++
          (if (sub.members.filter (· != k)).isEmpty && !b.hasHist sub.id
           then (b.syncUnsubscribe k req subId p).1.metaEvent MetaEventSubOnDelete (pubBase + p + 1) k [sidVal k, .int subId]
           else [])) ∧
    ((∀ sub, b.findId subId = some sub → k ∉ sub.members) →
      b.syncUnsubscribe k req subId p = (b, [⟨k, errMsg tUNSUBSCRIBE req ErrNoSuchSubscription⟩], 0)) :=
  ⟨fun _ hf hk => (syncUnsubscribe_sends hf hk).1, fun h => syncUnsubscribe_err_state b k req subId p h⟩

/-- DEPARTURE of a session from its subscriptions (`Broker.syncRemoveSession`, run when the session's handler
    exits in any non-shutdown mode): announced like an UNSUBSCRIBE — `on_unsubscribe` BEFORE `on_delete`.
    * One subscription (`Broker.removeMember`, one iteration of the loop): the broker is `afterDepart b k sub`
      (subscription deleted iff `k` was its last member and it has no history store, otherwise `k` struck
      from its members); the sends are exactly the `on_unsubscribe` EVENTs (publication id `pubBase + p`)
      followed — iff the subscription was deleted — by the `on_delete` EVENTs (`pubBase + p + 1`), nothing
      else; 2 resp. 1 publication ids are drawn.  An id naming no subscription: nothing at all.
    * A session with no index entry (subscribed to nothing): broker unchanged, nothing announced.
    * Otherwise (under `BrokerInv`) the ids the loop runs over are exactly the subscriptions `k` is a member
      of, each once, and the sends of the whole departure are, subscription by subscription in index
      order, that block (`Departure`: computed in the broker state reached so far, with consecutive
      publication ids) — and nothing else. -/
theorem C18_events_departure (b : Broker) (k : SessKey) (p : Nat) :
    (∀ subId sub, b.findId subId = some sub →
      b.removeMember k subId p =
        (afterDepart b k sub,
         (afterDepart b k sub).metaEvent MetaEventSubOnUnsubscribe (pubBase + p) k [sidVal k, .int subId] ++
           (if (sub.members.filter (· != k)).isEmpty && !b.hasHist sub.id
            then (afterDepart b k sub).metaEvent MetaEventSubOnDelete (pubBase + p + 1) k [sidVal k, .int subId]
            else []),
         if (sub.members.filter (· != k)).isEmpty && !b.hasHist sub.id then 2 else 1)) ∧
    (∀ subId, b.findId subId = none → b.removeMember k subId p = (b, [], 0)) ∧
    (idxGet b.index k = none → b.syncRemoveSession k p = (b, [], 0)) ∧
    (BrokerInv b → ∀ ids, idxGet b.index k = some ids →
      ids.Nodup ∧ (∀ id, id ∈ ids ↔ b.isMember k id) ∧
      Departure k { b with index := idxDrop b.index k } p ids
        (b.syncRemoveSession k p).1 (b.syncRemoveSession k p).2.1 (b.syncRemoveSession k p).2.2) := by
  refine ⟨fun subId sub hf => ?_, fun _ hf => removeMember_unknown hf, syncRemoveSession_none p,
    fun hb ids hg => syncRemoveSession_departure hb p hg⟩
  have hid : sub.id = subId := (findId_some hf).2
  rw [removeMember_sends hf, ← hid]
  rfl

-- the block one subscription contributes, spelled out (`Departure.member`)
example (b : Broker) (k : SessKey) (sub : Sub) (p : Nat) :
    departEvents b k sub p =
      (afterDepart b k sub).metaEvent MetaEventSubOnUnsubscribe (pubBase + p) k [sidVal k, .int sub.id] ++
        (if departDeletes b k sub
         then (afterDepart b k sub).metaEvent MetaEventSubOnDelete (pubBase + p + 1) k [sidVal k, .int sub.id] else []) ∧
    departCount b k sub = (if departDeletes b k sub then 2 else 1) ∧
    departDeletes b k sub = ((sub.members.filter (· != k)).isEmpty && !b.hasHist sub.id) := ⟨rfl, rfl, rfl⟩

-- non-vacuity: session 1 is the only member of subscription 1 ("t") and one of two members of subscription 2
-- ("u"); session 3 observes both meta topics.  Its departure deletes 1 (on_unsubscribe, on_delete) and
-- shrinks 2 (on_unsubscribe only): three EVENTs for the observer, in that order, publication ids p, p+1, p+2.
example : let b0 : Broker :=
      { subs := [{ id := 1, topic := "t", «match» := "", members := [1] },
                 { id := 2, topic := "u", «match» := "", members := [1, 2] },
                 { id := 3, topic := MetaEventSubOnUnsubscribe, «match» := "", members := [3] },
                 { id := 4, topic := MetaEventSubOnDelete, «match» := "", members := [3] }],
        nextSub := 4, index := [(1, [1, 2]), (2, [2]), (3, [3, 4])] }
    ((b0.syncRemoveSession 1 0).2.1.map (fun x => (x.to, match x.msg with | .event sub pub _ _ _ => (sub, pub - pubBase) | _ => (0, 0)))) =
      [(3, 3, 0), (3, 4, 1), (3, 3, 2)] ∧
    (b0.syncRemoveSession 1 0).2.2 = 3 ∧
    (b0.syncRemoveSession 1 0).1.subs.map (fun s => (s.id, s.members)) = [(2, [2]), (3, [3]), (4, [3])] := by
  decide

/-- Subscription meta events are sent to members of subscriptions matching the meta topic and
    never to the session that caused them. -/
theorem C18_events_not_echoed (b : Broker) (metaTopic : String) (pubId : Nat) (cause : SessKey) (args : List WVal)
    (x : Send) (hx : x ∈ b.metaEvent metaTopic pubId cause args) :
    x.to ≠ cause ∧ ∃ s ∈ b.subs, s.matchesTopic metaTopic = true ∧ x.to ∈ s.members := by
  refine ⟨(metaEvent_to hx).2, ?_⟩
  unfold Broker.metaEvent at hx
  obtain ⟨ms, hms, hx'⟩ := List.mem_flatMap.mp hx
  obtain ⟨k, hk, rfl⟩ := List.mem_map.mp hx'
  obtain ⟨sub, st⟩ := ms
  exact ⟨sub, ((mem_matching b metaTopic sub st).mp hms).1, ((mem_matching b metaTopic sub st).mp hms).2.1,
    (List.mem_filter.mp hk).1⟩

/-- REGISTER.  New registration: REGISTERED and the publications [on_create, on_register] in that
    order.  Joining a shared registration: [on_register].  Refused (existing registration with the
    single policy, a different policy, or the same callee again): ERROR procedure_already_exists,
    NO publication, dealer state unchanged.  Registrations of `wamp.*` procedures (only the meta
    session may make them) announce nothing. -/
theorem C18_events_register (s : DState) (callee : SessKey) (req : Nat) (proc m invoke : String) (disclose fwd : Bool) :
    (s.d.findProc proc (matchKind m) = none →
      (syncRegister s callee req proc m invoke disclose fwd false).metaPubs =
        [ { topic := MetaEventRegOnCreate, args := [sidVal callee, regDetailsDict (s.d.nextReg + 1) proc m invoke] },
          { topic := MetaEventRegOnRegister, args := [sidVal callee, .int (s.d.nextReg + 1)] } ] ∧
      (syncRegister s callee req proc m invoke disclose fwd true).metaPubs = []) ∧
    (∀ reg, s.d.findProc proc (matchKind m) = some reg →
      reg.policy ≠ "" → reg.policy ≠ InvokeSingle → reg.policy = invoke → callee ∉ reg.callees →
      (syncRegister s callee req proc m invoke disclose fwd false).metaPubs =
        [ { topic := MetaEventRegOnRegister, args := [sidVal callee, .int reg.id] } ]) ∧
    (∀ reg wampURI, s.d.findProc proc (matchKind m) = some reg →
      (reg.policy = "" ∨ reg.policy = InvokeSingle ∨ reg.policy ≠ invoke ∨ callee ∈ reg.callees) →
      syncRegister s callee req proc m invoke disclose fwd wampURI =
        { st := s, sends := [⟨callee, errMsg tREGISTER req ErrProcedureAlreadyExists⟩] }) := by
  refine ⟨fun h => ⟨?_, ?_⟩, fun reg h h1 h2 h3 h4 => ?_, fun reg w h hr => syncRegister_refused h hr⟩
  · rw [(syncRegister_create h).2]; rfl
  · rw [(syncRegister_create h).2]; rfl
  · rw [(syncRegister_shared h h1 h2 h3 h4).2]; rfl

/-- UNREGISTER: refused → ERROR no_such_registration and no publication; otherwise UNREGISTERED and
    [on_unregister] followed by [on_delete] exactly when the registration is gone afterwards. -/
theorem C18_events_unregister (s : DState) (callee : SessKey) (req regId : Nat) :
    ((syncUnregister s callee req regId).sends = [⟨callee, errMsg tUNREGISTER req ErrNoSuchRegistration⟩] ∧
     (syncUnregister s callee req regId).metaPubs = []) ∨
    ((syncUnregister s callee req regId).sends = [⟨callee, .unregistered req⟩] ∧
     ∃ deleted : Bool,
      (syncUnregister s callee req regId).metaPubs =
        [ { topic := MetaEventRegOnUnregister, args := [sidVal callee, .int regId] } ] ++
        (if deleted then [ { topic := MetaEventRegOnDelete, args := [sidVal callee, .int regId] } ] else []) ∧
      (deleted = true ↔ (syncUnregister s callee req regId).st.d.findReg regId = none ∨
        ∀ g ∈ (syncUnregister s callee req regId).st.d.regs, g.id ≠ regId)) :=
  syncUnregister_events s callee req regId

/-! ## Kill procedures -/

/-- Every kill procedure ends exactly the sessions it selects that are not already ending: each
    gets one `leave` task carrying GOODBYE(reason or wamp.close.normal, {message}) — with the `all`
    mark for kill_all — and is marked ending; a session whose id is the caller's is NEVER among
    them; the answer counts them (kill answers nothing).  An invalid `reason` URI → ERROR
    invalid_uri and nobody is ended. -/
theorem C18_kill (r : Realm) (req : Nat) (details : Dict) (args : List WVal) (kw : Dict) (proc : String)
    (hp : proc = MetaProcSessionKill ∨ proc = MetaProcSessionKillByAuthid ∨ proc = MetaProcSessionKillByAuthrole ∨
          proc = MetaProcSessionKillAll) :
    (metaProc r proc req details args kw).2 = r ∨
    ∃ victims : List Session,
      (metaProc r proc req details args kw).2 =
        { r with tasks := r.tasks ++ victims.map (fun c => Task.leave c.key
                    (.killed (makeGoodbye (kwStr kw "reason") (kwStr kw "message") (proc == MetaProcSessionKillAll))
                             (proc == MetaProcSessionKillAll))),
                 ending := r.ending ++ victims.map (·.key) } ∧
      (∀ c ∈ victims, c ∈ r.clients ∧ some (sidOf c.key) ≠ callerOf details ∧ c.key ∉ r.ending) ∧
      badReasonOf kw = false := by
  have hmem : ∀ (sel : Session → Bool) (c : Session),
      c ∈ r.clients.filter (fun c => sel c && !r.ending.contains c.key) →
        c ∈ r.clients ∧ sel c = true ∧ c.key ∉ r.ending := by
    intro sel c hc
    have := List.mem_filter.mp hc
    simp only [Bool.and_eq_true, Bool.not_eq_true', List.contains_eq_mem, decide_eq_false_iff_not] at this
    exact ⟨this.1, this.2.1, this.2.2⟩
  rcases hp with rfl | rfl | rfl | rfl
  · rw [metaProc_kill]
    split
    · exact Or.inl rfl
    · split
      · exact Or.inl rfl
      · rename_i sid _
        split
        · exact Or.inl rfl
        · rename_i hcaller
          split
          · exact Or.inl rfl
          · rename_i hbad
            split
            · exact Or.inl rfl
            · rename_i s hs
              refine Or.inr ⟨_, (killWhere_spec r _ _ _).2, ?_, by simpa using hbad⟩
              intro c hc
              obtain ⟨h1, h2, h3⟩ := hmem _ c hc
              refine ⟨h1, ?_, h3⟩
              have hsid : sidOf s.key = sid := by simpa using List.find?_some hs
              have hck : c.key = s.key := by simpa using h2
              intro e
              apply hcaller
              rw [← e, hck, hsid]
              simp
  · rw [metaProc_killByAuthid]
    split
    · exact Or.inl rfl
    · split
      · exact Or.inl rfl
      · split
        · exact Or.inl rfl
        · rename_i hbad
          refine Or.inr ⟨_, (killWhere_spec r _ _ _).2, ?_, by simpa using hbad⟩
          intro c hc
          obtain ⟨h1, h2, h3⟩ := hmem _ c hc
          refine ⟨h1, ?_, h3⟩
          unfold killSel at h2
          simp only [Bool.and_eq_true, bne_iff_ne, ne_eq] at h2
          exact h2.1
  · rw [metaProc_killByAuthrole]
    split
    · exact Or.inl rfl
    · split
      · exact Or.inl rfl
      · split
        · exact Or.inl rfl
        · rename_i hbad
          refine Or.inr ⟨_, (killWhere_spec r _ _ _).2, ?_, by simpa using hbad⟩
          intro c hc
          obtain ⟨h1, h2, h3⟩ := hmem _ c hc
          refine ⟨h1, ?_, h3⟩
          unfold killSel at h2
          simp only [Bool.and_eq_true, bne_iff_ne, ne_eq] at h2
          exact h2.1
  · rw [metaProc_killAll]
    split
    · exact Or.inl rfl
    · rename_i hbad
      refine Or.inr ⟨_, (killWhere_spec r _ _ _).2, ?_, by simpa using hbad⟩
      intro c hc
      obtain ⟨h1, h2, h3⟩ := hmem _ c hc
      refine ⟨h1, ?_, h3⟩
      simpa using h2

-- the GOODBYE carries the given reason and message; kill_all adds the `all` mark
example : makeGoodbye "com.example.bye" "go away" false = .goodbye [("message", .str "go away")] "com.example.bye" ∧
    makeGoodbye "" "" false = .goodbye [] CloseNormal ∧
    makeGoodbye "" "x" true = .goodbye [("message", .str "x"), ("all", .null)] CloseNormal := ⟨rfl, rfl, rfl⟩

/-! ## Testaments -/

/-- `add_testament [topic, args, kwargs]` by caller `c`: an unknown scope is refused with invalid_argument;
    for a caller that is not (any longer) an attached client NOTHING is stored — same empty YIELD, state
    unchanged (`attachedCaller r c`: `c` is the session id of a session in `clients`); otherwise the
    testament is stored under the caller's session key, appended to the requested scope (`destroyed`
    when no scope is given), the other scope and all other sessions' buckets untouched. -/
theorem C18_testament_add (r : Realm) (req c : Nat) (details : Dict) (kw : Dict) (topic : String)
    (targs : List WVal) (tkw : Dict) (rest : List WVal) (hc : callerOf details = some c) :
    metaProc r MetaProcSessionAddTestament req details (.str topic :: .list targs :: .dict tkw :: rest) kw =
      if scopeOf kw != "destroyed" && scopeOf kw != "detached" then (mErr req ErrInvalidArgument, r)
      else if !attachedCaller r c then (mYield req [], r)
      else
        (mYield req [],
         { r with testaments := (r.testaments.filter (fun x => x.1 != c - sidBase)) ++
            [(c - sidBase,
              addToBucket (((r.testaments.find? (fun x => x.1 == c - sidBase)).map (·.2)).getD {}) (scopeOf kw)
                { topic := topic, args := targs, kw := tkw,
                  opts := (match kw.get? "publish_options" with
                    | some v => (v.asDict).getD []
                    | none => []) })] }) := by
  rw [metaProc_addTestament, hc]
  rfl

/-- which callers are attached: the caller id is a session id (`sidBase + key`) of a session in `clients` -/
theorem C18_attachedCaller (r : Realm) (c : Nat) :
    attachedCaller r c = true ↔ sidBase ≤ c ∧ ∃ s ∈ r.clients, s.key = c - sidBase :=
  ⟨attachedCaller_true, fun h => by
    unfold attachedCaller
    have h1 : decide (sidBase ≤ c) = true := by simpa using h.1
    have h2 : r.clients.any (fun s => s.key == c - sidBase) = true := by
      obtain ⟨s, hs, hk⟩ := h.2
      exact List.any_eq_true.mpr ⟨s, hs, by simpa using hk⟩
    rw [h1, h2]; rfl⟩

/-- `add_testament` by a caller that is not an attached client (F20: the session has left while its
    invocation was pending): the answer is the empty YIELD as for a stored testament and the realm
    state is UNCHANGED — in particular no bucket appears under the id of a session that does not exist. -/
theorem C18_testament_add_unattached (r : Realm) (req c : Nat) (details : Dict) (kw : Dict) (topic : String)
    (targs : List WVal) (tkw : Dict) (rest : List WVal) (hc : callerOf details = some c)
    (hs : scopeOf kw = "destroyed" ∨ scopeOf kw = "detached")
    (hna : c < sidBase ∨ ∀ s ∈ r.clients, s.key ≠ c - sidBase) :
    metaProc r MetaProcSessionAddTestament req details (.str topic :: .list targs :: .dict tkw :: rest) kw =
      (mYield req [], r) :=
  metaProc_addTestament_unattached r req c details kw topic targs tkw rest hc hs hna

-- non-vacuity: an attached caller's testament is stored; the same request from a session that has left is not
example : let r0 : Realm := { clients := [{ key := 5, details := [], roles := [], isLocal := true }] }
    (metaProc r0 MetaProcSessionAddTestament 7 [("caller", .int (sidBase + 5))] [.str "t", .list [], .dict []] []).2.testaments.map (·.1) = [5] ∧
    (metaProc r0 MetaProcSessionAddTestament 7 [("caller", .int (sidBase + 6))] [.str "t", .list [], .dict []] []).2.testaments = [] := by
  decide

example : scopeOf [] = "destroyed" ∧ scopeOf [("scope", .str "detached")] = "detached" := by decide
example (b : TBucket) (t : Testament) :
    (addToBucket b "destroyed" t).destroyed = b.destroyed ++ [t] ∧ (addToBucket b "destroyed" t).detached = b.detached ∧
    (addToBucket b "detached" t).detached = b.detached ++ [t] ∧ (addToBucket b "detached" t).destroyed = b.destroyed :=
  ⟨rfl, rfl, rfl, rfl⟩

/-- `flush_testaments` by caller `c`: empties exactly the requested scope of the caller's bucket
    (dropping the bucket when both scopes are empty), nothing else. -/
theorem C18_testament_flush (r : Realm) (req c : Nat) (details : Dict) (args : List WVal) (kw : Dict)
    (hc : callerOf details = some c) (hs : scopeOf kw = "destroyed" ∨ scopeOf kw = "detached") :
    (r.testaments.find? (fun x => x.1 == c - sidBase) = none →
      metaProc r MetaProcSessionFlushTestaments req details args kw = (mYield req [], r)) ∧
    (∀ key cur, r.testaments.find? (fun x => x.1 == c - sidBase) = some (key, cur) →
      (metaProc r MetaProcSessionFlushTestaments req details args kw).1 = mYield req [] ∧
      (metaProc r MetaProcSessionFlushTestaments req details args kw).2.testaments =
        r.testaments.filter (fun x => x.1 != c - sidBase) ++
          (if (flushBucket cur (scopeOf kw)).destroyed.isEmpty && (flushBucket cur (scopeOf kw)).detached.isEmpty then []
           else [(c - sidBase, flushBucket cur (scopeOf kw))])) := by
  have hsc : (scopeOf kw != "destroyed" && scopeOf kw != "detached") = false := by
    rcases hs with h | h <;> simp [h]
  refine ⟨fun hn => ?_, fun key cur hf => ?_⟩
  · rw [metaProc_flushTestaments, hc]
    simp only [hsc, hn, Bool.false_eq_true, if_false]
  · rw [metaProc_flushTestaments, hc]
    simp only [hsc, hf, Bool.false_eq_true, if_false]
    split <;> simp

end Nexus.C18
