/-
  C20 (history level) — the GHOST TRACE of the broker and what `get_events` returns.

  Property text (the clauses proved here).  "For a topic or pattern configured with event history of
  limit N, wamp.subscription.get_events on its subscription returns the most recent at most N
  publications matching it, oldest first […], each with its original publication id, arguments and
  topic, and never a publication that was restricted to particular receivers by exclude/eligible
  session lists […]."

  Nexus/Props/C20.lean proves retention for an EXISTENTIALLY quantified list of broker steps
  (`C20_reachable_run`, `C20_retention_realm`: "the broker is the run of SOME steps").  Here the list is
  explicit — a function of the inputs — and its `.publish` steps are identified (audit A, C20-G1, stronger
  form):

  `traceHist r0 ops`             the ghost trace of the history (Nexus/L2/Proofs/WpETrace.lean; see
                                 Nexus/Props/C08Hist.lean);
  `bstepsOf (traceHist r0 ops)`  the broker steps the realm hands its broker, in order;
  `x.pub? : Option PubRec`       the publication the action `x` hands over (Nexus/L2/Proofs/WpEPubs.lean):
      the handler of an attached session reads a PUBLISH — an external input `.msg k m`, or one that
      waited in the transport — that the authorization gate lets through and `broker.publish` accepts
      (`pubAccepted`: valid topic, no payload passthru without the feature, no disallowed `disclose_me`),
      or the meta session publishes (session / registration meta events, testaments);
  `acceptedPubs tr`              those of a trace, in order;  `p.step`: the broker step of `p` —
      `syncPublish` with the realm's session table and clock and the publication id `pubBase + pubCount`;
  `p.retained? s`                the entry the store of `s` keeps for `p`: none unless `p.topic` matches
      `s` and `p.opts` contain neither `exclude` nor `eligible`.

  clause                                                                theorem
  --------------------------------------------------------------------  -----------------------------------
  the broker after the history IS the pre-initialised broker after the
    broker steps of the ghost trace; their publish steps carry strictly
    increasing ids; and the publish steps are EXACTLY the accepted
    publications, in order                                               C20_hist_ghost_trace
  an accepted publication: who, in which action, under which conditions;
    a client's was sent by that client as a PUBLISH input of the history  C20_hist_accepted_spec
  conversely a PUBLISH input read by its handler, passing the gate and
    `broker.publish`, IS an accepted publication                          C20_hist_publish_accepted
  the store of a configured (topic, policy, N) holds the last N of the
    accepted publications that match it and are not restricted            C20_hist_store
  `get_events` on that subscription answers `histAnswer q` of exactly
    that list, for EVERY query; with only `limit`/`reverse`: its most
    recent min(limit, …) entries, oldest first, reversed iff `reverse`    C20_hist_get_events,
                                                                          C20_hist_get_events_plain
  each entry: the original publication id `pubBase + pubCount` (ids of
    distinct accepted publications differ), arguments, keyword arguments,
    time of publication, and `details.topic` = the topic iff pattern-based C20_hist_entry
-/
import Nexus.L2.Proofs.WpEPubs
import Nexus.Props.C20

namespace Nexus.C20
open Nexus.L2 Nexus.L2.Realm Nexus.L2.WpE Gen.N
open Realm (HistQuery histScan takeLast histEntryVal histQuery? metaProc mYield)

/-- THE GHOST TRACE.  From the realm `Realm.create cfg` builds, after ANY inputs `ops`: the broker is the
    pre-initialised broker after the broker steps of the ghost trace; the publish steps among them carry the ids
    `pubBase + m` for strictly increasing `m` below the publication counter (`WpA.Trace`); and they are exactly the
    steps of the accepted publications of the trace, in order. -/
theorem C20_hist_ghost_trace {cfg : Config} {r0 : Realm} (h0 : Realm.create cfg = some r0) (ops : List Op) :
    (runOps r0 ops).broker =
      (({ strict := cfg.strict, allowDisclose := cfg.allowDisclose } : Broker).preInit cfg.history).run
        (bstepsOf (traceHist r0 ops)) ∧
    WpA.Trace 0 (bstepsOf (traceHist r0 ops)) (runOps r0 ops).pubCount ∧
    (bstepsOf (traceHist r0 ops)).filter BStep.isPublish = (acceptedPubs (traceHist r0 ops)).map PubRec.step := by
  obtain ⟨_, c2, _, _, c5, _⟩ := WpA.create_fields h0
  obtain ⟨h1, h2, _⟩ := hist_tables r0 ops
  exact ⟨by rw [h1, c2], by rw [← c5]; exact h2, bsteps_publish _⟩

/-- AN ACCEPTED PUBLICATION: `p` is handed to the broker in the state `p.r`, which has the broker, the publication
    counter, the clock and the session table of the state the action starts in; `broker.publish` accepts it; and
    * either the handler of the attached session `p.s` (found under key `k`) reads the PUBLISH `m` with these
      options, topic and payload — the action is the external input `.msg k m`, or `m` waited in the transport —
      and the gate lets it through; then `.msg k m` is an input of the history;
    * or the meta session publishes the meta event / testament `mp`
    (the third case, an answer of the meta-procedure handler being a PUBLISH, never occurs: it is kept only because
    ruling it out needs the task invariant). -/
theorem C20_hist_accepted_spec {cfg : Config} {r0 : Realm} (h0 : Realm.create cfg = some r0) (ops : List Op) :
    ∀ x ∈ traceHist r0 ops, ∀ p, x.pub? = some p →
      pubAccepted p.r p.s p.opts p.topic = true ∧ p.r.broker = x.pre.broker ∧ p.r.pubCount = x.pre.pubCount ∧
      p.r.now = x.pre.now ∧ p.r.session? = x.pre.session? ∧
      ((∃ k m req, (x.act = .op (.msg k m) ∨ x.act = .task (.inMsg k m)) ∧
          m = .publish req p.opts p.topic p.args p.kw ∧
          x.pre.clients.find? (fun c => c.key == k) = some p.s ∧ (authzGate p.r p.s m).1 = true ∧
          Op.msg k m ∈ ops) ∨
       (∃ mp, x.act = .task (.metaPub mp) ∧ p.s = x.pre.metaS ∧ p.opts = mp.opts ∧ p.topic = mp.topic ∧
          p.args = mp.args ∧ p.kw = mp.kw)) := by
  intro x hx p hp
  have hw := traceHist_wf ops r0 x hx
  let P : SessKey → Msg → Prop := fun k' m => Op.msg k' m ∈ ops
  have hopP : ∀ y ∈ traceHist r0 ops, ∀ k' m, y.act = .op (.msg k' m) → P k' m :=
    fun y hy k' m e => traceHist_ops ops r0 y hy _ e
  have htok := (chain_tasksOk (P := P) (chain_hist ops r0) (traceHist_wf ops r0) hopP (tasksOk_create h0)).1 x hx
  obtain ⟨a1, a2, a3, a4, a5, hsrc⟩ := x.pub_spec hp
  refine ⟨a1, a2, a3, a4, a5, ?_⟩
  rcases hsrc with ⟨k, m, req, hact, hm, hf, hg⟩ | ⟨mp, hact, hrest⟩ | ⟨m, hact, hs⟩
  · left
    refine ⟨k, m, req, hact, hm, hf, hg, ?_⟩
    rcases hact with hact | hact
    · exact hopP x hx k m hact
    · have hh := hw _ hact
      have hmem : Task.inMsg k m ∈ x.pre.tasks := by
        cases hl : x.pre.tasks with
        | nil => rw [hl] at hh; cases hh
        | cons a l =>
          rw [hl] at hh
          simp only [List.head?_cons, Option.some.injEq] at hh
          subst hh; exact List.mem_cons_self ..
      exact htok.tasks _ hmem
  · exact Or.inr ⟨mp, hact, hrest⟩
  · exfalso
    -- an answer of the meta-procedure handler is a YIELD or an ERROR, never a PUBLISH
    have hh := hw _ hact
    have hmem : Task.metaMsg m ∈ x.pre.tasks := by
      cases hl : x.pre.tasks with
      | nil => rw [hl] at hh; cases hh
      | cons a l =>
        rw [hl] at hh
        simp only [List.head?_cons, Option.some.injEq] at hh
        subst hh; exact List.mem_cons_self ..
    have hans : m.isMetaAnswer = true := htok.tasks _ hmem
    obtain ⟨r, a⟩ := x
    dsimp only at hact
    subst hact
    have hp' : msgPub { r with tasks := r.tasks.tail } r.metaS m = some p := hp
    obtain ⟨_, _, _, _, req, hm⟩ := msgPub_some hp'
    rw [hm] at hans
    cases hans

/-- CONVERSELY: an external PUBLISH input of an attached session `s` whose handler is neither ending nor busy, which the
    gate lets through and `broker.publish` accepts, IS an accepted publication of its action. -/
theorem C20_hist_publish_accepted (r : Realm) (k : SessKey) (s : Session) (req : Nat) (opts : Dict) (topic : String)
    (args : List WVal) (kw : Dict)
    (hf : r.clients.find? (fun c => c.key == k) = some s) (he : r.ending.contains k = false) (hb : r.busy k = false)
    (hg : (authzGate r s (.publish req opts topic args kw)).1 = true) (ha : pubAccepted r s opts topic = true) :
    (⟨r, .op (.msg k (.publish req opts topic args kw))⟩ : Rec).pub? = some ⟨r, s, opts, topic, args, kw⟩ := by
  show recvPub r k (.publish req opts topic args kw) = _
  unfold recvPub
  rw [hf]
  simp only [he, hb, Bool.false_eq_true, if_false]
  unfold msgPub
  rw [hg]
  simp only [if_true]
  unfold publishPub
  rw [if_pos ha]

theorem find?_hist {l : List Hist} {st : Hist} (hm : st ∈ l) (hu : ∀ st' ∈ l, st'.sub = st.sub → st' = st) :
    l.find? (fun h => h.sub == st.sub) = some st := by
  induction l with
  | nil => cases hm
  | cons a l ih =>
    rw [List.find?_cons]
    by_cases e : a.sub = st.sub
    · have : a = st := hu a (List.mem_cons_self ..) e
      simp [this]
    · have hb : (a.sub == st.sub) = false := by simpa using e
      rw [hb]
      rcases List.mem_cons.mp hm with rfl | hm'
      · exact absurd rfl e
      · exact ih hm' (fun st' hst' => hu st' (List.mem_cons_of_mem _ hst'))

/-- THE STORE.  If `(topic, m, limit)` is an entry of the history configuration not overridden by a later entry for the
    same (topic, policy), then after ANY inputs from the fresh realm: there is exactly one store `st` for the
    subscription `s` with that topic and policy — found by `get_events` under the id `st.sub` —, and it holds the
    last `limit`, oldest first, of the ACCEPTED PUBLICATIONS of the history that match `s` and carry neither
    `exclude` nor `eligible`. -/
theorem C20_hist_store {cfg : Config} {r0 : Realm} (h0 : Realm.create cfg = some r0) (ops : List Op)
    (pre post : List (String × String × Nat)) (topic m : String) (limit : Nat)
    (hcfg : cfg.history = pre ++ (topic, m, limit) :: post)
    (hlast : ∀ c ∈ post, ¬(c.1 = topic ∧ matchKind c.2.1 = matchKind m)) :
    0 < limit ∧
    ∃ st ∈ (runOps r0 ops).broker.hist, ∃ s ∈ (runOps r0 ops).broker.subs,
      s.id = st.sub ∧ s.topic = topic ∧ s.kind = matchKind m ∧ st.limit = limit ∧
      (runOps r0 ops).broker.findId st.sub = some s ∧
      (runOps r0 ops).broker.hist.find? (fun h => h.sub == st.sub) = some st ∧
      st.entries = lastN limit ((acceptedPubs (traceHist r0 ops)).filterMap (PubRec.retained? s)) := by
  have hr : Realm.Reachable cfg (runOps r0 ops) := runOps_reachable ops (.init h0)
  obtain ⟨hb, _, _⟩ := C20_hist_ghost_trace h0 ops
  obtain ⟨hpos, st, hst, s, hs, e1, e2, e3, e4, e5, e6⟩ :=
    retention_of_run hr (bstepsOf (traceHist r0 ops)) hb pre post topic m limit hcfg hlast
  refine ⟨hpos, st, hst, s, hs, e1, e2, e3, e4, ?_, find?_hist hst e6, ?_⟩
  · rw [← e1]; exact findId_of_mem hr.inv.1.binv.ids_nodup hs
  · rw [e5, retained_trace]

/-- WHAT `get_events` RETURNS.  In the situation of `C20_hist_store`: the meta procedure
    `wamp.subscription.get_events`, called with the store's subscription id and ANY well-formed keyword arguments,
    answers YIELD with `histAnswer q'` of exactly the last `limit` accepted, matching, unrestricted publications of the
    history (`q'` = the parsed query with `subTopic` := the subscription's topic), each rendered with its
    subscription id, publication id, details, arguments and keyword arguments; the realm is unchanged. -/
theorem C20_hist_get_events {cfg : Config} {r0 : Realm} (h0 : Realm.create cfg = some r0) (ops : List Op)
    (pre post : List (String × String × Nat)) (topic m : String) (limit : Nat)
    (hcfg : cfg.history = pre ++ (topic, m, limit) :: post)
    (hlast : ∀ c ∈ post, ¬(c.1 = topic ∧ matchKind c.2.1 = matchKind m)) :
    ∃ st ∈ (runOps r0 ops).broker.hist, ∃ s ∈ (runOps r0 ops).broker.subs,
      s.id = st.sub ∧ s.topic = topic ∧ s.kind = matchKind m ∧
      ∀ (req : Nat) (details : Dict) (a : WVal) (rest : List WVal) (kw : Dict) (q : HistQuery),
        a.asID = some st.sub → histQuery? kw = some q →
        metaProc (runOps r0 ops) MetaProcEventHistory req details (a :: rest) kw =
          (mYield req
            ((histAnswer { q with subTopic := s.topic }
                (lastN limit ((acceptedPubs (traceHist r0 ops)).filterMap (PubRec.retained? s)))).map histEntryVal)
            [("is_limit_reached",
              .bool ((lastN limit ((acceptedPubs (traceHist r0 ops)).filterMap (PubRec.retained? s))).length ≥ limit))],
           runOps r0 ops) := by
  obtain ⟨_, st, hst, s, hs, e1, e2, e3, e4, e5, e6, e7⟩ := C20_hist_store h0 ops pre post topic m limit hcfg hlast
  refine ⟨st, hst, s, hs, e1, e2, e3, ?_⟩
  intro req details a rest kw q ha hq
  rw [C20_query_metaProc (runOps r0 ops) req details a rest kw st.sub q st s ha hq e5 e6, e7, e4]

/-- … with only `limit` / `reverse` in the query (no time, topic or publication bounds): the most recent
    min(q.limit, …) of those entries (all of them without `limit`), oldest first — newest first iff `reverse`. -/
theorem C20_hist_get_events_plain (q : HistQuery) (es : List HistEntry)
    (hT : q.fromT = none ∧ q.afterT = none ∧ q.beforeT = none ∧ q.untilT = none) (htopic : q.topic = "")
    (hP : q.fromPub = 0 ∧ q.afterPub = 0 ∧ q.beforePub = 0 ∧ q.untilPub = 0) (sub : String) :
    histAnswer { q with subTopic := sub } es =
      (if q.reverse then (if q.limit > 0 then lastN q.limit es else es).reverse
       else (if q.limit > 0 then lastN q.limit es else es)) :=
  (C20_query_limit_reverse { q with subTopic := sub } es hT htopic hP).1

/-- WHAT AN ENTRY IS.  The entry the store of `s` keeps for the accepted publication `p`: the publication id drawn for
    `p` (`pubBase + ` the counter when it was published), its arguments and keyword arguments, the time of
    publication, the subscription's id; `details.topic` is the publication's topic iff `s` is pattern-based (an
    exact-match subscription stores none: its topic is the subscription's).  And two accepted publications of one
    history have different ids unless they are the same element of `acceptedPubs`: the ids are strictly increasing. -/
theorem C20_hist_entry (s : Sub) (p : PubRec) (e : HistEntry) (he : p.retained? s = some e) :
    s.matchesTopic p.topic = true ∧ p.opts.contains "exclude" = false ∧ p.opts.contains "eligible" = false ∧
    e.pub = pubBase + p.r.pubCount ∧ e.args = p.args ∧ e.kw = p.kw ∧ e.time = p.r.now ∧ e.sub = s.id ∧
    (e.details.get? "topic" = some (.str p.topic) ↔ s.isPattern = true) ∧
    (s.isPattern = false → e.details.get? "topic" = none) := by
  unfold PubRec.retained? at he
  split at he
  · rename_i hc
    simp only [Option.some.injEq] at he
    subst he
    simp only [Bool.and_eq_true, Bool.not_eq_true'] at hc
    have hbase : p.pub.baseDetails.get? "topic" = none :=
      realm_base_ok p.opts (pptScheme p.opts != "") "topic" (Or.inl rfl)
    obtain ⟨_, _, _, _, _, h6⟩ := C20_entry_content s p.r.now p.pub
    exact ⟨hc.1.1, hc.1.2, hc.2, rfl, rfl, rfl, rfl, rfl, (h6 hbase).1, (h6 hbase).2⟩
  · cases he

/-- the ids of the accepted publications of a history are strictly increasing -/
theorem C20_hist_ids_increasing {cfg : Config} {r0 : Realm} (h0 : Realm.create cfg = some r0) (ops : List Op) :
    ((acceptedPubs (traceHist r0 ops)).map (fun p => pubBase + p.r.pubCount)).Pairwise (· < ·) := by
  obtain ⟨_, ht, hp⟩ := C20_hist_ghost_trace h0 ops
  have h1 := (WpA.Trace.ids ht).1
  have e : (bstepsOf (traceHist r0 ops)).filterMap WpA.stepPubId =
      ((bstepsOf (traceHist r0 ops)).filter BStep.isPublish).filterMap WpA.stepPubId := by
    generalize bstepsOf (traceHist r0 ops) = l
    induction l with
    | nil => rfl
    | cons a l ih =>
      cases a <;> simp [List.filter_cons, List.filterMap_cons, BStep.isPublish, WpA.stepPubId, ← ih]
  rw [e, hp, List.filterMap_map] at h1
  have e2 : (acceptedPubs (traceHist r0 ops)).filterMap (WpA.stepPubId ∘ PubRec.step) =
      (acceptedPubs (traceHist r0 ops)).map (fun p => pubBase + p.r.pubCount) := by
    generalize acceptedPubs (traceHist r0 ops) = l
    induction l with
    | nil => rfl
    | cons a l ih => simp [WpA.stepPubId, PubRec.step, PubRec.pubId, ih]
  rw [e2] at h1
  exact h1

/-! ### non-vacuity -/

/-- the hypotheses on the configuration, the subscription id and the keyword arguments are met: `exRCfg` has the single
    history entry ("a.", prefix, 2) (`exR0_create : Realm.create exRCfg = some exR0`); the id 1 and `limit: 2` parse -/
example : exRCfg.history = [] ++ ("a.", "prefix", 2) :: [] ∧
    (∀ c ∈ ([] : List (String × String × Nat)), ¬(c.1 = "a." ∧ matchKind c.2.1 = matchKind "prefix")) ∧
    (WVal.int 1).asID = some 1 ∧ histQuery? [("limit", .int 2)] = some { limit := 2 } :=
  ⟨rfl, fun _ hc => (nomatch hc), rfl, rfl⟩

/-- session 1 joins and publishes: "a.b"; "a.c" restricted by `exclude`; "x" (no store matches); "a..b" (invalid URI:
    refused, no publication); "a.d" -/
def exHOps : List Op :=
  [ .join 1 false [] [] 8,
    .msg 1 (.publish 1 [] "a.b" [.int 1] []),
    .msg 1 (.publish 2 [("exclude", .list [])] "a.c" [.int 2] []),
    .msg 1 (.publish 3 [] "x" [.int 3] []),
    .msg 1 (.publish 4 [] "a..b" [.int 4] []),
    .msg 1 (.publish 5 [] "a.d" [.int 5] []) ]

set_option maxRecDepth 100000 in
/-- in the realm configured with `("a.", prefix, 2)` (`exRCfg`, `exR0_create`): the accepted publications of this
    history are the `on_join` meta event of the meta session (key 0) and four of the five PUBLISHes of session 1, with
    the publication counters 0 … 4; the store of subscription 1 ("a.", prefix) must hold those to "a.b" and "a.d" —
    the one to "a.c" carried `exclude` — and does. -/
example :
    (acceptedPubs (traceHist exR0 exHOps)).map (fun p => (p.s.key, p.topic, p.r.pubCount)) =
      [(0, "wamp.session.on_join", 0), (1, "a.b", 1), (1, "a.c", 2), (1, "x", 3), (1, "a.d", 4)] ∧
    ((acceptedPubs (traceHist exR0 exHOps)).filterMap
        (PubRec.retained? { id := 1, topic := "a.", «match» := "prefix", members := [] })).map
      (fun e => (e.pub, e.args.map WVal.asID)) = [(pubBase + 1, [some 1]), (pubBase + 4, [some 5])] ∧
    (runOps exR0 exHOps).broker.hist.map (fun st => (st.sub, st.entries.map (fun e => (e.pub, e.args.map WVal.asID)))) =
      [(1, [(pubBase + 1, [some 1]), (pubBase + 4, [some 5])])] := by
  decide +kernel

end Nexus.C20
