/-
C08 — "Per-peer ordering guarantees hold under concurrency" (concurrency-skeleton half)

  Events published by one session to one topic reach each subscriber, per subscription, in
  publication order; calls by one caller routed to the same callee arrive there in call order; for
  each call, progressive results reach the caller in yield order and before the final reply. A
  session sees SUBSCRIBED before the first EVENT and no EVENT after UNSUBSCRIBED for that
  subscription, and REGISTERED before the first INVOCATION and no new INVOCATION after UNREGISTERED
  for that registration - regardless of what any other sessions do at the same time.

The argument has three links; the L2 model proves the order in which the broker and the dealer
*produce* messages (as atomic actions in the order they take them), this file the two links that
turn a concurrent execution into such a sequence and keep the order on the way to the client:

  1. one submitter per session, one worker per table ... handlers_spawn_nothing, single_workers,
                                                          handler_posts_are_plain_sends
  2. each ordered message kind has one emitting role ..... emitters, emitters_complete
  3. a queue fed by non-blocking sends keeps order ....... fifo_lossy, fifo_per_kind, delivered_pair_order
                                                          (generic, Nexus/L3/Fifo)
  composed (audit B: C08 A1/D1) ......................... pipeline_program_order, pipeline_delivery,
                                                          broker_pipeline, dealer_pipeline, pipeline_pair_order
                                                          (generic, Nexus/L3/WpL3Pipeline: sessions → one worker →
                                                           per-recipient lossy queues, for every schedule)

What this gives. All SUBSCRIBED, UNSUBSCRIBED and EVENT messages are put into a client's queue by the
broker goroutine, all REGISTERED, UNREGISTERED, INVOCATION, INTERRUPT, RESULT and CALL-ERROR messages by
the dealer goroutine; each of those goroutines runs one action at a time, and a session's handler posts
that session's requests one after the other (each post is a rendezvous with the worker). So the order in
which a client *receives* any two messages of the broker group (or of the dealer group) is the order in
which the broker (dealer) produced them, and that is the order of the atomic actions of the L2 model.
What it does not give (the exceptions `emitters` lists): PUBLISHED, the ERRORs for an invalid URI /
option / cancel mode and the authorization ERRORs are sent by the session's own handler, GOODBYE/ABORT/
WELCOME by the handler as well. Their position relative to broker and dealer messages for the same
client is not fixed: PUBLISHED may arrive before or after the EVENT of the same publication (for a
publisher subscribed to its own topic), an `invalid_uri` ERROR for request n+1 may overtake the
SUBSCRIBED for request n. The property's sentences do not order these pairs. Messages dropped because
the receiver's queue was full are simply missing from the received sequence (lossy subsequence).
-/
import Nexus.L3.Wait
import Nexus.L3.Fifo
import Nexus.L3.WpL3Pipeline
import Nexus.L3.WpL3Wait

namespace Nexus.C08
open Nexus.Gen.Sites Nexus.L3

/-- Roles that put a message of the given kind into a *client's* queue (table (f), with the record
    of the `sendAbort` closure's second goroutine context, Nexus/L3/WpL3Wait.lean). -/
def emitterRoles (msgType errType : Nat) : List Role :=
  (WpL3.allMsgSends.filter fun m => !m.toMeta && Nat.beq m.msgType msgType && Nat.beq m.errType errType).flatMap
    (fun m => siteRoles m.fn m.gctx m.garg) |>.eraseDups

def sameSet (a b : List Role) : Bool := subsetR a b && subsetR b a

/-- Message kind (type, Type field of an ERROR or 0) → roles that send it to clients. -/
def expectedEmitters : List (Nat × Nat × List Role) := [
  -- the broker group
  (key! "Subscribed", key! "", [.B]),
  (key! "Unsubscribed", key! "", [.B]),
  (key! "Event", key! "", [.B]),
  (key! "Error", key! "UNSUBSCRIBE", [.B]),
  -- the dealer group
  (key! "Registered", key! "", [.D]),
  (key! "Unregistered", key! "", [.D]),
  (key! "Invocation", key! "", [.D]),
  (key! "Interrupt", key! "", [.D]),
  (key! "Result", key! "", [.D]),
  (key! "Error", key! "CALL", [.D]),
  (key! "Error", key! "UNREGISTER", [.D]),
  (key! "Error", key! "YIELD", [.D]),
  -- exceptions: sent by the session's own handler (H; HM is the same code for the meta session)
  (key! "Published", key! "", [.H, .HM]),
  (key! "Error", key! "PUBLISH", [.H, .HM]),       -- invalid topic URI, disclose_me disallowed
  (key! "Error", key! "SUBSCRIBE", [.H, .HM]),     -- invalid topic URI
  (key! "Error", key! "CANCEL", [.H, .HM]),        -- invalid cancel mode
  (key! "Error", key! "dynamic", [.H, .HM]),       -- authorization refused (Type = that of the request)
  (key! "Error", key! "REGISTER", [.H, .HM, .D]),  -- invalid/restricted URI, disclose: H; already exists: D
  (key! "Goodbye", key! "", [.H, .HM]),
  (key! "Welcome", key! "", [.H]),
  (key! "Abort", key! "", [.H, .HM, .D, .A1, .Rtr]), -- protocol violation: H (publish), D (call/yield); refusal: A1, and
                                                      -- Rtr (sendAbort called inside the action posted to the router)
  (key! "Challenge", key! "", [.A1]),
  -- the bodies of trySend (whatever they are handed)
  (key! "Message", key! "", [.H, .HM, .B, .D])]

/-- **Emitters.** SUBSCRIBED, UNSUBSCRIBED, EVENT (and the UNSUBSCRIBE error) are emitted only from
    broker action functions; REGISTERED, UNREGISTERED, INVOCATION, INTERRUPT, RESULT and ERRORs of
    type CALL (and UNREGISTER, YIELD) only from dealer action functions; the exceptions are exactly
    the ones listed. -/
theorem emitters : ∀ e ∈ expectedEmitters, sameSet (emitterRoles e.1 e.2.1) e.2.2 = true := by
  have h : expectedEmitters.all (fun e => sameSet (emitterRoles e.1 e.2.1) e.2.2) = true := by
    decide +kernel
  exact forall_of_all h

/-- No message kind sent to clients is missing from `expectedEmitters`. -/
theorem emitters_complete :
    ∀ m ∈ WpL3.allMsgSends, m.toMeta = false →
      (expectedEmitters.any fun e => Nat.beq e.1 m.msgType && Nat.beq e.2.1 m.errType) = true := by
  have h : WpL3.allMsgSends.all (fun m => m.toMeta ||
      expectedEmitters.any fun e => Nat.beq e.1 m.msgType && Nat.beq e.2.1 m.errType) = true := by
    decide +kernel
  intro m hm h1
  have := forall_of_all h m hm
  simpa [h1] using this

/-- The ordered kinds in the form of the property: a single emitting role each. -/
theorem ordered_kinds_single_emitter :
    emitterRoles (key! "Subscribed") (key! "") = [.B] ∧
    emitterRoles (key! "Unsubscribed") (key! "") = [.B] ∧
    emitterRoles (key! "Event") (key! "") = [.B] ∧
    emitterRoles (key! "Registered") (key! "") = [.D] ∧
    emitterRoles (key! "Unregistered") (key! "") = [.D] ∧
    emitterRoles (key! "Invocation") (key! "") = [.D] ∧
    emitterRoles (key! "Interrupt") (key! "") = [.D] ∧
    emitterRoles (key! "Result") (key! "") = [.D] ∧
    emitterRoles (key! "Error") (key! "CALL") = [.D] := by
  decide +kernel

/-- Each table has one worker: `broker.run`, `dealer.run`, `realm.run`, `router.run` and the
    meta-procedure handler are started by exactly one `go` statement each, in the constructor. -/
theorem single_workers :
    (goSites.filter fun g => memN g.callee
        [key! "router.broker.run", key! "router.dealer.run", key! "router.realm.run",
         key! "router.router.run", key! "router.realm.metaProcedureHandler"]).map (·.key) =
      [key! "router.NewRouter|go#2", key! "router.newBroker|go#1", key! "router.newDealer|go#1",
       key! "router.newRealm|go#1", key! "router.newRealm|go#2"] := by decide +kernel

/-- A session handler is one goroutine: no function it runs contains a `go` statement, so a
    session's requests are submitted to broker and dealer one after the other in the order the
    client sent them. (The only `go` statement reachable from routing code starts a call timer, in
    the dealer.) -/
theorem handlers_spawn_nothing :
    ∀ g ∈ goSites, ((siteRoles g.fn g.gctx g.garg).contains .H ||
        (siteRoles g.fn g.gctx g.garg).contains .HM) = false := by
  have h : goSites.all (fun g => !((siteRoles g.fn g.gctx g.garg).contains .H ||
      (siteRoles g.fn g.gctx g.garg).contains .HM)) = true := by decide +kernel
  intro g hg
  simpa using forall_of_all h g hg

/-- The handler's posts to broker and dealer are plain sends on the action channel (no select, no
    default): the handler does not proceed to its next message before the worker has taken this one,
    and nothing is dropped on the way in. -/
theorem handler_posts_are_plain_sends :
    ∀ o ∈ chanOps, o.op = .send → o.cls = .action →
      ((siteRoles o.fn o.gctx o.garg).contains .H = true) → o.sel = .plain := by
  have h : chanOps.all (fun o => !(decide (o.op = .send) && decide (o.cls = .action) &&
      (siteRoles o.fn o.gctx o.garg).contains .H) || decide (o.sel = .plain)) = true := by
    decide +kernel
  intro o ho h1 h2 h3
  have := forall_of_all h o ho
  simp only [h1, h2, h3, decide_true, Bool.and_self, Bool.not_true, Bool.false_or,
    decide_eq_true_eq] at this
  exact this

/-! ### The queue -/

/-- Messages enqueued by one goroutine into one FIFO channel with non-blocking sends arrive as a
    subsequence, in order. -/
theorem fifo_lossy {μ : Type} (cap : Nat) (evs : List (Fifo.Ev μ)) :
    ((Fifo.run cap Fifo.empty evs).delivered ++ (Fifo.run cap Fifo.empty evs).queue).Sublist
      (Fifo.offered evs) := Fifo.fifo_lossy cap evs

/-- Per kind (sender role, message type, subscription, call …): the delivered messages of a kind
    are a subsequence of the offered messages of that kind, whatever else is interleaved. With
    `ordered_kinds_single_emitter` the offered messages of a kind are one goroutine's program order. -/
theorem fifo_per_kind {μ : Type} (cap : Nat) (evs : List (Fifo.Ev μ)) (p : μ → Bool) :
    ((Fifo.run cap Fifo.empty evs).delivered.filter p).Sublist ((Fifo.offered evs).filter p) :=
  Fifo.fifo_lossy_filter cap evs p

/-- If `x` is delivered before `y` then `x` was offered before `y` (SUBSCRIBED before EVENT, progress
    before final result, …). -/
theorem delivered_pair_order {μ : Type} (cap : Nat) (evs : List (Fifo.Ev μ)) {a b c : List μ}
    {x y : μ} (e : (Fifo.run cap Fifo.empty evs).delivered = a ++ x :: b ++ y :: c) :
    [x, y].Sublist (Fifo.offered evs) := Fifo.delivered_order cap evs e

/-- Non-vacuity: a concrete schedule in which the queue (capacity 2) overflows; the third message
    is lost, the others arrive in order. -/
example : (Fifo.run 2 Fifo.empty [.offer 1, .offer 2, .offer 3, .take, .offer 4, .take, .take]).delivered
    = [1, 2, 4] := by decide

/-! ### The three links composed

`Nexus/L3/WpL3Pipeline.lean` is a transition system for the whole path: sessions holding their
requests in program order, rendezvous hand-offs to one worker that runs one action at a time on its own
state (`act`: for the broker and the dealer, the L2 step function), non-blocking offers to one lossy
queue per recipient, other goroutines offering into the same queues, recipients taking — under an
arbitrary schedule. The table facts above are what makes the router an instance:

  model ingredient                                      table fact
  a session's requests are handed over one by one,      handlers_spawn_nothing, handler_posts_are_plain_sends
    in program order, each by a rendezvous
  one worker per table, one action at a time            single_workers
  offers are non-blocking                               C07.trySend_nonblocking (+ `Message` bodies of trySend)
  the other goroutines offer no message of the          emitters / ordered_kinds_single_emitter: the ordered kinds
    worker's ordered kinds                                have the worker as their only emitting role

The last one is used formally: a foreign offer must be attributed to a role that table (f) lists as
an emitter of that message kind (`Admissible`). -/

section Pipeline
open Nexus.L3.WpL3.Pipeline

/-- A message as the site tables see it: type, Type field of an ERROR (or `key! ""`), and the rest. -/
structure KMsg (π : Type) where
  msgType : Nat
  errType : Nat
  payload : π
  deriving DecidableEq

def isKind {π : Type} (kinds : List (Nat × Nat)) (m : KMsg π) : Bool :=
  kinds.any fun q => Nat.beq q.1 m.msgType && Nat.beq q.2 m.errType

/-- The ordered kinds of the broker group and of the dealer group. -/
def brokerKinds : List (Nat × Nat) :=
  [(key! "Subscribed", key! ""), (key! "Unsubscribed", key! ""), (key! "Event", key! ""),
   (key! "Error", key! "UNSUBSCRIBE")]

def dealerKinds : List (Nat × Nat) :=
  [(key! "Registered", key! ""), (key! "Unregistered", key! ""), (key! "Invocation", key! ""),
   (key! "Interrupt", key! ""), (key! "Result", key! ""), (key! "Error", key! "CALL"),
   (key! "Error", key! "UNREGISTER"), (key! "Error", key! "YIELD")]

/-- Table fact: each of these kinds is put into client queues by one role only. -/
theorem kinds_owned :
    (∀ q ∈ brokerKinds, emitterRoles q.1 q.2 = [.B]) ∧ (∀ q ∈ dealerKinds, emitterRoles q.1 q.2 = [.D]) := by
  have h1 : brokerKinds.all (fun q => decide (emitterRoles q.1 q.2 = [.B])) = true := by decide +kernel
  have h2 : dealerKinds.all (fun q => decide (emitterRoles q.1 q.2 = [.D])) = true := by decide +kernel
  exact ⟨fun q hq => of_decide_eq_true (forall_of_all h1 q hq),
         fun q hq => of_decide_eq_true (forall_of_all h2 q hq)⟩

variable {σ Sess Req Rcpt π : Type} [DecidableEq Sess] [DecidableEq Rcpt]

/-- A schedule is admissible for worker `w` if every offer by another goroutine is attributed to a
    role other than `w` that the site table (f) lists as an emitter of that message kind. -/
def Admissible (w : Role) (evs : List (Ev Sess Rcpt (KMsg π))) : Prop :=
  ∀ e ∈ evs, ∀ k m, e = .other k m → ∃ r, r ≠ w ∧ r ∈ emitterRoles m.msgType m.errType

omit [DecidableEq Sess] [DecidableEq Rcpt] in
theorem foreign_of_admissible (w : Role) (kinds : List (Nat × Nat))
    (hown : ∀ q ∈ kinds, emitterRoles q.1 q.2 = [w]) (evs : List (Ev Sess Rcpt (KMsg π)))
    (hadm : Admissible w evs) : Foreign (isKind kinds) evs := by
  intro e he k m hem
  obtain ⟨r, hrw, hr⟩ := hadm e he k m hem
  cases hk : isKind kinds m with
  | false => rfl
  | true =>
    obtain ⟨q, hq, hqm⟩ := List.any_eq_true.mp hk
    simp only [Bool.and_eq_true] at hqm
    have e1 := Nat.eq_of_beq_eq_true hqm.1
    have e2 := Nat.eq_of_beq_eq_true hqm.2
    have := hown q hq
    rw [e1, e2] at this
    rw [this] at hr
    exact absurd (List.mem_singleton.mp hr) hrw

/-- **Program order.** Under every schedule the worker takes each session's requests in that
    session's program order, whatever the other sessions do. -/
theorem pipeline_program_order (S : Sys σ Sess Req Rcpt (KMsg π)) (evs : List (Ev Sess Rcpt (KMsg π)))
    (s : Sess) :
    (((run S (start S) evs).log.filter fun a => decide (a.1 = s)).map (·.2)) <+: S.progs s :=
  worker_order_prefix S evs s

/-- **Delivery.** Under every admissible schedule, what a recipient has received of the worker's
    ordered kinds is a subsequence, in order, of what the worker's atomic actions — in the order the
    worker took them — emitted for that recipient. -/
theorem pipeline_delivery (w : Role) (kinds : List (Nat × Nat))
    (hown : ∀ q ∈ kinds, emitterRoles q.1 q.2 = [w])
    (S : Sys σ Sess Req Rcpt (KMsg π)) (evs : List (Ev Sess Rcpt (KMsg π))) (hadm : Admissible w evs)
    (k : Rcpt) :
    (((run S (start S) evs).fifo k).delivered.filter (isKind kinds)).Sublist
      ((emissionsFor S (run S (start S) evs).log k).filter (isKind kinds)) :=
  delivered_sublist_of_emissions S (isKind kinds) evs (foreign_of_admissible w kinds hown evs hadm) k

/-- The broker: SUBSCRIBED, UNSUBSCRIBED, EVENT (and the UNSUBSCRIBE error) reach each client as a
    subsequence of the broker's output in the order of its atomic actions (the L2 order). -/
theorem broker_pipeline (S : Sys σ Sess Req Rcpt (KMsg π)) (evs : List (Ev Sess Rcpt (KMsg π)))
    (hadm : Admissible .B evs) (k : Rcpt) :
    (((run S (start S) evs).fifo k).delivered.filter (isKind brokerKinds)).Sublist
      ((emissionsFor S (run S (start S) evs).log k).filter (isKind brokerKinds)) :=
  pipeline_delivery .B brokerKinds kinds_owned.1 S evs hadm k

/-- The dealer: REGISTERED, UNREGISTERED, INVOCATION, INTERRUPT, RESULT and the CALL / UNREGISTER /
    YIELD errors reach each client as a subsequence of the dealer's output in action order. -/
theorem dealer_pipeline (S : Sys σ Sess Req Rcpt (KMsg π)) (evs : List (Ev Sess Rcpt (KMsg π)))
    (hadm : Admissible .D evs) (k : Rcpt) :
    (((run S (start S) evs).fifo k).delivered.filter (isKind dealerKinds)).Sublist
      ((emissionsFor S (run S (start S) evs).log k).filter (isKind dealerKinds)) :=
  pipeline_delivery .D dealerKinds kinds_owned.2 S evs hadm k

/-- Two received messages of the worker's kinds were produced in that order. -/
theorem pipeline_pair_order (w : Role) (kinds : List (Nat × Nat))
    (hown : ∀ q ∈ kinds, emitterRoles q.1 q.2 = [w])
    (S : Sys σ Sess Req Rcpt (KMsg π)) (evs : List (Ev Sess Rcpt (KMsg π))) (hadm : Admissible w evs)
    (k : Rcpt) {a b c : List (KMsg π)} {x y : KMsg π}
    (e : ((run S (start S) evs).fifo k).delivered.filter (isKind kinds) = a ++ x :: b ++ y :: c) :
    [x, y].Sublist ((emissionsFor S (run S (start S) evs).log k).filter (isKind kinds)) :=
  delivered_pair_in_action_order S (isKind kinds) evs (foreign_of_admissible w kinds hown evs hadm) k e

end Pipeline

/-! Non-vacuity: a concrete broker-like system. Sessions 0 and 1 publish (requests are numbers), every
    action emits an EVENT carrying the request to recipient 7 and the running count to recipient 8;
    queues hold one message. In the schedule below session 1's hand-off is taken between session 0's
    two, a PUBLISHED from a session handler (role H, an admissible foreign offer) is interleaved, and
    recipient 7 loses the second EVENT because it has not taken the first one yet. -/
section Example
open Nexus.L3.WpL3.Pipeline

def exSys : Sys Nat Nat Nat Nat (KMsg Nat) where
  progs := fun s => if s = 0 then [10, 11] else if s = 1 then [20] else []
  act := fun n _ r => (n + 1, [(7, ⟨key! "Event", key! "", r⟩), (8, ⟨key! "Event", key! "", n⟩)])
  init := 0
  cap := fun _ => 1

def exSched : List (Ev Nat Nat (KMsg Nat)) :=
  [.handoff 0, .emit, .emit, .handoff 1, .other 7 ⟨key! "Published", key! "", 0⟩, .emit, .take 7, .emit,
   .handoff 0, .emit, .take 7, .take 8, .emit, .take 8]

example : ((run exSys (start exSys) exSched).log = [(0, 10), (1, 20), (0, 11)]) ∧
    (((run exSys (start exSys) exSched).fifo 7).delivered.map (·.payload) = [10, 11]) ∧
    ((emissionsFor exSys (run exSys (start exSys) exSched).log 7).map (·.payload) = [10, 20, 11]) ∧
    (((run exSys (start exSys) exSched).fifo 8).delivered.map (·.payload) = [0, 2]) := by
  decide

/-- Hypothesis of `pipeline_pair_order` in that run: recipient 7 received EVENT 10 before EVENT 11. -/
example : ((run exSys (start exSys) exSched).fifo 7).delivered.filter (isKind brokerKinds) =
    [] ++ (⟨key! "Event", key! "", 10⟩ : KMsg Nat) :: [] ++ ⟨key! "Event", key! "", 11⟩ :: [] := by decide

example : Admissible (Sess := Nat) (Rcpt := Nat) (π := Nat) .B exSched := by
  intro e he k m hem
  have hm : m.msgType = key! "Published" ∧ m.errType = key! "" := by
    simp only [exSched, List.mem_cons, List.mem_nil_iff, or_false] at he
    rcases he with h | h | h | h | h | h | h | h | h | h | h | h | h | h <;> subst h <;>
      (try cases hem) <;> exact ⟨rfl, rfl⟩
  refine ⟨.H, by decide, ?_⟩
  rw [hm.1, hm.2]
  decide +kernel

end Example

end Nexus.C08
