/-
C08 — "Per-peer ordering guarantees hold under concurrency" (concurrency-skeleton half)

  Events published by one session to one topic reach each subscriber, per subscription, in
  publication order; calls by one caller routed to the same callee arrive there in call order; for
  each call, progressive results reach the caller in yield order and before the final reply. A
  session sees SUBSCRIBED before the first EVENT and no EVENT after UNSUBSCRIBED for that
  subscription, and REGISTERED before the first INVOCATION and no new INVOCATION after UNREGISTERED
  for that registration - regardless of what any other sessions do at the same time.

The argument has three links; the L2 model proves the order in which the broker and the dealer
*produce* messages (as atomic actions in the order they take them), this file the two links that
turn a concurrent execution into such a sequence and keep the order on the way to the client:

  1. one submitter per session, one worker per table ... handlers_spawn_nothing, single_workers,
                                                          handler_posts_are_plain_sends
  2. each ordered message kind has one emitting role ..... emitters, emitters_complete
  3. a queue fed by non-blocking sends keeps order ....... fifo_lossy, fifo_per_kind, delivered_pair_order
                                                          (generic, Nexus/L3/Fifo)

What this gives. All SUBSCRIBED, UNSUBSCRIBED and EVENT messages are put into a client's queue by the
broker goroutine, all REGISTERED, UNREGISTERED, INVOCATION, INTERRUPT, RESULT and CALL-ERROR messages by
the dealer goroutine; each of those goroutines runs one action at a time, and a session's handler posts
that session's requests one after the other (each post is a rendezvous with the worker). So the order in
which a client *receives* any two messages of the broker group (or of the dealer group) is the order in
which the broker (dealer) produced them, and that is the order of the atomic actions of the L2 model.
What it does not give (the exceptions `emitters` lists): PUBLISHED, the ERRORs for an invalid URI /
option / cancel mode and the authorization ERRORs are sent by the session's own handler, GOODBYE/ABORT/
WELCOME by the handler as well. Their position relative to broker and dealer messages for the same
client is not fixed: PUBLISHED may arrive before or after the EVENT of the same publication (for a
publisher subscribed to its own topic), an `invalid_uri` ERROR for request n+1 may overtake the
SUBSCRIBED for request n. The property's sentences do not order these pairs. Messages dropped because
the receiver's queue was full are simply missing from the received sequence (lossy subsequence).
-/
import Nexus.L3.Wait
import Nexus.L3.Fifo

namespace Nexus.C08
open Nexus.Gen.Sites Nexus.L3

/-- Roles that put a message of the given kind into a *client's* queue. -/
def emitterRoles (msgType errType : Nat) : List Role :=
  (msgSends.filter fun m => !m.toMeta && Nat.beq m.msgType msgType && Nat.beq m.errType errType).flatMap
    (fun m => siteRoles m.fn m.gctx m.garg) |>.eraseDups

def sameSet (a b : List Role) : Bool := subsetR a b && subsetR b a

/-- Message kind (type, Type field of an ERROR or 0) → roles that send it to clients. -/
def expectedEmitters : List (Nat × Nat × List Role) := [
  -- the broker group
  (key! "Subscribed", key! "", [.B]),
  (key! "Unsubscribed", key! "", [.B]),
  (key! "Event", key! "", [.B]),
  (key! "Error", key! "UNSUBSCRIBE", [.B]),
  -- the dealer group
  (key! "Registered", key! "", [.D]),
  (key! "Unregistered", key! "", [.D]),
  (key! "Invocation", key! "", [.D]),
  (key! "Interrupt", key! "", [.D]),
  (key! "Result", key! "", [.D]),
  (key! "Error", key! "CALL", [.D]),
  (key! "Error", key! "UNREGISTER", [.D]),
  (key! "Error", key! "YIELD", [.D]),
  -- exceptions: sent by the session's own handler (H; HM is the same code for the meta session)
  (key! "Published", key! "", [.H, .HM]),
  (key! "Error", key! "PUBLISH", [.H, .HM]),       -- invalid topic URI, disclose_me disallowed
  (key! "Error", key! "SUBSCRIBE", [.H, .HM]),     -- invalid topic URI
  (key! "Error", key! "CANCEL", [.H, .HM]),        -- invalid cancel mode
  (key! "Error", key! "dynamic", [.H, .HM]),       -- authorization refused (Type = that of the request)
  (key! "Error", key! "REGISTER", [.H, .HM, .D]),  -- invalid/restricted URI, disclose: H; already exists: D
  (key! "Goodbye", key! "", [.H, .HM]),
  (key! "Welcome", key! "", [.H]),
  (key! "Abort", key! "", [.H, .HM, .D, .A1]),     -- protocol violation: H (publish), D (call/yield); refusal: A1
  (key! "Challenge", key! "", [.A1]),
  -- the bodies of trySend (whatever they are handed)
  (key! "Message", key! "", [.H, .HM, .B, .D])]

/-- **Emitters.** SUBSCRIBED, UNSUBSCRIBED, EVENT (and the UNSUBSCRIBE error) are emitted only from
    broker action functions; REGISTERED, UNREGISTERED, INVOCATION, INTERRUPT, RESULT and ERRORs of
    type CALL (and UNREGISTER, YIELD) only from dealer action functions; the exceptions are exactly
    the ones listed. -/
theorem emitters : ∀ e ∈ expectedEmitters, sameSet (emitterRoles e.1 e.2.1) e.2.2 = true := by
  have h : expectedEmitters.all (fun e => sameSet (emitterRoles e.1 e.2.1) e.2.2) = true := by
    decide +kernel
  exact forall_of_all h

/-- No message kind sent to clients is missing from `expectedEmitters`. -/
theorem emitters_complete :
    ∀ m ∈ msgSends, m.toMeta = false →
      (expectedEmitters.any fun e => Nat.beq e.1 m.msgType && Nat.beq e.2.1 m.errType) = true := by
  have h : msgSends.all (fun m => m.toMeta ||
      expectedEmitters.any fun e => Nat.beq e.1 m.msgType && Nat.beq e.2.1 m.errType) = true := by
    decide +kernel
  intro m hm h1
  have := forall_of_all h m hm
  simpa [h1] using this

/-- The ordered kinds in the form of the property: a single emitting role each. -/
theorem ordered_kinds_single_emitter :
    emitterRoles (key! "Subscribed") (key! "") = [.B] ∧
    emitterRoles (key! "Unsubscribed") (key! "") = [.B] ∧
    emitterRoles (key! "Event") (key! "") = [.B] ∧
    emitterRoles (key! "Registered") (key! "") = [.D] ∧
    emitterRoles (key! "Unregistered") (key! "") = [.D] ∧
    emitterRoles (key! "Invocation") (key! "") = [.D] ∧
    emitterRoles (key! "Interrupt") (key! "") = [.D] ∧
    emitterRoles (key! "Result") (key! "") = [.D] ∧
    emitterRoles (key! "Error") (key! "CALL") = [.D] := by
  decide +kernel

/-- Each table has one worker: `broker.run`, `dealer.run`, `realm.run`, `router.run` and the
    meta-procedure handler are started by exactly one `go` statement each, in the constructor. -/
theorem single_workers :
    (goSites.filter fun g => memN g.callee
        [key! "router.broker.run", key! "router.dealer.run", key! "router.realm.run",
         key! "router.router.run", key! "router.realm.metaProcedureHandler"]).map (·.key) =
      [key! "router.NewRouter|go#2", key! "router.newBroker|go#1", key! "router.newDealer|go#1",
       key! "router.newRealm|go#1", key! "router.newRealm|go#2"] := by decide +kernel

/-- A session handler is one goroutine: no function it runs contains a `go` statement, so a
    session's requests are submitted to broker and dealer one after the other in the order the
    client sent them. (The only `go` statement reachable from routing code starts a call timer, in
    the dealer.) -/
theorem handlers_spawn_nothing :
    ∀ g ∈ goSites, ((siteRoles g.fn g.gctx g.garg).contains .H ||
        (siteRoles g.fn g.gctx g.garg).contains .HM) = false := by
  have h : goSites.all (fun g => !((siteRoles g.fn g.gctx g.garg).contains .H ||
      (siteRoles g.fn g.gctx g.garg).contains .HM)) = true := by decide +kernel
  intro g hg
  simpa using forall_of_all h g hg

/-- The handler's posts to broker and dealer are plain sends on the action channel (no select, no
    default): the handler does not proceed to its next message before the worker has taken this one,
    and nothing is dropped on the way in. -/
theorem handler_posts_are_plain_sends :
    ∀ o ∈ chanOps, o.op = .send → o.cls = .action →
      ((siteRoles o.fn o.gctx o.garg).contains .H = true) → o.sel = .plain := by
  have h : chanOps.all (fun o => !(decide (o.op = .send) && decide (o.cls = .action) &&
      (siteRoles o.fn o.gctx o.garg).contains .H) || decide (o.sel = .plain)) = true := by
    decide +kernel
  intro o ho h1 h2 h3
  have := forall_of_all h o ho
  simp only [h1, h2, h3, decide_true, Bool.and_self, Bool.not_true, Bool.false_or,
    decide_eq_true_eq] at this
  exact this

/-! ### The queue -/

/-- Messages enqueued by one goroutine into one FIFO channel with non-blocking sends arrive as a
    subsequence, in order. -/
theorem fifo_lossy {μ : Type} (cap : Nat) (evs : List (Fifo.Ev μ)) :
    ((Fifo.run cap Fifo.empty evs).delivered ++ (Fifo.run cap Fifo.empty evs).queue).Sublist
      (Fifo.offered evs) := Fifo.fifo_lossy cap evs

/-- Per kind (sender role, message type, subscription, call …): the delivered messages of a kind
    are a subsequence of the offered messages of that kind, whatever else is interleaved. With
    `ordered_kinds_single_emitter` the offered messages of a kind are one goroutine's program order. -/
theorem fifo_per_kind {μ : Type} (cap : Nat) (evs : List (Fifo.Ev μ)) (p : μ → Bool) :
    ((Fifo.run cap Fifo.empty evs).delivered.filter p).Sublist ((Fifo.offered evs).filter p) :=
  Fifo.fifo_lossy_filter cap evs p

/-- If `x` is delivered before `y` then `x` was offered before `y` (SUBSCRIBED before EVENT, progress
    before final result, …). -/
theorem delivered_pair_order {μ : Type} (cap : Nat) (evs : List (Fifo.Ev μ)) {a b c : List μ}
    {x y : μ} (e : (Fifo.run cap Fifo.empty evs).delivered = a ++ x :: b ++ y :: c) :
    [x, y].Sublist (Fifo.offered evs) := Fifo.delivered_order cap evs e

/-- Non-vacuity: a concrete schedule in which the queue (capacity 2) overflows; the third message
    is lost, the others arrive in order. -/
example : (Fifo.run 2 Fifo.empty [.offer 1, .offer 2, .offer 3, .take, .offer 4, .take, .take]).delivered
    = [1, 2, 4] := by decide

end Nexus.C08
