/-
  C10 — A message is acted upon iff the Authorizer allowed it.

  Property text.  "With an Authorizer configured on a realm, each message from a session (other
  than the realm's internal meta session, and local sessions unless local authorization is
  required) is acted upon iff the Authorizer returned true for it, in the form the Authorizer left
  it.  A refused request changes no router state, causes no event, invocation or meta event, and
  is answered with exactly one ERROR of the request's type and id - wamp.error.not_authorized, or
  wamp.error.authorization_failed when the Authorizer itself failed - except an unacknowledged
  PUBLISH, which is dropped silently; allowed messages behave exactly as without an Authorizer."

  The theorems are about `Realm.handleMsg` (router/realm.go `handleInboundMessages` +
  `authzMessage`), for EVERY realm state `r`, session `s` and message `m`.  The Authorizer of the
  model is the rule table `cfg.authz` evaluated by `authzDecision` ("allow" | "deny" | "fail";
  the correspondence harness gives the real router an Authorizer reading the same table).  All
  theorems are first proved for an ARBITRARY decision function `dec : SessKey → Msg → String`
  (`Realm.gateG`, `Realm.handleMsgG`); the model's gate is the instance `dec := authzDecision rules`
  (`C10_gate_instance`).

  Vocabulary (Nexus/L2/Proofs/RealmAuthz.lean):
    `dispatch r s m`     the message switch behind the gate (what is done when a message is acted upon);
    `exempt la s`        s is the meta session, or s is local and local authorization is not required;
    `denialReply dec m`  none for a PUBLISH without acknowledge=true, else
                         ERROR(type of m, request id of m or 0, not_authorized | authorization_failed if dec = "fail");
    `enqueue qs k e`     the queue table with e appended to k's queue; `queueOf qs k` the queue of k;
    `withCfg c r`        r with configuration c.

  clause                                                           theorem
  ---------------------------------------------------------------  -------------------------------
  the model's gate is the general gate at the rule-table           C10_gate_instance
  Authorizer
  refused ⇒ the realm is returned unchanged but for the reply       C10_denied            (rule table)
  queued to the sender: exactly one ERROR(type, id, uri), none      C10_denied_general    (any dec)
  for an unacknowledged PUBLISH, none if the sender's queue is
  full (the non-blocking send drops it)
  … "changes no router state": broker, dealer, clients,             C10_denied_state
  testaments, pending tasks (⇒ no meta event, no testament, no
  departure), retries, ending, counters, panic unchanged
  … "causes no event, invocation": every OTHER session's queue      C10_denied_queues
  is unchanged; the sender's queue grows by exactly the reply
  … the ERROR carries the type and request id of the request        C10_denied_reply_shape
  and the documented URI
  allowed ⇒ acted upon, exactly as without an Authorizer            C10_allowed, C10_allowed_general
  exemptions: meta session always; local sessions unless            C10_exempt
  localAuthz
  no Authorizer configured ⇒ every message is acted upon            C10_no_authorizer
  "iff": acted upon ⇔ exempt ∨ no Authorizer ∨ decision = allow     C10_acted_upon_iff

  What "acted upon" means: `handleMsg r s m = dispatch r s m`.  "In the form the Authorizer left
  it": the Authorizer interface of nexus may rewrite the message and the session details; the rule
  table of the model (and of the harness) does not rewrite, so this part of the property is
  outside the model (recorded as an assumption of C10).

  QUEUE FULL.  The ERROR is handed to the sender with the router's non-blocking send: if the
  sender's outbound queue is full the reply is dropped and the realm is returned EXACTLY unchanged
  (`C10_denied`: the `if r.queueLen s.key ≥ c.cap` branch).  So "answered with exactly one ERROR"
  holds when the sender has room, and "at most one" always.

  The hypothesis `r.clients.find? … = some c` (the sender is attached) is what `stepOp (.msg k m)`
  establishes before it calls `handleMsg`.
-/
import Nexus.L2.Proofs.RealmAuthz

namespace Nexus.C10
open Nexus.L2 Nexus.L2.Realm Nexus.Gen.N

/-- The gate of the model is the general gate instantiated with the rule-table Authorizer, and
    `handleMsg` is "gate, then dispatch". -/
theorem C10_gate_instance (r : Realm) (s : Session) (m : Msg) :
    authzGate r s m = gateG (r.cfg.authz.map authzDecision) r.cfg.localAuthz r s m ∧
    handleMsg r s m = handleMsgG (r.cfg.authz.map authzDecision) r.cfg.localAuthz r s m :=
  ⟨authzGate_eq_gateG r s m, handleMsg_eq_handleMsgG r s m⟩

/-! ## Refused messages -/

/-- GENERAL FORM, any Authorizer `dec`: a message of a non-exempt session whose decision is not
    "allow" is not dispatched; the realm is returned as it was except that the reply (if any) has
    been handed to the sender's queue by the non-blocking `trySend`. -/
theorem C10_denied_general (dec : SessKey → Msg → String) (localAuthz : Bool) (r : Realm) (s : Session) (m : Msg)
    (hex : exempt localAuthz s = false) (hdec : dec s.key m ≠ "allow") :
    handleMsgG (some dec) localAuthz r s m =
      match denialReply (dec s.key m) m with
      | none => r
      | some e => r.trySend ⟨s.key, e⟩ :=
  handleMsgG_refused dec localAuthz r s m hex hdec

/-- Rule-table Authorizer, attached sender `c`: the result is `r` with at most the sender's queue
    changed — unchanged if the message is a PUBLISH without acknowledge (no reply) or the sender's
    queue is full (reply dropped); otherwise the one ERROR appended to the sender's queue. -/
theorem C10_denied (r : Realm) (rules : List AuthzRule) (s c : Session) (m : Msg)
    (hcfg : r.cfg.authz = some rules) (hex : exempt r.cfg.localAuthz s = false)
    (hdec : authzDecision rules s.key m ≠ "allow")
    (hc : r.clients.find? (fun c => c.key == s.key) = some c) :
    handleMsg r s m =
      match denialReply (authzDecision rules s.key m) m with
      | none => r
      | some e => if r.queueLen s.key ≥ c.cap then r else { r with queues := enqueue r.queues s.key e } := by
  have hk : s.key ≠ metaKey := by
    intro e
    have : exempt r.cfg.localAuthz s = true := by simp [exempt, e]
    rw [this] at hex; cases hex
  rw [handleMsg_eq_handleMsgG, hcfg, Option.map_some, C10_denied_general _ _ r s m hex hdec]
  cases denialReply (authzDecision rules s.key m) m with
  | none => rfl
  | some e => exact trySend_client hk hc e

-- non-vacuity: a realm whose Authorizer denies every PUBLISH of the attached remote session 5
def exRealm : Realm :=
  { cfg := { authz := some [⟨16, "", none, "deny"⟩, ⟨48, "", some 5, "fail"⟩] },
    clients := [{ key := 5, details := [], roles := [], isLocal := false }],
    queues := [(5, [])] }
def exSess : Session := { key := 5, details := [], roles := [], isLocal := false }

example : exRealm.cfg.authz = some [⟨16, "", none, "deny"⟩, ⟨48, "", some 5, "fail"⟩] ∧
    exempt exRealm.cfg.localAuthz exSess = false ∧
    authzDecision [⟨16, "", none, "deny"⟩, ⟨48, "", some 5, "fail"⟩] exSess.key (.publish 7 [] "t" [] []) = "deny" ∧
    authzDecision [⟨16, "", none, "deny"⟩, ⟨48, "", some 5, "fail"⟩] exSess.key (.call 8 [] "p" [] []) = "fail" ∧
    authzDecision [⟨16, "", none, "deny"⟩, ⟨48, "", some 5, "fail"⟩] exSess.key (.subscribe 9 [] "t") = "allow" ∧
    exRealm.clients.find? (fun c => c.key == exSess.key) = some exSess := by
  refine ⟨rfl, by decide, by decide, by decide, by decide, rfl⟩

/-- "Changes no router state, causes no meta event": every component of the realm other than the
    outbound queues is returned unchanged — in particular the broker (subscriptions, history), the
    dealer (registrations, calls, invocations, timers), the clients, the testaments, the pending
    internal tasks (meta-event publications, meta invocations, departures: none is added), the
    yield retries, the sessions being ended, the counters and the panic flag. -/
theorem C10_denied_state (r : Realm) (rules : List AuthzRule) (s c : Session) (m : Msg)
    (hcfg : r.cfg.authz = some rules) (hex : exempt r.cfg.localAuthz s = false)
    (hdec : authzDecision rules s.key m ≠ "allow")
    (hc : r.clients.find? (fun c => c.key == s.key) = some c) :
    let r' := handleMsg r s m
    r'.broker = r.broker ∧ r'.ds = r.ds ∧ r'.clients = r.clients ∧ r'.testaments = r.testaments ∧
    r'.tasks = r.tasks ∧ r'.retries = r.retries ∧ r'.ending = r.ending ∧ r'.deferred = r.deferred ∧
    r'.closedPeers = r.closedPeers ∧ r'.ghosts = r.ghosts ∧ r'.pubCount = r.pubCount ∧ r'.now = r.now ∧
    r'.rnd = r.rnd ∧ r'.panic = r.panic ∧ r'.cfg = r.cfg ∧ r'.metaProcs = r.metaProcs := by
  intro r'
  have h : r' = _ := C10_denied r rules s c m hcfg hex hdec hc
  rw [h]
  cases denialReply (authzDecision rules s.key m) m with
  | none => simp
  | some e =>
    simp only []
    split <;> simp

/-- "Causes no event, invocation …": the queue of every session other than the sender is
    unchanged, and the sender's own queue is either unchanged (no reply due, or queue full) or
    grows by exactly the one reply. -/
theorem C10_denied_queues (r : Realm) (rules : List AuthzRule) (s c : Session) (m : Msg)
    (hcfg : r.cfg.authz = some rules) (hex : exempt r.cfg.localAuthz s = false)
    (hdec : authzDecision rules s.key m ≠ "allow")
    (hc : r.clients.find? (fun c => c.key == s.key) = some c) :
    (∀ k, k ≠ s.key → queueOf (handleMsg r s m).queues k = queueOf r.queues k) ∧
    queueOf (handleMsg r s m).queues s.key =
      match denialReply (authzDecision rules s.key m) m with
      | none => queueOf r.queues s.key
      | some e => if r.queueLen s.key ≥ c.cap then queueOf r.queues s.key else queueOf r.queues s.key ++ [e] := by
  rw [C10_denied r rules s c m hcfg hex hdec hc]
  cases denialReply (authzDecision rules s.key m) m with
  | none => exact ⟨fun _ _ => rfl, rfl⟩
  | some e =>
    simp only []
    split
    · exact ⟨fun _ _ => rfl, rfl⟩
    · refine ⟨fun k hk => ?_, ?_⟩
      · show queueOf (enqueue r.queues s.key e) k = _
        rw [queueOf_enqueue, if_neg hk]
      · show queueOf (enqueue r.queues s.key e) s.key = _
        rw [queueOf_enqueue, if_pos rfl]

/-- The reply: none exactly for a PUBLISH without acknowledge=true; otherwise one ERROR carrying
    the message's type code, its request id (0 for messages without one), empty details, and
    `wamp.error.authorization_failed` when the Authorizer failed (decision "fail"), else
    `wamp.error.not_authorized`. -/
theorem C10_denied_reply_shape (dec : String) (m : Msg) :
    (denialReply dec m = none ↔ ∃ req opts topic args kw, m = .publish req opts topic args kw ∧
        opts.optFlag OptAcknowledge = false) ∧
    (∀ e, denialReply dec m = some e →
        e = .error m.typeCode (msgReq m) []
              (if dec = "fail" then ErrAuthorizationFailed else ErrNotAuthorized)
              (if dec = "fail" then [.str "<text>"] else []) []) := by
  unfold denialReply
  refine ⟨?_, ?_⟩
  · cases m
    case publish req opts topic args kw =>
      constructor
      · intro h
        exact ⟨req, opts, topic, args, kw, rfl, by simpa using h⟩
      · rintro ⟨_, _, _, _, _, e, h⟩
        cases e
        simpa using h
    all_goals simp
  · intro e
    by_cases hd : dec = "fail"
    · cases m <;> simp [hd] <;> intros <;> simp_all
    · cases m <;> simp [hd] <;> intros <;> simp_all

/-! ## Allowed messages -/

/-- GENERAL FORM: decision "allow" ⇒ the message is dispatched on the unchanged realm. -/
theorem C10_allowed_general (dec : SessKey → Msg → String) (localAuthz : Bool) (r : Realm) (s : Session) (m : Msg)
    (h : dec s.key m = "allow") : handleMsgG (some dec) localAuthz r s m = dispatch r s m :=
  handleMsgG_allow dec localAuthz r s m h

/-- No Authorizer configured: every message is dispatched. -/
theorem C10_no_authorizer (r : Realm) (s : Session) (m : Msg) (h : r.cfg.authz = none) :
    handleMsg r s m = dispatch r s m := by
  rw [handleMsg_eq_handleMsgG, h]; rfl

/-- "Allowed messages behave exactly as without an Authorizer": if the decision is "allow",
    `handleMsg` equals `handleMsg` of the same realm with the Authorizer removed from its
    configuration (`cfg.authz := none`), the configuration put back afterwards. -/
theorem C10_allowed (r : Realm) (rules : List AuthzRule) (s : Session) (m : Msg)
    (hcfg : r.cfg.authz = some rules) (hdec : authzDecision rules s.key m = "allow") :
    handleMsg r s m = dispatch r s m ∧
    handleMsg r s m = withCfg r.cfg (handleMsg (withCfg { r.cfg with authz := none } r) s m) := by
  have h1 : handleMsg r s m = dispatch r s m := by
    rw [handleMsg_eq_handleMsgG, hcfg, Option.map_some]
    exact C10_allowed_general _ _ r s m hdec
  refine ⟨h1, ?_⟩
  rw [C10_no_authorizer (withCfg { r.cfg with authz := none } r) s m rfl, dispatch_withCfg, withCfg_withCfg,
    ← dispatch_cfg, h1]

example : authzDecision [⟨16, "", none, "deny"⟩] 5 (.subscribe 9 [] "t") = "allow" := by decide

/-! ## Exemptions -/

/-- The meta session is never subject to authorization; a local (in-process) session is not
    unless the realm requires local authorization: their messages are dispatched whatever the
    Authorizer would say — for every Authorizer. -/
theorem C10_exempt (r : Realm) (s : Session) (m : Msg)
    (h : s.key = metaKey ∨ (s.isLocal = true ∧ r.cfg.localAuthz = false)) :
    handleMsg r s m = dispatch r s m ∧
    ∀ (dec : SessKey → Msg → String), handleMsgG (some dec) r.cfg.localAuthz r s m = dispatch r s m := by
  have hex : exempt r.cfg.localAuthz s = true := by
    rcases h with h | ⟨h1, h2⟩
    · simp [exempt, h]
    · simp [exempt, h1, h2]
  refine ⟨?_, fun dec => handleMsgG_exempt dec _ r s m hex⟩
  rw [handleMsg_eq_handleMsgG]
  cases r.cfg.authz with
  | none => rfl
  | some rules => exact handleMsgG_exempt _ _ r s m hex

example : exempt false { key := metaKey, details := [], roles := [], isLocal := true } = true ∧
    exempt false { key := 7, details := [], roles := [], isLocal := true } = true ∧
    exempt true { key := 7, details := [], roles := [], isLocal := true } = false ∧
    exempt false { key := 7, details := [], roles := [], isLocal := false } = false := by decide

/-! ## The "iff" -/

/-- For an attached session: either the message is dispatched (and then the session is exempt, or
    no Authorizer is configured, or the Authorizer said "allow"), or it is refused (and then none
    of these holds and the outcome is the one of `C10_denied`).  So a message is acted upon iff
    the Authorizer allowed it. -/
theorem C10_acted_upon_iff (r : Realm) (s : Session) (m : Msg) :
    let allowed := exempt r.cfg.localAuthz s = true ∨ r.cfg.authz = none ∨
                   ∃ rules, r.cfg.authz = some rules ∧ authzDecision rules s.key m = "allow"
    (allowed → handleMsg r s m = dispatch r s m) ∧
    (¬ allowed → ∃ rules, r.cfg.authz = some rules ∧ authzDecision rules s.key m ≠ "allow" ∧
        handleMsg r s m = match denialReply (authzDecision rules s.key m) m with
                          | none => r
                          | some e => r.trySend ⟨s.key, e⟩) := by
  intro allowed
  refine ⟨?_, ?_⟩
  · rintro (h | h | ⟨rules, h1, h2⟩)
    · rw [handleMsg_eq_handleMsgG]
      cases r.cfg.authz with
      | none => rfl
      | some rules => exact handleMsgG_exempt _ _ r s m h
    · exact C10_no_authorizer r s m h
    · exact (C10_allowed r rules s m h1 h2).1
  · intro hn
    cases hcfg : r.cfg.authz with
    | none => exact absurd (Or.inr (Or.inl hcfg)) hn
    | some rules =>
      have hex : exempt r.cfg.localAuthz s = false := by
        cases h : exempt r.cfg.localAuthz s with
        | false => rfl
        | true => exact absurd (Or.inl h) hn
      have hdec : authzDecision rules s.key m ≠ "allow" := fun h => hn (Or.inr (Or.inr ⟨rules, hcfg, h⟩))
      refine ⟨rules, rfl, hdec, ?_⟩
      rw [handleMsg_eq_handleMsgG, hcfg, Option.map_some]
      exact C10_denied_general _ _ r s m hex hdec

end Nexus.C10
