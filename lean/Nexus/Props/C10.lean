/-
  C10 — A message is acted upon iff the Authorizer allowed it.

  Property text.  "With an Authorizer configured on a realm, each message from a session (other
  than the realm's internal meta session, and local sessions unless local authorization is
  required) is acted upon iff the Authorizer returned true for it, in the form the Authorizer left
  it.  A refused request changes no router state, causes no event, invocation or meta event, and
  is answered with exactly one ERROR of the request's type and id - wamp.error.not_authorized, or
  wamp.error.authorization_failed when the Authorizer itself failed - except an unacknowledged
  PUBLISH, which is dropped silently; allowed messages behave exactly as without an Authorizer."

  The theorems are about `Realm.handleMsg` (router/realm.go `handleInboundMessages` +
  `authzMessage`), for EVERY realm state `r`, session `s` and message `m`.  The Authorizer of the
  model is the rule table `cfg.authz` evaluated by `authzDecision` ("allow" | "allowerr" | "deny" |
  "fail"; "allowerr" = the Authorizer returns (true, err): realm.go looks at the boolean only, the
  error is ignored, so the message is ALLOWED — `C10_allowed_with_error`; the correspondence harness
  gives the real router an Authorizer reading the same table).  All
  theorems are first proved for an ARBITRARY decision function `dec : SessKey → Msg → String`
  (`Realm.gateG`, `Realm.handleMsgG`); the model's gate is the instance `dec := authzDecision rules`
  (`C10_gate_instance`).

  Vocabulary (Nexus/L2/Proofs/RealmAuthz.lean):
    `dispatch r s m`     the message switch behind the gate (what is done when a message is acted upon);
    `exempt la s`        s is the meta session, or s is local and local authorization is not required;
    `denialReply dec m`  none for a PUBLISH without acknowledge=true, else
                         ERROR(type of m, request id of m or 0, not_authorized | authorization_failed if dec = "fail");
    `enqueue qs k e`     the queue table with e appended to k's queue; `queueOfList qs k` the queue of k;
    `withCfg c r`        r with configuration c.

  clause                                                           theorem
  ---------------------------------------------------------------  -------------------------------
  the model's gate is the general gate at the rule-table           C10_gate_instance
  Authorizer
  refused ⇒ the realm is returned unchanged but for the reply       C10_denied            (rule table)
  queued to the sender: exactly one ERROR(type, id, uri), none      C10_denied_general    (any dec)
  for an unacknowledged PUBLISH, none if the sender's queue is
  full (the non-blocking send drops it)
  … "changes no router state": broker, dealer, clients,             C10_denied_state
  testaments, pending tasks (⇒ no meta event, no testament, no
  departure), retries, ending, counters, panic unchanged
  … "causes no event, invocation": every OTHER session's queue      C10_denied_queues
  is unchanged; the sender's queue grows by exactly the reply
  … the ERROR carries the type and request id of the request        C10_denied_reply_shape
  and the documented URI
  allowed ⇒ acted upon, exactly as without an Authorizer            C10_allowed, C10_allowed_general
  allowed together with an error ("allowerr"): dispatched exactly    C10_allowed_with_error
  like an allowed message, the gate queues no ERROR
  exemptions: meta session always; local sessions unless            C10_exempt
  localAuthz
  no Authorizer configured ⇒ every message is acted upon            C10_no_authorizer
  "iff": acted upon ⇔ exempt ∨ no Authorizer ∨ decision ∈           C10_acted_upon_iff
  {allow, allowerr} (the Authorizer returned true)

  STEP LEVEL (one external input `Realm.step r (.msg k m)` = receive, gate, dispatch, run the
  internal tasks to quiescence, show the queues to the clients):
  between two inputs no internal task is pending                    step_tasks_nil, step_tick_tasks_nil,
  (the hypothesis `r.tasks = []` of the step theorems)              reachable_tasks_nil
  what a step does with a message, all cases: unknown or ending     C10_step_msg
  session — nothing; handler busy in the yield retry loop — the
  message waits in the transport (`inbox`, buffered sessions) or
  is not taken at all (linked peer), NEITHER acted upon NOR
  refused now; otherwise `handleMsg`, then the internal tasks
  … a waiting message meets the gate when the handler reads it      C10_deferred_then_gated
  refused ⇒ the WHOLE STEP is: the one reply (if any, if room)      C10_denied_step
  queued, queues flushed — no internal task runs, nothing else
  changes, nobody else observes anything
  allowed ⇒ the whole step is: dispatch, then the internal tasks    C10_allowed_step
  an Authorizer that returns true for everything: every step and    C10_allow_all_step,
  every RUN of inputs (joins, messages, drops, the clock, …) makes   C10_allow_all_run
  observable exactly what the realm without Authorizer makes
  observable, and the states differ in `cfg.authz` only
  ("allowed messages behave exactly as without an Authorizer",
  for all message sequences)

  What "acted upon" means: `handleMsg r s m = dispatch r s m`.  "In the form the Authorizer left
  it": the Authorizer interface of nexus may rewrite the message and the session details; the rule
  table of the model (and of the harness) does not rewrite, so this part of the property is
  outside the model (recorded as an assumption of C10).

  NOT MODELLED (audit D, C10 a1/c): (1) an Authorizer that REWRITES the message it is shown (nexus
  hands the Authorizer the message itself; what it leaves is what is dispatched); (2) an Authorizer
  that EDITS THE SESSION DETAILS (realm.go passes `safeSession{ID, Details}` under `sess.Lock()`; the
  `Details` map is shared, so an Authorizer can change e.g. `authrole` as a side effect — also
  when it then REFUSES the message, which "changes no router state" would have to except);
  (3) a decision that depends on anything but the session key and the message (current session
  details, Authorizer-internal state): `dec : SessKey → Msg → String`.  The general forms
  (`C10_denied_general`, `C10_allowed_general`) cover every such function of key and message,
  not more.  The run-level statement is for Authorizers that allow EVERYTHING; for a single allowed
  message among refused ones the step-level statement is `C10_allowed_step` (dispatch, then the
  internal tasks — which are the meta session's, exempt from the gate).

  QUEUE FULL.  The ERROR is handed to the sender with the router's non-blocking send: if the
  sender's outbound queue is full the reply is dropped and the realm is returned EXACTLY unchanged
  (`C10_denied`: the `if r.queueLen s.key ≥ c.cap` branch).  So "answered with exactly one ERROR"
  holds when the sender has room, and "at most one" always.

  The hypothesis `r.clients.find? … = some c` (the sender is attached) is what `stepOp (.msg k m)`
  establishes before it calls `handleMsg`.
-/
import Nexus.L2.Proofs.RealmAuthz
import Nexus.L2.Proofs.WpDRealmStep
import Nexus.L2.Proofs.WpDAuthzRun

namespace Nexus.C10
open Nexus.L2 Nexus.L2.Realm Nexus.Gen.N

/-- The gate of the model is the general gate instantiated with the rule-table Authorizer, and
    `handleMsg` is "gate, then dispatch". -/
theorem C10_gate_instance (r : Realm) (s : Session) (m : Msg) :
    authzGate r s m = gateG (r.cfg.authz.map authzDecision) r.cfg.localAuthz r s m ∧
    handleMsg r s m = handleMsgG (r.cfg.authz.map authzDecision) r.cfg.localAuthz r s m :=
  ⟨authzGate_eq_gateG r s m, handleMsg_eq_handleMsgG r s m⟩

/-! ## Refused messages -/

/-- GENERAL FORM, any Authorizer `dec`: a message of a non-exempt session whose decision is not
    "allow" (nor "allowerr": allowed together with an error) is not dispatched; the realm is returned
    as it was except that the reply (if any) has been handed to the sender's queue by the non-blocking
    `trySend`. -/
theorem C10_denied_general (dec : SessKey → Msg → String) (localAuthz : Bool) (r : Realm) (s : Session) (m : Msg)
    (hex : exempt localAuthz s = false) (hdec : ¬ (dec s.key m = "allow" ∨ dec s.key m = "allowerr")) :
    handleMsgG (some dec) localAuthz r s m =
      match denialReply (dec s.key m) m with
      | none => r
      | some e => r.trySend ⟨s.key, e⟩ :=
  handleMsgG_refused dec localAuthz r s m hex hdec

/-- Rule-table Authorizer, attached sender `c`: the result is `r` with at most the sender's queue
    changed — unchanged if the message is a PUBLISH without acknowledge (no reply) or the sender's
    queue is full (reply dropped); otherwise the one ERROR appended to the sender's queue. -/
theorem C10_denied (r : Realm) (rules : List AuthzRule) (s c : Session) (m : Msg)
    (hcfg : r.cfg.authz = some rules) (hex : exempt r.cfg.localAuthz s = false)
    (hdec : ¬ (authzDecision rules s.key m = "allow" ∨ authzDecision rules s.key m = "allowerr"))
    (hc : r.clients.find? (fun c => c.key == s.key) = some c) :
    handleMsg r s m =
      match denialReply (authzDecision rules s.key m) m with
      | none => r
      | some e => if r.queueLen s.key ≥ c.cap then r else { r with queues := enqueue r.queues s.key e } := by
  have hk : s.key ≠ metaKey := by
    intro e
    have : exempt r.cfg.localAuthz s = true := by simp [exempt, e]
    rw [this] at hex; cases hex
  rw [handleMsg_eq_handleMsgG, hcfg, Option.map_some, C10_denied_general _ _ r s m hex hdec]
  cases denialReply (authzDecision rules s.key m) m with
  | none => rfl
  | some e => exact trySend_client_enqueue hk hc e

-- non-vacuity: a realm whose Authorizer denies every PUBLISH of the attached remote session 5
def exRealm : Realm :=
  { cfg := { authz := some [⟨16, "", none, "deny"⟩, ⟨48, "", some 5, "fail"⟩] },
    clients := [{ key := 5, details := [], roles := [], isLocal := false }],
    queues := [(5, [])] }
def exSess : Session := { key := 5, details := [], roles := [], isLocal := false }

example : exRealm.cfg.authz = some [⟨16, "", none, "deny"⟩, ⟨48, "", some 5, "fail"⟩] ∧
    exempt exRealm.cfg.localAuthz exSess = false ∧
    authzDecision [⟨16, "", none, "deny"⟩, ⟨48, "", some 5, "fail"⟩] exSess.key (.publish 7 [] "t" [] []) = "deny" ∧
    authzDecision [⟨16, "", none, "deny"⟩, ⟨48, "", some 5, "fail"⟩] exSess.key (.call 8 [] "p" [] []) = "fail" ∧
    authzDecision [⟨16, "", none, "deny"⟩, ⟨48, "", some 5, "fail"⟩] exSess.key (.subscribe 9 [] "t") = "allow" ∧
    exRealm.clients.find? (fun c => c.key == exSess.key) = some exSess := by
  refine ⟨rfl, by decide, by decide, by decide, by decide, rfl⟩

/-- "Changes no router state, causes no meta event": every component of the realm other than the
    outbound queues is returned unchanged — in particular the broker (subscriptions, history), the
    dealer (registrations, calls, invocations, timers), the clients, the testaments, the pending
    internal tasks (meta-event publications, meta invocations, departures: none is added), the
    yield retries, the deferred departures and the messages waiting in the transport (`inbox`), the
    sessions being ended, the counters and the panic flag. -/
theorem C10_denied_state (r : Realm) (rules : List AuthzRule) (s c : Session) (m : Msg)
    (hcfg : r.cfg.authz = some rules) (hex : exempt r.cfg.localAuthz s = false)
    (hdec : ¬ (authzDecision rules s.key m = "allow" ∨ authzDecision rules s.key m = "allowerr"))
    (hc : r.clients.find? (fun c => c.key == s.key) = some c) :
    let r' := handleMsg r s m
    r'.broker = r.broker ∧ r'.ds = r.ds ∧ r'.clients = r.clients ∧ r'.testaments = r.testaments ∧
    r'.tasks = r.tasks ∧ r'.retries = r.retries ∧ r'.ending = r.ending ∧ r'.deferred = r.deferred ∧
    r'.closedPeers = r.closedPeers ∧ r'.ghosts = r.ghosts ∧ r'.pubCount = r.pubCount ∧ r'.now = r.now ∧
    r'.rnd = r.rnd ∧ r'.panic = r.panic ∧ r'.cfg = r.cfg ∧ r'.metaProcs = r.metaProcs ∧ r'.inbox = r.inbox := by
  intro r'
  have h : r' = _ := C10_denied r rules s c m hcfg hex hdec hc
  rw [h]
  cases denialReply (authzDecision rules s.key m) m with
  | none => simp
  | some e =>
    simp only []
    split <;> simp

/-- "Causes no event, invocation …": the queue of every session other than the sender is
    unchanged, and the sender's own queue is either unchanged (no reply due, or queue full) or
    grows by exactly the one reply. -/
theorem C10_denied_queues (r : Realm) (rules : List AuthzRule) (s c : Session) (m : Msg)
    (hcfg : r.cfg.authz = some rules) (hex : exempt r.cfg.localAuthz s = false)
    (hdec : ¬ (authzDecision rules s.key m = "allow" ∨ authzDecision rules s.key m = "allowerr"))
    (hc : r.clients.find? (fun c => c.key == s.key) = some c) :
    (∀ k, k ≠ s.key → queueOfList (handleMsg r s m).queues k = queueOfList r.queues k) ∧
    queueOfList (handleMsg r s m).queues s.key =
      match denialReply (authzDecision rules s.key m) m with
      | none => queueOfList r.queues s.key
      | some e => if r.queueLen s.key ≥ c.cap then queueOfList r.queues s.key else queueOfList r.queues s.key ++ [e] := by
  rw [C10_denied r rules s c m hcfg hex hdec hc]
  cases denialReply (authzDecision rules s.key m) m with
  | none => exact ⟨fun _ _ => rfl, rfl⟩
  | some e =>
    simp only []
    split
    · exact ⟨fun _ _ => rfl, rfl⟩
    · refine ⟨fun k hk => ?_, ?_⟩
      · show queueOfList (enqueue r.queues s.key e) k = _
        rw [queueOfList_enqueue, if_neg hk]
      · show queueOfList (enqueue r.queues s.key e) s.key = _
        rw [queueOfList_enqueue, if_pos rfl]

/-- The reply: none exactly for a PUBLISH without acknowledge=true; otherwise one ERROR carrying
    the message's type code, its request id (0 for messages without one), empty details, and
    `wamp.error.authorization_failed` when the Authorizer failed (decision "fail"), else
    `wamp.error.not_authorized`. -/
theorem C10_denied_reply_shape (dec : String) (m : Msg) :
    (denialReply dec m = none ↔ ∃ req opts topic args kw, m = .publish req opts topic args kw ∧
        opts.optFlag OptAcknowledge = false) ∧
    (∀ e, denialReply dec m = some e →
        e = .error m.typeCode (msgReq m) []
              (if dec = "fail" then ErrAuthorizationFailed else ErrNotAuthorized)
              (if dec = "fail" then [.str "<text>"] else []) []) := by
  unfold denialReply
  refine ⟨?_, ?_⟩
  · cases m
    case publish req opts topic args kw =>
      constructor
      · intro h
        exact ⟨req, opts, topic, args, kw, rfl, by simpa using h⟩
      · rintro ⟨_, _, _, _, _, e, h⟩
        cases e
        simpa using h
    all_goals simp
  · intro e
    by_cases hd : dec = "fail"
    · cases m <;> simp [hd] <;> intros <;> simp_all
    · cases m <;> simp [hd] <;> intros <;> simp_all

/-! ## Allowed messages -/

/-- GENERAL FORM: decision "allow" — or "allowerr", the Authorizer's `true` accompanied by an error —
    ⇒ the message is dispatched on the unchanged realm. -/
theorem C10_allowed_general (dec : SessKey → Msg → String) (localAuthz : Bool) (r : Realm) (s : Session) (m : Msg)
    (h : dec s.key m = "allow" ∨ dec s.key m = "allowerr") : handleMsgG (some dec) localAuthz r s m = dispatch r s m :=
  handleMsgG_allow dec localAuthz r s m h

/-- No Authorizer configured: every message is dispatched. -/
theorem C10_no_authorizer (r : Realm) (s : Session) (m : Msg) (h : r.cfg.authz = none) :
    handleMsg r s m = dispatch r s m := by
  rw [handleMsg_eq_handleMsgG, h]; rfl

/-- "Allowed messages behave exactly as without an Authorizer": if the decision is "allow" (or
    "allowerr"), `handleMsg` equals `handleMsg` of the same realm with the Authorizer removed from its
    configuration (`cfg.authz := none`), the configuration put back afterwards. -/
theorem C10_allowed (r : Realm) (rules : List AuthzRule) (s : Session) (m : Msg)
    (hcfg : r.cfg.authz = some rules)
    (hdec : authzDecision rules s.key m = "allow" ∨ authzDecision rules s.key m = "allowerr") :
    handleMsg r s m = dispatch r s m ∧
    handleMsg r s m = withCfg r.cfg (handleMsg (withCfg { r.cfg with authz := none } r) s m) := by
  have h1 : handleMsg r s m = dispatch r s m := by
    rw [handleMsg_eq_handleMsgG, hcfg, Option.map_some]
    exact C10_allowed_general _ _ r s m hdec
  refine ⟨h1, ?_⟩
  rw [C10_no_authorizer (withCfg { r.cfg with authz := none } r) s m rfl, dispatch_withCfg, withCfg_withCfg,
    ← dispatch_cfg, h1]

example : authzDecision [⟨16, "", none, "deny"⟩] 5 (.subscribe 9 [] "t") = "allow" := by decide

/-- ALLOWED WITH AN ERROR.  The Authorizer answers (true, err) — decision "allowerr": `authzMessage` looks at the
    boolean only.  The gate hands the realm on UNCHANGED (so no ERROR — nothing at all — is queued by it) and
    says "go on"; the message is dispatched, exactly as it is for the decision "allow" (for ANY two
    Authorizers that differ in this respect only) and exactly as without an Authorizer. -/
theorem C10_allowed_with_error (r : Realm) (rules : List AuthzRule) (s : Session) (m : Msg)
    (hcfg : r.cfg.authz = some rules) (hdec : authzDecision rules s.key m = "allowerr") :
    authzGate r s m = (true, r) ∧
    handleMsg r s m = dispatch r s m ∧
    handleMsg r s m = withCfg r.cfg (handleMsg (withCfg { r.cfg with authz := none } r) s m) ∧
    (∀ (dec dec' : SessKey → Msg → String) (la : Bool), dec s.key m = "allowerr" → dec' s.key m = "allow" →
      gateG (some dec) la r s m = (true, r) ∧
      handleMsgG (some dec) la r s m = handleMsgG (some dec') la r s m) := by
  obtain ⟨h1, h2⟩ := C10_allowed r rules s m hcfg (Or.inr hdec)
  refine ⟨?_, h1, h2, ?_⟩
  · rw [authzGate_eq_gateG, hcfg, Option.map_some]
    exact gateG_allow _ _ r s m (Or.inr hdec)
  · intro dec dec' la hd hd'
    exact ⟨gateG_allow dec la r s m (Or.inr hd),
      (handleMsgG_allow dec la r s m (Or.inr hd)).trans (handleMsgG_allow dec' la r s m (Or.inl hd')).symm⟩

-- non-vacuity: a rule table that allows the SUBSCRIBEs of session 5 with an error
example : authzDecision [⟨32, "", some 5, "allowerr"⟩] 5 (.subscribe 9 [] "t") = "allowerr" ∧
    authzGate ({ cfg := { authz := some [⟨32, "", some 5, "allowerr"⟩] } } : Realm)
      { key := 5, details := [], roles := [], isLocal := false } (.subscribe 9 [] "t") =
      (true, ({ cfg := { authz := some [⟨32, "", some 5, "allowerr"⟩] } } : Realm)) := by
  refine ⟨by decide, ?_⟩
  exact (C10_allowed_with_error _ [⟨32, "", some 5, "allowerr"⟩] _ _ rfl (by decide)).1


/-! ## Exemptions -/

/-- The meta session is never subject to authorization; a local (in-process) session is not
    unless the realm requires local authorization: their messages are dispatched whatever the
    Authorizer would say — for every Authorizer. -/
theorem C10_exempt (r : Realm) (s : Session) (m : Msg)
    (h : s.key = metaKey ∨ (s.isLocal = true ∧ r.cfg.localAuthz = false)) :
    handleMsg r s m = dispatch r s m ∧
    ∀ (dec : SessKey → Msg → String), handleMsgG (some dec) r.cfg.localAuthz r s m = dispatch r s m := by
  have hex : exempt r.cfg.localAuthz s = true := by
    rcases h with h | ⟨h1, h2⟩
    · simp [exempt, h]
    · simp [exempt, h1, h2]
  refine ⟨?_, fun dec => handleMsgG_exempt dec _ r s m hex⟩
  rw [handleMsg_eq_handleMsgG]
  cases r.cfg.authz with
  | none => rfl
  | some rules => exact handleMsgG_exempt _ _ r s m hex

example : exempt false { key := metaKey, details := [], roles := [], isLocal := true } = true ∧
    exempt false { key := 7, details := [], roles := [], isLocal := true } = true ∧
    exempt true { key := 7, details := [], roles := [], isLocal := true } = false ∧
    exempt false { key := 7, details := [], roles := [], isLocal := false } = false := by decide

/-! ## The "iff" -/

/-- For an attached session: either the message is dispatched (and then the session is exempt, or
    no Authorizer is configured, or the Authorizer returned true: decision "allow", or "allowerr" when
    it also returned an error), or it is refused (and then none of these holds and the outcome is the
    one of `C10_denied`).  So a message is acted upon iff the Authorizer allowed it. -/
theorem C10_acted_upon_iff (r : Realm) (s : Session) (m : Msg) :
    let allowed := exempt r.cfg.localAuthz s = true ∨ r.cfg.authz = none ∨
                   ∃ rules, r.cfg.authz = some rules ∧
                     (authzDecision rules s.key m = "allow" ∨ authzDecision rules s.key m = "allowerr")
    (allowed → handleMsg r s m = dispatch r s m) ∧
    (¬ allowed → ∃ rules, r.cfg.authz = some rules ∧
        ¬ (authzDecision rules s.key m = "allow" ∨ authzDecision rules s.key m = "allowerr") ∧
        handleMsg r s m = match denialReply (authzDecision rules s.key m) m with
                          | none => r
                          | some e => r.trySend ⟨s.key, e⟩) := by
  intro allowed
  refine ⟨?_, ?_⟩
  · rintro (h | h | ⟨rules, h1, h2⟩)
    · rw [handleMsg_eq_handleMsgG]
      cases r.cfg.authz with
      | none => rfl
      | some rules => exact handleMsgG_exempt _ _ r s m h
    · exact C10_no_authorizer r s m h
    · exact (C10_allowed r rules s m h1 h2).1
  · intro hn
    cases hcfg : r.cfg.authz with
    | none => exact absurd (Or.inr (Or.inl hcfg)) hn
    | some rules =>
      have hex : exempt r.cfg.localAuthz s = false := by
        cases h : exempt r.cfg.localAuthz s with
        | false => rfl
        | true => exact absurd (Or.inl h) hn
      have hdec : ¬ (authzDecision rules s.key m = "allow" ∨ authzDecision rules s.key m = "allowerr") :=
        fun h => hn (Or.inr (Or.inr ⟨rules, hcfg, h⟩))
      refine ⟨rules, rfl, hdec, ?_⟩
      rw [handleMsg_eq_handleMsgG, hcfg, Option.map_some]
      exact C10_denied_general _ _ r s m hex hdec

/-! ## One whole step, whole runs -/

/-- QUIESCENCE.  After one external input other than the clock — from ANY realm state — no
    internal task is pending (unless the model's fuel marker is set in `panic`).  This is the
    hypothesis `r.tasks = []` of the step-level theorems below. -/
theorem step_tasks_nil (r : Realm) (op : Realm.Op) (hop : ∀ ms, op ≠ .tick ms) (hp : (r.step op).2.panic = none) :
    (r.step op).2.tasks = [] :=
  WpD.step_tasks_nil r op hop hp

/-- … the same for the clock, in a realm satisfying the realm invariant. -/
theorem step_tick_tasks_nil {r : Realm} (hi : RealmInv r) (hf : FuelOnly r.panic) (ht : r.tasks = [] ∨ r.panic ≠ none)
    (ms : Nat) (hp : (r.step (.tick ms)).2.panic = none) : (r.step (.tick ms)).2.tasks = [] :=
  WpD.step_tick_tasks_nil hi hf ht ms hp

/-- … hence in every realm state reachable from `Realm.create`. -/
theorem reachable_tasks_nil {cfg : Config} {r : Realm} (h : Realm.Reachable cfg r) : r.tasks = [] ∨ r.panic ≠ none :=
  WpD.Reachable.tasks_nil h

-- non-vacuity: the empty realm is quiescent; so is every realm after a step (`step_tasks_nil`)
example : ({} : Realm).tasks = [] := rfl

theorem drain_taskFuel_nil (r : Realm) (h : r.tasks = []) : drain taskFuel r = r :=
  drain_succ_nil 99999 r h

/-- ONE STEP WITH A MESSAGE, ALL CASES (quiescent realm).  The message of a session the realm does
    not hold, or of one that is ending, is not read.  While the session's handler sleeps in the
    yield retry loop (`busy`) the message is neither acted upon nor refused: it waits in the
    transport if the session is attached through a socket (`buffered`; it meets the gate when the
    handler reads it, `C10_deferred_then_gated`), and is not taken at all from a linked peer.
    Otherwise it goes through `handleMsg` — the gate of this file — and the internal tasks that
    causes run to the end. -/
theorem C10_step_msg (r : Realm) (k : SessKey) (m : Msg) (hq : r.tasks = []) :
    r.step (.msg k m) =
      match r.clients.find? (fun c => c.key == k) with
      | none => r.flush
      | some c =>
        if r.ending.contains k then r.flush
        else if r.busy k then (if c.buffered then ({ r with inbox := r.inbox ++ [(k, m)] } : Realm).flush else r.flush)
        else (drain taskFuel (handleMsg r c m)).flush := by
  rw [step_of_not_tick r _ (fun ms e => by cases e), stepOp_msg, recvMsg_eq]
  cases hf : r.clients.find? (fun c => c.key == k) with
  | none => simp only []; rw [drain_taskFuel_nil r hq]
  | some c =>
    simp only []
    cases he : r.ending.contains k with
    | true => simp only [if_true]; rw [drain_taskFuel_nil r hq]
    | false =>
      simp only [Bool.false_eq_true, if_false]
      cases hb : r.busy k with
      | true =>
        simp only [if_true]
        cases hbuf : c.buffered with
        | true =>
          simp only [if_true]
          rw [drain_taskFuel_nil ({ r with inbox := r.inbox ++ [(k, m)] } : Realm) hq]
        | false => simp only [Bool.false_eq_true, if_false]; rw [drain_taskFuel_nil r hq]
      | false => simp only [Bool.false_eq_true, if_false]

/-- A message that waited in the transport is gated when the handler reads it: the internal task
    `inMsg k m` (created when the retry loop of `k`'s handler ends) is `recvMsg`, i.e. the same
    case split as for a fresh message, with `handleMsg` — and so every theorem of this file —
    applying at THAT moment, to the realm state and the Authorizer's answer of that moment. -/
theorem C10_deferred_then_gated (r : Realm) (k : SessKey) (m : Msg) (c : Session)
    (hc : r.clients.find? (fun c => c.key == k) = some c) (he : r.ending.contains k = false) (hb : r.busy k = false) :
    r.runTask (.inMsg k m) = handleMsg r c m := by
  rw [runTask_inMsg, recvMsg_eq, hc]
  simp only [he, hb, Bool.false_eq_true, if_false]

example : (exRealm.clients.find? (fun c => c.key == 5) = some exSess) ∧ exRealm.ending.contains 5 = false ∧
    exRealm.busy 5 = false ∧ exRealm.tasks = [] := ⟨rfl, by decide, by decide, rfl⟩

/-- REFUSED, THE WHOLE STEP.  In a quiescent realm, the message of an attached, non-exempt session
    whose handler is free, refused by the Authorizer: the step is exactly "queue the one reply to
    the sender (none for an unacknowledged PUBLISH; dropped if the sender's queue is full), then
    show the queues to the clients".  No internal task runs (so no meta event, no testament, no
    invocation, no departure), and the realm after the step is the flushed realm — every component
    but the queues as before (`C10_denied_state`). -/
theorem C10_denied_step (r : Realm) (rules : List AuthzRule) (c : Session) (k : SessKey) (m : Msg)
    (hq : r.tasks = []) (hcfg : r.cfg.authz = some rules)
    (hc : r.clients.find? (fun c => c.key == k) = some c)
    (hex : exempt r.cfg.localAuthz c = false)
    (hdec : ¬ (authzDecision rules k m = "allow" ∨ authzDecision rules k m = "allowerr"))
    (he : r.ending.contains k = false) (hb : r.busy k = false) :
    r.step (.msg k m) =
      (match denialReply (authzDecision rules k m) m with
       | none => r
       | some e => if r.queueLen k ≥ c.cap then r else { r with queues := enqueue r.queues k e }).flush := by
  have hk : c.key = k := (find?_key hc).2
  rw [C10_step_msg r k m hq, hc]
  simp only [he, hb, Bool.false_eq_true, if_false]
  have hd := C10_denied r rules c c m hcfg hex (by rw [hk]; exact hdec) (by rw [hk]; exact hc)
  rw [hk] at hd
  rw [hd]
  congr 1
  apply drain_taskFuel_nil
  cases denialReply (authzDecision rules k m) m with
  | none => exact hq
  | some e =>
    dsimp only
    split <;> exact hq

-- non-vacuity: session 5 of `exRealm` is attached, not exempt, free; its PUBLISH is denied
example : exRealm.tasks = [] ∧ exRealm.cfg.authz = some [⟨16, "", none, "deny"⟩, ⟨48, "", some 5, "fail"⟩] ∧
    exRealm.clients.find? (fun c => c.key == 5) = some exSess ∧ exempt exRealm.cfg.localAuthz exSess = false ∧
    ¬ (authzDecision [⟨16, "", none, "deny"⟩, ⟨48, "", some 5, "fail"⟩] 5 (.publish 7 [] "t" [] []) = "allow" ∨
       authzDecision [⟨16, "", none, "deny"⟩, ⟨48, "", some 5, "fail"⟩] 5 (.publish 7 [] "t" [] []) = "allowerr") ∧
    exRealm.ending.contains 5 = false ∧ exRealm.busy 5 = false :=
  ⟨rfl, rfl, rfl, by decide, by decide, by decide, by decide⟩

/-- ALLOWED, THE WHOLE STEP.  Same situation, the Authorizer returned true (or the session is
    exempt, or no Authorizer is configured): the step is "dispatch the message, run the internal
    tasks this causes, show the queues" — `dispatch` being the same function that runs without an
    Authorizer (`C10_allowed`, `C10_no_authorizer`). -/
theorem C10_allowed_step (r : Realm) (c : Session) (k : SessKey) (m : Msg)
    (hq : r.tasks = []) (hc : r.clients.find? (fun c => c.key == k) = some c)
    (hal : exempt r.cfg.localAuthz c = true ∨ r.cfg.authz = none ∨
      ∃ rules, r.cfg.authz = some rules ∧ (authzDecision rules k m = "allow" ∨ authzDecision rules k m = "allowerr"))
    (he : r.ending.contains k = false) (hb : r.busy k = false) :
    r.step (.msg k m) = (drain taskFuel (dispatch r c m)).flush := by
  have hk : c.key = k := (find?_key hc).2
  rw [C10_step_msg r k m hq, hc]
  simp only [he, hb, Bool.false_eq_true, if_false]
  have := (C10_acted_upon_iff r c m).1 (by rw [hk]; exact hal)
  rw [this]

example : authzDecision [⟨16, "", none, "deny"⟩, ⟨48, "", some 5, "fail"⟩] 5 (.subscribe 9 [] "t") = "allow" := by decide

/-- the realm with the Authorizer removed from its configuration -/
def withoutAuthorizer (r : Realm) : Realm := withCfg { r.cfg with authz := none } r

theorem alike_of_allow_all (r : Realm) (rules : List AuthzRule) (hcfg : r.cfg.authz = some rules)
    (hall : ∀ k m, authzDecision rules k m = "allow" ∨ authzDecision rules k m = "allowerr") :
    WpD.Alike r.cfg { r.cfg with authz := none } :=
  ⟨⟨rfl, rfl⟩, WpD.gatePass_allowAll r.cfg rules hcfg hall, WpD.gatePass_none _ rfl⟩

/-- AN AUTHORIZER THAT ALLOWS EVERYTHING, ONE STEP of any kind (join, message, drop, stall, resume,
    the clock, …): what the step makes observable (queue contents, closed peers, panic flag) is
    exactly what the same realm WITHOUT an Authorizer makes observable, and the new state is the
    new state of that realm with the configuration put back.  This covers everything the step
    runs: meta events, meta-procedure calls, departures, timeouts, yield retries and the messages
    read from the transport afterwards. -/
theorem C10_allow_all_step (r : Realm) (rules : List AuthzRule) (hcfg : r.cfg.authz = some rules)
    (hall : ∀ k m, authzDecision rules k m = "allow" ∨ authzDecision rules k m = "allowerr") (op : Realm.Op) :
    r.step op = (((withoutAuthorizer r).step op).1, withCfg r.cfg ((withoutAuthorizer r).step op).2) :=
  WpD.alike_step (alike_of_allow_all r rules hcfg hall) r op

/-- … AND WHOLE RUNS ("allowed messages behave exactly as without an Authorizer", for all input
    sequences): the same observation at every step, the final states differ in `cfg.authz` only. -/
theorem C10_allow_all_run (r : Realm) (rules : List AuthzRule) (hcfg : r.cfg.authz = some rules)
    (hall : ∀ k m, authzDecision rules k m = "allow" ∨ authzDecision rules k m = "allowerr") (ops : List Realm.Op) :
    WpD.runOps r ops =
      ((WpD.runOps (withoutAuthorizer r) ops).1, withCfg r.cfg (WpD.runOps (withoutAuthorizer r) ops).2) :=
  WpD.alike_run (alike_of_allow_all r rules hcfg hall) ops r

-- non-vacuity: a rule table that returns true for everything, some of it with an error
example : ∀ k m, authzDecision [⟨32, "", none, "allowerr"⟩, ⟨0, "", none, "allow"⟩] k m = "allow" ∨
    authzDecision [⟨32, "", none, "allowerr"⟩, ⟨0, "", none, "allow"⟩] k m = "allowerr" := by
  intro k m
  unfold authzDecision
  simp only [List.find?_cons]
  split
  · rename_i a h
    split at h
    · cases h; exact Or.inr rfl
    · split at h
      · cases h; exact Or.inl rfl
      · cases h
  · exact Or.inl rfl

end Nexus.C10
