/-
  C13 — CANCEL modes and call timeouts behave as documented.

  Property text.  "A CANCEL from the call's owner with mode skip answers the caller at once with
  wamp.error.canceled and sends nothing to the callee; killnowait (also the default) does the same and
  additionally sends one INTERRUPT to a callee that supports call canceling; kill sends that INTERRUPT
  and lets the callee's next RESULT or ERROR become the caller's final reply, degrading to skip when
  the callee cannot be interrupted; an unknown mode is refused with wamp.error.invalid_argument, and a
  CANCEL that is repeated, comes from another session or names a finished or unknown call has no
  effect.  A call whose timeout the callee does not handle itself is ended by the router exactly when
  the timeout expires - with wamp.error.timeout to the caller and an INTERRUPT as for killnowait -
  never earlier and never after the call already completed, while for a callee that registered with
  forward_timeout and supports call_timeout the timeout is forwarded in the INVOCATION instead."

  The theorems are about the dealer model (`syncCancel`, `syncCall`, the `Timer` table of `DState`) and
  the realm's handler/timer layer (`Realm.handleCancel`, `Realm.timerDue`, `Realm.nextDue`,
  `Realm.advance`), for EVERY state satisfying `DealerInv`, every environment and all arguments.
  A pending, not yet cancelled call is given as its stored invocation `v ∈ s.d.invs` with
  `v.canceled = false`; its call id is `c = v.callId`, its callee `v.callee`, its invocation id `v.id`.
  `canInterrupt env v mode` = mode ≠ skip ∧ callee announced `callee.call_canceling` ∧ callee's queue has
  room.  `cancelMark s v` = `s` with `v.canceled := true` and the timer recorded in `v` stopped.
  `callErr c details uri args kw` = ERROR(CALL, c.req, details, uri, args, kw) to `c.sess`;
  `interruptOf v i mode reason` = INTERRUPT(i.req, {reason, mode}) to `v.callee`.

  clause                                                         theorem
  -------------------------------------------------------------  ---------------------------------------
  skip: ERROR canceled now, nothing to the callee, call removed   C13_skip
  killnowait: the same + one INTERRUPT{mode killnowait} to a       C13_killnowait
    callee with call_canceling and room
  kill: INTERRUPT{mode kill}, no reply yet, call stays `canceled`  C13_kill, C13_kill_then_yield,
    the callee's next final YIELD / ERROR is the caller's reply    C13_kill_then_error
  kill degrades to skip when the callee cannot be interrupted      C13_kill_degrades
  unknown mode refused with invalid_argument, no dealer change     C13_bad_mode, C13_default_mode
  repeated / foreign / finished / unknown CANCEL: no effect        C13_ineffective_repeated,
                                                                   C13_ineffective_not_pending
  timer armed with deadline now + min(timeout, max) — or forwarded C13_forward (first chunk),
                                                                   C13_later_chunk_timer
  at most one live timer per call; every live timer belongs to a    C13_timer_owned, C13_timer_unique
    pending call and is the one its invocation records               (part of DealerInv)
  a pending, not cancelled timed call HAS its timer live (client    C13_timer_live (reachable realm states),
    callees; not while parked in the final YIELD's retry loop)       C13_timer_live_step (per dealer step)
  never earlier: only armed, not-cancelled timers whose deadline   C13_timeout_not_before,
    has been reached fire, earliest first, at their deadline; the     C13_timeout_not_early
    firing timer is the recorded, only live timer of its pending call
  exactly when it expires: after the tick reaching the deadline    C13_timeout_all_fired,
    no due timer is left, and no pending timed call has a deadline   C13_timeout_exact, C13_timeout_exact_tick
    `≤ now`
  what a firing timer does (ERROR timeout + INTERRUPT as for       C13_timeout_effect,
    killnowait; nothing if the call is gone or cancelled)          C13_timeout_stale
  a cancelled timer never fires; timers are never revived or       (C13_timeout_not_before),
    dropped by the dealer                                          C13_timers_persist
  never after the call completed: completion cancels the recorded  C13_timeout_cancelled_on_completion
    timer (and there is no other live one: C13_timer_owned)

  yield retry loop (C07's bounded exception): retried at +1, +3, +7 …   C13_retry_enter, C13_retry_turn,
    ms after the start; gives up (cancels the call) at the first turn    C13_retry_bound, C13_retry_busy
    ≥ 60000 ms after the start = turn 16 = 65535 ms; meanwhile the
    callee's handler is busy: its messages are not processed (those of
    a socket-attached session wait in `inbox`)

  NOTE on progressive call invocations (several CALL chunks under one request id).  `syncCall` arms a new
  timer on EVERY chunk that reaches the callee (with the first chunk's timeout) and overwrites the cancel
  function stored in the invocation; before doing so it CANCELS the timer armed by the previous chunk
  (dealer.go `if invk.timerCancel != nil { invk.timerCancel() }`; `C13_later_chunk_timer`, `Ex.sProgT2`: timer 1
  cancelled, timer 2 live).  So "the timeout" of a progressive call invocation counts from its LATEST chunk, at
  most one live timer exists per pending call, and no timer of a call stays live after the call completed
  (`C13_timeout_cancelled_on_completion`).
-/
import Nexus.L2.Proofs.DealerRealm
import Nexus.L2.Proofs.DealerTimer
import Nexus.L2.Proofs.DealerInvoke
import Nexus.L2.Proofs.DealerExamples
import Nexus.L2.Proofs.DealerRealmRpc
import Nexus.L2.Proofs.WpBTimerRealm

namespace Nexus.C13
open Nexus.L2 Nexus.Gen.N Nexus

/-! ### the three modes -/

/-- skip: exactly one message, ERROR(CALL) with the cancel's reason (wamp.error.canceled from
    `handleCancel`) to the caller; nothing to the callee; the call is removed. -/
theorem C13_skip {env : DEnv} {s : DState} (h : DealerInv s) {v : Invk} (hv : v ∈ s.d.invs) (hcan : v.canceled = false)
    (reason : String) (errArgs : List WVal) :
    syncCancel env s v.callId.sess v.callId.req CancelModeSkip reason errArgs =
      { st := { cancelMark s v with d := (cancelMark s v).d.forget v.callId v.id }
        sends := [callErr v.callId [] reason errArgs []] } ∧
    v.callId ∉ ((cancelMark s v).d.forget v.callId v.id).calls := by
  rw [syncCancel_live h hv rfl hcan]
  have : canInterrupt env v CancelModeSkip = false := by simp [canInterrupt]
  rw [this]
  exact ⟨rfl, by simp⟩

example : Ex.vCall.canceled = false ∧ Ex.sCall.d.invs.map (·.id) = [Ex.vCall.id] := by decide +kernel

/-- killnowait: the same, preceded by exactly one INTERRUPT{reason, mode: killnowait} to the callee iff it
    announced call_canceling and its queue has room. -/
theorem C13_killnowait {env : DEnv} {s : DState} (h : DealerInv s) {v : Invk} (hv : v ∈ s.d.invs)
    (hcan : v.canceled = false) (reason : String) (errArgs : List WVal) :
    syncCancel env s v.callId.sess v.callId.req CancelModeKillNoWait reason errArgs =
      { st := { cancelMark s v with d := (cancelMark s v).d.forget v.callId v.id }
        sends := (if canInterrupt env v CancelModeKillNoWait
                  then [interruptOf v v.id CancelModeKillNoWait reason] else []) ++
                 [callErr v.callId [] reason errArgs []] } := by
  rw [syncCancel_live h hv rfl hcan]
  have hk : ¬ CancelModeKillNoWait = CancelModeKill := by decide
  split
  · rfl
  · rfl

example : (syncCancel Ex.env Ex.sCall 2 5 CancelModeKillNoWait ErrCanceled []).sends.map Ex.summary =
    [(1, 69, none, false), (2, 8, some 5, true)] := by decide +kernel

/-- kill, callee can be interrupted: exactly one INTERRUPT{reason, mode: kill}; no reply to the caller yet;
    the call stays, marked `canceled`, its timer stopped. -/
theorem C13_kill {env : DEnv} {s : DState} (h : DealerInv s) {v : Invk} (hv : v ∈ s.d.invs)
    (hcan : v.canceled = false) (hci : canInterrupt env v CancelModeKill = true) (reason : String) (errArgs : List WVal) :
    syncCancel env s v.callId.sess v.callId.req CancelModeKill reason errArgs =
      { st := cancelMark s v, sends := [interruptOf v v.id CancelModeKill reason] } ∧
    DealerInv (cancelMark s v) ∧ v.callId ∈ (cancelMark s v).d.calls ∧
    ({ v with canceled := true } : Invk) ∈ (cancelMark s v).d.invs := by
  rw [syncCancel_live h hv rfl hcan, if_pos hci, if_pos rfl]
  obtain ⟨h1, h2⟩ := cancelMark_inv h hv
  exact ⟨rfl, h1, by simpa using (h.call.inv_call hv).1, h2⟩

example : canInterrupt Ex.env Ex.vCall CancelModeKill = true := by decide +kernel

/-- … and the callee's next non-progress YIELD becomes the caller's (one, final) reply, the call is removed. -/
theorem C13_kill_then_yield {env' : DEnv} {s : DState} (h : DealerInv s) {v : Invk} (hv : v ∈ s.d.invs)
    (opts : Dict) (args : List WVal) (kw : Dict) (canRetry : Bool) (hfull : env'.full v.callId.sess = false) :
    ∃ x, repliesFor v.callId (syncYield env' (cancelMark s v) v.id.sess v.id.req opts args kw false canRetry).sends = [x] ∧
      x.msg.isFinalReply = true ∧
      v.callId ∉ (syncYield env' (cancelMark s v) v.id.sess v.id.req opts args kw false canRetry).st.d.calls := by
  obtain ⟨h1, h2⟩ := cancelMark_inv h hv
  exact yield_final (env := env') h1 h2 opts args kw canRetry hfull

/-- … likewise its INVOCATION ERROR. -/
theorem C13_kill_then_error {s : DState} (h : DealerInv s) {v : Invk} (hv : v ∈ s.d.invs)
    (details : Dict) (err : String) (args : List WVal) (kw : Dict) :
    (syncError (cancelMark s v) v.id.sess v.id.req details err args kw).sends = [callErr v.callId details err args kw] ∧
      v.callId ∉ (syncError (cancelMark s v) v.id.sess v.id.req details err args kw).st.d.calls := by
  obtain ⟨h1, h2⟩ := cancelMark_inv h hv
  have hf : (cancelMark s v).d.findInv ⟨v.id.sess, v.id.req⟩ = some { v with canceled := true } :=
    (findInv_eq_some h1.call.invIds).2 ⟨h2, rfl⟩
  rw [syncError_some' h1.call details err args kw hf]
  exact ⟨rfl, by simp⟩

/-- kill, but the callee lacks call_canceling or its queue is full: behaves as skip. -/
theorem C13_kill_degrades {env : DEnv} {s : DState} (h : DealerInv s) {v : Invk} (hv : v ∈ s.d.invs)
    (hcan : v.canceled = false) (hci : canInterrupt env v CancelModeKill = false) (reason : String) (errArgs : List WVal) :
    syncCancel env s v.callId.sess v.callId.req CancelModeKill reason errArgs =
      syncCancel env s v.callId.sess v.callId.req CancelModeSkip reason errArgs := by
  rw [syncCancel_live h hv rfl hcan, syncCancel_live h hv rfl hcan, hci]
  have : canInterrupt env v CancelModeSkip = false := by simp [canInterrupt]
  rw [this]
  rfl

/-- callee 3 of `Ex` has no features: it cannot be interrupted -/
example : canInterrupt Ex.env { Ex.vCall with callee := 3 } CancelModeKill = false := by decide +kernel

/-! ### mode validation (`dealer.cancel`, handler goroutine) -/

/-- An unknown mode is refused with exactly one ERROR(CANCEL, req, wamp.error.invalid_argument) to the
    sender (through `trySend`); the dealer is not touched. -/
theorem C13_bad_mode (r : Realm) (s : Session) (req : Nat) (opts : Dict)
    (h1 : Realm.cancelMode opts ≠ CancelModeKillNoWait) (h2 : Realm.cancelMode opts ≠ CancelModeKill)
    (h3 : Realm.cancelMode opts ≠ CancelModeSkip) :
    r.handleCancel s req opts = r.trySend ⟨s.key, .error tCANCEL req [] ErrInvalidArgument [.str "<text>"] []⟩ ∧
      (r.handleCancel s req opts).ds = r.ds := by
  rw [Realm.handleCancel_unknown s req opts h1 h2 h3]
  exact ⟨rfl, Realm.trySend_ds _ _⟩

example : Realm.cancelMode [(OptMode, .str "murder")] = "murder" := by decide +kernel

/-- No / empty / non-string `mode` option means killnowait; a known mode is passed to `syncCancel` with reason
    wamp.error.canceled. -/
theorem C13_default_mode (r : Realm) (s : Session) (req : Nat) (opts : Dict) (h : opts.optString OptMode = "") :
    r.handleCancel s req opts =
      r.applyD (syncCancel r.denv r.ds s.key req CancelModeKillNoWait ErrCanceled []) := by
  have : Realm.cancelMode opts = CancelModeKillNoWait := by simp [Realm.cancelMode, h]
  rw [Realm.handleCancel_known s req opts (Or.inl this), this]

/-! ### ineffective CANCELs -/

/-- A repeated CANCEL (any mode) of a call already cancelled in kill mode: identity on the state, no message. -/
theorem C13_ineffective_repeated {env : DEnv} {s : DState} (h : DealerInv s) {v : Invk} (hv : v ∈ s.d.invs)
    (hcan : v.canceled = true) (mode reason : String) (errArgs : List WVal) :
    syncCancel env s v.callId.sess v.callId.req mode reason errArgs = { st := s } :=
  syncCancel_canceled h hv rfl hcan mode reason errArgs

example : Ex.sKill.d.invs.map (·.canceled) = [true] := by decide +kernel

/-- A CANCEL naming (session, request) that is not a pending call — the request was never issued by that
    session, is finished already, or belongs to another session: identity on the state, no message. -/
theorem C13_ineffective_not_pending {env : DEnv} {s : DState} (caller : SessKey) (req : Nat)
    (hc : (⟨caller, req⟩ : ReqId) ∉ s.d.calls) (mode reason : String) (errArgs : List WVal) :
    syncCancel env s caller req mode reason errArgs = { st := s } :=
  syncCancel_not_pending mode reason errArgs hc

/-- session 3 tries to cancel request 5 of session 2 -/
example : (⟨3, 5⟩ : ReqId) ∉ Ex.sCall.d.calls := by decide +kernel

/-! ### timeouts: arming and forwarding -/

/-- First chunk of a CALL, accepted, callee has room (hypotheses of `InvocationOf.first`).  With `t` the
    CALL's `timeout` option (0 if absent or not an integer): the INVOCATION details carry `timeout: t` iff
    `t > 0`, the callee announced `call_timeout` and the registration has `forward_timeout`, and then no
    router timer is armed; iff `t > 0` and it is not forwarded, exactly one timer is appended, for this
    call, with deadline `now + min t maxTimeoutMs`; otherwise the timer table is unchanged. -/
theorem C13_forward {env : DEnv} {s : DState} (h : DealerInv s) {caller : SessKey} {req : Nat} {opts : Dict}
    {proc : String} (args : List WVal) (kw : Dict) {rnd : Nat} {reg reg' : Reg} {callee : SessKey}
    (hm : s.d.matchProcedure proc = some reg) (hb : s.d.byCall? ⟨caller, req⟩ = none)
    (hprog : (opts.optFlag OptProgress && !hasFeat env caller RoleCaller FeatureProgCallInvocations) = false)
    (hp : pickCallee reg rnd = some (callee, reg'))
    (hr : callRefusal env s.d.allowDisclose reg caller callee opts = none) (hf : env.full callee = false) :
    (syncCall env s caller req opts proc args kw rnd).sends =
        [⟨callee, .invocation (genOf s.invGen callee + 1) reg.id (invDetails env reg caller callee opts proc) args kw⟩] ∧
      Dict.get? (invDetails env reg caller callee opts proc) OptTimeout =
        (if optTimeout opts > 0 && forwardsTimeout env reg callee then some (.int (optTimeout opts)) else none) ∧
      (syncCall env s caller req opts proc args kw rnd).st.timers =
        (if optTimeout opts > 0 && !forwardsTimeout env reg callee
         then s.timers ++ [newTimer env s caller req (optTimeout opts).toNat] else s.timers) := by
  have hne : reg.callees.isEmpty = false := by
    have := (h.reg.regs.callees reg (matchProcedure_mem hm)).1
    cases hx : reg.callees with
    | nil => exact absurd hx this
    | cons _ _ => rfl
  rw [syncCall_first args kw hm hne hprog hb hp, firstChunk_ok args kw reg' hr hf]
  refine ⟨rfl, invDetails_get?_timeout .., ?_⟩
  simp only
  unfold routerTimeout routerTimeoutF forwardsTimeout
  by_cases hc : (decide (optTimeout opts > 0) && !forwardsF env reg.fwdTimeout callee) = true
  · rw [if_pos hc, if_pos hc]
    have hpos : 0 < (optTimeout opts).toNat := by
      have : optTimeout opts > 0 := by
        simp only [Bool.and_eq_true, decide_eq_true_eq] at hc; exact hc.1
      omega
    rw [armTimer_pos hpos]
    rfl
  · rw [if_neg hc, if_neg hc, armTimer_zero]
    rfl

example : forwardsTimeout Ex.env { Ex.regPlain with fwdTimeout := true, callees := [1] } 1 = true := by decide +kernel

/-- A later chunk of a pending progressive call (callee has room) arms a timer again, with the timeout of the
    FIRST chunk's options, unless the first chunk's registration forwards timeouts (`v0.fwdTimeout`, recorded in
    the invocation); the timer recorded by the previous chunk (`v0.timer`) is CANCELLED first (dealer.go
    `if invk.timerCancel != nil { invk.timerCancel() }`), so the call's timeout restarts with every chunk and at
    most one live timer exists per pending call (`C13_timer_unique`).  Without a router-side timeout the timer
    table is unchanged. -/
theorem C13_later_chunk_timer {env : DEnv} {s : DState} {caller : SessKey} {req : Nat} {opts : Dict}
    (proc : String) (args : List WVal) (kw : Dict) (rnd : Nat) {iid : ReqId} {v0 : Invk}
    (hb : s.d.byCall? ⟨caller, req⟩ = some iid)
    (hprog : (opts.optFlag OptProgress && !hasFeat env caller RoleCaller FeatureProgCallInvocations) = false)
    (hfi : s.d.findInv iid = some v0) (hf : env.full v0.callee = false) :
    (syncCall env s caller req opts proc args kw rnd).st.timers =
      (if optTimeout v0.options > 0 && !forwardsF env v0.fwdTimeout v0.callee
       then (s.cancelTimer v0.timer).timers ++ [newTimer env s caller req (optTimeout v0.options).toNat]
       else s.timers) := by
  rw [syncCall_later proc args kw rnd hprog hb hfi, laterChunk_ok caller req opts args kw iid hf]
  simp only
  unfold routerTimeoutF
  by_cases hc : (decide (optTimeout v0.options > 0) && !forwardsF env v0.fwdTimeout v0.callee) = true
  · rw [if_pos hc, if_pos hc]
    have hpos : 0 < (optTimeout v0.options).toNat := by
      have : optTimeout v0.options > 0 := by
        simp only [Bool.and_eq_true, decide_eq_true_eq] at hc; exact hc.1
      omega
    rw [armTimer_pos hpos, preCancel_pos _ _ hpos]
    simp only [newTimer, cancelTimer_nextTimer, cancelTimer_timers]
  · rw [if_neg hc, if_neg hc, armTimer_zero, preCancel_zero]

/-- two chunks: the first chunk's timer (deadline 100) is cancelled by the second chunk, which arms timer 2
    (deadline 150); the invocation records the second -/
example : Ex.sProgT2.timers.map (fun t => (t.id, t.deadline, t.canceled)) = [(1, 100, true), (2, 150, false)] ∧
    Ex.sProgT2.d.invs.map (·.timer) = [some 2] := by
  decide +kernel

/-! ### timeouts: firing -/

/-- NEVER EARLIER / A CANCELLED TIMER NEVER FIRES.  During `advance … target` (a tick to time `target`) a call
    timer fires only if it is in the table, not cancelled and its deadline is `≤ target`; among the due timers
    the earliest fires first; and it fires with the clock at its deadline (or at once if overdue). -/
theorem C13_timeout_not_before {target : Nat} {r r' : Realm} {evs : List (Realm × Realm.Due)} (h : Realm.Adv target r evs r')
    (p : Realm × Realm.Due) (hp : p ∈ evs) (t : Timer) (ht : p.2 = .timer t) :
    t ∈ p.1.ds.timers ∧ t.canceled = false ∧ t.deadline ≤ target ∧
      (∀ t' ∈ Realm.dueTimers p.1 target, t.deadline ≤ t'.deadline) ∧
      Realm.fireDue p.1 (.timer t) =
        Realm.drain Realm.taskFuel (({ p.1 with now := max p.1.now t.deadline } : Realm).timerDue t) := by
  obtain ⟨h1, h2, h3, h4⟩ := h.fired p hp t ht
  exact ⟨h1, h2, h3, h4, rfl⟩

/-- `Realm.advance` is `Adv` unless its fuel (10000 timed events per tick in `Realm.step`) runs out. -/
theorem C13_advance_is_adv (target fuel : Nat) (r : Realm) :
    Realm.FuelOut target fuel r ∨ ∃ evs, Realm.Adv target r evs (Realm.advance fuel r target) :=
  Realm.advance_adv target fuel r

/-- EXACTLY WHEN IT EXPIRES.  After a tick that reaches `target`, no armed, not-cancelled timer with deadline
    `≤ target` is left in the table: every timer whose deadline was reached has fired in this tick (or was
    cancelled because its call completed) — timers leave the table only by firing (`C13_timers_persist`). -/
theorem C13_timeout_all_fired {target : Nat} {r r' : Realm} {evs : List (Realm × Realm.Due)} (h : Realm.Adv target r evs r') :
    (∀ t ∈ r'.ds.timers, t.canceled = false → target < t.deadline) ∧ r'.now = target := by
  obtain ⟨h1, _, h3⟩ := h.none_left
  refine ⟨fun t ht hc => ?_, h3⟩
  apply Classical.byContradiction
  intro hlt
  have : t ∈ Realm.dueTimers r' target :=
    List.mem_filter.2 ⟨ht, by simp only [hc, Bool.not_false, Bool.true_and, decide_eq_true_eq]; omega⟩
  rw [h1] at this; cases this

/-- What a firing timer does when its call is pending and no cancel is outstanding: as CANCEL killnowait with
    reason wamp.error.timeout — the call is removed, the caller gets exactly one ERROR wamp.error.timeout,
    the callee one INTERRUPT{mode killnowait} iff it can be interrupted. -/
theorem C13_timeout_effect {env : DEnv} {s : DState} (h : DealerInv s) {v : Invk} (hv : v ∈ s.d.invs)
    (hcan : v.canceled = false) :
    syncCancel env s v.callId.sess v.callId.req CancelModeKillNoWait ErrTimeout [.str "<text>"] =
      { st := { cancelMark s v with d := (cancelMark s v).d.forget v.callId v.id }
        sends := (if canInterrupt env v CancelModeKillNoWait
                  then [interruptOf v v.id CancelModeKillNoWait ErrTimeout] else []) ++
                 [callErr v.callId [] ErrTimeout [.str "<text>"] []] } :=
  C13_killnowait h hv hcan _ _

/-- the timer of the two-chunk call `Ex.sProgT2` that is recorded in the invocation (timer 2, deadline 150) fires: the
    call is ended; the first chunk's timer 1 (deadline 100) is cancelled and never due -/
example : (syncCancel Ex.env100 { Ex.sProgT2 with timers := Ex.sProgT2.timers.filter (fun y => y.id != 2) } 2 8
      CancelModeKillNoWait ErrTimeout [.str "<text>"]).sends.map Ex.summary = [(1, 69, none, false), (2, 8, some 8, true)] ∧
    (syncCancel Ex.env100 { Ex.sProgT2 with timers := Ex.sProgT2.timers.filter (fun y => y.id != 2) } 2 8
      CancelModeKillNoWait ErrTimeout [.str "<text>"]).st.d.calls = [] ∧
    (Ex.sProgT2.timers.filter (fun t => !t.canceled && decide (t.deadline ≤ 100))).map (·.id) = [] := by decide +kernel

/-- What a firing timer does otherwise — its (caller, request) is not pending (the call completed, or the timer
    is a stale one of an earlier chunk) or a kill-mode cancel is outstanding: nothing but leaving the table. -/
theorem C13_timeout_stale (r : Realm) (t : Timer)
    (hst : (⟨t.caller, t.req⟩ : ReqId) ∉ r.ds.d.calls ∨
      (DealerInv r.ds ∧ ∃ v ∈ r.ds.d.invs, v.callId = ⟨t.caller, t.req⟩ ∧ v.canceled = true)) :
    (r.timerDue t).ds = { r.ds with timers := r.ds.timers.filter (fun y => y.id != t.id) } := by
  rw [Realm.timerDue_ds]
  rcases hst with hc | ⟨h, v, hv, hvc, hcan⟩
  · rw [syncCancel_not_pending _ _ _ (by exact hc)]
  · have h' := h.filterTimers (fun y => y.id != t.id)
    have := syncCancel_canceled (env := r.denv) h' (c := ⟨t.caller, t.req⟩) hv hvc hcan
      CancelModeKillNoWait ErrTimeout [.str "<text>"]
    rw [this]

/-- No `sync*` function removes a timer from the table, changes its call or deadline, or revives a cancelled one:
    timers leave the table only in `Realm.timerDue`, when they fire.  Across ANY step of the dealer, a timer of the
    table either is still there — same id, call, deadline, and cancelled if it was — or the step is the expiry
    bookkeeping `dropTimers p` (`Realm.timerDue` uses `p = (·.id ≠ fired.id)`) and `p` rejects that timer. -/
theorem C13_timers_persist {s : DState} {o : DOut} (st : DStep s o) {t : Timer} (ht : t ∈ s.timers) :
    (∃ t' ∈ o.st.timers, t'.id = t.id ∧ t'.caller = t.caller ∧ t'.req = t.req ∧ t'.deadline = t.deadline ∧
      (t.canceled = true → t'.canceled = true)) ∨
    (∃ p, o = { st := { s with timers := s.timers.filter p } } ∧ p t = false) := by
  rcases st.timer_persists_or_dropped ht with ⟨t', h1, h2, h3⟩ | hdrop
  · simp only [Timer.shape, Prod.mk.injEq] at h2
    exact Or.inl ⟨t', h1, h2.1, h2.2.1, h2.2.2.1, h2.2.2.2, h3⟩
  · exact Or.inr hdrop

/-- both alternatives occur: a CALL keeps timer 1 of `Ex.sTimed`; the bookkeeping step that rejects it drops it -/
example : (∃ t ∈ Ex.sTimed.timers, t.id = 1) ∧
    ({ Ex.sTimed with timers := Ex.sTimed.timers.filter (fun y => y.id != 1) } : DState).timers = [] := by
  decide +kernel

/-- NEVER AFTER THE CALL COMPLETED.  When a step (ANY step) removes a call (final reply, cancel, callee or caller
    gone), the timer recorded in its invocation is cancelled in the same step, hence never fires
    (`C13_timeout_not_before`, `C13_timers_persist`); and a pending call has no other live timer
    (`C13_timer_owned`). -/
theorem C13_timeout_cancelled_on_completion {s : DState} {o : DOut} (h : DealerInv s) (st : DStep s o)
    {v : Invk} (hv : v ∈ s.d.invs) {tid : Nat} (hvt : v.timer = some tid) (hgone : v.callId ∉ o.st.d.calls)
    {t : Timer} (ht : t ∈ s.timers) (hid : t.id = tid) :
    ∀ t' ∈ o.st.timers, t'.id = tid → t'.canceled = true :=
  st.completion_cancels_timer h hv hvt hgone ht hid

/-- NO STALE TIMERS (invariant, part of `DealerInv`, hence true in every reachable dealer state and — through
    `RealmInv.dinv` — in every reachable realm state).  Every armed, not cancelled timer in the table is THE timer
    recorded in the stored invocation of its call, and that call is pending: no live timer survives the call it was
    armed for (whatever ended the call), and none survives a later chunk that re-armed the timeout. -/
theorem C13_timer_owned {s : DState} (h : DealerInv s) {t : Timer} (ht : t ∈ s.timers) (hc : t.canceled = false) :
    ∃ v ∈ s.d.invs, v.callId = ⟨t.caller, t.req⟩ ∧ v.timer = some t.id ∧ (⟨t.caller, t.req⟩ : ReqId) ∈ s.d.calls := by
  obtain ⟨v, hv, hvc, hvt⟩ := h.aux.timerOwned t ht hc
  exact ⟨v, hv, hvc, hvt, hvc ▸ (h.call.inv_call hv).1⟩

/-- AT MOST ONE LIVE TIMER PER CALL: two armed, not cancelled timers for the same (caller, request) are the same
    table entry. -/
theorem C13_timer_unique {s : DState} (h : DealerInv s) {t1 t2 : Timer} (h1 : t1 ∈ s.timers) (h2 : t2 ∈ s.timers)
    (hc1 : t1.canceled = false) (hc2 : t2.canceled = false) (hcaller : t1.caller = t2.caller) (hreq : t1.req = t2.req) :
    t1 = t2 := by
  obtain ⟨v1, hv1, hvc1, hvt1⟩ := h.aux.timerOwned t1 h1 hc1
  obtain ⟨v2, hv2, hvc2, hvt2⟩ := h.aux.timerOwned t2 h2 hc2
  have : v1 = v2 := nodup_map_inj h.call.invCalls hv1 hv2 (by rw [hvc1, hvc2, hcaller, hreq])
  subst this
  rw [hvt1] at hvt2
  exact nodup_map_inj h.aux.timerIds h1 h2 (Option.some.inj hvt2)

/-- the reachable two-chunk state `Ex.sProgT2` has two timers for call (2, 8); only the second is live -/
example : DealerInv Ex.sProgT2 ∧
    Ex.sProgT2.timers.map (fun t => (t.id, t.caller, t.req, t.canceled)) = [(1, 2, 8, true), (2, 2, 8, false)] :=
  ⟨Ex.sProgT2_reach.inv, by decide +kernel⟩

/-- the timed call of `Ex.sTimed` is answered by its callee: timer 1 is cancelled -/
example : (syncYield Ex.env Ex.sTimed 1 1 [] [] [] false true).st.timers.map (fun t => (t.id, t.canceled)) = [(1, true)] := by
  decide +kernel

/-! ### timeouts: the call's timer is live, the tick ends every call whose deadline it reaches -/

/-- a concrete reachable realm: callee 1 (call canceling, no call_timeout) registered "p", caller 2 called it with
    `timeout: 100` at time 0: invocation (1, 1), timer 1 with deadline 100 -/
def Ex.realmOps : List Realm.Op :=
  [ .join 1 false [] [(RoleCallee, [FeatureCallCanceling])] 8,
    .join 2 false [] [(RoleCaller, [])] 8,
    .msg 1 (.register 1 [] "p"),
    .msg 2 (.call 5 [(OptTimeout, .int 100)] "p" [] []) ]

def Ex.realmRun (r : Realm) (ops : List Realm.Op) : Realm := ops.foldl (fun r op => (r.step op).2) r

theorem Ex.realmRun_reachable {cfg : Config} : ∀ (ops : List Realm.Op) {r : Realm}, Realm.Reachable cfg r →
    Realm.Reachable cfg (Ex.realmRun r ops)
  | [], _, h => h
  | op :: ops, _, h => Ex.realmRun_reachable ops (.step op h)

def Ex.rTimed : Realm := Ex.realmRun ((Realm.create {}).getD default) Ex.realmOps

theorem Ex.rTimed_reachable : Realm.Reachable {} Ex.rTimed := by
  have hc : Realm.create {} = some ((Realm.create {}).getD default) := by
    have : (Realm.create {}).isSome = true := by decide +kernel
    cases h : Realm.create {} with
    | none => rw [h] at this; cases this
    | some r => rfl
  exact Ex.realmRun_reachable _ (.init hc)

set_option maxRecDepth 100000 in
theorem Ex.rTimed_facts :
    Ex.rTimed.ds.d.invs.map (fun v => (v.id, v.callId, v.canceled, v.timer, v.callee)) =
      [(⟨1, 1⟩, ⟨2, 5⟩, false, some 1, 1)] ∧
    Ex.rTimed.ds.timers.map (fun t => (t.id, t.deadline, t.caller, t.req, t.canceled)) = [(1, 100, 2, 5, false)] ∧
    Ex.rTimed.retries.length = 0 ∧ Ex.rTimed.now = 0 :=
  ⟨by decide +kernel, by decide +kernel, by decide +kernel, by decide +kernel⟩

/-- THE RECORDED TIMER IS LIVE (invariant of every reachable realm state, `WpB.Reachable.tinv`).  A pending, not
    cancelled call served by a client session whose invocation records a router-side timer `tid` has that timer in
    the table, armed and not cancelled, keyed by the call — unless the callee's handler currently sits in the retry
    loop of a non-progress YIELD for this very invocation (`WpB.parked`: the YIELD has stopped the timer, and the
    call ends when the loop ends, `C13_retry_bound`).  With `C13_timer_owned` / `C13_timer_unique`: a pending timed
    call and its live timer correspond one to one.

    (Invocations served by the meta session are exempt: the model lets the meta session park twice, see the
    header of `WpBTimerRealm.lean`.) -/
theorem C13_timer_live {cfg : Config} {r : Realm} (h : Realm.Reachable cfg r) {v : Invk} (hv : v ∈ r.ds.d.invs)
    (hcan : v.canceled = false) (hcl : v.callee ≠ metaKey) (hnp : ¬ WpB.parked r v.id) {tid : Nat}
    (hvt : v.timer = some tid) :
    ∃ t ∈ r.ds.timers, t.id = tid ∧ t.canceled = false ∧ t.caller = v.callId.sess ∧ t.req = v.callId.req := by
  have hd := h.inv.1.dinv
  have hlive : WpB.LiveT r.ds tid := by
    apply Classical.byContradiction
    intro hn
    rcases (WpB.Reachable.tinv h).live v.id ⟨v, hv, rfl, hcan, tid, hvt, hn⟩ with hm | hp
    · exact hcl ((hd.call.callee v hv).trans hm)
    · exact hnp hp
  obtain ⟨t, ht, hid, hc⟩ := hlive
  obtain ⟨_, _, h3⟩ := hd.aux.invTimer v hv tid hvt
  exact ⟨t, ht, hid, hc, (h3 t ht hid).1, (h3 t ht hid).2⟩

/-- … and how each step of the dealer keeps it (`WpB.dstep_liveStep`, a case analysis of every `sync*` function incl.
    both loops of `syncRemoveSession`): write `WpB.DeadInv s i` for "invocation `i` is stored, not cancelled, records a
    timer, and that timer is not live".  Across ANY `DStep` a new such invocation arises only (a) for the invocation a
    non-progress YIELD met a full caller queue for and was told to retry (`again`; the realm parks the handler in
    `retries`), or (b) when the expiry bookkeeping `dropTimers p` drops its recorded live timer (the realm does that
    only together with `syncCancel` for that very call: `WpB.timerFire_liveStep`). -/
theorem C13_timer_live_step {s : DState} {o : DOut} (h : DealerInv s) (st : DStep s o) (i : ReqId)
    (hd : WpB.DeadInv o.st i) : WpB.DeadInv s i ∨ WpB.Exc s o i :=
  WpB.dstep_liveStep h st i hd

/-- case (a) happens: the blocked final YIELD of `Ex.sTimed` stops timer 1 and keeps the call -/
example : (syncYield Ex.envCallerFull Ex.sTimed 1 1 [] [] [] false true).again = true ∧
    (syncYield Ex.envCallerFull Ex.sTimed 1 1 [] [] [] false true).st.timers.map (fun t => (t.id, t.canceled)) = [(1, true)] ∧
    (syncYield Ex.envCallerFull Ex.sTimed 1 1 [] [] [] false true).st.d.invs.map (fun v => (v.canceled, v.timer)) =
      [(false, some 1)] := by decide +kernel

/-- the hypotheses are met by the timed call of `Ex.rTimed` -/
example : ∃ v ∈ Ex.rTimed.ds.d.invs, v.canceled = false ∧ v.callee ≠ metaKey ∧ ¬ WpB.parked Ex.rTimed v.id ∧
    v.timer = some 1 := by
  obtain ⟨h1, _, h3, _⟩ := Ex.rTimed_facts
  cases hl : Ex.rTimed.ds.d.invs with
  | nil => rw [hl] at h1; cases h1
  | cons v rest =>
    rw [hl] at h1
    simp only [List.map_cons, List.cons.injEq, Prod.mk.injEq] at h1
    refine ⟨v, List.mem_cons_self .., h1.1.2.2.1, ?_, ?_, h1.1.2.2.2.1⟩
    · rw [h1.1.2.2.2.2]; decide
    · rintro ⟨x, hx, _⟩
      rw [List.length_eq_zero_iff.1 h3] at hx; cases hx

/-- EXACTLY WHEN IT EXPIRES.  After a tick to time `target` (relational form `Realm.Adv` of `Realm.advance`,
    `C13_advance_is_adv`), started in a state satisfying the invariants (every reachable state does), every pending,
    not cancelled, not parked call served by a client that records a router-side timer has that timer live with a
    deadline AFTER `target`.  So no call outlives the deadline of its timeout across a tick: a call whose deadline is
    reached by the tick has been ended in that tick — by its timer, which fires at its deadline
    (`C13_timeout_not_before`) with `syncCancel(killnowait, wamp.error.timeout)` (`C13_timeout_effect`), unless
    something else completed it first — or is cancelled in kill mode (waiting for the callee), or parked in the
    bounded retry loop of its final YIELD, or has had its timeout restarted by a later chunk (`C13_later_chunk_timer`:
    then `v.timer` names the new timer, whose deadline is later). -/
theorem C13_timeout_exact {target : Nat} {r r' : Realm} {evs : List (Realm × Realm.Due)} (h : Realm.Adv target r evs r')
    (hi : Realm.RealmInv r) (hp : Realm.FuelOnly r.panic) (ht : WpB.TimerInv r)
    {v : Invk} (hv : v ∈ r'.ds.d.invs) (hcan : v.canceled = false) (hcl : v.callee ≠ metaKey)
    (hnp : ¬ WpB.parked r' v.id) {tid : Nat} (hvt : v.timer = some tid) :
    ∃ t ∈ r'.ds.timers, t.id = tid ∧ t.canceled = false ∧ target < t.deadline ∧ r'.now = target := by
  obtain ⟨_, hi', _, ht'⟩ := WpB.Adv.inv h hi hp ht
  have hlive : WpB.LiveT r'.ds tid := by
    apply Classical.byContradiction
    intro hn
    rcases ht'.live v.id ⟨v, hv, rfl, hcan, tid, hvt, hn⟩ with hm | hpk
    · exact hcl ((hi'.dinv.call.callee v hv).trans hm)
    · exact hnp hpk
  obtain ⟨t, htm, hid, hc⟩ := hlive
  obtain ⟨h1, h2⟩ := C13_timeout_all_fired h
  exact ⟨t, htm, hid, hc, h1 t htm hc, h2⟩

/-- … for a tick of the reachable realm: after `step (.tick ms)` (unless the model's fuel of 10000 timed events per
    tick ran out) no pending, not cancelled, not parked, client-served timed call has a deadline `≤ now`. -/
theorem C13_timeout_exact_tick {cfg : Config} {r : Realm} (h : Realm.Reachable cfg r) (ms : Nat)
    (hfuel : ¬ Realm.FuelOut (r.now + ms) 10000 r)
    {v : Invk} (hv : v ∈ (r.step (.tick ms)).2.ds.d.invs) (hcan : v.canceled = false) (hcl : v.callee ≠ metaKey)
    (hnp : ¬ WpB.parked (r.step (.tick ms)).2 v.id) {tid : Nat} (hvt : v.timer = some tid) :
    ∃ t ∈ (r.step (.tick ms)).2.ds.timers, t.id = tid ∧ t.canceled = false ∧ r.now + ms < t.deadline ∧
      (r.step (.tick ms)).2.now = r.now + ms := by
  rcases Realm.advance_adv (r.now + ms) 10000 r with hf | ⟨evs, hadv⟩
  · exact absurd hf hfuel
  · have hfl : ∀ x : Realm, x.flush.2.ds = x.ds ∧ x.flush.2.retries = x.retries ∧ x.flush.2.now = x.now := by
      intro x
      unfold Realm.flush
      exact ⟨rfl, rfl, rfl⟩
    rw [Realm.step_tick] at hv hnp ⊢
    obtain ⟨e1, e2, e3⟩ := hfl (Realm.advance 10000 r (r.now + ms))
    rw [e1] at hv ⊢
    rw [e3]
    have hnp' : ¬ WpB.parked (Realm.advance 10000 r (r.now + ms)) v.id := by
      rintro ⟨x, hx, hxx⟩
      exact hnp ⟨x, e2 ▸ hx, hxx⟩
    exact C13_timeout_exact hadv h.inv.1 h.inv.2 (WpB.Reachable.tinv h) hv hcan hcl hnp' hvt

set_option maxRecDepth 100000 in
/-- the tick of 100 ms ends the timed call of `Ex.rTimed` (deadline 100): the caller gets ERROR wamp.error.timeout,
    the callee (call canceling) an INTERRUPT; a tick of 99 ms leaves the call pending with its timer -/
example :
    (Ex.rTimed.step (.tick 100)).2.ds.d.calls = [] ∧
    (Ex.rTimed.step (.tick 100)).1.out.map (fun q => (q.1, q.2.map Msg.typeCode)) = [(1, [69]), (2, [8])] ∧
    (Ex.rTimed.step (.tick 99)).2.ds.d.calls = [⟨2, 5⟩] ∧
    (Ex.rTimed.step (.tick 99)).2.ds.timers.map (fun t => (t.id, t.canceled)) = [(1, false)] :=
  ⟨by decide +kernel, by decide +kernel, by decide +kernel, by decide +kernel⟩

/-- NEVER EARLIER / THE RIGHT CALL.  Every call timer that fires during a tick is, at that moment, THE timer recorded
    in the invocation of its own pending call, and that call has no other live timer.  (No side condition about
    request-id reuse is needed: stale timers do not exist, `C13_timer_owned`.)  Since the timer recorded is the one
    armed by the call's latest chunk with deadline `arming time + min(timeout, max)` (`C13_forward`,
    `C13_later_chunk_timer`) and a timer fires with the clock at its deadline or later (`C13_timeout_not_before`), a
    call is never timed out before its timeout has passed. -/
theorem C13_timeout_not_early {target : Nat} {r r' : Realm} {evs : List (Realm × Realm.Due)} (h : Realm.Adv target r evs r')
    (hi : Realm.RealmInv r) (hp : Realm.FuelOnly r.panic) (ht : WpB.TimerInv r)
    (p : Realm × Realm.Due) (hpe : p ∈ evs) (t : Timer) (hpt : p.2 = .timer t) :
    ∃ v ∈ p.1.ds.d.invs, v.callId = ⟨t.caller, t.req⟩ ∧ v.timer = some t.id ∧
      (⟨t.caller, t.req⟩ : ReqId) ∈ p.1.ds.d.calls ∧ t.deadline ≤ target ∧
      ∀ t' ∈ p.1.ds.timers, t'.canceled = false → t'.caller = t.caller → t'.req = t.req → t' = t := by
  obtain ⟨hall, _⟩ := WpB.Adv.inv h hi hp ht
  have hd := (hall p hpe).1.dinv
  obtain ⟨h1, h2, h3, _⟩ := h.fired p hpe t hpt
  obtain ⟨v, hv, hvc, hvt, hpend⟩ := C13_timer_owned hd h1 h2
  exact ⟨v, hv, hvc, hvt, hpend, h3, fun t' ht' hc' hca hre => C13_timer_unique hd ht' h1 hc' h2 hca hre⟩

/-- the hypotheses of the two theorems are met: a tick from the reachable `Ex.rTimed` is an `Adv` -/
example : Realm.RealmInv Ex.rTimed ∧ Realm.FuelOnly Ex.rTimed.panic ∧ WpB.TimerInv Ex.rTimed ∧
    (Realm.FuelOut 100 10000 Ex.rTimed ∨ ∃ evs, Realm.Adv 100 Ex.rTimed evs (Realm.advance 10000 Ex.rTimed 100)) :=
  ⟨Ex.rTimed_reachable.inv.1, Ex.rTimed_reachable.inv.2, WpB.Reachable.tinv Ex.rTimed_reachable,
   Realm.advance_adv 100 10000 Ex.rTimed⟩

/-! ### the yield retry loop (`dealer.yield`, handler goroutine) -/

/-- A YIELD whose RESULT meets a full caller queue: the handler enters the retry loop — a `Retry` entry in phase 1
    (first retry 1 ms after the start) — and is busy. -/
theorem C13_retry_enter (r : Realm) (s : Session) (req : Nat) (opts : Dict) (args : List WVal) (kw : Dict)
    (ha : (syncYield r.denv r.ds s.key req opts args kw (opts.optFlag OptProgress) true).again = true) :
    ∃ x, (r.handleYield s req opts args kw).retries = r.retries ++ [x] ∧ x.callee = s.key ∧ x.start = r.now ∧
      Realm.InPhase x 1 ∧ (r.handleYield s req opts args kw).busy s.key = true :=
  Realm.handleYield_again r s req opts args kw ha

/-- when does the dealer answer "again": the YIELD is by the owner of a stored invocation, passthru is not misused,
    the caller's queue is full (and retries are allowed) -/
example {env : DEnv} {s : DState} (h : DealerInv s) {v : Invk} (hv : v ∈ s.d.invs) (opts : Dict) (args : List WVal)
    (kw : Dict) (progress : Bool) (hfull : env.full v.callId.sess = true)
    (h1 : yieldPptCalleeBad env v.id.sess opts = false) (h2 : yieldPptCallerBad env v.callId.sess opts = false) :
    (syncYield env s v.id.sess v.id.req opts args kw progress true).again = true := by
  have hf : s.d.findInv ⟨v.id.sess, v.id.req⟩ = some v := (findInv_eq_some h.call.invIds).2 ⟨hv, rfl⟩
  rw [syncYield_some' h.call opts args kw progress true hf, yieldOut_retry args kw progress v h1 h2 hfull]

example : (syncYield Ex.envCallerFull Ex.sCall 1 1 [] [] [] false true).again = true := by decide +kernel

/-- One turn of the loop, for an entry in phase `n` firing at its time (`r.now = x.next`, which is what
    `Realm.advance` arranges): retries are still allowed iff `n ≤ 15` (2^n − 1 < 60000).  If the dealer answers
    "again" (caller still full), the entry moves to phase `n+1` (same start, delay doubled) and the callee stays
    busy; otherwise the entry is gone. -/
theorem C13_retry_turn (r : Realm) (x : Retry) (n : Nat) (hp : Realm.InPhase x n) (hnow : r.now = x.next) :
    decide (r.now - x.start < Realm.sendResultDeadlineMs) = decide (n ≤ 15) ∧
    ((Realm.retryOut r x).again = true →
      n ≤ 15 ∧ ∃ x', (r.retryDue x).retries = r.retries.filter (fun y => y.callee != x.callee) ++ [x'] ∧
        x'.callee = x.callee ∧ x'.start = x.start ∧ Realm.InPhase x' (n + 1) ∧ (r.retryDue x).busy x.callee = true) ∧
    ((Realm.retryOut r x).again = false →
      (r.retryDue x).retries = r.retries.filter (fun y => y.callee != x.callee) ∧
      (r.retryDue x).busy x.callee = false) := by
  have hcr := Realm.phase_canRetry hp hnow
  refine ⟨hcr, fun ha => ?_, fun ha => ?_⟩
  · have h15 : n ≤ 15 := by
      have := Realm.retryOut_again_canRetry ha
      rw [hcr] at this
      simpa using this
    refine ⟨h15, { x with next := r.now + x.delay * 2, delay := x.delay * 2 },
      by rw [Realm.retryDue_retries, if_pos ha], rfl, rfl, Realm.phase_next hp hnow, ?_⟩
    unfold Realm.busy
    rw [Realm.retryDue_retries, if_pos ha]
    simp
  · refine ⟨by rw [Realm.retryDue_retries, if_neg (by simp [ha])], ?_⟩
    unfold Realm.busy
    rw [Realm.retryDue_retries, if_neg (by simp [ha])]
    exact Realm.not_busy_filter _ _

/-- THE BOUND.  An entry in phase `n` fires `2^n − 1` ms after the start of the loop.  In phase 16 — 65535 ms after
    the start, the first turn at or beyond 60000 ms — retrying is no longer allowed: the dealer is asked with
    `canRetry = false`, never answers "again", the loop ends and (caller still full, call not yet cancelled) the call
    is cancelled: its invocation removed, ERROR wamp.error.canceled attempted, the callee interrupted when possible
    (`C02_full_giveup`).  Phases beyond 16 are never reached (`C13_retry_turn`: phase n+1 only from n ≤ 15). -/
theorem C13_retry_bound (r : Realm) (x : Retry) (n : Nat) (hp : Realm.InPhase x n) (hnow : r.now = x.next) :
    x.next + 1 = x.start + 2 ^ n ∧
    (n ≤ 16 → x.next - x.start ≤ 65535) ∧
    (n = 16 → x.next - x.start = 65535 ∧ Realm.sendResultDeadlineMs ≤ r.now - x.start ∧
      Realm.retryOut r x =
        syncYield r.denv r.ds x.callee x.req x.opts x.args x.kw x.progress false ∧
      (Realm.retryOut r x).again = false ∧ (r.retryDue x).busy x.callee = false ∧
      (r.retryDue x).ds = (syncYield r.denv r.ds x.callee x.req x.opts x.args x.kw x.progress false).st) := by
  obtain ⟨h1, h2, h3⟩ := hp
  refine ⟨h2, fun hn => ?_, fun hn => ?_⟩
  · have : 2 ^ n ≤ 2 ^ 16 := Nat.pow_le_pow_right (by omega) hn
    omega
  · subst hn
    have hcr := Realm.phase_canRetry (x := x) (r := r) ⟨h1, h2, h3⟩ hnow
    have hcr' : decide (r.now - x.start < Realm.sendResultDeadlineMs) = false := by rw [hcr]; rfl
    have hout : Realm.retryOut r x = syncYield r.denv r.ds x.callee x.req x.opts x.args x.kw x.progress false := by
      unfold Realm.retryOut; rw [hcr']
    have hag : (Realm.retryOut r x).again = false := by rw [hout]; exact Realm.syncYield_not_again ..
    have h16 : (2 : Nat) ^ 16 = 65536 := by decide
    refine ⟨by omega, ?_, hout, hag, ?_, ?_⟩
    · simp only [decide_eq_false_iff_not, Nat.not_lt] at hcr'; exact hcr'
    · exact ((C13_retry_turn r x 16 ⟨h1, h2, h3⟩ hnow).2.2 hag).2
    · rw [Realm.retryDue_ds, hout]

/-- While the handler of `k` is in the retry loop, messages from `k` are not processed: `stepOp (.msg k m)` changes
    nothing but `inbox` — the message is appended there (it waits in the socket transport until the loop ends,
    `C07Realm_inbox_released`) when `k` is an attached, not ending, `buffered` session; for a linked peer (not
    `buffered`: the client cannot hand the message over) and for an unknown or ending session it is the identity.
    A departure is deferred likewise. -/
theorem C13_retry_busy (r : Realm) (k : SessKey) (m : Msg) (hb : r.busy k = true) :
    r.stepOp (.msg k m) =
      if ((r.clients.find? (fun c => c.key == k)).any (·.buffered) && !r.ending.contains k) = true
      then { r with inbox := r.inbox ++ [(k, m)] } else r :=
  Realm.stepOp_msg_busy r k m hb

end Nexus.C13
