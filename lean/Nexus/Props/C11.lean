/-
  C11 — Nothing crosses realm boundaries.

  Property text.  "Events, invocations, results, meta events, testaments and meta-API answers are
  confined to the realm in which they originate: a session never receives, observes through the
  meta API, or can affect (unsubscribe, unregister, cancel, yield to, kill) anything belonging to
  a session of another realm, even when URIs, request ids and router-assigned subscription or
  registration ids coincide across realms.  Adding or removing a realm does not disturb sessions
  of other realms."

  The theorems are about `Router.step` of `Nexus.L2.Router` (the router as a table of realms,
  mirroring router/router.go: `AttachClient` binds a session to exactly one realm, every later
  message of the session is dispatched to that realm).  They quantify over ARBITRARY router
  states: the other realms `B` may hold any subscriptions, registrations, calls, request ids,
  URIs — in particular ones coinciding with those of `A`.  The frame theorems need no invariant
  at all; the theorems about what is OBSERVED need the invariant `Router.Inv` (every realm is
  confined to the sessions that joined it), which holds in every reachable state
  (`C11_inv_reachable`).

  Vocabulary:  `rt.realmOf k`    the realm session k's operations are dispatched to;
               `rt.joined A k`   (k, A) ∈ rt.sessRealm: session k attached to realm A;
               `rt.others A`     the realm table without the entry named A;
               `Realm.Conf P r`  clients, outbound queues and just-closed peers of r are all
                                 sessions satisfying P.

  clause                                                       theorem
  -----------------------------------------------------------  -----------------------------------
  an operation (message, drop, stall, resume: any `Realm.Op`)  C11_frame
  of a session of A leaves every realm B ≠ A unchanged          (state equality, all fields)
  … also as lookup: `realm? B` unchanged for all B ≠ A          C11_frame_lookup
  … and everything observed (queue contents, closed peers)      C11_frame_observed
  concerns only sessions joined to A
  … what is observed and the new state of A are a function     C11_noninterference
  of the state of A alone (classic non-interference: "a
  session never receives/observes anything of another realm")
  a session unknown to the router / whose realm was removed     C11_unknown_session
  changes nothing and observes nothing
  attaching a session to A: B ≠ A unchanged, observed only A    C11_join_frame, C11_join_observed
  a realm template creates at most the one realm the joining    C11_template_creates_only_named
  session named, only when it was absent
  every realm holds only sessions joined to it; names distinct  C11_inv_step, C11_inv_reachable
  (the invariant, preserved by every operation)
  a session is held by at most one realm, and its operations    C11_sessions_partitioned,
  are dispatched to exactly that realm (keys attach once)       C11_dispatch_own_realm,
                                                               C11_attach_once_step
  "Adding or removing a realm does not disturb sessions of     C11_remove_add
  other realms": RemoveRealm A / AddRealm cfg leave the others
  unchanged; observed only A's sessions (shutdown GOODBYEs)
  Router.Close: the table is emptied; each realm's farewell    C11_close
  concerns its own sessions only
  the clock: every realm advances by its own `Realm.step`,     C11_tick
  pointwise; observed = concatenation of per-realm outputs
  meta-API answers are functions of the caller's realm only    C11_meta_confined (true by typing:
                                                               `Realm.metaProc` takes one `Realm`)
  HISTORIES: along two whole runs whose operations addressed   C11_run_noninterference
  to A coincide, A makes the same things observable and ends    (+ C11_run_part_is_filter: the part
  in the same state, whatever the other realms do in between    observed "on behalf of A" is the
  (their sessions' operations, joins, AddRealm, RemoveRealm,    router's observation filtered to A's
  creation from the template)                                   sessions; C11_create_modulo_pubbase,
                                                               C11_pubbase_shared_witness: why the
                                                               creation of A itself is excluded)
  the one thing the realms of a router DO share is the time:    C11_clock_step, C11_clock_shared_step,
  the router's clock is advanced by `tick` alone, a realm's     C11_clock_shared (over
  by its own `tick` alone and by exactly `ms`; every realm of   `Router.ReachableT`),
  the table shows the router's time (realms created later       C11_clock_shared_needs_untimed (why
  start at the current time), in every router reachable by      not over `Router.Reachable`: `ROp.wf`
  operations in which time passes through `ROp.tick` only       allows a tick wrapped into `ROp.sess`)
  sessions of a removed realm are inert: while the name is      C11_removed_sessions_inert,
  absent their operations do nothing; after a namesake has      C11_confined_to
  been added they observe nothing and cannot touch it
  reachable routers include those built with a realm template   Router.Reachable.init (t), example

  Coinciding URIs, request ids, subscription and registration ids: nothing in the statements
  restricts the state of the other realms, so the theorems hold in particular when realm B holds
  the same topic / procedure / ids as realm A (router-assigned subscription and registration ids
  DO coincide in the model: every realm's generators start at 0).

  NOTE on `ROp.sess k op`: the model type admits any `Realm.Op` as `op`, also a `join`; the
  router API (and the driver) produce only msg/drop/stall/resume of k.  The frame theorems hold
  for every `op`; the observation theorems and the invariant need `op` not to be a `join`
  (`ROp.wf`): sessions attach through `ROp.join` only.  The shared-clock theorems need `op` not to
  be a `tick` either (`ROp.untimedSess`): time passes through `ROp.tick` only.

  TRUSTED BASE specific to this file: that the real router has no state shared between realms
  is not a theorem about the model (the model is a table of independent `Realm`s — C11 is "true
  by construction" there) but the content of the tie: the multi-realm correspondence family
  (harness/l2, same histories in 2–4 realms with identical URIs and colliding ids) and the
  inventory of package-level variables (gen G6(e)).
-/
import Nexus.L2.Proofs.RouterFrame
import Nexus.L2.Proofs.WpDRouterRun
import Nexus.L2.Proofs.RouterClock

namespace Nexus.C11
open Nexus.L2 Nexus.L2.Router Nexus.L2.Realm

/-! ## Session operations -/

/-- FRAME.  An operation of a session dispatched to realm `A` returns every other realm of the
    table unchanged (equality of the whole realm state), keeps the realm names and the
    session→realm map; for every router state whatsoever. -/
theorem C11_frame (rt : Router) (k : SessKey) (op : Realm.Op) (A : String) (_hA : rt.realmOf k = some A) :
    (rt.step (.sess k op)).2.others A = rt.others A ∧
    (rt.step (.sess k op)).2.realms.map (·.1) = rt.realms.map (·.1) ∧
    (rt.step (.sess k op)).2.sessRealm = rt.sessRealm ∧
    (rt.step (.sess k op)).2.closed = rt.closed := by
  cases hr : rt.realm? A with
  | none => rw [step_sess_gone _hA hr]; exact ⟨rfl, rfl, rfl, rfl⟩
  | some r =>
    rw [step_sess_some _hA hr]
    exact ⟨others_setRealm _ _ _, names_setRealm _ _ _, rfl, rfl⟩

-- non-vacuity: a router with two realms, session 1 attached to "a"; "b" is an "other" realm
example : ∃ rt : Router, rt.realmOf 1 = some "a" ∧ (rt.others "a").map (·.1) = ["b"] :=
  ⟨{ realms := [("a", {}), ("b", {})], sessRealm := [(1, "a"), (2, "b")] }, by decide, by decide⟩

/-- The same as a lookup: whatever a session of `A` does, `realm? B` is the same realm afterwards. -/
theorem C11_frame_lookup (rt : Router) (k : SessKey) (op : Realm.Op) (A B : String)
    (hA : rt.realmOf k = some A) (hB : B ≠ A) :
    (rt.step (.sess k op)).2.realm? B = rt.realm? B :=
  realm?_of_others hB (C11_frame rt k op A hA).1

/-- A session the router does not know (or whose realm has been removed) changes nothing and
    nothing is observed. -/
theorem C11_unknown_session (rt : Router) (k : SessKey) (op : Realm.Op)
    (h : rt.realmOf k = none ∨ ∃ A, rt.realmOf k = some A ∧ rt.realm? A = none) :
    (rt.step (.sess k op)).2 = rt ∧ (rt.step (.sess k op)).1.out = [] ∧ (rt.step (.sess k op)).1.closed = [] := by
  rcases h with h | ⟨A, h, hr⟩
  · rw [step_sess_unknown h]; exact ⟨rfl, rfl, rfl⟩
  · rw [step_sess_gone h hr]; exact ⟨rfl, rfl, rfl⟩

/-- OBSERVATION.  In a router satisfying the invariant, whatever an operation of a session of
    `A` makes observable — the contents of router→client queues (`out`: EVENT, INVOCATION, RESULT,
    ERROR, meta events, testament events, GOODBYE/ABORT …) and closed peers — concerns sessions
    attached to `A` only. -/
theorem C11_frame_observed (rt : Router) (hi : rt.Inv) (k : SessKey) (op : Realm.Op) (hop : op.isJoin = false)
    (A : String) (hA : rt.realmOf k = some A) :
    (∀ q ∈ (rt.step (.sess k op)).1.out, rt.joined A q.1) ∧
    (∀ k' ∈ (rt.step (.sess k op)).1.closed, rt.joined A k') := by
  cases hr : rt.realm? A with
  | none => rw [step_sess_gone hA hr]; exact ⟨fun _ hq => (nomatch hq), fun _ hq => (nomatch hq)⟩
  | some r =>
    rw [step_sess_some hA hr]
    have hj : ∀ k l d ro c, op = .join k l d ro c → rt.joined A k := by
      intro k l d ro c e; rw [e] at hop; cases hop
    exact ((hi.conf _ (realm?_mem hr)).step op hj).2

-- non-vacuity: the empty router satisfies the invariant; so does every reachable one (below)
example : Router.Inv {} := ⟨List.nodup_nil, fun p hp => by cases hp⟩
example : (Realm.Op.msg 1 (.other 99)).isJoin = false ∧ (Realm.Op.drop 1).isJoin = false := ⟨rfl, rfl⟩

/-- NON-INTERFERENCE.  What an operation of a session of `A` makes observable, and the new state
    of `A`, are determined by the state of `A` alone: two routers that agree on realm `A` (and on
    where `k` is dispatched) but differ arbitrarily elsewhere produce the same observation and the
    same new realm `A`.  So nothing of another realm is received or observed through any message,
    including every meta-API call. -/
theorem C11_noninterference (rt₁ rt₂ : Router) (k : SessKey) (op : Realm.Op) (A : String)
    (h₁ : rt₁.realmOf k = some A) (h₂ : rt₂.realmOf k = some A) (hr : rt₁.realm? A = rt₂.realm? A) :
    (rt₁.step (.sess k op)).1 = (rt₂.step (.sess k op)).1 ∧
    (rt₁.step (.sess k op)).2.realm? A = (rt₂.step (.sess k op)).2.realm? A := by
  cases hr1 : rt₁.realm? A with
  | none =>
    rw [step_sess_gone h₁ hr1, step_sess_gone h₂ (hr ▸ hr1)]
    exact ⟨rfl, hr⟩
  | some r =>
    have hr2 : rt₂.realm? A = some r := hr ▸ hr1
    rw [step_sess_some h₁ hr1, step_sess_some h₂ hr2]
    refine ⟨rfl, ?_⟩
    rw [realm?_setRealm_self _ hr1, realm?_setRealm_self _ hr2]

/-! ## Attaching a session -/

/-- Attaching a session to realm `A` leaves every realm that existed before and is not named `A`
    unchanged; the table of realm names is kept, or extended at the end by `A` itself (on-demand
    creation from the realm template, see `C11_template_creates_only_named`); the session→realm map
    only grows (by `(k, A)`, when the join is accepted). -/
theorem C11_join_frame (rt : Router) (A : String) (k : SessKey) (isLocal : Bool) (details : Dict)
    (roles : Roles) (cap : Nat) :
    (rt.step (.join A k isLocal details roles cap)).2.others A = rt.others A ∧
    ((rt.step (.join A k isLocal details roles cap)).2.realms.map (·.1) = rt.realms.map (·.1) ∨
     (rt.step (.join A k isLocal details roles cap)).2.realms.map (·.1) = rt.realms.map (·.1) ++ [A]) ∧
    ((rt.step (.join A k isLocal details roles cap)).2.sessRealm = rt.sessRealm ∨
     (rt.step (.join A k isLocal details roles cap)).2.sessRealm = rt.sessRealm ++ [(k, A)]) := by
  have hnames : (rt.ensureRealm A).realms.map (·.1) = rt.realms.map (·.1) ∨
      (rt.ensureRealm A).realms.map (·.1) = rt.realms.map (·.1) ++ [A] := by
    rcases (ensureRealm_fields rt A).2.2.2 with h | ⟨_, r, h⟩
    · exact Or.inl (by rw [h])
    · exact Or.inr (by rw [h]; simp)
  have hsess := (ensureRealm_fields rt A).1
  cases hc : (rt.closed || A == "") with
  | true => rw [step_join_refused hc]; exact ⟨rfl, Or.inl rfl, Or.inl rfl⟩
  | false =>
    cases hr : (rt.ensureRealm A).realm? A with
    | none => rw [step_join_none hc hr]; exact ⟨others_ensureRealm rt A, hnames, Or.inl hsess⟩
    | some r =>
      rw [step_join_some hc hr]
      refine ⟨(others_setRealm _ _ _).trans (others_ensureRealm rt A), ?_, Or.inr (by rw [hsess])⟩
      have : ({ (rt.ensureRealm A).setRealm A (r.step (.join k isLocal details roles cap)).2 with
            sessRealm := (rt.ensureRealm A).sessRealm ++ [(k, A)] } : Router).realms.map (·.1) =
          (rt.ensureRealm A).realms.map (·.1) := names_setRealm _ _ _
      rw [this]
      exact hnames

/-- On-demand realm creation (`Config.RealmTemplate`).  A join to `A` adds AT MOST ONE realm to the
    table, at the end, and it is named `A`; this happens only if no realm `A` existed, a template
    is configured, the router is open, `A ≠ ""`, and `Realm.create` accepts the template under the
    name `A`.  Every other operation that is not `addRealm` adds none (`C11_frame`,
    `C11_remove_add`, `C11_tick`, `C11_close`).  So a template never creates or touches a realm
    other than the one the joining session named. -/
theorem C11_template_creates_only_named (rt : Router) (A : String) (k : SessKey) (isLocal : Bool) (details : Dict)
    (roles : Roles) (cap : Nat) :
    (rt.step (.join A k isLocal details roles cap)).2.realms.map (·.1) = rt.realms.map (·.1) ∨
    ((rt.step (.join A k isLocal details roles cap)).2.realms.map (·.1) = rt.realms.map (·.1) ++ [A] ∧
      rt.realm? A = none ∧ (rt.closed || A == "") = false ∧
      ∃ t r, rt.template = some t ∧ Realm.create { t with uri := A } = some r) := by
  have hnames : (rt.ensureRealm A).realms.map (·.1) = rt.realms.map (·.1) ∨
      ((rt.ensureRealm A).realms.map (·.1) = rt.realms.map (·.1) ++ [A] ∧ rt.realm? A = none ∧
        ∃ t r, rt.template = some t ∧ Realm.create { t with uri := A } = some r) := by
    rcases ensureRealm_cases rt A with h | ⟨hn, t, r, ht, hcr, h⟩
    · exact Or.inl (by rw [h])
    · exact Or.inr ⟨by rw [h]; simp, hn, t, r, ht, hcr⟩
  cases hc : (rt.closed || A == "") with
  | true => rw [step_join_refused hc]; exact Or.inl rfl
  | false =>
    have key : (rt.step (.join A k isLocal details roles cap)).2.realms.map (·.1) = (rt.ensureRealm A).realms.map (·.1) := by
      cases hr : (rt.ensureRealm A).realm? A with
      | none => rw [step_join_none hc hr]
      | some r => rw [step_join_some hc hr]; exact names_setRealm _ _ _
    rw [key]
    rcases hnames with h | ⟨h1, h2, h3⟩
    · exact Or.inl h
    · exact Or.inr ⟨h1, h2, rfl, h3⟩

-- non-vacuity: without a template (the default) a join never adds a realm
example (rt : Router) (h : rt.template = none) (A : String) : rt.ensureRealm A = rt := by
  rcases ensureRealm_cases rt A with e | ⟨_, t, _, ht, _, _⟩
  · exact e
  · rw [h] at ht; cases ht

/-- What a join makes observable (e.g. `wamp.session.on_join` events) concerns sessions attached
    to `A` only (the joining session included) — also when `A` has just been created from the
    template. -/
theorem C11_join_observed (rt : Router) (hi : rt.Inv) (A : String) (k : SessKey) (isLocal : Bool)
    (details : Dict) (roles : Roles) (cap : Nat) :
    (∀ q ∈ (rt.step (.join A k isLocal details roles cap)).1.out,
        (rt.step (.join A k isLocal details roles cap)).2.joined A q.1) ∧
    (∀ k' ∈ (rt.step (.join A k isLocal details roles cap)).1.closed,
        (rt.step (.join A k isLocal details roles cap)).2.joined A k') := by
  cases hc : (rt.closed || A == "") with
  | true => rw [step_join_refused hc]; exact ⟨fun _ hq => (nomatch hq), fun _ hq => (nomatch hq)⟩
  | false =>
    have hi' : (rt.ensureRealm A).Inv := hi.ensureRealm A
    cases hr : (rt.ensureRealm A).realm? A with
    | none => rw [step_join_none hc hr]; exact ⟨fun _ hq => (nomatch hq), fun _ hq => (nomatch hq)⟩
    | some r =>
      rw [step_join_some hc hr]
      have h0 : Conf (fun k' => (k', A) ∈ (rt.ensureRealm A).sessRealm ++ [(k, A)]) r :=
        (hi'.conf _ (realm?_mem hr)).mono (fun k' hk' => List.mem_append_left _ hk')
      refine (h0.step (.join k isLocal details roles cap) ?_).2
      intro k' l' d' ro' c' e
      cases e
      exact List.mem_append_right _ (List.mem_singleton.mpr rfl)

/-! ## The invariant -/

/-- Every operation of the router API preserves: realm names are distinct and every realm's
    clients, queues and closed peers are sessions that joined THAT realm. -/
theorem C11_inv_step (rt : Router) (hi : rt.Inv) (rop : ROp) (hw : rop.wf) : (rt.step rop).2.Inv :=
  hi.step rop hw

/-- … hence it holds in every state reachable from the initial router: the realms of
    `Router.create cfgs` together with ANY realm template (`Router.Reachable.init t`; the template
    is fixed at construction, `Router.step_template`).  Routers with a realm template — the ones
    the driver and the harness run (`{ r' with template := tmpl }`) — are covered. -/
theorem C11_inv_reachable (rt : Router) (h : Router.Reachable rt) : rt.Inv := h.inv

-- non-vacuity: the empty configuration gives a reachable router; so do all operations on it
example : Router.Reachable {} := .init (cfgs := []) none rfl
example : Router.Reachable ((({} : Router).step (.addRealm {})).2) :=
  .step _ (.init (cfgs := []) none rfl) trivial
-- a router built by `Router.create` alone (no template) is reachable
example (cfgs : List Config) (rt : Router) (h : Router.create cfgs = some rt) : Router.Reachable rt := .init0 h

/-- the router with no static realm and the realm template `t` -/
def templateRouter (t : Config) : Router := { template := some t }

-- non-vacuity for TEMPLATE routers: the router whose only configuration is a realm template is
-- reachable, it keeps the template, and so is the router after a session joined the not yet
-- existing realm "x" (created on demand from the template) — hence both satisfy the invariant.
example (t : Config) : Router.Reachable (templateRouter t) := .init (cfgs := []) (some t) rfl
example (t : Config) : (templateRouter t).template = some t := rfl
example (t : Config) : Router.Reachable ((templateRouter t).step (.join "x" 1 false [] {} 8)).2 :=
  .step _ (.init (cfgs := []) (some t) rfl) trivial
example (t : Config) : ((templateRouter t).step (.join "x" 1 false [] {} 8)).2.Inv :=
  C11_inv_reachable _ (.step _ (.init (cfgs := []) (some t) rfl) trivial)
example (t : Config) : ((templateRouter t).step (.join "x" 1 false [] {} 8)).2.template = some t :=
  Router.step_template _ _

/-- If session keys attach at most once (the real router draws a fresh random session id per
    attach), no session is held by two realms. -/
theorem C11_sessions_partitioned (rt : Router) (hi : rt.Inv) (hn : (rt.sessRealm.map (·.1)).Nodup)
    (p q : String × Realm) (hp : p ∈ rt.realms) (hq : q ∈ rt.realms)
    (c c' : Session) (hc : c ∈ p.2.clients) (hc' : c' ∈ q.2.clients) (hk : c.key = c'.key) : p = q := by
  have h1 : (c.key, p.1) ∈ rt.sessRealm := (hi.conf p hp).1 c hc
  have h2 : (c.key, q.1) ∈ rt.sessRealm := hk ▸ (hi.conf q hq).1 c' hc'
  have hpq : p.1 = q.1 := by
    have := pair_eq_of_nodup_fst hn h1 h2 rfl
    exact congrArg Prod.snd this
  exact pair_eq_of_nodup_fst hi.names hp hq hpq

/-- … and the operations of a session are dispatched to exactly the realm that holds it. -/
theorem C11_dispatch_own_realm (rt : Router) (hi : rt.Inv) (hn : (rt.sessRealm.map (·.1)).Nodup)
    (p : String × Realm) (hp : p ∈ rt.realms) (c : Session) (hc : c ∈ p.2.clients) :
    rt.realmOf c.key = some p.1 := by
  have h1 : (c.key, p.1) ∈ rt.sessRealm := (hi.conf p hp).1 c hc
  unfold realmOf
  rw [find?_fst_of_nodup hn h1]
  rfl

/-- "keys attach at most once" is preserved by every operation whose joins use fresh keys. -/
theorem C11_attach_once_step (rt : Router) (hn : (rt.sessRealm.map (·.1)).Nodup) (rop : ROp)
    (hfresh : ∀ A k l d ro c, rop = .join A k l d ro c → ∀ x ∈ rt.sessRealm, x.1 ≠ k) :
    ((rt.step rop).2.sessRealm.map (·.1)).Nodup := by
  cases rop with
  | join A k l d ro c =>
    rcases (C11_join_frame rt A k l d ro c).2.2 with e | e
    · rw [e]; exact hn
    · rw [e, List.map_append, List.nodup_append]
      refine ⟨hn, by simp, ?_⟩
      intro a ha b hb
      have hb' : b = k := by simpa using hb
      rw [hb']
      obtain ⟨x, hx, rfl⟩ := List.mem_map.mp ha
      exact hfresh A k l d ro c rfl x hx
  | sess k op =>
    cases h : rt.realmOf k with
    | none => rw [step_sess_unknown h]; exact hn
    | some A => rw [(C11_frame rt k op A h).2.2.1]; exact hn
  | tick ms => rw [(tick_fields rt ms).1]; exact hn
  | rnd n => exact hn
  | close => exact hn
  | removeRealm A =>
    cases hr : rt.realm? A with
    | none => rw [step_remove_none hr]; exact hn
    | some r => rw [step_remove_some hr]; exact hn
  | addRealm cfg =>
    rw [step_add]
    split
    · exact hn
    · split <;> exact hn

/-! ## Adding and removing realms, closing the router -/

/-- `RemoveRealm A` and `AddRealm cfg` leave every other realm unchanged (an accepted `AddRealm`
    leaves ALL existing realms unchanged: the table is extended at the end); `RemoveRealm A`
    makes observable only farewells to sessions attached to `A`; `AddRealm` nothing. -/
theorem C11_remove_add (rt : Router) :
    (∀ A, (rt.step (.removeRealm A)).2.others A = rt.others A ∧
          (rt.step (.removeRealm A)).2.sessRealm = rt.sessRealm ∧
          (rt.Inv → (∀ q ∈ (rt.step (.removeRealm A)).1.out, rt.joined A q.1) ∧
                    (∀ k ∈ (rt.step (.removeRealm A)).1.closed, rt.joined A k))) ∧
    (∀ cfg, (∃ l, (rt.step (.addRealm cfg)).2.realms = rt.realms ++ l ∧ ∀ p ∈ l, p.1 = cfg.uri) ∧
            (rt.step (.addRealm cfg)).2.sessRealm = rt.sessRealm ∧
            (rt.step (.addRealm cfg)).1.out = [] ∧ (rt.step (.addRealm cfg)).1.closed = []) := by
  refine ⟨?_, ?_⟩
  · intro A
    cases hr : rt.realm? A with
    | none =>
      rw [step_remove_none hr]
      exact ⟨rfl, rfl, fun _ => ⟨fun _ hq => (nomatch hq), fun _ hq => (nomatch hq)⟩⟩
    | some r =>
      rw [step_remove_some hr]
      refine ⟨?_, rfl, ?_⟩
      · unfold others; simp only [List.filter_filter, Bool.and_self]
      · intro hi
        exact (shutdownRealm_conf (hi.conf _ (realm?_mem hr))).2
  · intro cfg
    rw [step_add]
    split
    · exact ⟨⟨[], by simp, fun _ hp => (nomatch hp)⟩, rfl, rfl, rfl⟩
    · split
      · exact ⟨⟨[_], rfl, fun p hp => by rw [List.mem_singleton.mp hp]⟩, rfl, rfl, rfl⟩
      · exact ⟨⟨[], by simp, fun _ hp => (nomatch hp)⟩, rfl, rfl, rfl⟩

/-- `Router.Close`: every realm says farewell to its own sessions only — the observation is the
    concatenation of the per-realm shutdown observations, each computed from that realm alone and
    (under the invariant) mentioning only sessions attached to it; the table is emptied. -/
theorem C11_close (rt : Router) :
    (rt.step .close).2.realms = [] ∧ (rt.step .close).2.closed = true ∧
    (rt.step .close).1.out = rt.realms.flatMap (fun p => (shutdownRealm p.2).1.out) ∧
    (rt.step .close).1.closed = rt.realms.flatMap (fun p => (shutdownRealm p.2).1.closed) ∧
    (rt.Inv → ∀ p ∈ rt.realms, (∀ q ∈ (shutdownRealm p.2).1.out, rt.joined p.1 q.1) ∧
                               (∀ k ∈ (shutdownRealm p.2).1.closed, rt.joined p.1 k)) := by
  rw [step_close]
  obtain ⟨h1, h2⟩ := closeFold_obs rt.realms {}
  refine ⟨rfl, rfl, ?_, ?_, ?_⟩
  · rw [h1]; rfl
  · rw [h2]; rfl
  · intro hi p hp
    exact (shutdownRealm_conf (hi.conf p hp)).2

/-! ## The clock -/

/-- Time passes in every realm independently: the new table is the old one with each realm
    advanced by its own `Realm.step (.tick ms)` (call timeouts, yield retries), and what becomes
    observable is the concatenation of the per-realm observations, each of which concerns that
    realm's sessions only. -/
theorem C11_tick (rt : Router) (hi : rt.Inv) (ms : Nat) :
    (rt.step (.tick ms)).2.realms = rt.realms.map (fun p => (p.1, (p.2.step (.tick ms)).2)) ∧
    (rt.step (.tick ms)).1.out = rt.realms.flatMap (fun p => (p.2.step (.tick ms)).1.out) ∧
    (rt.step (.tick ms)).1.closed = rt.realms.flatMap (fun p => (p.2.step (.tick ms)).1.closed) ∧
    (∀ p ∈ rt.realms, (∀ q ∈ (p.2.step (.tick ms)).1.out, rt.joined p.1 q.1) ∧
                      (∀ k ∈ (p.2.step (.tick ms)).1.closed, rt.joined p.1 k)) := by
  refine ⟨(step_tick_realms rt ms hi.names).1, ?_, ?_, ?_⟩
  · rw [step_tick_eq, (tickFold_obs ms rt.realms _).1]; rfl
  · rw [step_tick_eq, (tickFold_obs ms rt.realms _).2]; rfl
  · intro p hp
    exact ((hi.conf p hp).step (.tick ms) (fun _ _ _ _ _ e => by cases e)).2


/-! ## Sessions of a removed realm -/

/-- GENERAL FORM of confinement, for an arbitrary set `P` of sessions: if the realm the router
    holds under the name `A` is confined to `P` (its clients, queues and closed peers are in `P`),
    then whatever a session dispatched to `A` does — ALSO a session that is not in `P`, e.g. one that
    had joined a removed realm of the same name — everything observed concerns sessions in `P`
    only, and the realm stays confined to `P`.  (`C11_frame_observed` is the instance
    `P := rt.joined A`; here `P` can be finer than "ever joined a realm named `A`".) -/
theorem C11_confined_to (rt : Router) (A : String) (P : SessKey → Prop) (r : Realm) (hr : rt.realm? A = some r)
    (hP : Realm.Conf P r) (k : SessKey) (hk : rt.realmOf k = some A) (op : Realm.Op) (hop : op.isJoin = false) :
    (∀ q ∈ (rt.step (.sess k op)).1.out, P q.1) ∧ (∀ k' ∈ (rt.step (.sess k op)).1.closed, P k') ∧
    ∃ r', (rt.step (.sess k op)).2.realm? A = some r' ∧ Realm.Conf P r' := by
  rw [step_sess_some hk hr]
  have hj : ∀ k l d ro c, op = .join k l d ro c → P k := by
    intro k l d ro c e; rw [e] at hop; cases hop
  obtain ⟨h1, h2, h3⟩ := hP.step op hj
  exact ⟨h2, h3, _, realm?_setRealm_self _ hr, h1⟩

/-- a realm confined to the empty set of sessions has no clients, no queues, no closed peers -/
theorem conf_false_empty {r : Realm} (h : Realm.Conf (fun _ => False) r) :
    r.clients = [] ∧ r.queues = [] ∧ r.closedPeers = [] :=
  ⟨List.eq_nil_iff_forall_not_mem.mpr (fun c hc => h.1 c hc),
   List.eq_nil_iff_forall_not_mem.mpr (fun q hq => h.2.1 q hq),
   List.eq_nil_iff_forall_not_mem.mpr (fun k hk => h.2.2 k hk)⟩

/-- "Removing a realm does not disturb …", seen from the sessions of the REMOVED realm `A` (audit
    b4: `rt.joined A k` is by NAME and is never retracted, so the invariant cannot tell the
    sessions of the old `A` from those of a later namesake).  Let `k` be dispatched to `A`.
    (1) After `RemoveRealm A`, as long as no realm named `A` exists, every operation of `k` leaves
        the router unchanged and nothing is observed.
    (2) After a later `AddRealm cfg` with `cfg.uri = A` (accepted or refused), every operation of
        `k` (msg, drop, stall, resume) still makes nothing observable, and the namesake — if it
        exists — still has no client, no queue and no closed peer afterwards: the old session can
        neither receive from nor attach itself to the new realm.
    Sessions that join the namesake later are covered by `C11_confined_to` with
    `P :=` "joined since". -/
theorem C11_removed_sessions_inert (rt : Router) (A : String) (k : SessKey) (hk : rt.realmOf k = some A) :
    (∀ op, (((rt.step (.removeRealm A)).2).step (.sess k op)).2 = (rt.step (.removeRealm A)).2 ∧
           (((rt.step (.removeRealm A)).2).step (.sess k op)).1.out = [] ∧
           (((rt.step (.removeRealm A)).2).step (.sess k op)).1.closed = []) ∧
    (∀ cfg : Config, cfg.uri = A → ∀ op : Realm.Op, op.isJoin = false →
      ((((rt.step (.removeRealm A)).2).step (.addRealm cfg)).2.step (.sess k op)).1.out = [] ∧
      ((((rt.step (.removeRealm A)).2).step (.addRealm cfg)).2.step (.sess k op)).1.closed = [] ∧
      ∀ r', ((((rt.step (.removeRealm A)).2).step (.addRealm cfg)).2.step (.sess k op)).2.realm? A = some r' →
        r'.clients = [] ∧ r'.queues = [] ∧ r'.closedPeers = []) := by
  -- the router after the removal: same sessions, no realm named A
  have hs1 : (rt.step (.removeRealm A)).2.sessRealm = rt.sessRealm := ((C11_remove_add rt).1 A).2.1
  have hk1 : (rt.step (.removeRealm A)).2.realmOf k = some A := by
    unfold realmOf; rw [hs1]; exact hk
  have hn1 : (rt.step (.removeRealm A)).2.realm? A = none := by
    cases hr : rt.realm? A with
    | none => rw [step_remove_none hr]; exact hr
    | some r => rw [step_remove_some hr]; exact WpD.lookupR_filter_ne A rt.realms
  refine ⟨fun op => C11_unknown_session _ k op (Or.inr ⟨A, hk1, hn1⟩), ?_⟩
  intro cfg hcfg op hop
  generalize (rt.step (.removeRealm A)).2 = rt1 at hk1 hn1
  have hs2 : (rt1.step (.addRealm cfg)).2.sessRealm = rt1.sessRealm := ((C11_remove_add rt1).2 cfg).2.1
  have hk2 : (rt1.step (.addRealm cfg)).2.realmOf k = some A := by
    unfold realmOf; rw [hs2]; exact hk1
  -- the namesake, if it exists, is a freshly created realm: confined to the empty set
  have hfresh : ∀ r2, (rt1.step (.addRealm cfg)).2.realm? A = some r2 → Realm.Conf (fun _ => False) r2 := by
    intro r2 h2
    rw [step_add] at h2
    split at h2
    · rw [hn1] at h2; cases h2
    · split at h2
      · rename_i r0 hcr
        have hany : rt1.realms.any (fun p => p.1 == A) = false := by
          cases ha : rt1.realms.any (fun p => p.1 == A) with
          | false => rfl
          | true =>
            obtain ⟨p, hp, e⟩ := List.any_eq_true.mp ha
            exact (realm?_none hn1 p hp (by simpa using e)).elim
        have : (WpD.lookupR (rt1.realms ++ [(cfg.uri, { r0 with pubCount := rt1.created * 1000000, now := rt1.now })]) A) = some r2 := h2
        rw [hcfg, WpD.lookupR_append_new _ hany] at this
        cases this
        have hc0 : Realm.Conf (fun _ => False) r0 := create_conf hcr _
        exact ⟨hc0.1, hc0.2.1, hc0.2.2⟩
      · rw [hn1] at h2; cases h2
  cases h2 : (rt1.step (.addRealm cfg)).2.realm? A with
  | none =>
    obtain ⟨a, b, c⟩ := C11_unknown_session _ k op (Or.inr ⟨A, hk2, h2⟩)
    refine ⟨b, c, fun r' hr' => ?_⟩
    rw [a, h2] at hr'; cases hr'
  | some r2 =>
    obtain ⟨a, b, r', hr', hc⟩ := C11_confined_to _ A (fun _ => False) r2 h2 (hfresh r2 h2) k hk2 op hop
    refine ⟨List.eq_nil_iff_forall_not_mem.mpr (fun q hq => a q hq),
      List.eq_nil_iff_forall_not_mem.mpr (fun q hq => b q hq), fun r'' hr'' => ?_⟩
    rw [hr'] at hr''; cases hr''
    exact conf_false_empty hc

-- non-vacuity: a router with realm "a" holding session 1; session 1 is dispatched to "a"
example : ∃ rt : Router, rt.realmOf 1 = some "a" ∧ (rt.realm? "a").isSome = true :=
  ⟨{ realms := [("a", {})], sessRealm := [(1, "a")] }, by decide, rfl⟩

/-! ## Whole histories -/

open Nexus.L2.Router.WpD in
/-- RUN-LEVEL NON-INTERFERENCE.  Take two routers that agree on realm `A` (`AgreeOn`: same realm
    under the name `A`, the same sessions dispatched to it, both open or both closed — nothing is
    assumed about any other realm, session, the template or the counters) and two ARBITRARY
    operation sequences whose sub-sequences addressed to `A` coincide (`projRun`: joins to `A`,
    operations of sessions dispatched to `A`, `RemoveRealm A`, `AddRealm` named `A`, and the global
    operations tick / rnd / Close).  Then, step by step, `A` makes the same things observable
    (`obsRun`) and both runs end in routers that agree on `A`.  In between the two runs may do
    entirely different things in the other realms: operations of their sessions (with coinciding
    URIs and ids), joins, `AddRealm`, `RemoveRealm`, on-demand creation from the template.

    "Observable on behalf of `A`" (`obsPart`): for an operation addressed to `A` the whole
    observation of the router step; for the clock and `Router.Close` the contribution of realm `A`,
    which is the router's observation filtered to `A`'s sessions (`C11_run_part_is_filter`).

    Side conditions `RunOk` (each checked along its own run): session operations are not joins; a
    key joins `A` only if the router does not know it yet (fresh session ids); realm `A` is not
    CREATED in the run (an `AddRealm` named `A` is refused; a join to `A` does not create it from
    the template).  The last one is the "modulo the publication-id base" caveat: the model numbers
    the publication-id placeholders of a new realm from `created * 1000000`, and `created` counts
    the realms of the whole router, so a realm `A` created in two runs that created different
    numbers of OTHER realms differs in exactly `pubCount` — and in the clock it starts with, when the
    two runs let different amounts of time pass before (`C11_create_modulo_pubbase`,
    `C11_pubbase_shared_witness`).  The real router draws publication ids from the process-wide
    random generator; the counter is a model device. -/
theorem C11_run_noninterference (A : String) (rt₁ rt₂ : Router) (ops₁ ops₂ : List ROp)
    (h : AgreeOn A rt₁ rt₂) (hi₁ : rt₁.Inv) (hi₂ : rt₂.Inv)
    (hk₁ : RunOk A rt₁ ops₁) (hk₂ : RunOk A rt₂ ops₂)
    (hp : projRun A rt₁ ops₁ = projRun A rt₂ ops₂) :
    obsRun A rt₁ ops₁ = obsRun A rt₂ ops₂ ∧ AgreeOn A (runR rt₁ ops₁).2 (runR rt₂ ops₂).2 :=
  run_noninterference A ops₁ rt₁ rt₂ ops₂ h hi₁ hi₂ hk₁ hk₂ hp

namespace RunExample
open Nexus.L2.Router.WpD
/-- realms "a" and "b", one session each -/
def rtA : Router := { realms := [("a", {}), ("b", {})], sessRealm := [(1, "a"), (2, "b")] }
/-- realm "a" only -/
def rtB : Router := { realms := [("a", {})], sessRealm := [(1, "a")] }
/-- session 2 (of "b") leaves, "b" is removed, then session 1 (of "a") leaves -/
def opsA : List ROp := [.sess 2 (.drop 2), .removeRealm "b", .sess 1 (.drop 1)]
def opsB : List ROp := [.sess 1 (.drop 1)]

theorem proj_eq : projRun "a" rtA opsA = projRun "a" rtB opsB := by rfl
theorem runOkA : RunOk "a" rtA opsA := ⟨rfl, trivial, rfl, trivial⟩
theorem runOkB : RunOk "a" rtB opsB := ⟨rfl, trivial⟩
theorem invA : rtA.Inv := ⟨by decide, fun p hp => by
  have : p = ("a", {}) ∨ p = ("b", {}) := by simpa [rtA] using hp
  rcases this with rfl | rfl <;>
    exact ⟨fun _ h => (by cases h), fun _ h => (by cases h), fun _ h => (by cases h)⟩⟩
theorem invB : rtB.Inv := ⟨by decide, fun p hp => by
  have : p = ("a", {}) := by simpa [rtB] using hp
  subst this
  exact ⟨fun _ h => (by cases h), fun _ h => (by cases h), fun _ h => (by cases h)⟩⟩
theorem agree : AgreeOn "a" rtA rtB := ⟨rfl, fun k => by
  show lookupS [(1, "a"), (2, "b")] k = some "a" ↔ lookupS [(1, "a")] k = some "a"
  unfold lookupS
  simp only [List.find?_cons, List.find?_nil]
  by_cases h1 : ((1:SessKey) == k) = true
  · simp [h1]
  · by_cases h2 : ((2:SessKey) == k) = true
    · simp [h1, h2]
    · simp [h1, h2], rfl⟩

-- non-vacuity of `C11_run_noninterference`: the hypotheses hold for two different routers and
-- two different runs (the first one works in and then removes realm "b" before session 1 acts)
example : obsRun "a" rtA opsA = obsRun "a" rtB opsB ∧ AgreeOn "a" (runR rtA opsA).2 (runR rtB opsB).2 :=
  C11_run_noninterference "a" rtA rtB opsA opsB agree invA invB runOkA runOkB proj_eq
end RunExample

open Nexus.L2.Router.WpD in
/-- What `C11_run_noninterference` calls "observed on behalf of `A`" at the two operations that
    address every realm at once — the clock and `Router.Close` — is the router's observation of
    that step filtered to the sessions dispatched to `A` (queues and closed peers), in every router
    satisfying the invariant whose session keys attached at most once
    (`C11_attach_once_step`). -/
theorem C11_run_part_is_filter (rt : Router) (hi : rt.Inv) (hn : (rt.sessRealm.map (·.1)).Nodup) (A : String) :
    (∀ ms, (obsPart A rt (.tick ms)).out = (rt.step (.tick ms)).1.out.filter (fun q => rt.realmOf q.1 == some A) ∧
           (obsPart A rt (.tick ms)).closed = (rt.step (.tick ms)).1.closed.filter (fun k => rt.realmOf k == some A)) ∧
    ((obsPart A rt .close).out = (rt.step .close).1.out.filter (fun q => rt.realmOf q.1 == some A) ∧
     (obsPart A rt .close).closed = (rt.step .close).1.closed.filter (fun k => rt.realmOf k == some A)) :=
  ⟨fun ms => obsPart_tick_filter rt hi hn A ms, obsPart_close_filter rt hi hn A⟩

example : RunExample.rtA.Inv ∧ (RunExample.rtA.sessRealm.map (·.1)).Nodup := ⟨RunExample.invA, by decide⟩

/-- The caveat of `C11_run_noninterference`, positively: an accepted `AddRealm cfg` yields, in
    whatever router, the realm `Realm.create cfg` with `pubCount` set to the router's
    `created * 1000000` and the clock set to the router's (`now := rt.now`: time is global, a realm
    created later starts at the current time, `C11_clock_shared`) — so the realm created by the same
    operation in two routers is the same up to these two fields, and up to the first alone when the
    two routers show the same time. -/
theorem C11_create_modulo_pubbase (rt : Router) (cfg : Config) (r : Realm) (hcr : Realm.create cfg = some r)
    (hacc : (rt.closed || rt.realms.any (fun p => p.1 == cfg.uri)) = false) :
    (rt.step (.addRealm cfg)).2.realm? cfg.uri = some { r with pubCount := rt.created * 1000000, now := rt.now } :=
  WpD.create_modulo_pubbase rt cfg r hcr hacc

example : (({} : Router).closed || ({} : Router).realms.any (fun p => p.1 == "a")) = false := rfl

open Nexus.L2.Router.WpD in
/-- … and negatively (audit b2): `created` is router state shared by all realms in the MODEL.
    Adding a realm `B` first changes the publication-id base of the realm `A` added afterwards
    (1000000 instead of 0), although the two runs have the same projection to `A`.  Hence the
    creation of the observed realm is excluded from `C11_run_noninterference`.  Not a finding
    about nexus: the real publication ids are random; this is about the model's placeholders. -/
theorem C11_pubbase_shared_witness (cfgA cfgB : Config) (rA rB : Realm) (hA : Realm.create cfgA = some rA)
    (hB : Realm.create cfgB = some rB) (hne : cfgB.uri ≠ cfgA.uri) :
    (runR {} [.addRealm cfgB, .addRealm cfgA]).2.realm? cfgA.uri = some { rA with pubCount := 1000000 } ∧
    (runR {} [.addRealm cfgA]).2.realm? cfgA.uri = some { rA with pubCount := 0 } ∧
    projRun cfgA.uri {} [.addRealm cfgB, .addRealm cfgA] = projRun cfgA.uri {} [.addRealm cfgA] := by
  obtain ⟨a, b⟩ := pubbase_shared cfgA cfgB rA rB hA hB hne
  refine ⟨a, b, ?_⟩
  simp [projRun, concerns, hne]

/-! ## The shared clock -/

/-- The clocks, step by step.  The router's clock is advanced by `.tick ms` (by `ms`) and by no other
    operation; a realm's clock is advanced by its own `Realm.step (.tick ms)` — to exactly `now + ms`,
    whatever call timeouts and yield retries fire on the way — and by no other input. -/
theorem C11_clock_step (rt : Router) (rop : ROp) (r : Realm) (op : Realm.Op) :
    (rt.step rop).2.now = rt.now + rop.elapsed ∧ (r.step op).2.now = r.now + op.elapsed :=
  ⟨Router.step_now rt rop, Realm.step_now r op⟩

example : (ROp.tick 7).elapsed = 7 ∧ ROp.close.elapsed = 0 ∧ (Realm.Op.tick 7).elapsed = 7 ∧
    (Realm.Op.drop 1).elapsed = 0 := ⟨rfl, rfl, rfl, rfl⟩

/-- "Every realm shows the router's time" (`Router.ClockShared`) is preserved by every operation in
    which time passes through `ROp.tick` only (`ROp.untimedSess`: a session operation is not a tick),
    from EVERY router state: the clock advances all realms together with the router's own clock; a
    realm created from the template or by `AddRealm` starts at the router's current time. -/
theorem C11_clock_shared_step (rt : Router) (h : ∀ p ∈ rt.realms, p.2.now = rt.now) (rop : ROp)
    (hu : rop.untimedSess) : ∀ p ∈ (rt.step rop).2.realms, p.2.now = (rt.step rop).2.now :=
  Router.ClockShared.step h rop hu

/-- THE CLOCK IS SHARED (time is global in the implementation).  In every router reachable from the
    initial router (`Router.create cfgs` with any realm template) by well-formed operations in which
    time passes through `ROp.tick` only (`Router.ReachableT`), every realm's clock equals the
    router's.  In particular two realms of one router always show the same time, and a realm created
    at time `t` answers time-bounded history queries like one that has existed since time 0. -/
theorem C11_clock_shared (rt : Router) (h : Router.ReachableT rt) : ∀ p ∈ rt.realms, p.2.now = rt.now :=
  h.clockShared

/-- `Router.ReachableT` is `Router.Reachable` restricted to operations in which a session operation
    is not a tick; every such router is reachable. -/
theorem C11_reachableT_reachable (rt : Router) (h : Router.ReachableT rt) : Router.Reachable rt := h.reachable

-- non-vacuity: the initial routers, with and without template, and the routers after a tick, an
-- `AddRealm` and a join that creates a realm from the template are `ReachableT`
example : Router.ReachableT {} := .init (cfgs := []) none rfl
example (t : Config) : Router.ReachableT ((((templateRouter t).step (.tick 5)).2.step (.join "x" 1 false [] {} 8)).2) :=
  .step _ (.step _ (.init (cfgs := []) (some t) rfl) trivial trivial) trivial trivial
example : Router.ReachableT (((({} : Router).step (.tick 5)).2.step (.addRealm {})).2) :=
  .step _ (.step _ (.init (cfgs := []) none rfl) trivial trivial) trivial trivial
example (k : SessKey) (m : Msg) : (ROp.sess k (.msg k m)).untimedSess ∧ (ROp.sess k (.drop k)).untimedSess := ⟨rfl, rfl⟩

/-- Why `C11_clock_shared` is not stated over `Router.Reachable`: the model TYPE allows a tick wrapped
    into a session operation, `ROp.sess k (.tick ms)`, and `ROp.wf` (which excludes only wrapped
    joins) allows it too.  In a router whose clocks agree, where session `k` is dispatched to an
    existing realm `A`, that operation is well-formed, leaves the router's clock alone and advances
    the clock of `A` alone: afterwards `A` is ahead of the router (and of every other realm).  The
    router API and the driver never produce it (session operations are msg / drop / stall / resume /
    buffer of `k`); it is a gap of `ROp.wf`, not a behaviour of nexus. -/
theorem C11_clock_shared_needs_untimed (rt : Router) (h : ∀ p ∈ rt.realms, p.2.now = rt.now) (k : SessKey)
    (A : String) (r : Realm) (hk : rt.realmOf k = some A) (hr : rt.realm? A = some r) (ms : Nat) :
    (ROp.sess k (.tick (ms + 1))).wf ∧ ¬ (ROp.sess k (.tick (ms + 1))).untimedSess ∧
    (rt.step (.sess k (.tick (ms + 1)))).2.now = rt.now ∧
    ∃ r', (rt.step (.sess k (.tick (ms + 1)))).2.realm? A = some r' ∧ r'.now = rt.now + (ms + 1) := by
  obtain ⟨a, b, c⟩ := Router.sess_tick_parts_clocks h hk hr ms
  exact ⟨a, fun e => Nat.succ_ne_zero ms e, b, c⟩

-- non-vacuity of `C11_clock_shared_needs_untimed`: its hypotheses hold in a router reachable without
-- wrapped ticks — the initial router with the default realm "r" after session 5 joined it
example : ∃ rt k A r, Router.ReachableT rt ∧ (∀ p ∈ rt.realms, p.2.now = rt.now) ∧ rt.realmOf k = some A ∧
    rt.realm? A = some r := by
  cases h : Router.create [{}] with
  | none => exact absurd h (by decide +kernel)
  | some rt0 =>
    have hR : Router.ReachableT (({ rt0 with template := none } : Router).step (.join "r" 5 false [] [] 4)).2 :=
      .step _ (.init none h) trivial trivial
    have hk : (({ rt0 with template := none } : Router).step (.join "r" 5 false [] [] 4)).2.realmOf 5 = some "r" := by
      have : (Router.create [{}]).map (fun rt0 =>
          decide ((({ rt0 with template := none } : Router).step (.join "r" 5 false [] [] 4)).2.realmOf 5 = some "r")) =
          some true := by decide +kernel
      rw [h] at this
      exact of_decide_eq_true (Option.some.inj this)
    have hs : ((({ rt0 with template := none } : Router).step (.join "r" 5 false [] [] 4)).2.realm? "r").isSome = true := by
      have : (Router.create [{}]).map (fun rt0 =>
          ((({ rt0 with template := none } : Router).step (.join "r" 5 false [] [] 4)).2.realm? "r").isSome) = some true := by
        decide +kernel
      rw [h] at this
      exact Option.some.inj this
    obtain ⟨r, hr⟩ := Option.isSome_iff_exists.mp hs
    exact ⟨_, 5, "r", r, hR, C11_clock_shared _ hR, hk, hr⟩

/-! ## Meta API -/

/-- The answer (and effect) of a meta procedure is a function of the one realm it runs in.
    This is true by typing — `Realm.metaProc` takes a single `Realm` and no router — and is stated
    only for the record: if two routers hold the same realm under the name `A`, a meta procedure
    invoked in `A` answers the same in both.  The substance of "meta-API answers are confined" is
    `C11_noninterference` (a meta CALL is a session operation) and the tie to the code. -/
theorem C11_meta_confined (rt₁ rt₂ : Router) (A : String) (h : rt₁.realm? A = rt₂.realm? A)
    (proc : String) (req : Nat) (details : Dict) (args : List WVal) (kw : Dict) :
    (rt₁.realm? A).map (fun r => r.metaProc proc req details args kw) =
    (rt₂.realm? A).map (fun r => r.metaProc proc req details args kw) := by
  rw [h]

end Nexus.C11
