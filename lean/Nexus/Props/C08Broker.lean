/-
  C08 (broker half) — Per-peer ordering: events reach each subscriber, per subscription, in
  publication order.

  Property text (the clause proved here).  "Events published by one session to one topic reach each
  subscriber, per subscription, in publication order […]"

  About `Broker.syncPublish` applied to a list of publications in order (`Broker.publishAll`,
  Nexus/L2/Proofs/BrokerSpec.lean): the broker goroutine processes publications one at a time in
  arrival order, and the messages of each are appended to the per-session FIFO queues in the order
  of the returned list (`Realm.deliver`).  The arrival order itself (one handler goroutine per
  session posting to the broker's action channel) is the L3 part of C08 and is not covered here.
  The statement is for ANY publishers, topics and session tables (so in particular for one
  publisher and one topic).

  clause                                                               theorem
  -------------------------------------------------------------------  ------------------------------
  the EVENTs reaching session k through subscription s from a list of
    publications processed in order are, in order, the expected EVENT
    of each publication that (s, k) is expected for — i.e. the
    projection of the concatenated outputs is in publication order       C08_event_order
  … their publication ids form a subsequence of the publications' ids   C08_event_order_ids
-/
import Nexus.L2.Proofs.BrokerDeliver

namespace Nexus.C08
open Nexus.L2 Gen.N

theorem C08_event_order {b : Broker} (hb : BrokerInv b) {s : Sub} (hs : s ∈ b.subs) (k : SessKey)
    (ps : List ((SessKey → Option Session) × Nat × Publication)) :
    through (b.publishAll ps).2 k s.id = ps.flatMap (fun x => deliveryOf x.1 x.2.2 s k) :=
  through_publishAll k ps hb hs

theorem C08_event_order_ids {b : Broker} (hb : BrokerInv b) {s : Sub} (hs : s ∈ b.subs) (k : SessKey)
    (ps : List ((SessKey → Option Session) × Nat × Publication)) :
    ((through (b.publishAll ps).2 k s.id).map (fun x => x.msg.eventPub?)).Sublist
      (ps.map (fun x => some x.2.2.pubId)) := by
  rw [C08_event_order hb hs, List.map_flatMap]
  exact flatMap_sublist_map _ _ (fun x => deliveryOf_pubs x.1 x.2.2 s k) ps

end Nexus.C08
