/-
  C08 (dealer half) — Per-peer ordering guarantees.

  Property text (the RPC part).  "… calls by one caller routed to the same callee arrive there in call order;
  for each call, progressive results reach the caller in yield order and before the final reply.  A session
  sees … REGISTERED before the first INVOCATION and no new INVOCATION after UNREGISTERED for that
  registration - regardless of what any other sessions do at the same time."

  The dealer goroutine is one sequential process: a run of the dealer model is a list of atomic steps
  (`Run s tr s'`, `tr` = list of (state before, output)), and the messages of one step are handed to the
  recipients' queues in the order of `o.sends` (`Realm.deliver`, see `C02_realm_delivery`).  Hence the stream a
  session receives from the dealer is `outStream k tr` = the concatenation, in step order, of the messages each
  step sends to `k`; the replies to call `c` form `replyStream c tr`.  (That the queue and the transport keep this
  order is the L3 half, Nexus.Props.C08.)  All theorems hold for every run from a state satisfying `DealerInv`,
  i.e. whatever other sessions do in between.

  clause                                                             theorem
  -----------------------------------------------------------------  ------------------------------------
  two calls routed to the same callee: INVOCATIONs arrive in call     C08_call_order
    order, with increasing invocation ids
  per call: replies are progressive* then at most one final,          C08_progress_order
    nothing follows
  … each RESULT is the forwarding of one YIELD of the owning callee   C08_result_is_yield
    (payload unchanged), one per step: yield order = result order
  a NEW invocation (first chunk of a call) with registration id g     C08_reg_bracket_partial
    goes to k only while k is a callee of g
  a later chunk of a progressive call repeats callee, invocation id    C08_reg_bracket_later
    and the registration id recorded at the first chunk — which was
    the id of a registration having k as callee at that time
  k becomes a callee of g only in its own REGISTER step, which        C08_registered_first
    sends REGISTERED(…, g) and no INVOCATION
  the UNREGISTER step sends UNREGISTERED, no INVOCATION, and k is     C08_unregistered_last
    no callee of g afterwards
  no new INVOCATION(…, g) to k while k is not a callee of g           C08_reg_bracket (over runs: before
                                                                      REGISTERED and after UNREGISTERED)
  literally "INVOCATION(…, g) to k only while k ∈ callees(g)"         C08_reg_bracket_full_fails (by design)

  STILL FALSE AT FULL STRENGTH, BY DESIGN (reported).  After fix 0365a6a a later chunk of a progressive call is
  delivered to the stored callee under the registration id stored at the first chunk, "also after that callee
  unregistered".  Hence "INVOCATION(…, g) reaches k only while k ∈ callees(g)" is false for continuations
  (`C08_reg_bracket_full_fails`, witness `Ex.sSharedUnreg`: sessions 1 and 3 share registration 2, session 1
  serves a pending progressive call, UNREGISTERs — and still gets the next chunk as INVOCATION(1, 2, …)).  The
  property text says "no NEW INVOCATION after UNREGISTERED": a continuation keeps the invocation id of an
  INVOCATION received before UNREGISTERED and is not a new one; with that reading the clause holds
  (`C08_reg_bracket`, `C08_reg_bracket_partial`).  The earlier defect — a chunk naming another procedure reached the
  callee under a registration id it never held — is gone: `C08_reg_bracket_later`.
-/
import Nexus.L2.Proofs.DealerOrder
import Nexus.L2.Proofs.DealerExamples
import Nexus.Props.C02
import Nexus.Props.C03

namespace Nexus.C08
open Nexus.L2 Nexus.Gen.N Nexus

/-! ### call order -/

/-- Two steps i < j of a run each open a new invocation towards callee `k` (an INVOCATION whose id is not that of a
    stored invocation — the first chunk of a call).  Then
    * each of the two steps is the CALL step of some caller `cᵢ` with request `qᵢ` (a new call: not pending before),
      the INVOCATION is the only message of that step, carries that CALL's arguments, and the step records the
      invocation `(k, rᵢ)` for the call `(cᵢ, qᵢ)`;
    * the callee's stream contains the two INVOCATIONs in the order of the two CALL steps, and the second has the
      larger invocation id.
    Nothing is assumed about the callers: in particular for `c₁ = c₂`, two calls by one caller that are routed to the
    same callee reach it in the order in which the dealer processed them (= the order the caller sent them,
    `C08.fifo_per_kind`), whatever other sessions do in between. -/
theorem C08_call_order {s s' s1 s2 : DState} {o1 o2 : DOut} {tr1 tr2 tr3 : List (DState × DOut)}
    (run : Run s (tr1 ++ (s1, o1) :: (tr2 ++ (s2, o2) :: tr3)) s') (h : DealerInv s) (k : SessKey)
    (x1 x2 : Send) (hx1 : x1 ∈ o1.sends) (hx2 : x2 ∈ o2.sends) (hk1 : x1.to = k) (hk2 : x2.to = k)
    {r1 g1 r2 g2 : Nat} {d1 d2 : Dict} {a1 a2 : List WVal} {kw1 kw2 : Dict}
    (hm1 : x1.msg = .invocation r1 g1 d1 a1 kw1) (hm2 : x2.msg = .invocation r2 g2 d2 a2 kw2)
    (hnew1 : ∀ v ∈ s1.d.invs, v.id ≠ ⟨k, r1⟩) (hnew2 : ∀ v ∈ s2.d.invs, v.id ≠ ⟨k, r2⟩) :
    r1 < r2 ∧
    outStream k (tr1 ++ (s1, o1) :: (tr2 ++ (s2, o2) :: tr3)) =
      outStream k tr1 ++ [x1.msg] ++ outStream k tr2 ++ [x2.msg] ++ outStream k tr3 ∧
    (∃ env c q opts proc rnd, o1 = syncCall env s1 c q opts proc a1 kw1 rnd ∧ o1.sends = [x1] ∧
      (⟨c, q⟩ : ReqId) ∉ s1.d.calls ∧ ∃ v ∈ o1.st.d.invs, v.callId = ⟨c, q⟩ ∧ v.id = ⟨k, r1⟩ ∧ v.regId = g1) ∧
    (∃ env c q opts proc rnd, o2 = syncCall env s2 c q opts proc a2 kw2 rnd ∧ o2.sends = [x2] ∧
      (⟨c, q⟩ : ReqId) ∉ s2.d.calls ∧ ∃ v ∈ o2.st.d.invs, v.callId = ⟨c, q⟩ ∧ v.id = ⟨k, r2⟩ ∧ v.regId = g2) := by
  obtain ⟨m1, runA, runB⟩ := Run.split run
  obtain ⟨e1, st1, runC⟩ := Run.head runB
  simp only at e1 st1 runC
  subst e1
  obtain ⟨m2, runD, runE⟩ := Run.split runC
  obtain ⟨e2, st2, _⟩ := Run.head runE
  simp only at e2 st2
  subst e2
  have hinv1 := runA.inv h
  have hinv2 := runD.inv (st1.inv hinv1)
  -- both steps are CALLs sending exactly that INVOCATION, for the call they record
  have hc1 := C03.C03_invocation_of_call hinv1 st1 x1 hx1 r1 g1 d1 a1 kw1 hm1 (hk1 ▸ hnew1)
  have hc2 := C03.C03_invocation_of_call hinv2 st2 x2 hx2 r2 g2 d2 a2 kw2 hm2 (hk2 ▸ hnew2)
  rw [hk1] at hc1
  rw [hk2] at hc2
  have hs1 : o1.sends = [x1] := by obtain ⟨_, _, _, _, _, _, _, hs, _⟩ := hc1; exact hs
  have hs2 : o2.sends = [x2] := by obtain ⟨_, _, _, _, _, _, _, hs, _⟩ := hc2; exact hs
  refine ⟨?_, ?_, hc1, hc2⟩
  · rcases C03.C03_inv_id_step hinv1 st1 x1 hx1 r1 g1 d1 a1 kw1 hm1 with ⟨_, e2, _⟩ | ⟨v, hv, hvi⟩
    · rcases C03.C03_inv_id_step hinv2 st2 x2 hx2 r2 g2 d2 a2 kw2 hm2 with ⟨f1, _, _⟩ | ⟨v, hv, hvi⟩
      · have := runD.gen_mono (st1.inv hinv1) k
        rw [hk1] at e2; rw [hk2] at f1
        omega
      · exact absurd (hk2 ▸ hvi) (hnew2 v hv)
    · exact absurd (hk1 ▸ hvi) (hnew1 v hv)
  · simp only [outStream_append, outStream_cons, hs1, hs2]
    simp [hk1, hk2]

/-- the hypotheses are met: two consecutive calls (2, 11), (2, 12) by session 2 to the round-robin registration "s" of
    `Ex.sShared`… both would go to different callees; to the single registration "p": both to session 1 -/
example : (syncCall Ex.env Ex.sReg 2 11 [] "p" [] [] 0).sends.map (fun x => (x.to, x.msg.typeCode)) = [(1, 68)] ∧
    (syncCall Ex.env (syncCall Ex.env Ex.sReg 2 11 [] "p" [] [] 0).st 2 12 [] "p" [] [] 0).sends.map
      (fun x => (x.to, match x.msg with | .invocation r _ _ _ _ => r | _ => 0)) = [(1, 2)] := by decide +kernel

/-! ### progressive results before the final reply -/

/-- Over any run in which no CALL with id `c` occurs (the episode after the CALL was made): the replies sent for
    `c` are a list of progressive RESULTs followed by at most one final reply; after the final reply the call is
    gone and nothing follows. -/
theorem C08_progress_order {s s' : DState} {tr : List (DState × DOut)} (c : ReqId) (run : Run s tr s') :
    DealerInv s → (∀ p ∈ tr, ¬ IsCallStep p.1 p.2 c) →
    ∃ ps f, replyStream c tr = ps ++ f ∧ (∀ x ∈ ps, x.msg.isFinalReply = false) ∧
      (f = [] ∨ ∃ x, f = [x] ∧ x.msg.isFinalReply = true ∧ c ∉ s'.d.calls) := by
  induction run with
  | nil s => intro _ _; exact ⟨[], [], rfl, by simp, Or.inl rfl⟩
  | @cons s o tr s' st rest ih =>
    intro h hno
    have hno' : ∀ p ∈ tr, ¬ IsCallStep p.1 p.2 c := fun p hp => hno p (List.mem_cons_of_mem _ hp)
    have hr := st.replyOK h c
    rw [replyStream_cons]
    match hrep : repliesFor c o.sends with
    | [] =>
      obtain ⟨ps, f, h1, h2, h3⟩ := ih (st.inv h) hno'
      exact ⟨ps, f, by simpa using h1, h2, h3⟩
    | [x] =>
      cases hf : x.msg.isFinalReply with
      | true =>
        have hgone : c ∉ o.st.d.calls := hr.final (by simp [finalsFor, hrep, hf])
        obtain ⟨hnone, hc', _⟩ := C02.C02_nothing_after_final c rest (st.inv h) hgone hno'
        have hempty : replyStream c tr = [] := by
          unfold replyStream
          rw [List.flatMap_eq_nil_iff]
          exact hnone
        exact ⟨[], [x], by simp [hempty], by simp, Or.inr ⟨x, rfl, hf, hc'⟩⟩
      | false =>
        obtain ⟨ps, f, h1, h2, h3⟩ := ih (st.inv h) hno'
        refine ⟨x :: ps, f, by simp [h1], ?_, h3⟩
        intro y hy
        rcases List.mem_cons.1 hy with rfl | hy
        · exact hf
        · exact h2 y hy
    | _ :: _ :: _ =>
      have := hr.one
      rw [hrep] at this
      simp at this

/-- … the same over runs that contain LATER CHUNKS of the (progressive) call `c`: the only CALL steps with id `c`
    allowed are chunks of the pending call, i.e. no NEW call re-uses the id (`C02.C02_episode`; starting with the
    CALL that opens the call: `C02.C02_episode_from_call`). -/
theorem C08_progress_order_chunks {s s' : DState} {tr : List (DState × DOut)} (c : ReqId) (run : Run s tr s')
    (h : DealerInv s) (hno : ∀ p ∈ tr, IsCallStep p.1 p.2 c → c ∈ p.1.d.calls) :
    ∃ ps f, replyStream c tr = ps ++ f ∧ (∀ x ∈ ps, x.msg.isFinalReply = false) ∧
      (f = [] ∨ ∃ x, f = [x] ∧ x.msg.isFinalReply = true ∧ c ∉ s'.d.calls) :=
  C02.C02_episode c run h hno

/-- Every RESULT the dealer sends is the forwarding of one YIELD by the callee that owns the call's invocation —
    same arguments and keyword arguments, details `yieldDetails opts progress` — and it is the only message of
    that step.  So the RESULTs of a call appear in `replyStream` in the order of the callee's YIELD steps. -/
theorem C08_result_is_yield {s : DState} {o : DOut} (h : DealerInv s) (st : DStep s o) (x : Send)
    (hx : x ∈ o.sends) (hr : x.msg.isResult = true) :
    ∃ env callee req opts args kw progress canRetry,
      o = syncYield env s callee req opts args kw progress canRetry ∧
      ∃ v ∈ s.d.invs, v.id = ⟨callee, req⟩ ∧
        x = ⟨v.callId.sess, .result v.callId.req (yieldDetails opts progress) args kw⟩ ∧ o.sends = [x] :=
  st.result_is_yield h x hx hr

example : (syncYield Ex.env Ex.sCall 1 1 [] [.int 8] [] true true).sends.map Ex.summary = [(2, 50, some 5, false)] := by
  decide +kernel

/-! ### REGISTERED … INVOCATION … UNREGISTERED -/

/-- full strength: every INVOCATION carries the id of a registration its recipient is currently a callee of -/
def C08_reg_bracket_full : Prop :=
  ∀ (s : DState) (o : DOut), DealerInv s → DStep s o → ∀ x ∈ o.sends, ∀ (r g : Nat) (d : Dict) (a : List WVal) (kw : Dict),
    x.msg = .invocation r g d a kw → calleeRel s.d.regs g x.to

/-- true of every INVOCATION that opens a new invocation (the first chunk of a call) -/
theorem C08_reg_bracket_partial {s : DState} {o : DOut} (h : DealerInv s) (st : DStep s o) (x : Send)
    (hx : x ∈ o.sends) (r g : Nat) (d : Dict) (a : List WVal) (kw : Dict) (hm : x.msg = .invocation r g d a kw)
    (hnew : ∀ v ∈ s.d.invs, v.id ≠ ⟨x.to, r⟩) : calleeRel s.d.regs g x.to :=
  st.new_invocation_registered h x hx r g d a kw hm hnew

/-- A later chunk of a pending progressive call: the INVOCATION goes to the stored callee `v.callee` and repeats the
    registration id `v.regId` stored in the invocation (for every URI the chunk names). -/
theorem C08_reg_bracket_later {s : DState} {o : DOut} (h : DealerInv s) (st : DStep s o) (x : Send)
    (hx : x ∈ o.sends) (r g : Nat) (d : Dict) (a : List WVal) (kw : Dict) (hm : x.msg = .invocation r g d a kw)
    {v : Invk} (hv : v ∈ s.d.invs) (hvi : v.id = ⟨x.to, r⟩) : g = v.regId ∧ x.to = v.callee :=
  st.later_invocation_regId h x hx r g d a kw hm hv hvi

/-- … and the stored registration id is the id of a registration that had the invocation's callee among its callees
    in the step that created the invocation; it does not change while the call is pending
    (`C03.C03_invocation_persists`). -/
theorem C08_reg_recorded {s : DState} {o : DOut} (h : DealerInv s) (st : DStep s o) {v' : Invk}
    (hv' : v' ∈ o.st.d.invs) (hnew : ∀ v ∈ s.d.invs, v.callId ≠ v'.callId) :
    calleeRel s.d.regs v'.regId v'.callee :=
  C03.C03_invocation_reg_recorded h st hv' hnew

/-- false for continuations, by design: in `Ex.sSharedUnreg` session 1 has UNREGISTERed the shared registration 2
    (session 3 keeps it alive) while serving the pending progressive call (2, 9); the next chunk reaches session 1
    as INVOCATION(1, 2, …) although it is no callee of registration 2 any more. -/
theorem C08_reg_bracket_full_fails : ¬ C08_reg_bracket_full := by
  intro hfull
  have hinv := Ex.sSharedUnreg_reach.inv
  have hstep : DStep Ex.sSharedUnreg (syncCall Ex.env Ex.sSharedUnreg 2 9 [(OptProgress, .bool true)] "s" [] [] 0) :=
    .call ..
  have hsum : (syncCall Ex.env Ex.sSharedUnreg 2 9 [(OptProgress, .bool true)] "s" [] [] 0).sends.map
      (fun x => (x.to, match x.msg with | .invocation r g _ _ _ => some (r, g) | _ => none)) = [(1, some (1, 2))] := by
    decide +kernel
  have hnot : ¬ calleeRel Ex.sSharedUnreg.d.regs 2 1 := by
    unfold calleeRel
    decide +kernel
  match hs : (syncCall Ex.env Ex.sSharedUnreg 2 9 [(OptProgress, .bool true)] "s" [] [] 0).sends with
  | [] => rw [hs] at hsum; cases hsum
  | [x] =>
    rw [hs] at hsum
    simp only [List.map_cons, List.map_nil, List.cons.injEq, Prod.mk.injEq, and_true] at hsum
    obtain ⟨hto, hmsg⟩ := hsum
    cases hm : x.msg <;> rw [hm] at hmsg <;> simp only [reduceCtorEq, Option.some.injEq, Prod.mk.injEq] at hmsg
    rename_i r g d a kw
    obtain ⟨rfl, rfl⟩ := hmsg
    have := hfull _ _ hinv hstep x (by rw [hs]; simp) _ _ _ _ _ hm
    rw [hto] at this
    exact hnot this
  | _ :: _ :: _ => rw [hs] at hsum; simp at hsum

/-- the chunk naming another procedure ("q", registration of session 3) now reaches session 1 under the stored
    registration id 1 -/
example : (syncCall Ex.env Ex.sProg2 2 7 [(OptProgress, .bool true)] "q" [] [] 0).sends.map
    (fun x => (x.to, match x.msg with | .invocation r g _ _ _ => some (r, g) | _ => none)) = [(1, some (1, 1))] := by
  decide +kernel

/-- `k` becomes a callee of registration `g` only in its own REGISTER step; that step sends REGISTERED(req, g)
    to `k` (its only message) and no INVOCATION: REGISTERED precedes every INVOCATION of `g` in `k`'s stream. -/
theorem C08_registered_first {s : DState} {o : DOut} (h : DealerInv s) (st : DStep s o) (g : Nat) (k : SessKey)
    (hbefore : ¬ calleeRel s.d.regs g k) (hafter : calleeRel o.st.d.regs g k) :
    ∃ req proc m invoke disclose fwd wampURI, o = syncRegister s k req proc m invoke disclose fwd wampURI ∧
      o.sends = [⟨k, .registered req g⟩] := by
  rcases st.calleeRel_frame h g k hafter with hc | ⟨req, proc, m, invoke, disclose, fwd, wampURI, rfl⟩
  · exact absurd hc hbefore
  · refine ⟨req, proc, m, invoke, disclose, fwd, wampURI, rfl, ?_⟩
    rcases syncRegister_registered h k req proc m invoke disclose fwd wampURI with ⟨id, hs, hrel⟩ | ⟨hst, _⟩
    · rcases hrel g k hafter with hc | ⟨_, rfl⟩
      · exact absurd hc hbefore
      · exact hs
    · rw [hst] at hafter; exact absurd hafter hbefore

/-- The UNREGISTER step of a callee sends UNREGISTERED only (no INVOCATION), and afterwards the session is no
    callee of that registration. -/
theorem C08_unregistered_last {s : DState} (h : DealerInv s) (k : SessKey) (req g : Nat) (hr : calleeRel s.d.regs g k) :
    (syncUnregister s k req g).sends = [⟨k, .unregistered req⟩] ∧
      ¬ calleeRel (syncUnregister s k req g).st.d.regs g k :=
  C03.C03_unregistered h k req g hr

/-- While `k` is not a callee of registration `g` — from the start of the run until `k`'s next REGISTER, i.e. before
    REGISTERED(…, g) and after UNREGISTERED — no INVOCATION with registration id `g` opens a new invocation
    towards `k`, whatever other sessions do. -/
theorem C08_reg_bracket {s s' : DState} {tr : List (DState × DOut)} (run : Run s tr s') (g : Nat) (k : SessKey) :
    DealerInv s → ¬ calleeRel s.d.regs g k → (∀ p ∈ tr, ¬ IsRegisterStep p.1 p.2 k) →
    ∀ p ∈ tr, ∀ x ∈ p.2.sends, ∀ (r : Nat) (d : Dict) (a : List WVal) (kw : Dict),
      x.msg = .invocation r g d a kw → x.to = k → ∃ v ∈ p.1.d.invs, v.id = ⟨k, r⟩ := by
  induction run with
  | nil s => intro _ _ _ p hp; cases hp
  | @cons s o tr s' st rest ih =>
    intro h hnot hnoreg p hp x hx r d a kw hm hto
    rcases List.mem_cons.1 hp with rfl | hp
    · apply Classical.byContradiction
      intro hne
      have hnew : ∀ v ∈ s.d.invs, v.id ≠ ⟨x.to, r⟩ := fun v hv he => hne ⟨v, hv, hto ▸ he⟩
      exact hnot (hto ▸ st.new_invocation_registered h x hx r g d a kw hm hnew)
    · have hnot' : ¬ calleeRel o.st.d.regs g k := fun hc =>
        (st.calleeRel_frame h g k hc).elim hnot (hnoreg (s, o) (List.mem_cons_self ..))
      exact ih (st.inv h) hnot' (fun q hq => hnoreg q (List.mem_cons_of_mem _ hq)) p hp x hx r d a kw hm hto

end Nexus.C08
