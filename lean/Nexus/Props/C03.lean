/-
  C03 — Calls reach the right callee with payload and ids intact.

  Property text.  "A CALL yields exactly one INVOCATION per call chunk, delivered to one session
  currently registered under the best-matching registration - exact URI first, otherwise the longest
  matching prefix, otherwise a matching wildcard - chosen by that registration's policy (single, first,
  last, round-robin in rotation, random among members); it carries the registration's id, a request id
  never used before towards that callee, the caller's arguments unchanged and the receive_progress flag
  exactly when the caller asked for progress and the callee supports it, and all chunks of one
  progressive call go to the same callee under the same invocation id.  The callee's YIELD or ERROR is
  forwarded, payload unchanged, only to the session that made that call, while an answer from a session
  that does not own the invocation has no effect.  A second registration of a procedure is accepted
  only under an identical sharing policy (otherwise procedure_already_exists), restricted wamp.*
  procedures cannot be registered by clients, and after UNREGISTERED or the callee's departure no
  further call is routed to it."

  Theorems are about the dealer model (`Dealer.matchProcedure`, `pickCallee`, `syncCall`, `syncYield`,
  `syncError`, `syncRegister`, `syncUnregister`, `syncRemoveSession`), for every state satisfying
  `DealerInv`, every environment and all arguments.  (`restricted wamp.*`: `Realm.handleRegister`,
  `C03_restricted_wamp`, and the invariant `C03_wamp_callees` over reachable realm states; `forwarded payload
  unchanged`: also C02_callee_final_yield_payload / _error.)

  clause                                                          theorem
  --------------------------------------------------------------  --------------------------------------
  best match: exact, else longest matching prefix, else a          C03_match (any table, any order),
    longest matching wildcard, else none                           C03_match_unique (exact/prefix winner is
                                                                   unique under DealerInv), C03_match_order
  callee chosen by the registration's policy                       C03_pick_single, _first, _last, _random,
                                                                   C03_pick_roundrobin (rotation)
  exactly one INVOCATION per chunk, to a callee of the best match, C03_invocation_fields (at most one),
    registration id, payload unchanged                             C03_invocation_sent_first, _later (one for
                                                                   every accepted chunk), C03_invocation_callee
  round-robin in rotation over consecutive CALLs                   C03_call_cursor (the cursor is stored, also by
                                                                   a refused call), C03_calls_follow_pickIter,
                                                                   C03_roundrobin_calls
  receive_progress / procedure / timeout details                   C03_details_receive_progress,
                                                                   C03_details_procedure, C03_details_timeout
  request id never used before towards that callee                 C03_inv_id_step, C03_inv_id_fresh (runs)
  all chunks of a progressive call: same callee, same id, same      C03_first_chunk_records,
    registration id                                                  C03_invocation_persists,
                                                                   C03_progressive_same_callee,
                                                                   C03_invocation_reg_recorded
  answer forwarded only to the caller of that call;                C03_answer_routing_owner_yield,
    a non-owner's answer has no effect                             C03_answer_routing_owner_error,
                                                                   C03_answer_routing_foreign_yield,
                                                                   C03_answer_routing_foreign_error
  second REGISTER: accepted iff identical sharing policy           C03_shared_policy_accept,
                                                                   C03_shared_policy_refuse
  restricted wamp.* procedures cannot be registered by clients     C03_restricted_wamp (handler),
                                                                   C03_wamp_callees (reachable realm states)
  after UNREGISTERED / departure no further call is routed to it   C03_unregistered, C03_gone,
                                                                   C03_not_callee_persists,
                                                                   C03_no_invocation_to_gone
-/
import Nexus.L2.Proofs.DealerFrame
import Nexus.L2.Proofs.DealerExamples
import Nexus.L2.Proofs.WpBWampRegs

namespace Nexus.C03
open Nexus.L2 Nexus.Gen.N Nexus

/-! ### best match -/

/-- The lookup is `bestMatch`: the exact registration if one exists; else a matching prefix registration of
    greatest pattern length; else a matching wildcard registration of greatest pattern length; else none.
    The specification `BestMatch` mentions the table only through membership, so this holds for any table in
    any order (Go map iteration order). -/
theorem C03_match (d : Dealer) (proc : String) : BestMatch d.regs proc (d.matchProcedure proc) :=
  matchProcedure_bestMatch d proc

theorem C03_match_order {l l' : List Reg} (hp : l.Perm l') {proc : String} {res : Option Reg} :
    BestMatch l proc res → BestMatch l' proc res :=
  BestMatch.of_perm hp

/-- Under DealerInv (at most one registration per (procedure, kind)) the exact and the prefix winner are
    unique: whenever an exact or a prefix registration matches, any two results allowed by the
    specification coincide, and the lookup gives the same registration for every order of the table.
    (Among equally long matching wildcard patterns the choice follows the table order.) -/
theorem C03_match_unique {s : DState} (h : DealerInv s) {proc : String} {r1 r2 : Reg}
    (h1 : BestMatch s.d.regs proc (some r1)) (h2 : BestMatch s.d.regs proc (some r2))
    (hm : (∃ e ∈ s.d.regs, e.isExactFor proc) ∨ (∃ p ∈ s.d.regs, p.isPfxFor proc)) : r1 = r2 :=
  BestMatch.unique_exact_or_pfx h.reg.regs.keyUnique h1 h2 hm

theorem C03_match_any_order {s : DState} (h : DealerInv s) (d' : Dealer) (hp : s.d.regs.Perm d'.regs) (proc : String)
    (hm : (∃ e ∈ s.d.regs, e.isExactFor proc) ∨ (∃ p ∈ s.d.regs, p.isPfxFor proc)) :
    d'.matchProcedure proc = s.d.matchProcedure proc :=
  matchProcedure_perm s.d d' proc hp h.reg.regs.keyUnique hm

example : (Ex.sCall.d.matchProcedure "p").map (fun r => (r.id, r.callees)) = some (1, [1]) := by decide +kernel

/-! ### callee choice -/

theorem C03_pick_single {reg : Reg} {c : SessKey} (h : reg.callees = [c]) (rnd : Nat) :
    pickCallee reg rnd = some (c, reg) := pickCallee_single h rnd

theorem C03_pick_first {reg : Reg} {c : SessKey} {cs : List SessKey} (h : reg.callees = c :: cs)
    (hp : reg.policy = InvokeFirst) (rnd : Nat) : pickCallee reg rnd = some (c, reg) := pickCallee_first h hp rnd

theorem C03_pick_last {reg : Reg} (hne : reg.callees ≠ []) (hp : reg.policy = InvokeLast) (rnd : Nat) :
    pickCallee reg rnd = some (reg.callees.getLast hne, reg) := pickCallee_last hne hp rnd

/-- random: for every value of the oracle, some current member -/
theorem C03_pick_random {reg : Reg} (hne : reg.callees ≠ []) (hp : reg.policy = InvokeRandom) (rnd : Nat) :
    ∃ c, pickCallee reg rnd = some (c, reg) ∧ c ∈ reg.callees := by
  obtain ⟨c, h1, h2, _⟩ := pickCallee_random hne hp rnd
  exact ⟨c, h1, h2⟩

/-- round-robin: k consecutive calls to a registration with n ≥ 2 unchanged callees hit callee
    (start + i) mod n, i = 0 … k-1, where start is the cursor (reset to 0 when out of range) -/
theorem C03_pick_roundrobin {reg : Reg} (hp : reg.policy = InvokeRoundRobin) (hn : 2 ≤ reg.callees.length)
    (rnds : List Nat) :
    (pickIter reg rnds).1.length = rnds.length ∧
    ∀ i (_ : i < rnds.length), ((pickIter reg rnds).1)[i]? = reg.callees[(rrStart reg + i) % reg.callees.length]? :=
  pickCallee_rr_rotation hp hn rnds

/-- in every case the chosen session is a current callee and only the cursor of the registration changes -/
theorem C03_pick_member {reg reg' : Reg} {rnd : Nat} {c : SessKey} (h : pickCallee reg rnd = some (c, reg')) :
    c ∈ reg.callees ∧ reg' = { reg with next := reg'.next } := pickCallee_mem h

/-! ### the INVOCATION -/

/-- A CALL sends at most one INVOCATION; if it sends one it sends nothing else, and the INVOCATION is
    * for the first chunk: to the callee chosen by `pickCallee` among the callees of the registration found by
      `matchProcedure`, with that registration's id, the next id of the callee's generator, the details
      `invDetails …`, arguments and keyword arguments unchanged;
    * for a later chunk of a pending progressive call: to the stored callee under the stored invocation id and
      the registration id stored at the first chunk, details `{progress}`, payload unchanged. -/
theorem C03_invocation_fields {env : DEnv} {s : DState} (h : DealerInv s) (caller : SessKey) (req : Nat) (opts : Dict)
    (proc : String) (args : List WVal) (kw : Dict) (rnd : Nat) (x : Send)
    (hx : x ∈ (syncCall env s caller req opts proc args kw rnd).sends) (hi : x.msg.isInvocation = true) :
    (syncCall env s caller req opts proc args kw rnd).sends = [x] ∧
      InvocationOf env s caller req opts proc args kw rnd x :=
  syncCall_invocations h caller req opts proc args kw rnd x hx hi

/-- the first-chunk INVOCATION goes to a session currently registered under the best match -/
theorem C03_invocation_callee {s : DState} {proc : String} {reg reg' : Reg} {rnd : Nat} {callee : SessKey}
    (hm : s.d.matchProcedure proc = some reg) (hp : pickCallee reg rnd = some (callee, reg')) :
    reg ∈ s.d.regs ∧ BestMatch s.d.regs proc (some reg) ∧ callee ∈ reg.callees :=
  ⟨matchProcedure_mem hm, hm ▸ matchProcedure_bestMatch s.d proc, (pickCallee_mem hp).1⟩

example : (syncCall Ex.env Ex.sReg 2 5 [] "p" [.int 7] [] 0).sends.map (fun x => (x.to, x.msg.typeCode)) = [(1, 68)] := by
  decide +kernel

/-- EXACTLY ONE INVOCATION, first chunk.  A new CALL (not a chunk of a pending one) whose procedure resolves to `reg`,
    whose caller may use the options it uses, that is not refused (`callRefusal = none`) and whose chosen callee has
    room: the step sends exactly one message — the INVOCATION to the callee chosen by `pickCallee`, with the next id of
    that callee's generator, the registration's id, details `invDetails …` and the caller's payload unchanged. -/
theorem C03_invocation_sent_first {env : DEnv} {s : DState} (h : DealerInv s) {caller : SessKey} {req : Nat} {opts : Dict}
    {proc : String} (args : List WVal) (kw : Dict) {rnd : Nat} {reg reg' : Reg} {callee : SessKey}
    (hm : s.d.matchProcedure proc = some reg) (hb : s.d.byCall? ⟨caller, req⟩ = none)
    (hprog : (opts.optFlag OptProgress && !hasFeat env caller RoleCaller FeatureProgCallInvocations) = false)
    (hp : pickCallee reg rnd = some (callee, reg'))
    (hr : callRefusal env s.d.allowDisclose reg caller callee opts = none) (hf : env.full callee = false) :
    (syncCall env s caller req opts proc args kw rnd).sends =
      [⟨callee, .invocation (genOf s.invGen callee + 1) reg.id (invDetails env reg caller callee opts proc) args kw⟩] := by
  have hne : reg.callees.isEmpty = false := by
    have := (h.reg.regs.callees reg (matchProcedure_mem hm)).1
    cases hx : reg.callees with
    | nil => exact absurd hx this
    | cons _ _ => rfl
  rw [syncCall_first args kw hm hne hprog hb hp, firstChunk_ok args kw reg' hr hf]

/-- EXACTLY ONE INVOCATION, later chunk.  A further CALL under the request id of the pending call of the stored
    invocation `v` (caller entitled to progressive call invocations if it sets `progress`, callee has room): exactly
    one message — INVOCATION to the stored callee under the stored invocation id and registration id, details
    `{progress}`, payload unchanged — whatever URI the chunk names. -/
theorem C03_invocation_sent_later {env : DEnv} {s : DState} (h : DealerInv s) {v : Invk} (hv : v ∈ s.d.invs)
    (opts : Dict) (proc : String) (args : List WVal) (kw : Dict) (rnd : Nat)
    (hprog : (opts.optFlag OptProgress && !hasFeat env v.callId.sess RoleCaller FeatureProgCallInvocations) = false)
    (hf : env.full v.callee = false) :
    (syncCall env s v.callId.sess v.callId.req opts proc args kw rnd).sends =
      [⟨v.callee, .invocation v.id.req v.regId [(OptProgress, .bool (opts.optFlag OptProgress))] args kw⟩] := by
  obtain ⟨_, hb, hfi⟩ := h.call.inv_call hv
  rw [syncCall_later proc args kw rnd hprog hb hfi, laterChunk_ok v.callId.sess v.callId.req opts args kw v.id hf]

/-- both situations occur: the first chunk of (2, 7) in `Ex.sReg`, and a later chunk in `Ex.sProg` -/
example : (syncCall Ex.env Ex.sReg 2 7 [(OptProgress, .bool true)] "p" [] [] 0).sends.map (fun x => (x.to, x.msg.typeCode)) =
      [(1, 68)] ∧
    (syncCall Ex.env Ex.sProg 2 7 [] "p" [.int 1] [] 0).sends.map (fun x => (x.to, x.msg.typeCode)) = [(1, 68)] := by
  decide +kernel

/-! ### the round-robin cursor over consecutive CALLs -/

theorem firstChunk_regs (env : DEnv) (s : DState) (reg : Reg) (caller : SessKey) (req : Nat) (opts : Dict)
    (proc : String) (args : List WVal) (kw : Dict) (callee : SessKey) (reg' : Reg) :
    (firstChunk env s reg caller req opts proc args kw callee reg').st.d.regs = (s.d.setReg reg').regs := by
  rw [firstChunk_eq]
  split
  · rfl
  · rfl
  · unfold dispatch
    split
    · exact (syncError_sub ..).regs
    · unfold armTimer
      split <;> rfl

/-- THE CURSOR IS STORED.  A new CALL whose procedure resolves to `reg` and for which `pickCallee` chooses
    `(callee, reg')` leaves the registration table with `reg` replaced by `reg'` (the same registration with the
    advanced round-robin cursor; unchanged for the other policies) and nothing else changed — whether the call is then
    sent, refused (feature / disclose_me / passthru) or fails on a full callee queue. -/
theorem C03_call_cursor {env : DEnv} {s : DState} (h : DealerInv s) {caller : SessKey} {req : Nat} {opts : Dict}
    {proc : String} (args : List WVal) (kw : Dict) {rnd : Nat} {reg reg' : Reg} {callee : SessKey}
    (hm : s.d.matchProcedure proc = some reg) (hb : s.d.byCall? ⟨caller, req⟩ = none)
    (hprog : (opts.optFlag OptProgress && !hasFeat env caller RoleCaller FeatureProgCallInvocations) = false)
    (hp : pickCallee reg rnd = some (callee, reg')) :
    (syncCall env s caller req opts proc args kw rnd).st.d.regs =
        s.d.regs.map (fun x => if x.id == reg.id then reg' else x) ∧
      reg' = { reg with next := reg'.next } ∧
      (syncCall env s caller req opts proc args kw rnd).st.d.findReg reg.id = some reg' := by
  have hmem := matchProcedure_mem hm
  have hne : reg.callees.isEmpty = false := by
    have := (h.reg.regs.callees reg hmem).1
    cases hx : reg.callees with
    | nil => exact absurd hx this
    | cons _ _ => rfl
  have hid : reg'.id = reg.id := (pickCallee_shape hp).2.2.1
  have hregs : (syncCall env s caller req opts proc args kw rnd).st.d.regs =
      s.d.regs.map (fun x => if x.id == reg.id then reg' else x) := by
    rw [syncCall_first args kw hm hne hprog hb hp, firstChunk_regs]
    unfold Dealer.setReg
    simp only [hid]
  refine ⟨hregs, (pickCallee_mem hp).2, ?_⟩
  have hinv' := syncCall_inv (env := env) h caller req opts proc args kw rnd
  rw [findReg_eq_some hinv'.reg.regs.ids]
  refine ⟨?_, hid⟩
  rw [hregs]
  exact List.mem_map.2 ⟨reg, hmem, by simp⟩

/-- the arguments of one CALL step -/
structure CallArgs where
  env : DEnv
  caller : SessKey
  req : Nat
  opts : Dict
  proc : String
  args : List WVal
  kw : Dict
  rnd : Nat

def callStep (s : DState) (c : CallArgs) : DOut := syncCall c.env s c.caller c.req c.opts c.proc c.args c.kw c.rnd

/-- consecutive CALL steps from `s`, each a new call (not a chunk of a pending one, progress used legitimately) whose
    procedure resolves to the registration with id `g` -/
def NewCallsTo (g : Nat) : DState → List CallArgs → Prop
  | _, [] => True
  | s, c :: cs =>
    (∃ r, s.d.matchProcedure c.proc = some r ∧ r.id = g) ∧ s.d.byCall? ⟨c.caller, c.req⟩ = none ∧
    (c.opts.optFlag OptProgress && !hasFeat c.env c.caller RoleCaller FeatureProgCallInvocations) = false ∧
    NewCallsTo g (callStep s c).st cs

/-- the callee `syncCall` chooses at each of these steps (the recipient of the INVOCATION if the call goes through:
    `C03_invocation_sent_first`) -/
def chosen : DState → List CallArgs → List (Option SessKey)
  | _, [] => []
  | s, c :: cs =>
    ((s.d.matchProcedure c.proc).bind (fun r => (pickCallee r c.rnd).map (·.1))) :: chosen (callStep s c).st cs

/-- Consecutive new CALLs to one registration choose their callees exactly as `pickIter` does on that registration:
    each call picks from the registration as the previous call left it (cursor advanced), for every policy, whether
    or not the individual calls were then accepted. -/
theorem C03_calls_follow_pickIter : ∀ (cs : List CallArgs) {s : DState} {reg : Reg}, DealerInv s → reg ∈ s.d.regs →
    NewCallsTo reg.id s cs → chosen s cs = (pickIter reg (cs.map (·.rnd))).1.map some
  | [], _, _, _, _, _ => rfl
  | c :: cs, s, reg, h, hreg, hall => by
    obtain ⟨⟨r, hm, hrid⟩, hb, hprog, hrest⟩ := hall
    have hr : r = reg := nodup_map_inj h.reg.regs.ids (matchProcedure_mem hm) hreg hrid
    subst hr
    obtain ⟨callee, reg', hp⟩ := pickCallee_isSome h.reg.regs hreg c.rnd
    obtain ⟨hregs, _, _⟩ := C03_call_cursor (env := c.env) h c.args c.kw hm hb hprog hp
    have hid : reg'.id = r.id := (pickCallee_shape hp).2.2.1
    have hreg' : reg' ∈ (callStep s c).st.d.regs := by
      unfold callStep
      rw [hregs]
      exact List.mem_map.2 ⟨r, hreg, by simp⟩
    have ih := C03_calls_follow_pickIter cs (s := (callStep s c).st) (reg := reg')
      (syncCall_inv h _ _ _ _ _ _ _) hreg' (hid ▸ hrest)
    show (((s.d.matchProcedure c.proc).bind (fun r => (pickCallee r c.rnd).map (·.1))) :: chosen (callStep s c).st cs) = _
    rw [hm, ih]
    simp only [List.map_cons, pickIter, hp, Option.bind_some, Option.map_some]

/-- ROUND-ROBIN IN ROTATION.  k consecutive new CALLs to a round-robin registration with n ≥ 2 callees (nothing else
    happening in between, so the callee list is unchanged) choose callee (start + i) mod n, i = 0 … k−1, where `start`
    is the stored cursor (reset to 0 when out of range). -/
theorem C03_roundrobin_calls {s : DState} {reg : Reg} (h : DealerInv s) (hreg : reg ∈ s.d.regs)
    (hp : reg.policy = InvokeRoundRobin) (hn : 2 ≤ reg.callees.length) (cs : List CallArgs)
    (hall : NewCallsTo reg.id s cs) :
    (chosen s cs).length = cs.length ∧
    ∀ i (_ : i < cs.length), (chosen s cs)[i]? = some (reg.callees[(rrStart reg + i) % reg.callees.length]?) := by
  rw [C03_calls_follow_pickIter cs h hreg hall]
  obtain ⟨h1, h2⟩ := C03_pick_roundrobin hp hn (cs.map (·.rnd))
  refine ⟨by simp [h1], fun i hi => ?_⟩
  rw [List.getElem?_map, h2 i (by simpa using hi)]
  have hlt : (rrStart reg + i) % reg.callees.length < reg.callees.length := Nat.mod_lt _ (by omega)
  rw [List.getElem?_eq_getElem hlt]
  rfl

theorem NewCallsTo.cons_of {g : Nat} {s : DState} {c : CallArgs} {cs : List CallArgs}
    (hm : (s.d.matchProcedure c.proc).map (·.id) = some g) (hb : s.d.byCall? ⟨c.caller, c.req⟩ = none)
    (hp : (c.opts.optFlag OptProgress && !hasFeat c.env c.caller RoleCaller FeatureProgCallInvocations) = false)
    (hrest : NewCallsTo g (callStep s c).st cs) : NewCallsTo g s (c :: cs) := by
  cases hr : s.d.matchProcedure c.proc with
  | none => rw [hr] at hm; cases hm
  | some r =>
    rw [hr] at hm
    exact ⟨⟨r, hr, by simpa using hm⟩, hb, hp, hrest⟩

/-- the hypotheses of `C03_roundrobin_calls` are met by two consecutive calls to "s" in `Ex.sShared` (registration 2,
    round robin, callees [1, 3]) -/
example : NewCallsTo 2 Ex.sShared [⟨Ex.env, 2, 11, [], "s", [], [], 0⟩, ⟨Ex.env, 2, 12, [], "s", [], [], 0⟩] ∧
    (Ex.sShared.d.regs.filter (fun r => r.id == 2)).map (fun r => (r.policy, r.callees)) = [(InvokeRoundRobin, [1, 3])] := by
  refine ⟨NewCallsTo.cons_of (by decide +kernel) (by decide +kernel) (by decide +kernel)
    (NewCallsTo.cons_of (by decide +kernel) (by decide +kernel) (by decide +kernel) trivial), by decide +kernel⟩

/-- three consecutive calls to the round-robin registration 2 of `Ex.sShared` (callees [1, 3]) go to 1, 3, 1 -/
example : chosen Ex.sShared
    [⟨Ex.env, 2, 11, [], "s", [], [], 0⟩, ⟨Ex.env, 2, 12, [], "s", [], [], 0⟩, ⟨Ex.env, 2, 13, [], "s", [], [], 0⟩] =
    [some 1, some 3, some 1] := by decide +kernel

/-! ### the restricted `wamp.` namespace -/

/-- A REGISTER for a procedure whose URI starts with "wamp." from any session but the meta session is refused by the
    handler: exactly one ERROR(REGISTER, req, wamp.error.invalid_uri) is queued for the sender, the dealer is not
    touched. -/
theorem C03_restricted_wamp (r : Realm) (s : Session) (req : Nat) (opts : Dict) (proc : String)
    (hw : proc.startsWith "wamp." = true) (hk : s.key ≠ metaKey) :
    r.handleRegister s req opts proc =
      r.trySend ⟨s.key, .error tREGISTER req [] ErrInvalidURI [.str "<text>"] []⟩ ∧
    (r.handleRegister s req opts proc).ds = r.ds := by
  have he : r.handleRegister s req opts proc =
      r.trySend ⟨s.key, .error tREGISTER req [] ErrInvalidURI [.str "<text>"] []⟩ := by
    unfold Realm.handleRegister
    simp only
    split
    · rfl
    · rw [if_pos (by simp [hw, hk])]
      rfl
  exact ⟨he, by rw [he]; exact Realm.trySend_ds _ _⟩

example : ("wamp.session.count".startsWith "wamp." = true) ∧ ((5 : SessKey) ≠ metaKey) := by decide +kernel

/-- THE INVARIANT.  In every realm state reachable from `Realm.create cfg` by any history of inputs, a registration
    whose procedure starts with "wamp." has the meta session as its only callee: clients never serve (or share) a
    procedure of the reserved namespace, whatever they send. -/
theorem C03_wamp_callees {cfg : Config} {r : Realm} (h : Realm.Reachable cfg r) {reg : Reg} (hreg : reg ∈ r.ds.d.regs)
    (hw : reg.proc.startsWith "wamp." = true) : reg.callees = [metaKey] :=
  WpB.Reachable.wamp_callees h hreg hw

/-- … and such registrations exist: the meta procedures of a fresh realm -/
example : ((Realm.create {}).map (fun r => r.ds.d.regs.all (fun reg => reg.proc.startsWith "wamp." && reg.callees == [metaKey]) &&
    !r.ds.d.regs.isEmpty)) = some true := by decide +kernel

/-- `receive_progress: true` exactly when the caller asked ∧ the callee announced progressive_call_results ∧
    call_canceling; otherwise the key is absent -/
theorem C03_details_receive_progress (env : DEnv) (reg : Reg) (caller callee : SessKey) (opts : Dict) (proc : String) :
    Dict.get? (invDetails env reg caller callee opts proc) OptReceiveProgress =
      if opts.optFlag OptReceiveProgress && hasFeat env callee RoleCallee FeatureProgCallResults &&
         hasFeat env callee RoleCallee FeatureCallCanceling then some (.bool true) else none :=
  invDetails_get?_receive_progress env reg caller callee opts proc

/-- `procedure: <called URI>` iff the registration's raw match option is not "exact" -/
theorem C03_details_procedure (env : DEnv) (reg : Reg) (caller callee : SessKey) (opts : Dict) (proc : String) :
    Dict.get? (invDetails env reg caller callee opts proc) OptProcedure =
      if reg.«match» != MatchExact then some (.str proc) else none :=
  invDetails_get?_procedure env reg caller callee opts proc

/-- `timeout` forwarded iff the CALL's timeout is positive ∧ callee has call_timeout ∧ registration forward_timeout
    (first chunk only: a later chunk's details are `{progress}`) -/
theorem C03_details_timeout (env : DEnv) (reg : Reg) (caller callee : SessKey) (opts : Dict) (proc : String) :
    Dict.get? (invDetails env reg caller callee opts proc) OptTimeout =
      if optTimeout opts > 0 && forwardsTimeout env reg callee then some (.int (optTimeout opts)) else none :=
  invDetails_get?_timeout env reg caller callee opts proc

/-! ### invocation ids -/

/-- An INVOCATION sent in a step either opens a new invocation — its request id is the callee's generator + 1,
    larger than the id of every invocation stored for that callee, and the generator is advanced to it — or it
    continues a stored invocation of that callee under its stored id. -/
theorem C03_inv_id_step {s : DState} {o : DOut} (h : DealerInv s) (st : DStep s o) (x : Send) (hx : x ∈ o.sends)
    (r g : Nat) (d : Dict) (a : List WVal) (kw : Dict) (hm : x.msg = .invocation r g d a kw) :
    (r = genOf s.invGen x.to + 1 ∧ genOf o.st.invGen x.to = r ∧ ∀ v ∈ s.d.invs, v.id.sess = x.to → v.id.req < r) ∨
    (∃ v ∈ s.d.invs, v.id = ⟨x.to, r⟩) := by
  have hi : x.msg.isInvocation = true := by rw [hm]; rfl
  obtain ⟨env, caller, req, opts, proc, args, kw', rnd, rfl⟩ := st.invocation_is_call h x hx hi
  obtain ⟨hs, hform⟩ := syncCall_invocations h caller req opts proc args kw' rnd x hx hi
  cases hform with
  | first reg reg' callee hmm hb hp hr hf =>
    left
    simp only [Msg.invocation.injEq] at hm
    obtain ⟨rfl, _⟩ := hm
    refine ⟨rfl, ?_, fun v hv hvs => ?_⟩
    · have hne : reg.callees.isEmpty = false := by
        have := (h.reg.regs.callees reg (matchProcedure_mem hmm)).1
        cases hxx : reg.callees with
        | nil => exact absurd hxx this
        | cons _ _ => rfl
      have hprog : (opts.optFlag OptProgress && !hasFeat env caller RoleCaller FeatureProgCallInvocations) = false := by
        cases hq : (opts.optFlag OptProgress && !hasFeat env caller RoleCaller FeatureProgCallInvocations) with
        | false => rfl
        | true =>
          exfalso
          rw [syncCall_eq, hb] at hs
          simp only [hmm, hne, Bool.false_eq_true, if_false, hq, if_true, progressAbort] at hs
          simp only [List.cons.injEq, and_true] at hs
          have := congrArg (fun x => x.msg.isInvocation) hs
          simp [abortMsg, Msg.isInvocation] at this
      rw [syncCall_first args kw' hmm hne hprog hb hp, firstChunk_ok args kw' reg' hr hf]
      show genOf (armTimer env (recordCall _ _ callee) caller req _ _).invGen callee = _
      have : ∀ (S : DState) (v : Invk) (t : Nat), (armTimer env S caller req v t).invGen = S.invGen := by
        intro S v t; unfold armTimer; split <;> rfl
      rw [this]
      show genOf (invGenNext s.invGen callee).2 callee = _
      rw [genOf_invGenNext]; simp
    · have hvs' : v.id.sess = callee := hvs
      have := (h.aux.gen v hv).2
      rw [hvs'] at this
      show v.id.req < genOf s.invGen callee + 1
      omega
  | later iid v0 hb hfi hf =>
    right
    simp only [Msg.invocation.injEq] at hm
    obtain ⟨rfl, _⟩ := hm
    obtain ⟨_, v, hf', hv, hvi, _, hve⟩ := h.call.byCall?_some hb
    rw [hfi] at hf'; cases hf'
    exact ⟨v0, hv, by rw [hvi, hve]⟩

/-- a CALL that sends an INVOCATION has passed the check "progress only from a caller that announced progressive call
    invocations" -/
theorem C03_invocation_prog_ok {env : DEnv} {s : DState} (caller : SessKey) (req : Nat) (opts : Dict)
    (proc : String) (args : List WVal) (kw : Dict) (rnd : Nat) (x : Send)
    (hx : x ∈ (syncCall env s caller req opts proc args kw rnd).sends) (hi : x.msg.isInvocation = true) :
    (opts.optFlag OptProgress && !hasFeat env caller RoleCaller FeatureProgCallInvocations) = false := by
  cases hq : (opts.optFlag OptProgress && !hasFeat env caller RoleCaller FeatureProgCallInvocations) with
  | false => rfl
  | true =>
    exfalso
    have habort : ∀ y ∈ (progressAbort s caller).sends, y.msg.isInvocation = false := by
      intro y hy
      simp only [progressAbort, List.mem_singleton] at hy
      subst hy; rfl
    rw [syncCall_eq] at hx
    split at hx
    · split at hx
      · cases hx
      · rw [if_pos hq] at hx
        rw [habort x hx] at hi; cases hi
    · split at hx
      · simp only [List.mem_singleton] at hx
        subst hx; cases hi
      · split at hx
        · simp only [List.mem_singleton] at hx
          subst hx; cases hi
        · try rw [if_pos hq] at hx
          rw [habort x hx] at hi; cases hi

/-- Over any run of the dealer the generator of a callee never goes back, and every INVOCATION that opens a new
    invocation towards callee `k` in the run has a request id above the generator's value at the start of the run
    and at most its value at the end: ids towards one callee strictly increase. -/
theorem C03_inv_id_fresh {s s' : DState} {tr : List (DState × DOut)} (run : Run s tr s') (k : SessKey) :
    DealerInv s →
    genOf s.invGen k ≤ genOf s'.invGen k ∧
    ∀ p ∈ tr, ∀ x ∈ p.2.sends, ∀ (r g : Nat) (d : Dict) (a : List WVal) (kw : Dict),
      x.msg = .invocation r g d a kw → x.to = k →
      (genOf s.invGen k < r ∧ r ≤ genOf s'.invGen k) ∨ (∃ v ∈ p.1.d.invs, v.id = ⟨k, r⟩) := by
  induction run with
  | nil s => intro _; exact ⟨Nat.le_refl _, fun p hp => by cases hp⟩
  | @cons s o tr s' st _ ih =>
    intro h
    obtain ⟨h1, h2⟩ := ih (st.inv h)
    have hm := st.gen_mono h k
    refine ⟨Nat.le_trans hm h1, ?_⟩
    intro p hp x hx r g d a kw hmsg hto
    rcases List.mem_cons.1 hp with rfl | hp
    · rcases C03_inv_id_step h st x hx r g d a kw hmsg with ⟨e1, e2, _⟩ | ⟨v, hv, hvi⟩
      · left
        rw [hto] at e1 e2
        omega
      · right; exact ⟨v, hv, hto ▸ hvi⟩
    · rcases h2 p hp x hx r g d a kw hmsg hto with ⟨e1, e2⟩ | hx'
      · left; omega
      · right; exact hx'

/-! ### progressive call invocations: same callee, same id -/

/-- The accepted first chunk stores exactly the callee, the invocation id and the registration id its INVOCATION
    was sent with (and the registration's `forward_timeout` setting). -/
theorem C03_first_chunk_records {env : DEnv} {s : DState} (h : DealerInv s) {caller : SessKey} {req : Nat} {opts : Dict}
    {proc : String} (args : List WVal) (kw : Dict) {rnd : Nat} {reg reg' : Reg} {callee : SessKey}
    (hm : s.d.matchProcedure proc = some reg) (hb : s.d.byCall? ⟨caller, req⟩ = none)
    (hprog : (opts.optFlag OptProgress && !hasFeat env caller RoleCaller FeatureProgCallInvocations) = false)
    (hp : pickCallee reg rnd = some (callee, reg'))
    (hr : callRefusal env s.d.allowDisclose reg caller callee opts = none) (hf : env.full callee = false) :
    ∃ v ∈ (syncCall env s caller req opts proc args kw rnd).st.d.invs,
      v.callId = ⟨caller, req⟩ ∧ v.id = ⟨callee, genOf s.invGen callee + 1⟩ ∧ v.callee = callee ∧
      v.regId = reg.id ∧ v.fwdTimeout = reg.fwdTimeout := by
  have hne : reg.callees.isEmpty = false := by
    have := (h.reg.regs.callees reg (matchProcedure_mem hm)).1
    cases hx : reg.callees with
    | nil => exact absurd hx this
    | cons _ _ => rfl
  rw [syncCall_first args kw hm hne hprog hb hp, firstChunk_ok args kw reg' hr hf]
  have hmem : newInvk s reg caller req callee opts ∈
      (recordCall { s with d := s.d.setReg reg' } (newInvk s reg caller req callee opts) callee).d.invs := by
    show _ ∈ _ ++ [_]
    exact List.mem_append_right _ (List.mem_singleton.2 rfl)
  simp only
  by_cases hpos : 0 < routerTimeout env reg callee opts
  · rw [armTimer_pos hpos]
    refine ⟨{ newInvk s reg caller req callee opts with timer := some (s.nextTimer + 1) }, ?_, rfl,
      newInvk_id s reg caller req callee opts, rfl, rfl, rfl⟩
    show _ ∈ (Dealer.setInv _ _).invs
    unfold Dealer.setInv
    simp only
    exact (mem_map_update (f := fun x : Invk => x.id)
      (u := fun _ => { newInvk s reg caller req callee opts with timer := some (s.nextTimer + 1) })).2
      (Or.inr ⟨_, hmem, rfl, rfl⟩)
  · have : routerTimeout env reg callee opts = 0 := by omega
    rw [this, armTimer_zero]
    exact ⟨_, hmem, rfl, newInvk_id s reg caller req callee opts, rfl, rfl, rfl⟩

/-- THE INVOCATION BELONGS TO THE CALL OF ITS STEP.  An INVOCATION that opens a new invocation towards `x.to` (its id
    is not that of a stored invocation — a first chunk) is sent by the CALL step of some caller `c` with request `q`:
    it carries that CALL's arguments unchanged, it is the only message of the step, and the step records the invocation
    `(x.to, r)` for the call `(c, q)`. -/
theorem C03_invocation_of_call {s : DState} {o : DOut} (h : DealerInv s) (st : DStep s o) (x : Send) (hx : x ∈ o.sends)
    (r g : Nat) (d : Dict) (a : List WVal) (kw : Dict) (hm : x.msg = .invocation r g d a kw)
    (hnew : ∀ v ∈ s.d.invs, v.id ≠ ⟨x.to, r⟩) :
    ∃ env c q opts proc rnd, o = syncCall env s c q opts proc a kw rnd ∧ o.sends = [x] ∧
      (⟨c, q⟩ : ReqId) ∉ s.d.calls ∧ ∃ v ∈ o.st.d.invs, v.callId = ⟨c, q⟩ ∧ v.id = ⟨x.to, r⟩ ∧ v.regId = g := by
  have hi : x.msg.isInvocation = true := by rw [hm]; rfl
  obtain ⟨env, caller, req, opts, proc, args, kw', rnd, rfl⟩ := st.invocation_is_call h x hx hi
  obtain ⟨hs, hform⟩ := syncCall_invocations h caller req opts proc args kw' rnd x hx hi
  have hprog := C03_invocation_prog_ok caller req opts proc args kw' rnd x hx hi
  cases hform with
  | first reg reg' callee hmm hb hp hr hf =>
    simp only [Msg.invocation.injEq] at hm
    obtain ⟨rfl, rfl, _, rfl, rfl⟩ := hm
    obtain ⟨v, hv, h1, h2, _, h4, _⟩ := C03_first_chunk_records h args kw' hmm hb hprog hp hr hf
    refine ⟨env, caller, req, opts, proc, rnd, rfl, hs, ?_, v, hv, h1, h2, h4⟩
    intro hc
    obtain ⟨i, _, hb', _⟩ := h.call.lookup hc
    rw [hb] at hb'; cases hb'
  | later iid v0 hb hfi hf =>
    exfalso
    simp only [Msg.invocation.injEq] at hm
    obtain ⟨rfl, _⟩ := hm
    obtain ⟨_, v, hf', hv, hvi, _, hve⟩ := h.call.byCall?_some hb
    rw [hfi] at hf'; cases hf'
    exact hnew v0 hv (by rw [hvi, hve])

/-- While a call stays pending its stored invocation keeps its id, its callee and the recorded registration
    (id and `forward_timeout`), whatever steps happen. -/
theorem C03_invocation_persists {s : DState} {o : DOut} (h : DealerInv s) (st : DStep s o) {v v' : Invk}
    (hv : v ∈ s.d.invs) (hv' : v' ∈ o.st.d.invs) (hc : v'.callId = v.callId) :
    v'.id = v.id ∧ v'.callee = v.callee ∧ v'.regId = v.regId ∧ v'.fwdTimeout = v.fwdTimeout := by
  rcases st.invs_frame h v' hv' with ⟨w, hw, hs⟩ | ⟨hnew, _⟩
  · simp only [Invk.shapeC, Prod.mk.injEq] at hs
    have : w = v := nodup_map_inj h.call.invCalls hw hv (hs.2.1.trans hc)
    subst this
    exact ⟨hs.1.symm, hs.2.2.1.symm, hs.2.2.2.1.symm, hs.2.2.2.2.symm⟩
  · exact absurd (hc ▸ (h.call.inv_call hv).1) hnew

/-- A later chunk of a pending progressive call goes to the callee stored for that call, under the stored
    invocation id and the stored registration id — whatever URI the chunk names and whether or not the callee is
    still registered — with details `{progress}` and the payload unchanged, as the only message of the step. -/
theorem C03_progressive_same_callee {env : DEnv} {s : DState} (h : DealerInv s) {v : Invk} (hv : v ∈ s.d.invs)
    (opts : Dict) (proc : String) (args : List WVal) (kw : Dict) (rnd : Nat) (x : Send)
    (hx : x ∈ (syncCall env s v.callId.sess v.callId.req opts proc args kw rnd).sends) (hi : x.msg.isInvocation = true) :
    x = ⟨v.callee, .invocation v.id.req v.regId [(OptProgress, .bool (opts.optFlag OptProgress))] args kw⟩ ∧
      (syncCall env s v.callId.sess v.callId.req opts proc args kw rnd).sends = [x] := by
  obtain ⟨hs, hform⟩ := syncCall_invocations h v.callId.sess v.callId.req opts proc args kw rnd x hx hi
  have hb := (h.call.inv_call hv).2.1
  cases hform with
  | first reg reg' callee hmm hb' hp hr hf => rw [hb] at hb'; cases hb'
  | later iid v0 hb' hfi hf =>
    rw [hb] at hb'; cases hb'
    rw [(h.call.inv_call hv).2.2] at hfi; cases hfi
    exact ⟨rfl, hs⟩

/-- The registration id recorded in a stored invocation is the id of a registration that had the invocation's
    callee among its callees when the invocation was created (it may have been unregistered since). -/
theorem C03_invocation_reg_recorded {s : DState} {o : DOut} (h : DealerInv s) (st : DStep s o) {v' : Invk}
    (hv' : v' ∈ o.st.d.invs) (hnew : ∀ v ∈ s.d.invs, v.callId ≠ v'.callId) :
    calleeRel s.d.regs v'.regId v'.callee := by
  rcases st.invs_frame h v' hv' with ⟨w, hw, hs⟩ | ⟨_, _, _, hc⟩
  · simp only [Invk.shapeC, Prod.mk.injEq] at hs
    exact absurd hs.2.1 (hnew w hw)
  · exact hc

example : (syncCall Ex.env50 Ex.sProgT 2 8 [(OptProgress, .bool true)] "p" [] [] 0).sends.map
    (fun x => (x.to, x.msg.typeCode)) = [(1, 68)] := by decide +kernel

/-! ### answers -/

/-- YIELD from the owner of the invocation: every message of the step goes to the caller of that call or back to
    the yielding callee (ABORT / ERROR for payload-passthru misuse, INTERRUPT when the caller cannot take the
    result) — never to a third session.  (Payload unchanged: `C02_callee_final_yield_payload`.) -/
theorem C03_answer_routing_owner_yield {env : DEnv} {s : DState} (h : DealerInv s) {v : Invk} (hv : v ∈ s.d.invs)
    (opts : Dict) (args : List WVal) (kw : Dict) (progress canRetry : Bool) :
    ∀ x ∈ (syncYield env s v.id.sess v.id.req opts args kw progress canRetry).sends,
      x.to = v.callId.sess ∨ x.to = v.id.sess :=
  yield_recipients h hv opts args kw progress canRetry

/-- INVOCATION ERROR from the owner: exactly one message, ERROR(CALL) with the same URI, details and payload, to
    the caller of that call. -/
theorem C03_answer_routing_owner_error {s : DState} (h : DealerInv s) {v : Invk} (hv : v ∈ s.d.invs) (details : Dict)
    (err : String) (args : List WVal) (kw : Dict) :
    (syncError s v.id.sess v.id.req details err args kw).sends =
      [⟨v.callId.sess, .error tCALL v.callId.req details err args kw⟩] := by
  have hf : s.d.findInv ⟨v.id.sess, v.id.req⟩ = some v := (findInv_eq_some h.call.invIds).2 ⟨hv, rfl⟩
  rw [syncError_some' h.call details err args kw hf]; rfl

/-- YIELD from a session that does not own an invocation with that request id (invocation ids are keyed by the
    callee session): the state is unchanged and nothing is sent — except the INTERRUPT{killnowait} that answers an
    unknown PROGRESSIVE yield, to the sender itself. -/
theorem C03_answer_routing_foreign_yield {env : DEnv} {s : DState} (k : SessKey) (req : Nat) (opts : Dict)
    (args : List WVal) (kw : Dict) (progress canRetry : Bool) (hno : ∀ v ∈ s.d.invs, v.id ≠ ⟨k, req⟩) :
    syncYield env s k req opts args kw progress canRetry =
      if progress && !env.full k then
        { st := s, sends := [⟨k, .interrupt req [(OptMode, .str CancelModeKillNoWait)]⟩] }
      else { st := s } :=
  syncYield_none opts args kw progress canRetry (findInv_eq_none.2 hno)

/-- INVOCATION ERROR from a session that does not own such an invocation: no effect at all. -/
theorem C03_answer_routing_foreign_error {s : DState} (k : SessKey) (req : Nat) (details : Dict) (err : String)
    (args : List WVal) (kw : Dict) (hno : ∀ v ∈ s.d.invs, v.id ≠ ⟨k, req⟩) :
    syncError s k req details err args kw = { st := s } :=
  syncError_none details err args kw (findInv_eq_none.2 hno)

/-- session 3 answers the invocation (1, 1) of `Ex.sCall`: it does not own it -/
example : ∀ v ∈ Ex.sCall.d.invs, v.id ≠ ⟨3, 1⟩ := by decide +kernel

/-! ### shared registrations -/

/-- The condition under which a REGISTER for an existing (procedure, kind) is accepted. -/
def sharable (reg : Reg) (invoke : String) (callee : SessKey) : Prop :=
  reg.policy ≠ "" ∧ reg.policy ≠ InvokeSingle ∧ reg.policy = invoke ∧ callee ∉ reg.callees

/-- accepted: REGISTERED with the existing registration's id, the session appended to its callees -/
theorem C03_shared_policy_accept {s : DState} (h : DealerInv s) (callee : SessKey) (req : Nat) (proc m invoke : String)
    (disclose fwd wampURI : Bool) {reg : Reg} (hf : s.d.findProc proc (matchKind m) = some reg)
    (hs : sharable reg invoke callee) :
    (syncRegister s callee req proc m invoke disclose fwd wampURI).sends = [⟨callee, .registered req reg.id⟩] ∧
      (∀ k, calleeRel (syncRegister s callee req proc m invoke disclose fwd wampURI).st.d.regs reg.id k ↔
        k ∈ reg.callees ∨ k = callee) := by
  obtain ⟨h1, h2, h3, h4⟩ := hs
  have hm := ((findProc_eq_some h.reg.regs.keys).1 hf).1
  unfold syncRegister
  simp only [hf]
  rw [if_neg (by simp [h1, h2]), if_neg (by simp [h3]), if_neg (by simpa using h4)]
  refine ⟨rfl, fun k => ?_⟩
  show calleeRel (s.d.setReg { reg with callees := reg.callees ++ [callee] }).regs reg.id k ↔ _
  rw [calleeRel_setReg hm]
  constructor
  · rintro (⟨hne, _⟩ | ⟨_, hc⟩)
    · exact absurd rfl hne
    · simpa using hc
  · intro hc
    exact Or.inr ⟨rfl, by simpa using hc⟩

/-- refused otherwise — stored policy ""/"single", or different from the requested one, or the session is a
    callee already: exactly one ERROR(REGISTER) procedure_already_exists, no state change -/
theorem C03_shared_policy_refuse {s : DState} (callee : SessKey) (req : Nat) (proc m invoke : String)
    (disclose fwd wampURI : Bool) {reg : Reg} (hf : s.d.findProc proc (matchKind m) = some reg)
    (hs : ¬ sharable reg invoke callee) :
    syncRegister s callee req proc m invoke disclose fwd wampURI =
      { st := s, sends := [⟨callee, errMsg tREGISTER req ErrProcedureAlreadyExists⟩] } := by
  unfold syncRegister
  simp only [hf]
  split
  · rfl
  · rename_i h1
    split
    · rfl
    · rename_i h2
      split
      · rfl
      · rename_i h3
        exfalso
        apply hs
        simp only [Bool.or_eq_true, beq_iff_eq, not_or] at h1
        exact ⟨h1.1, h1.2, by simpa using h2, by simpa using h3⟩

example : Ex.sReg.d.findProc "p" (matchKind "") = some
    { id := 1, proc := "p", «match» := "", policy := "", disclose := false, fwdTimeout := false, callees := [1] } := by
  rfl

/-! ### no route after UNREGISTERED / departure -/

/-- UNREGISTER by a callee of the registration: UNREGISTERED, and the session is no callee of it any more. -/
theorem C03_unregistered {s : DState} (h : DealerInv s) (callee : SessKey) (req regId : Nat)
    (hr : calleeRel s.d.regs regId callee) :
    (syncUnregister s callee req regId).sends = [⟨callee, .unregistered req⟩] ∧
      ¬ calleeRel (syncUnregister s callee req regId).st.d.regs regId callee := by
  refine ⟨?_, fun hc => (((syncUnregister_frame h callee req regId).2.2 regId callee).1 hc).2 ⟨rfl, rfl⟩⟩
  unfold syncUnregister
  simp only
  obtain ⟨d', del, he, _⟩ :=
    delCalleeReg_some (d := { s.d with index := idxDel s.d.index callee regId }) h.reg.regs hr
  rw [he]

/-- The session's departure: it is a callee of no registration and serves no stored invocation any more. -/
theorem C03_gone {env : DEnv} {s : DState} (h : DealerInv s) (k : SessKey) :
    (∀ id, ¬ calleeRel (syncRemoveSession env s k).st.d.regs id k) ∧
      ∀ v ∈ (syncRemoveSession env s k).st.d.invs, v.callee ≠ k :=
  ⟨fun id hc => (((syncRemoveSession_frame h k).2.2 id k).1 hc).2 rfl, syncRemoveSession_no_inv h k⟩

/-- "Is a callee of no registration and serves no invocation" persists over every step that is not a REGISTER by
    that session (a departed session sends nothing). -/
theorem C03_not_callee_persists {s : DState} {o : DOut} (h : DealerInv s) (st : DStep s o) (k : SessKey)
    (hreg : ¬ IsRegisterStep s o k) (h1 : ∀ id, ¬ calleeRel s.d.regs id k) (h2 : ∀ v ∈ s.d.invs, v.callee ≠ k) :
    (∀ id, ¬ calleeRel o.st.d.regs id k) ∧ ∀ v ∈ o.st.d.invs, v.callee ≠ k := by
  refine ⟨fun id hc => (st.calleeRel_frame h id k hc).elim (h1 id) hreg, fun v' hv' hk => ?_⟩
  rcases st.invs_frame h v' hv' with ⟨w, hw, hs⟩ | ⟨_, _, _, hc⟩
  · simp only [Invk.shapeC, Prod.mk.injEq] at hs
    exact h2 w hw (hs.2.2.1.trans hk)
  · exact h1 v'.regId (hk ▸ hc)

/-- Hence no CALL produces an INVOCATION to such a session. -/
theorem C03_no_invocation_to_gone {env : DEnv} {s : DState} (h : DealerInv s) (k : SessKey)
    (h1 : ∀ id, ¬ calleeRel s.d.regs id k) (h2 : ∀ v ∈ s.d.invs, v.callee ≠ k)
    (caller : SessKey) (req : Nat) (opts : Dict) (proc : String) (args : List WVal) (kw : Dict) (rnd : Nat) :
    ∀ x ∈ (syncCall env s caller req opts proc args kw rnd).sends, x.msg.isInvocation = true → x.to ≠ k := by
  intro x hx hi hk
  obtain ⟨_, hform⟩ := syncCall_invocations h caller req opts proc args kw rnd x hx hi
  cases hform with
  | first reg reg' callee hmm hb hp hr hf =>
    exact h1 reg.id ⟨reg, matchProcedure_mem hmm, rfl, hk ▸ (pickCallee_mem hp).1⟩
  | later iid v0 hb hfi hf =>
    exact h2 v0 (findInv_some_mem hfi).1 hk

/-- session 1 leaves `Ex.sCall`: no registration is left -/
example : (syncRemoveSession Ex.env Ex.sCall 1).st.d.regs.map (·.id) = [] := by decide +kernel

end Nexus.C03
