/-
  C03 — Calls reach the right callee with payload and ids intact.

  Property text.  "A CALL yields exactly one INVOCATION per call chunk, delivered to one session
  currently registered under the best-matching registration - exact URI first, otherwise the longest
  matching prefix, otherwise a matching wildcard - chosen by that registration's policy (single, first,
  last, round-robin in rotation, random among members); it carries the registration's id, a request id
  never used before towards that callee, the caller's arguments unchanged and the receive_progress flag
  exactly when the caller asked for progress and the callee supports it, and all chunks of one
  progressive call go to the same callee under the same invocation id.  The callee's YIELD or ERROR is
  forwarded, payload unchanged, only to the session that made that call, while an answer from a session
  that does not own the invocation has no effect.  A second registration of a procedure is accepted
  only under an identical sharing policy (otherwise procedure_already_exists), restricted wamp.*
  procedures cannot be registered by clients, and after UNREGISTERED or the callee's departure no
  further call is routed to it."

  Theorems are about the dealer model (`Dealer.matchProcedure`, `pickCallee`, `syncCall`, `syncYield`,
  `syncError`, `syncRegister`, `syncUnregister`, `syncRemoveSession`), for every state satisfying
  `DealerInv`, every environment and all arguments.  (`restricted wamp.*`: `Realm.handleRegister`, lead's
  C03_restricted_wamp; `forwarded payload unchanged`: also C02_callee_final_yield_payload / _error.)

  clause                                                          theorem
  --------------------------------------------------------------  --------------------------------------
  best match: exact, else longest matching prefix, else a          C03_match (any table, any order),
    longest matching wildcard, else none                           C03_match_unique (exact/prefix winner is
                                                                   unique under DealerInv), C03_match_order
  callee chosen by the registration's policy                       C03_pick_single, _first, _last, _random,
                                                                   C03_pick_roundrobin (rotation)
  exactly one INVOCATION per chunk, to a callee of the best match, C03_invocation_fields,
    registration id, payload unchanged                             C03_invocation_callee
  receive_progress / procedure / timeout details                   C03_details_receive_progress,
                                                                   C03_details_procedure, C03_details_timeout
  request id never used before towards that callee                 C03_inv_id_step, C03_inv_id_fresh (runs)
  all chunks of a progressive call: same callee, same id, same      C03_first_chunk_records,
    registration id                                                  C03_invocation_persists,
                                                                   C03_progressive_same_callee,
                                                                   C03_invocation_reg_recorded
  answer forwarded only to the caller of that call;                C03_answer_routing_owner_yield,
    a non-owner's answer has no effect                             C03_answer_routing_owner_error,
                                                                   C03_answer_routing_foreign_yield,
                                                                   C03_answer_routing_foreign_error
  second REGISTER: accepted iff identical sharing policy           C03_shared_policy_accept,
                                                                   C03_shared_policy_refuse
  after UNREGISTERED / departure no further call is routed to it   C03_unregistered, C03_gone,
                                                                   C03_not_callee_persists,
                                                                   C03_no_invocation_to_gone
-/
import Nexus.L2.Proofs.DealerFrame
import Nexus.L2.Proofs.DealerExamples

namespace Nexus.C03
open Nexus.L2 Nexus.Gen.N Nexus

/-! ### best match -/

/-- The lookup is `bestMatch`: the exact registration if one exists; else a matching prefix registration of
    greatest pattern length; else a matching wildcard registration of greatest pattern length; else none.
    The specification `BestMatch` mentions the table only through membership, so this holds for any table in
    any order (Go map iteration order). -/
theorem C03_match (d : Dealer) (proc : String) : BestMatch d.regs proc (d.matchProcedure proc) :=
  matchProcedure_bestMatch d proc

theorem C03_match_order {l l' : List Reg} (hp : l.Perm l') {proc : String} {res : Option Reg} :
    BestMatch l proc res → BestMatch l' proc res :=
  BestMatch.of_perm hp

/-- Under DealerInv (at most one registration per (procedure, kind)) the exact and the prefix winner are
    unique: whenever an exact or a prefix registration matches, any two results allowed by the
    specification coincide, and the lookup gives the same registration for every order of the table.
    (Among equally long matching wildcard patterns the choice follows the table order.) -/
theorem C03_match_unique {s : DState} (h : DealerInv s) {proc : String} {r1 r2 : Reg}
    (h1 : BestMatch s.d.regs proc (some r1)) (h2 : BestMatch s.d.regs proc (some r2))
    (hm : (∃ e ∈ s.d.regs, e.isExactFor proc) ∨ (∃ p ∈ s.d.regs, p.isPfxFor proc)) : r1 = r2 :=
  BestMatch.unique_exact_or_pfx h.reg.regs.keyUnique h1 h2 hm

theorem C03_match_any_order {s : DState} (h : DealerInv s) (d' : Dealer) (hp : s.d.regs.Perm d'.regs) (proc : String)
    (hm : (∃ e ∈ s.d.regs, e.isExactFor proc) ∨ (∃ p ∈ s.d.regs, p.isPfxFor proc)) :
    d'.matchProcedure proc = s.d.matchProcedure proc :=
  matchProcedure_perm s.d d' proc hp h.reg.regs.keyUnique hm

example : (Ex.sCall.d.matchProcedure "p").map (fun r => (r.id, r.callees)) = some (1, [1]) := by decide +kernel

/-! ### callee choice -/

theorem C03_pick_single {reg : Reg} {c : SessKey} (h : reg.callees = [c]) (rnd : Nat) :
    pickCallee reg rnd = some (c, reg) := pickCallee_single h rnd

theorem C03_pick_first {reg : Reg} {c : SessKey} {cs : List SessKey} (h : reg.callees = c :: cs)
    (hp : reg.policy = InvokeFirst) (rnd : Nat) : pickCallee reg rnd = some (c, reg) := pickCallee_first h hp rnd

theorem C03_pick_last {reg : Reg} (hne : reg.callees ≠ []) (hp : reg.policy = InvokeLast) (rnd : Nat) :
    pickCallee reg rnd = some (reg.callees.getLast hne, reg) := pickCallee_last hne hp rnd

/-- random: for every value of the oracle, some current member -/
theorem C03_pick_random {reg : Reg} (hne : reg.callees ≠ []) (hp : reg.policy = InvokeRandom) (rnd : Nat) :
    ∃ c, pickCallee reg rnd = some (c, reg) ∧ c ∈ reg.callees := by
  obtain ⟨c, h1, h2, _⟩ := pickCallee_random hne hp rnd
  exact ⟨c, h1, h2⟩

/-- round-robin: k consecutive calls to a registration with n ≥ 2 unchanged callees hit callee
    (start + i) mod n, i = 0 … k-1, where start is the cursor (reset to 0 when out of range) -/
theorem C03_pick_roundrobin {reg : Reg} (hp : reg.policy = InvokeRoundRobin) (hn : 2 ≤ reg.callees.length)
    (rnds : List Nat) :
    (pickIter reg rnds).1.length = rnds.length ∧
    ∀ i (_ : i < rnds.length), ((pickIter reg rnds).1)[i]? = reg.callees[(rrStart reg + i) % reg.callees.length]? :=
  pickCallee_rr_rotation hp hn rnds

/-- in every case the chosen session is a current callee and only the cursor of the registration changes -/
theorem C03_pick_member {reg reg' : Reg} {rnd : Nat} {c : SessKey} (h : pickCallee reg rnd = some (c, reg')) :
    c ∈ reg.callees ∧ reg' = { reg with next := reg'.next } := pickCallee_mem h

/-! ### the INVOCATION -/

/-- A CALL sends at most one INVOCATION; if it sends one it sends nothing else, and the INVOCATION is
    * for the first chunk: to the callee chosen by `pickCallee` among the callees of the registration found by
      `matchProcedure`, with that registration's id, the next id of the callee's generator, the details
      `invDetails …`, arguments and keyword arguments unchanged;
    * for a later chunk of a pending progressive call: to the stored callee under the stored invocation id and
      the registration id stored at the first chunk, details `{progress}`, payload unchanged. -/
theorem C03_invocation_fields {env : DEnv} {s : DState} (h : DealerInv s) (caller : SessKey) (req : Nat) (opts : Dict)
    (proc : String) (args : List WVal) (kw : Dict) (rnd : Nat) (x : Send)
    (hx : x ∈ (syncCall env s caller req opts proc args kw rnd).sends) (hi : x.msg.isInvocation = true) :
    (syncCall env s caller req opts proc args kw rnd).sends = [x] ∧
      InvocationOf env s caller req opts proc args kw rnd x :=
  syncCall_invocations h caller req opts proc args kw rnd x hx hi

/-- the first-chunk INVOCATION goes to a session currently registered under the best match -/
theorem C03_invocation_callee {s : DState} {proc : String} {reg reg' : Reg} {rnd : Nat} {callee : SessKey}
    (hm : s.d.matchProcedure proc = some reg) (hp : pickCallee reg rnd = some (callee, reg')) :
    reg ∈ s.d.regs ∧ BestMatch s.d.regs proc (some reg) ∧ callee ∈ reg.callees :=
  ⟨matchProcedure_mem hm, hm ▸ matchProcedure_bestMatch s.d proc, (pickCallee_mem hp).1⟩

example : (syncCall Ex.env Ex.sReg 2 5 [] "p" [.int 7] [] 0).sends.map (fun x => (x.to, x.msg.typeCode)) = [(1, 68)] := by
  decide +kernel

/-- `receive_progress: true` exactly when the caller asked ∧ the callee announced progressive_call_results ∧
    call_canceling; otherwise the key is absent -/
theorem C03_details_receive_progress (env : DEnv) (reg : Reg) (caller callee : SessKey) (opts : Dict) (proc : String) :
    Dict.get? (invDetails env reg caller callee opts proc) OptReceiveProgress =
      if opts.optFlag OptReceiveProgress && hasFeat env callee RoleCallee FeatureProgCallResults &&
         hasFeat env callee RoleCallee FeatureCallCanceling then some (.bool true) else none :=
  invDetails_get?_receive_progress env reg caller callee opts proc

/-- `procedure: <called URI>` iff the registration's raw match option is not "exact" -/
theorem C03_details_procedure (env : DEnv) (reg : Reg) (caller callee : SessKey) (opts : Dict) (proc : String) :
    Dict.get? (invDetails env reg caller callee opts proc) OptProcedure =
      if reg.«match» != MatchExact then some (.str proc) else none :=
  invDetails_get?_procedure env reg caller callee opts proc

/-- `timeout` forwarded iff the CALL's timeout is positive ∧ callee has call_timeout ∧ registration forward_timeout
    (first chunk only: a later chunk's details are `{progress}`) -/
theorem C03_details_timeout (env : DEnv) (reg : Reg) (caller callee : SessKey) (opts : Dict) (proc : String) :
    Dict.get? (invDetails env reg caller callee opts proc) OptTimeout =
      if optTimeout opts > 0 && forwardsTimeout env reg callee then some (.int (optTimeout opts)) else none :=
  invDetails_get?_timeout env reg caller callee opts proc

/-! ### invocation ids -/

/-- An INVOCATION sent in a step either opens a new invocation — its request id is the callee's generator + 1,
    larger than the id of every invocation stored for that callee, and the generator is advanced to it — or it
    continues a stored invocation of that callee under its stored id. -/
theorem C03_inv_id_step {s : DState} {o : DOut} (h : DealerInv s) (st : DStep s o) (x : Send) (hx : x ∈ o.sends)
    (r g : Nat) (d : Dict) (a : List WVal) (kw : Dict) (hm : x.msg = .invocation r g d a kw) :
    (r = genOf s.invGen x.to + 1 ∧ genOf o.st.invGen x.to = r ∧ ∀ v ∈ s.d.invs, v.id.sess = x.to → v.id.req < r) ∨
    (∃ v ∈ s.d.invs, v.id = ⟨x.to, r⟩) := by
  have hi : x.msg.isInvocation = true := by rw [hm]; rfl
  obtain ⟨env, caller, req, opts, proc, args, kw', rnd, rfl⟩ := st.invocation_is_call h x hx hi
  obtain ⟨hs, hform⟩ := syncCall_invocations h caller req opts proc args kw' rnd x hx hi
  cases hform with
  | first reg reg' callee hmm hb hp hr hf =>
    left
    simp only [Msg.invocation.injEq] at hm
    obtain ⟨rfl, _⟩ := hm
    refine ⟨rfl, ?_, fun v hv hvs => ?_⟩
    · have hne : reg.callees.isEmpty = false := by
        have := (h.reg.regs.callees reg (matchProcedure_mem hmm)).1
        cases hxx : reg.callees with
        | nil => exact absurd hxx this
        | cons _ _ => rfl
      have hprog : (opts.optFlag OptProgress && !hasFeat env caller RoleCaller FeatureProgCallInvocations) = false := by
        cases hq : (opts.optFlag OptProgress && !hasFeat env caller RoleCaller FeatureProgCallInvocations) with
        | false => rfl
        | true =>
          exfalso
          rw [syncCall_eq, hb] at hs
          simp only [hmm, hne, Bool.false_eq_true, if_false, hq, if_true, progressAbort] at hs
          simp only [List.cons.injEq, and_true] at hs
          have := congrArg (fun x => x.msg.isInvocation) hs
          simp [abortMsg, Msg.isInvocation] at this
      rw [syncCall_first args kw' hmm hne hprog hb hp, firstChunk_ok args kw' reg' hr hf]
      show genOf (armTimer env (recordCall _ _ callee) caller req _ _).invGen callee = _
      have : ∀ (S : DState) (v : Invk) (t : Nat), (armTimer env S caller req v t).invGen = S.invGen := by
        intro S v t; unfold armTimer; split <;> rfl
      rw [this]
      show genOf (invGenNext s.invGen callee).2 callee = _
      rw [genOf_invGenNext]; simp
    · have hvs' : v.id.sess = callee := hvs
      have := (h.aux.gen v hv).2
      rw [hvs'] at this
      show v.id.req < genOf s.invGen callee + 1
      omega
  | later iid v0 hb hfi hf =>
    right
    simp only [Msg.invocation.injEq] at hm
    obtain ⟨rfl, _⟩ := hm
    obtain ⟨_, v, hf', hv, hvi, _, hve⟩ := h.call.byCall?_some hb
    rw [hfi] at hf'; cases hf'
    exact ⟨v0, hv, by rw [hvi, hve]⟩

/-- Over any run of the dealer the generator of a callee never goes back, and every INVOCATION that opens a new
    invocation towards callee `k` in the run has a request id above the generator's value at the start of the run
    and at most its value at the end: ids towards one callee strictly increase. -/
theorem C03_inv_id_fresh {s s' : DState} {tr : List (DState × DOut)} (run : Run s tr s') (k : SessKey) :
    DealerInv s →
    genOf s.invGen k ≤ genOf s'.invGen k ∧
    ∀ p ∈ tr, ∀ x ∈ p.2.sends, ∀ (r g : Nat) (d : Dict) (a : List WVal) (kw : Dict),
      x.msg = .invocation r g d a kw → x.to = k →
      (genOf s.invGen k < r ∧ r ≤ genOf s'.invGen k) ∨ (∃ v ∈ p.1.d.invs, v.id = ⟨k, r⟩) := by
  induction run with
  | nil s => intro _; exact ⟨Nat.le_refl _, fun p hp => by cases hp⟩
  | @cons s o tr s' st _ ih =>
    intro h
    obtain ⟨h1, h2⟩ := ih (st.inv h)
    have hm := st.gen_mono h k
    refine ⟨Nat.le_trans hm h1, ?_⟩
    intro p hp x hx r g d a kw hmsg hto
    rcases List.mem_cons.1 hp with rfl | hp
    · rcases C03_inv_id_step h st x hx r g d a kw hmsg with ⟨e1, e2, _⟩ | ⟨v, hv, hvi⟩
      · left
        rw [hto] at e1 e2
        omega
      · right; exact ⟨v, hv, hto ▸ hvi⟩
    · rcases h2 p hp x hx r g d a kw hmsg hto with ⟨e1, e2⟩ | hx'
      · left; omega
      · right; exact hx'

/-! ### progressive call invocations: same callee, same id -/

/-- The accepted first chunk stores exactly the callee, the invocation id and the registration id its INVOCATION
    was sent with (and the registration's `forward_timeout` setting). -/
theorem C03_first_chunk_records {env : DEnv} {s : DState} (h : DealerInv s) {caller : SessKey} {req : Nat} {opts : Dict}
    {proc : String} (args : List WVal) (kw : Dict) {rnd : Nat} {reg reg' : Reg} {callee : SessKey}
    (hm : s.d.matchProcedure proc = some reg) (hb : s.d.byCall? ⟨caller, req⟩ = none)
    (hprog : (opts.optFlag OptProgress && !hasFeat env caller RoleCaller FeatureProgCallInvocations) = false)
    (hp : pickCallee reg rnd = some (callee, reg'))
    (hr : callRefusal env s.d.allowDisclose reg caller callee opts = none) (hf : env.full callee = false) :
    ∃ v ∈ (syncCall env s caller req opts proc args kw rnd).st.d.invs,
      v.callId = ⟨caller, req⟩ ∧ v.id = ⟨callee, genOf s.invGen callee + 1⟩ ∧ v.callee = callee ∧
      v.regId = reg.id ∧ v.fwdTimeout = reg.fwdTimeout := by
  have hne : reg.callees.isEmpty = false := by
    have := (h.reg.regs.callees reg (matchProcedure_mem hm)).1
    cases hx : reg.callees with
    | nil => exact absurd hx this
    | cons _ _ => rfl
  rw [syncCall_first args kw hm hne hprog hb hp, firstChunk_ok args kw reg' hr hf]
  have hmem : newInvk s reg caller req callee opts ∈
      (recordCall { s with d := s.d.setReg reg' } (newInvk s reg caller req callee opts) callee).d.invs := by
    show _ ∈ _ ++ [_]
    exact List.mem_append_right _ (List.mem_singleton.2 rfl)
  simp only
  by_cases hpos : 0 < routerTimeout env reg callee opts
  · rw [armTimer_pos hpos]
    refine ⟨{ newInvk s reg caller req callee opts with timer := some (s.nextTimer + 1) }, ?_, rfl,
      newInvk_id s reg caller req callee opts, rfl, rfl, rfl⟩
    show _ ∈ (Dealer.setInv _ _).invs
    unfold Dealer.setInv
    simp only
    exact (mem_map_update (f := fun x : Invk => x.id)
      (u := fun _ => { newInvk s reg caller req callee opts with timer := some (s.nextTimer + 1) })).2
      (Or.inr ⟨_, hmem, rfl, rfl⟩)
  · have : routerTimeout env reg callee opts = 0 := by omega
    rw [this, armTimer_zero]
    exact ⟨_, hmem, rfl, newInvk_id s reg caller req callee opts, rfl, rfl, rfl⟩

/-- While a call stays pending its stored invocation keeps its id, its callee and the recorded registration
    (id and `forward_timeout`), whatever steps happen. -/
theorem C03_invocation_persists {s : DState} {o : DOut} (h : DealerInv s) (st : DStep s o) {v v' : Invk}
    (hv : v ∈ s.d.invs) (hv' : v' ∈ o.st.d.invs) (hc : v'.callId = v.callId) :
    v'.id = v.id ∧ v'.callee = v.callee ∧ v'.regId = v.regId ∧ v'.fwdTimeout = v.fwdTimeout := by
  rcases st.invs_frame h v' hv' with ⟨w, hw, hs⟩ | ⟨hnew, _⟩
  · simp only [Invk.shapeC, Prod.mk.injEq] at hs
    have : w = v := nodup_map_inj h.call.invCalls hw hv (hs.2.1.trans hc)
    subst this
    exact ⟨hs.1.symm, hs.2.2.1.symm, hs.2.2.2.1.symm, hs.2.2.2.2.symm⟩
  · exact absurd (hc ▸ (h.call.inv_call hv).1) hnew

/-- A later chunk of a pending progressive call goes to the callee stored for that call, under the stored
    invocation id and the stored registration id — whatever URI the chunk names and whether or not the callee is
    still registered — with details `{progress}` and the payload unchanged, as the only message of the step. -/
theorem C03_progressive_same_callee {env : DEnv} {s : DState} (h : DealerInv s) {v : Invk} (hv : v ∈ s.d.invs)
    (opts : Dict) (proc : String) (args : List WVal) (kw : Dict) (rnd : Nat) (x : Send)
    (hx : x ∈ (syncCall env s v.callId.sess v.callId.req opts proc args kw rnd).sends) (hi : x.msg.isInvocation = true) :
    x = ⟨v.callee, .invocation v.id.req v.regId [(OptProgress, .bool (opts.optFlag OptProgress))] args kw⟩ ∧
      (syncCall env s v.callId.sess v.callId.req opts proc args kw rnd).sends = [x] := by
  obtain ⟨hs, hform⟩ := syncCall_invocations h v.callId.sess v.callId.req opts proc args kw rnd x hx hi
  have hb := (h.call.inv_call hv).2.1
  cases hform with
  | first reg reg' callee hmm hb' hp hr hf => rw [hb] at hb'; cases hb'
  | later iid v0 hb' hfi hf =>
    rw [hb] at hb'; cases hb'
    rw [(h.call.inv_call hv).2.2] at hfi; cases hfi
    exact ⟨rfl, hs⟩

/-- The registration id recorded in a stored invocation is the id of a registration that had the invocation's
    callee among its callees when the invocation was created (it may have been unregistered since). -/
theorem C03_invocation_reg_recorded {s : DState} {o : DOut} (h : DealerInv s) (st : DStep s o) {v' : Invk}
    (hv' : v' ∈ o.st.d.invs) (hnew : ∀ v ∈ s.d.invs, v.callId ≠ v'.callId) :
    calleeRel s.d.regs v'.regId v'.callee := by
  rcases st.invs_frame h v' hv' with ⟨w, hw, hs⟩ | ⟨_, _, _, hc⟩
  · simp only [Invk.shapeC, Prod.mk.injEq] at hs
    exact absurd hs.2.1 (hnew w hw)
  · exact hc

example : (syncCall Ex.env50 Ex.sProgT 2 8 [(OptProgress, .bool true)] "p" [] [] 0).sends.map
    (fun x => (x.to, x.msg.typeCode)) = [(1, 68)] := by decide +kernel

/-! ### answers -/

/-- YIELD from the owner of the invocation: every message of the step goes to the caller of that call or back to
    the yielding callee (ABORT / ERROR for payload-passthru misuse, INTERRUPT when the caller cannot take the
    result) — never to a third session.  (Payload unchanged: `C02_callee_final_yield_payload`.) -/
theorem C03_answer_routing_owner_yield {env : DEnv} {s : DState} (h : DealerInv s) {v : Invk} (hv : v ∈ s.d.invs)
    (opts : Dict) (args : List WVal) (kw : Dict) (progress canRetry : Bool) :
    ∀ x ∈ (syncYield env s v.id.sess v.id.req opts args kw progress canRetry).sends,
      x.to = v.callId.sess ∨ x.to = v.id.sess :=
  yield_recipients h hv opts args kw progress canRetry

/-- INVOCATION ERROR from the owner: exactly one message, ERROR(CALL) with the same URI, details and payload, to
    the caller of that call. -/
theorem C03_answer_routing_owner_error {s : DState} (h : DealerInv s) {v : Invk} (hv : v ∈ s.d.invs) (details : Dict)
    (err : String) (args : List WVal) (kw : Dict) :
    (syncError s v.id.sess v.id.req details err args kw).sends =
      [⟨v.callId.sess, .error tCALL v.callId.req details err args kw⟩] := by
  have hf : s.d.findInv ⟨v.id.sess, v.id.req⟩ = some v := (findInv_eq_some h.call.invIds).2 ⟨hv, rfl⟩
  rw [syncError_some' h.call details err args kw hf]; rfl

/-- YIELD from a session that does not own an invocation with that request id (invocation ids are keyed by the
    callee session): the state is unchanged and nothing is sent — except the INTERRUPT{killnowait} that answers an
    unknown PROGRESSIVE yield, to the sender itself. -/
theorem C03_answer_routing_foreign_yield {env : DEnv} {s : DState} (k : SessKey) (req : Nat) (opts : Dict)
    (args : List WVal) (kw : Dict) (progress canRetry : Bool) (hno : ∀ v ∈ s.d.invs, v.id ≠ ⟨k, req⟩) :
    syncYield env s k req opts args kw progress canRetry =
      if progress && !env.full k then
        { st := s, sends := [⟨k, .interrupt req [(OptMode, .str CancelModeKillNoWait)]⟩] }
      else { st := s } :=
  syncYield_none opts args kw progress canRetry (findInv_eq_none.2 hno)

/-- INVOCATION ERROR from a session that does not own such an invocation: no effect at all. -/
theorem C03_answer_routing_foreign_error {s : DState} (k : SessKey) (req : Nat) (details : Dict) (err : String)
    (args : List WVal) (kw : Dict) (hno : ∀ v ∈ s.d.invs, v.id ≠ ⟨k, req⟩) :
    syncError s k req details err args kw = { st := s } :=
  syncError_none details err args kw (findInv_eq_none.2 hno)

/-- session 3 answers the invocation (1, 1) of `Ex.sCall`: it does not own it -/
example : ∀ v ∈ Ex.sCall.d.invs, v.id ≠ ⟨3, 1⟩ := by decide +kernel

/-! ### shared registrations -/

/-- The condition under which a REGISTER for an existing (procedure, kind) is accepted. -/
def sharable (reg : Reg) (invoke : String) (callee : SessKey) : Prop :=
  reg.policy ≠ "" ∧ reg.policy ≠ InvokeSingle ∧ reg.policy = invoke ∧ callee ∉ reg.callees

/-- accepted: REGISTERED with the existing registration's id, the session appended to its callees -/
theorem C03_shared_policy_accept {s : DState} (h : DealerInv s) (callee : SessKey) (req : Nat) (proc m invoke : String)
    (disclose fwd wampURI : Bool) {reg : Reg} (hf : s.d.findProc proc (matchKind m) = some reg)
    (hs : sharable reg invoke callee) :
    (syncRegister s callee req proc m invoke disclose fwd wampURI).sends = [⟨callee, .registered req reg.id⟩] ∧
      (∀ k, calleeRel (syncRegister s callee req proc m invoke disclose fwd wampURI).st.d.regs reg.id k ↔
        k ∈ reg.callees ∨ k = callee) := by
  obtain ⟨h1, h2, h3, h4⟩ := hs
  have hm := ((findProc_eq_some h.reg.regs.keys).1 hf).1
  unfold syncRegister
  simp only [hf]
  rw [if_neg (by simp [h1, h2]), if_neg (by simp [h3]), if_neg (by simpa using h4)]
  refine ⟨rfl, fun k => ?_⟩
  show calleeRel (s.d.setReg { reg with callees := reg.callees ++ [callee] }).regs reg.id k ↔ _
  rw [calleeRel_setReg hm]
  constructor
  · rintro (⟨hne, _⟩ | ⟨_, hc⟩)
    · exact absurd rfl hne
    · simpa using hc
  · intro hc
    exact Or.inr ⟨rfl, by simpa using hc⟩

/-- refused otherwise — stored policy ""/"single", or different from the requested one, or the session is a
    callee already: exactly one ERROR(REGISTER) procedure_already_exists, no state change -/
theorem C03_shared_policy_refuse {s : DState} (callee : SessKey) (req : Nat) (proc m invoke : String)
    (disclose fwd wampURI : Bool) {reg : Reg} (hf : s.d.findProc proc (matchKind m) = some reg)
    (hs : ¬ sharable reg invoke callee) :
    syncRegister s callee req proc m invoke disclose fwd wampURI =
      { st := s, sends := [⟨callee, errMsg tREGISTER req ErrProcedureAlreadyExists⟩] } := by
  unfold syncRegister
  simp only [hf]
  split
  · rfl
  · rename_i h1
    split
    · rfl
    · rename_i h2
      split
      · rfl
      · rename_i h3
        exfalso
        apply hs
        simp only [Bool.or_eq_true, beq_iff_eq, not_or] at h1
        exact ⟨h1.1, h1.2, by simpa using h2, by simpa using h3⟩

example : Ex.sReg.d.findProc "p" (matchKind "") = some
    { id := 1, proc := "p", «match» := "", policy := "", disclose := false, fwdTimeout := false, callees := [1] } := by
  rfl

/-! ### no route after UNREGISTERED / departure -/

/-- UNREGISTER by a callee of the registration: UNREGISTERED, and the session is no callee of it any more. -/
theorem C03_unregistered {s : DState} (h : DealerInv s) (callee : SessKey) (req regId : Nat)
    (hr : calleeRel s.d.regs regId callee) :
    (syncUnregister s callee req regId).sends = [⟨callee, .unregistered req⟩] ∧
      ¬ calleeRel (syncUnregister s callee req regId).st.d.regs regId callee := by
  refine ⟨?_, fun hc => (((syncUnregister_frame h callee req regId).2.2 regId callee).1 hc).2 ⟨rfl, rfl⟩⟩
  unfold syncUnregister
  simp only
  obtain ⟨d', del, he, _⟩ :=
    delCalleeReg_some (d := { s.d with index := idxDel s.d.index callee regId }) h.reg.regs hr
  rw [he]

/-- The session's departure: it is a callee of no registration and serves no stored invocation any more. -/
theorem C03_gone {env : DEnv} {s : DState} (h : DealerInv s) (k : SessKey) :
    (∀ id, ¬ calleeRel (syncRemoveSession env s k).st.d.regs id k) ∧
      ∀ v ∈ (syncRemoveSession env s k).st.d.invs, v.callee ≠ k :=
  ⟨fun id hc => (((syncRemoveSession_frame h k).2.2 id k).1 hc).2 rfl, syncRemoveSession_no_inv h k⟩

/-- "Is a callee of no registration and serves no invocation" persists over every step that is not a REGISTER by
    that session (a departed session sends nothing). -/
theorem C03_not_callee_persists {s : DState} {o : DOut} (h : DealerInv s) (st : DStep s o) (k : SessKey)
    (hreg : ¬ IsRegisterStep s o k) (h1 : ∀ id, ¬ calleeRel s.d.regs id k) (h2 : ∀ v ∈ s.d.invs, v.callee ≠ k) :
    (∀ id, ¬ calleeRel o.st.d.regs id k) ∧ ∀ v ∈ o.st.d.invs, v.callee ≠ k := by
  refine ⟨fun id hc => (st.calleeRel_frame h id k hc).elim (h1 id) hreg, fun v' hv' hk => ?_⟩
  rcases st.invs_frame h v' hv' with ⟨w, hw, hs⟩ | ⟨_, _, _, hc⟩
  · simp only [Invk.shapeC, Prod.mk.injEq] at hs
    exact h2 w hw (hs.2.2.1.trans hk)
  · exact h1 v'.regId (hk ▸ hc)

/-- Hence no CALL produces an INVOCATION to such a session. -/
theorem C03_no_invocation_to_gone {env : DEnv} {s : DState} (h : DealerInv s) (k : SessKey)
    (h1 : ∀ id, ¬ calleeRel s.d.regs id k) (h2 : ∀ v ∈ s.d.invs, v.callee ≠ k)
    (caller : SessKey) (req : Nat) (opts : Dict) (proc : String) (args : List WVal) (kw : Dict) (rnd : Nat) :
    ∀ x ∈ (syncCall env s caller req opts proc args kw rnd).sends, x.msg.isInvocation = true → x.to ≠ k := by
  intro x hx hi hk
  obtain ⟨_, hform⟩ := syncCall_invocations h caller req opts proc args kw rnd x hx hi
  cases hform with
  | first reg reg' callee hmm hb hp hr hf =>
    exact h1 reg.id ⟨reg, matchProcedure_mem hmm, rfl, hk ▸ (pickCallee_mem hp).1⟩
  | later iid v0 hb hfi hf =>
    exact h2 v0 (findInv_some_mem hfi).1 hk

/-- session 1 leaves `Ex.sCall`: no registration is left -/
example : (syncRemoveSession Ex.env Ex.sCall 1).st.d.regs.map (·.id) = [] := by decide +kernel

end Nexus.C03
