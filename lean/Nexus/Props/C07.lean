/-
C07 — "An unresponsive client never blocks others; the router never deadlocks" (concurrency-skeleton half)

  A client that stops reading has at most its configured outbound queue of messages buffered for it
  and loses the rest; every other session's requests are still answered and its events and
  invocations delivered completely and in order, without delay - the one bounded exception being
  that a callee yielding to a blocked caller is held back for at most the result-retry period before
  that call is cancelled. Under every interleaving of requests, meta-API calls, session kills,
  departures and realm operations, every request submitted to the router is eventually processed:
  its internal workers never wait on each other in a cycle.

clause → theorem (all over tables regenerated from /repo by gen target `sites`)
  at most its queue buffered, rest lost ............ bounded_queue, lossy_in_order (generic, Nexus/L3/Fifo)
      + every router→client send is non-blocking .... servers_never_block, workers_never_block_on_clients,
                                                      blocking_client_sends, trySend_nonblocking
  others not delayed by a stalled client ........... servers_never_block (dealer and broker never wait for a
                                                      client), dealer_broker_wait_for_nobody
  bounded exception: yield retry ................... retry_schedule (the handler's only timed wait; L2 covers
                                                      the cancellation at the deadline)
  workers never wait in a cycle .................... no_wait_cycle_router, no_deadlocked_set_router
      table facts the edge derivation rests on ...... all_ops_classified, all_sites_have_roles,
                                                      roles_closed_under_calls, sync_ops_covered,
                                                      idle_ops_are_inboxes, transport_close_releases_reader,
                                                      meta_peer_message_kinds
What is and is not claimed: see the docstrings; progress itself ("eventually processed") is absence of
wait cycles plus bounded waits under a fair Go scheduler (trusted base), and the completeness of the edge
table rests on the extractor (go/types) and on `stall`'s runtime observation.
-/
import Nexus.L3.Wait
import Nexus.L3.Fifo

namespace Nexus.C07
open Nexus.Gen.Sites Nexus.L3

/-! ### Non-blocking delivery -/

def runsIn (o : ChanOp) (r : Role) : Bool := (siteRoles o.fn o.gctx o.garg).contains r

def isClientSend (o : ChanOp) : Bool := decide (o.op = .send) && decide (o.cls = .peerSendClient)

/-- Every send to a client's outbound channel that can be executed by the dealer or the broker
    goroutine (the `sync*` functions, `trySend`, and the closures posted to their action channels) is
    a `select` with a `default` branch: the dealer and the broker never wait for a client. -/
theorem servers_never_block :
    ∀ o ∈ chanOps, isClientSend o = true → (runsIn o .D || runsIn o .B) = true →
      o.sel = .selDefault := by
  have h : chanOps.all (fun o => !(isClientSend o && (runsIn o .D || runsIn o .B)) ||
      decide (o.sel = .selDefault)) = true := by decide +kernel
  intro o ho h1 h2
  have := forall_of_all h o ho
  simpa [h1, h2] using this

/-- The sends to a client's outbound channel that are *not* non-blocking. -/
def blockingClientSends : List Nat :=
  (chanOps.filter fun o => isClientSend o && !decide (o.sel = .selDefault)).map (·.key)

/-- Exactly one: the ABORT of a refused attach, in the attaching goroutine, which holds no lock and
    serves nobody else ("Blocking OK; this is session goroutine"). Since 9bf1a30 the WELCOME is sent,
    non-blocking, by the session's handler. -/
theorem blocking_client_sends :
    blockingClientSends = [key! "router.router.AttachClient|send|client.Send()"] := by
  decide +kernel

/-- No worker of the router — realm, dealer, broker, session handlers, meta handlers, call timers —
    ever blocks on a client's queue. -/
theorem workers_never_block_on_clients :
    ∀ o ∈ chanOps, isClientSend o = true → o.sel ≠ .selDefault →
      siteRoles o.fn o.gctx o.garg = [.A1] := by
  have h : chanOps.all (fun o => !(isClientSend o && !decide (o.sel = .selDefault)) ||
      decide (siteRoles o.fn o.gctx o.garg = [.A1])) = true := by decide +kernel
  intro o ho h1 h2
  have := forall_of_all h o ho
  simpa [h1, h2] using this

/-- Every message handed to a client (table (f)) goes through a non-blocking send, except that ABORT. -/
theorem client_messages_nonblocking :
    ∀ m ∈ msgSends, m.toMeta = false → m.nonBlocking = false →
      m.key = key! "router.router.AttachClient|msg|send client Abort " := by
  have h : msgSends.all (fun m => m.toMeta || m.nonBlocking ||
      Nat.beq m.key (key! "router.router.AttachClient|msg|send client Abort ")) = true := by
    decide +kernel
  intro m hm h1 h2
  have := forall_of_all h m hm
  simp only [h1, h2, Bool.false_or] at this
  exact Nat.eq_of_beq_eq_true this

/-- `trySend` of broker and dealer is `select { case sess.Send() <- msg: default: }`. -/
theorem trySend_nonblocking :
    ∀ o ∈ chanOps, (o.fn = key! "router.broker.trySend" ∨ o.fn = key! "router.dealer.trySend") →
      o.op = .send ∧ o.cls = .peerSendClient ∧ o.sel = .selDefault := by
  have h : chanOps.all (fun o =>
      !(Nat.beq o.fn (key! "router.broker.trySend") || Nat.beq o.fn (key! "router.dealer.trySend")) ||
      (decide (o.op = .send) && decide (o.cls = .peerSendClient) && decide (o.sel = .selDefault))) = true := by
    decide +kernel
  intro o ho hfn
  have := forall_of_all h o ho
  have hb : (Nat.beq o.fn (key! "router.broker.trySend") || Nat.beq o.fn (key! "router.dealer.trySend")) = true := by
    rcases hfn with e | e <;> simp [e]
  simp only [hb, Bool.not_true, Bool.false_or, Bool.and_eq_true, decide_eq_true_eq] at this
  exact ⟨this.1.1, this.1.2, this.2⟩

/-- (iv) A queue fed by non-blocking sends never holds more than its capacity … -/
theorem bounded_queue {μ : Type} (cap : Nat) (evs : List (Fifo.Ev μ)) :
    (Fifo.run cap Fifo.empty evs).queue.length ≤ cap := Fifo.bounded_queue cap evs

/-- … and what the client does get is a subsequence, in order, of what was sent to it. -/
theorem lossy_in_order {μ : Type} (cap : Nat) (evs : List (Fifo.Ev μ)) :
    ((Fifo.run cap Fifo.empty evs).delivered ++ (Fifo.run cap Fifo.empty evs).queue).Sublist
      (Fifo.offered evs) := Fifo.fifo_lossy cap evs

/-! ### The wait-for relation -/

/-- Every channel operation of the three trees is classified by `opTargets`. -/
theorem all_ops_classified : ∀ o ∈ chanOps, (opTargets o).isSome = true := by
  have h : chanOps.all (fun o => (opTargets o).isSome) = true := by decide +kernel
  exact forall_of_all h

/-- Every site with a goroutine context is executed by at least one known role. -/
theorem all_sites_have_roles :
    (∀ o ∈ chanOps, (siteRoles o.fn o.gctx o.garg).isEmpty = false) ∧
    (∀ c ∈ closeSites, (siteRoles c.fn c.gctx c.garg).isEmpty = false) ∧
    (∀ g ∈ goSites, (siteRoles g.fn g.gctx g.garg).isEmpty = false) ∧
    (∀ m ∈ msgSends, (siteRoles m.fn m.gctx m.garg).isEmpty = false) := by
  have h1 : chanOps.all (fun o => !(siteRoles o.fn o.gctx o.garg).isEmpty) = true := by decide +kernel
  have h2 : closeSites.all (fun o => !(siteRoles o.fn o.gctx o.garg).isEmpty) = true := by decide +kernel
  have h3 : goSites.all (fun o => !(siteRoles o.fn o.gctx o.garg).isEmpty) = true := by decide +kernel
  have h4 : msgSends.all (fun o => !(siteRoles o.fn o.gctx o.garg).isEmpty) = true := by decide +kernel
  refine ⟨?_, ?_, ?_, ?_⟩
  · intro o ho; simpa using forall_of_all h1 o ho
  · intro o ho; simpa using forall_of_all h2 o ho
  · intro o ho; simpa using forall_of_all h3 o ho
  · intro o ho; simpa using forall_of_all h4 o ho

/-- The role table is closed under the static call table: whoever calls a function that reaches a
    site is itself classified, and runs the callee in a role the callee lists. -/
theorem roles_closed_under_calls : ∀ e ∈ calls, callOk e = true := by
  have h : calls.all callOk = true := by decide +kernel
  exact forall_of_all h

/-- Every blocking operation on the close lock and the handler wait group has its targets. -/
theorem sync_ops_covered :
    ∀ s ∈ syncOps, syncNeedsTarget s = true → (lookup s.key syncTargets).isSome = true := by
  have h : syncOps.all (fun s => !syncNeedsTarget s || (lookup s.key syncTargets).isSome) = true := by
    decide +kernel
  intro s hs h1
  have := forall_of_all h s hs
  simpa [h1] using this

/-- The operations excused as inboxes exist, are receives, and run in the role whose loop they are. -/
theorem idle_ops_are_inboxes :
    ∀ p ∈ idleOps, ∃ o ∈ chanOps, o.key = p.1 ∧ o.op ≠ .send ∧
      (siteRoles o.fn o.gctx o.garg = [p.2] ∨ (p.2 = .H ∧ siteRoles o.fn o.gctx o.garg = [.H, .HM])) := by
  have h : idleOps.all (fun p => chanOps.any fun o => Nat.beq o.key p.1 && !decide (o.op = .send) &&
      (decide (siteRoles o.fn o.gctx o.garg = [p.2]) ||
       (decide (p.2 = .H) && decide (siteRoles o.fn o.gctx o.garg = [.H, .HM])))) = true := by
    decide +kernel
  intro p hp
  have := forall_of_all h p hp
  obtain ⟨o, ho, hc⟩ := List.any_eq_true.mp this
  simp only [Bool.and_eq_true, Bool.or_eq_true, Bool.not_eq_true', decide_eq_false_iff_not,
    decide_eq_true_eq] at hc
  exact ⟨o, ho, Nat.eq_of_beq_eq_true hc.1.1, hc.1.2, hc.2⟩

/-- websocketPeer.Close closes `closed` before it waits for the reader (`recvDone`);
    rawSocketPeer.Close never waits for the reader. -/
theorem transport_close_releases_reader :
    (order_transport_websocketPeer_Close.idxOf (key! "close(websocketPeer.closed)") <
      order_transport_websocketPeer_Close.idxOf (key! "<-websocketPeer.recvDone")) ∧
    (key! "<-websocketPeer.recvDone") ∈ order_transport_websocketPeer_Close ∧
    (∀ o ∈ chanOps, o.fn = key! "transport.rawSocketPeer.Close" → o.op = .recv →
      o.owner = key! "rawSocketPeer.writerDone") := by
  refine ⟨by decide +kernel, by decide +kernel, ?_⟩
  have h : chanOps.all (fun o => !(Nat.beq o.fn (key! "transport.rawSocketPeer.Close") &&
      decide (o.op = .recv)) || Nat.beq o.owner (key! "rawSocketPeer.writerDone")) = true := by
    decide +kernel
  intro o ho h1 h2
  have := forall_of_all h o ho
  simp only [h1, h2, Nat.beq_refl, decide_true, Bool.and_self, Bool.not_true, Bool.false_or] at this
  exact Nat.eq_of_beq_eq_true this

/-- What travels through the meta peer towards the meta session's handler: PUBLISH (meta events,
    testaments), REGISTER (realm construction) and whatever the meta procedures return (YIELD or
    ERROR). No CALL, no UNREGISTER: the meta session's handler never starts a call timer and never
    runs the meta-event sends of dealer.unregister. -/
theorem meta_peer_message_kinds :
    ∀ m ∈ msgSends, m.toMeta = true →
      m.msgType = key! "Publish" ∨ m.msgType = key! "Register" ∨ m.msgType = key! "Message" := by
  have h : msgSends.all (fun m => !m.toMeta ||
      memN m.msgType [key! "Publish", key! "Register", key! "Message"]) = true := by decide +kernel
  intro m hm h1
  have := forall_of_all h m hm
  simp only [h1, Bool.not_true, Bool.false_or] at this
  have := memN_iff.mp this
  simpa using this

/-- **The router's workers never wait on each other in a cycle.** The wait-for edges derived from
    the regenerated channel and lock tables descend the rank
    `Srv > Ext1, A1 > Rtr > Ext2 > A2 > H, MP > R > HM > T > D, B, Mem > Rd > W > C > Net`. A new
    blocking operation whose target is not of lower rank than its goroutine breaks this theorem. -/
theorem no_wait_cycle_router : Graph.Acyclic routerEdges :=
  Graph.checkRanks_sound (rank := rank) (by decide +kernel)

/-- Deadlock freedom: in every non-empty set of roles, one waits for nobody in the set. -/
theorem no_deadlocked_set_router (s : List Role) (hs : s ≠ []) :
    ∃ a ∈ s, ∀ b, (a, b) ∈ routerEdges → b ∉ s :=
  Graph.no_deadlocked_set routerEdges rank
    (Graph.checkRanks_descends (by decide +kernel)) s hs

/-- The dealer and the broker wait for nobody; the realm goroutine only for dealer, broker and the
    meta session's handler; that handler only for dealer and broker; a call timer only for the
    dealer. -/
theorem dealer_broker_wait_for_nobody :
    (∀ e ∈ routerEdges, e.1 ≠ .D ∧ e.1 ≠ .B) ∧
    (∀ e ∈ routerEdges, e.1 = .R → e.2 = .D ∨ e.2 = .B ∨ e.2 = .HM) ∧
    (∀ e ∈ routerEdges, e.1 = .HM → e.2 = .D ∨ e.2 = .B) ∧
    (∀ e ∈ routerEdges, e.1 = .T → e.2 = .D) := by
  have h1 : routerEdges.all (fun e => decide (e.1 ≠ .D) && decide (e.1 ≠ .B)) = true := by decide +kernel
  have h2 : routerEdges.all (fun e => !decide (e.1 = .R) ||
      (decide (e.2 = .D) || decide (e.2 = .B) || decide (e.2 = .HM))) = true := by decide +kernel
  have h3 : routerEdges.all (fun e => !decide (e.1 = .HM) ||
      (decide (e.2 = .D) || decide (e.2 = .B))) = true := by decide +kernel
  have h4 : routerEdges.all (fun e => !decide (e.1 = .T) || decide (e.2 = .D)) = true := by decide +kernel
  refine ⟨?_, ?_, ?_, ?_⟩
  · intro e he; simpa using forall_of_all h1 e he
  · intro e he h; have := forall_of_all h2 e he; simpa [h, or_assoc] using this
  · intro e he h; have := forall_of_all h3 e he; simpa [h] using this
  · intro e he h; have := forall_of_all h4 e he; simpa [h] using this

/-- Non-vacuity: the check rejects a table with a cycle (the realm goroutine waiting for a session
    handler that waits for it). -/
example : Graph.checkRanks ((Role.R, Role.H) :: routerEdges) rank = false := by decide +kernel

example : ¬ Graph.Acyclic ((Role.R, Role.H) :: (Role.H, Role.R) :: ([] : List (Role × Role))) :=
  fun h => h .R (.cons List.mem_cons_self (.single (List.mem_cons_of_mem _ List.mem_cons_self)))

/-! ### The bounded exception -/

/-- The handler of a callee whose RESULT cannot be queued sleeps 1, 2, 4, … ms between attempts
    (`yieldRetryDelay`, doubled each round) and stops retrying at the first wake-up at or after
    `sendResultDeadline` = 60 000 ms: wake-up k happens 2^k − 1 ms after the first attempt, and the
    first k with 2^k − 1 ≥ 60 000 is 16. The callee's handler is therefore held for at most
    65 535 ms of retries, whatever the caller does (the constants are checked by gen target consts
    for the L2 model; here only the arithmetic). -/
def retryWake : Nat → Nat
  | 0 => 0
  | k + 1 => retryWake k + 2 ^ k

theorem retry_schedule :
    (∀ k, k < 16 → retryWake k < 60000) ∧ retryWake 16 = 65535 ∧ 60000 ≤ retryWake 16 := by
  refine ⟨?_, by decide, by decide⟩
  intro k hk
  have : ∀ k, k < 16 → retryWake k < 60000 := by decide
  exact this k hk

end Nexus.C07
