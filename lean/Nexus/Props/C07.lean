/-
C07 — "An unresponsive client never blocks others; the router never deadlocks" (concurrency-skeleton half)

  A client that stops reading has at most its configured outbound queue of messages buffered for it
  and loses the rest; every other session's requests are still answered and its events and
  invocations delivered completely and in order, without delay - the one bounded exception being
  that a callee yielding to a blocked caller is held back for at most the result-retry period before
  that call is cancelled. Under every interleaving of requests, meta-API calls, session kills,
  departures and realm operations, every request submitted to the router is eventually processed:
  its internal workers never wait on each other in a cycle.

clause → theorem (all over tables regenerated from /repo by gen target `sites`)
  at most its queue buffered, rest lost ............ bounded_queue, lossy_in_order (generic, Nexus/L3/Fifo)
      + every router→client send is non-blocking .... servers_never_block, workers_never_block_on_clients,
                                                      realm_workers_never_block_on_clients,
                                                      blocking_client_sends, rtr_waits_for_client_only_in_abort,
                                                      trySend_nonblocking
  others not delayed by a stalled client ........... servers_never_block (dealer and broker never wait for a
                                                      client), dealer_broker_wait_for_nobody
  bounded exception: yield retry ................... retry_schedule (the handler's only timed wait; L2 covers
                                                      the cancellation at the deadline)
  bounded exception: the constants ................. retry_constants (table (j) = the L2 model's constants)
  workers never wait in a cycle .................... no_wait_cycle_router, no_deadlocked_set_router
  … and nobody waits for a worker that has left .... router_progress (generic: Nexus/L3/WpL3Progress),
                                                      blocked_posters_reach_running_server
                                                      (with C06.servers_keep_serving, C06.server_waits_classified)
      table facts the edge derivation rests on ...... all_ops_classified, all_sites_have_roles,
                                                      roles_closed_under_calls, sync_ops_covered,
                                                      idle_ops_are_inboxes, transport_close_releases_reader,
                                                      meta_peer_message_kinds
What is and is not claimed: see the docstrings; progress itself ("eventually processed") is absence of
wait cycles, servers that keep serving until the closer stops them, plus bounded waits under a fair Go
scheduler (trusted base), and the completeness of the edge table rests on the extractor (go/types) and on
`stall`'s runtime observation. The tables are taken with the records the patched generator adds for
closures called in a second goroutine context (`allChanOps` …, Nexus/L3/WpL3Wait.lean).
-/
import Nexus.L3.Wait
import Nexus.L3.Fifo
import Nexus.L3.WpL3Wait
import Nexus.L3.WpL3Progress
import Nexus.Props.C06
import Nexus.L2.Realm

namespace Nexus.C07
open Nexus.Gen.Sites Nexus.L3 Nexus.L3.WpL3

/-! ### Non-blocking delivery -/

def runsIn (o : ChanOp) (r : Role) : Bool := (siteRoles o.fn o.gctx o.garg).contains r

def isClientSend (o : ChanOp) : Bool := decide (o.op = .send) && decide (o.cls = .peerSendClient)

/-- Every send to a client's outbound channel that can be executed by the dealer or the broker
    goroutine (the `sync*` functions, `trySend`, and the closures posted to their action channels) is
    a `select` with a `default` branch: the dealer and the broker never wait for a client. -/
theorem servers_never_block :
    ∀ o ∈ allChanOps, isClientSend o = true → (runsIn o .D || runsIn o .B) = true →
      o.sel = .selDefault := by
  have h : allChanOps.all (fun o => !(isClientSend o && (runsIn o .D || runsIn o .B)) ||
      decide (o.sel = .selDefault)) = true := by decide +kernel
  intro o ho h1 h2
  have := forall_of_all h o ho
  simpa [h1, h2] using this

/-- The sends to a client's outbound channel that are *not* non-blocking. -/
def blockingClientSends : List Nat :=
  (allChanOps.filter fun o => isClientSend o && !decide (o.sel = .selDefault)).map (·.key)

/-- One statement, `client.Send() <- &abortMsg` in the `sendAbort` closure of AttachClient: the ABORT
    of a refused attach. It is executed in two goroutine contexts: by the attaching goroutine, which
    holds no lock and serves nobody else ("Blocking OK; this is session goroutine"), and — because the
    closure is also called inside the action AttachClient posts to the router goroutine (router closed,
    unknown realm, realm auto-creation failed) — by the router goroutine. Since 9bf1a30 the WELCOME is
    sent, non-blocking, by the session's handler. -/
theorem blocking_client_sends :
    blockingClientSends = [key! "router.router.AttachClient|send|client.Send()",
                           key! "router.router.AttachClient|send|client.Send()@posted router.actionChan"] := by
  decide +kernel

/-- The blocking client sends are that ABORT, run by the attaching goroutine or by the router
    goroutine. (Restated: the earlier form claimed `[.A1]` only, because the generator attributed the
    closure's sites to the function body; audit C: C07 (b)1.)

    What this means for the property: the router goroutine can block on a client — on the peer of
    an attach it refuses, if that peer's `Send()` channel has no room. It is the first message the
    router ever sends to that peer (before the post AttachClient has only *received* HELLO; CHALLENGE
    and WELCOME come later), so with the stock peers (local peer: a buffered channel of 64; socket
    peers: a buffer of `outQueueSize`, drained by the peer's writer goroutine, which also receives when
    that size is 0) the send finds room or a receiving writer and does not wait for the client; an
    embedding program that attaches its own `wamp.Peer` with an unbuffered `Send()` channel and does
    not read can stall the router goroutine, and with it AddRealm, RemoveRealm, Close and every Attach. The claim "no
    worker ever blocks on a client" holds for the realm's workers (`realm_workers_never_block_on_clients`),
    not for the router goroutine. -/
theorem workers_never_block_on_clients :
    ∀ o ∈ allChanOps, isClientSend o = true → o.sel ≠ .selDefault →
      o.fn = key! "router.router.AttachClient" ∧
      (siteRoles o.fn o.gctx o.garg = [.A1] ∨ siteRoles o.fn o.gctx o.garg = [.Rtr]) := by
  have h : allChanOps.all (fun o => !(isClientSend o && !decide (o.sel = .selDefault)) ||
      (Nat.beq o.fn (key! "router.router.AttachClient") &&
        (decide (siteRoles o.fn o.gctx o.garg = [.A1]) || decide (siteRoles o.fn o.gctx o.garg = [.Rtr])))) = true := by
    decide +kernel
  intro o ho h1 h2
  have := forall_of_all h o ho
  simp only [h1, h2, decide_false, Bool.not_false, Bool.and_self, Bool.not_true, Bool.false_or,
    Bool.and_eq_true, Bool.or_eq_true, decide_eq_true_eq] at this
  exact ⟨Nat.eq_of_beq_eq_true this.1, this.2⟩

/-- The workers of a realm and everything below the router goroutine. -/
def realmWorkers : List Role := [.A2, .H, .MP, .R, .HM, .T, .D, .B, .Mem, .Srv, .Rd, .W]

/-- No worker of a realm — realm goroutine, dealer, broker, session handlers, meta handlers, call
    timers — nor an attach inside the realm's critical section ever blocks on a client's queue: every
    send to a client that one of them can execute is a `select` with `default`. -/
theorem realm_workers_never_block_on_clients :
    ∀ o ∈ allChanOps, isClientSend o = true →
      (∃ r ∈ realmWorkers, r ∈ siteRoles o.fn o.gctx o.garg) → o.sel = .selDefault := by
  have h : allChanOps.all (fun o => !(isClientSend o &&
      realmWorkers.any fun r => (siteRoles o.fn o.gctx o.garg).contains r) ||
      decide (o.sel = .selDefault)) = true := by decide +kernel
  intro o ho h1 ⟨r, hr, hr2⟩
  have := forall_of_all h o ho
  have hany : (realmWorkers.any fun r => (siteRoles o.fn o.gctx o.garg).contains r) = true :=
    List.any_eq_true.mpr ⟨r, hr, by simpa using hr2⟩
  rw [h1, hany] at this
  simpa using this

/-- Non-vacuity: the realm's workers do send to clients. -/
example : (allChanOps.any fun o => isClientSend o &&
    realmWorkers.any fun r => (siteRoles o.fn o.gctx o.garg).contains r) = true := by decide +kernel

/-- Every message handed to a client (table (f)) goes through a non-blocking send, except that ABORT
    (in its two contexts). -/
theorem client_messages_nonblocking :
    ∀ m ∈ allMsgSends, m.toMeta = false → m.nonBlocking = false →
      m.key = key! "router.router.AttachClient|msg|send client Abort " ∨
      m.key = key! "router.router.AttachClient|msg|send client Abort @posted router.actionChan" := by
  have h : allMsgSends.all (fun m => m.toMeta || m.nonBlocking ||
      (Nat.beq m.key (key! "router.router.AttachClient|msg|send client Abort ") ||
       Nat.beq m.key (key! "router.router.AttachClient|msg|send client Abort @posted router.actionChan"))) = true := by
    decide +kernel
  intro m hm h1 h2
  have := forall_of_all h m hm
  simp only [h1, h2, Bool.false_or, Bool.or_eq_true] at this
  rcases this with h | h
  · exact Or.inl (Nat.eq_of_beq_eq_true h)
  · exact Or.inr (Nat.eq_of_beq_eq_true h)

/-- `trySend` of broker and dealer is `select { case sess.Send() <- msg: default: }`. -/
theorem trySend_nonblocking :
    ∀ o ∈ chanOps, (o.fn = key! "router.broker.trySend" ∨ o.fn = key! "router.dealer.trySend") →
      o.op = .send ∧ o.cls = .peerSendClient ∧ o.sel = .selDefault := by
  have h : chanOps.all (fun o =>
      !(Nat.beq o.fn (key! "router.broker.trySend") || Nat.beq o.fn (key! "router.dealer.trySend")) ||
      (decide (o.op = .send) && decide (o.cls = .peerSendClient) && decide (o.sel = .selDefault))) = true := by
    decide +kernel
  intro o ho hfn
  have := forall_of_all h o ho
  have hb : (Nat.beq o.fn (key! "router.broker.trySend") || Nat.beq o.fn (key! "router.dealer.trySend")) = true := by
    rcases hfn with e | e <;> simp [e]
  simp only [hb, Bool.not_true, Bool.false_or, Bool.and_eq_true, decide_eq_true_eq] at this
  exact ⟨this.1.1, this.1.2, this.2⟩

/-- (iv) A queue fed by non-blocking sends never holds more than its capacity … -/
theorem bounded_queue {μ : Type} (cap : Nat) (evs : List (Fifo.Ev μ)) :
    (Fifo.run cap Fifo.empty evs).queue.length ≤ cap := Fifo.bounded_queue cap evs

/-- … and what the client does get is a subsequence, in order, of what was sent to it. -/
theorem lossy_in_order {μ : Type} (cap : Nat) (evs : List (Fifo.Ev μ)) :
    ((Fifo.run cap Fifo.empty evs).delivered ++ (Fifo.run cap Fifo.empty evs).queue).Sublist
      (Fifo.offered evs) := Fifo.fifo_lossy cap evs

/-! ### The wait-for relation -/

/-- Every channel operation of the three trees is classified by `opTargets`. -/
theorem all_ops_classified : ∀ o ∈ allChanOps, (opTargets o).isSome = true := by
  have h : allChanOps.all (fun o => (opTargets o).isSome) = true := by decide +kernel
  exact forall_of_all h

/-- Every site with a goroutine context is executed by at least one known role. -/
theorem all_sites_have_roles :
    (∀ o ∈ allChanOps, (siteRoles o.fn o.gctx o.garg).isEmpty = false) ∧
    (∀ c ∈ allCloseSites, (siteRoles c.fn c.gctx c.garg).isEmpty = false) ∧
    (∀ g ∈ goSites, (siteRoles g.fn g.gctx g.garg).isEmpty = false) ∧
    (∀ m ∈ allMsgSends, (siteRoles m.fn m.gctx m.garg).isEmpty = false) := by
  have h1 : allChanOps.all (fun o => !(siteRoles o.fn o.gctx o.garg).isEmpty) = true := by decide +kernel
  have h2 : allCloseSites.all (fun o => !(siteRoles o.fn o.gctx o.garg).isEmpty) = true := by decide +kernel
  have h3 : goSites.all (fun o => !(siteRoles o.fn o.gctx o.garg).isEmpty) = true := by decide +kernel
  have h4 : allMsgSends.all (fun o => !(siteRoles o.fn o.gctx o.garg).isEmpty) = true := by decide +kernel
  refine ⟨?_, ?_, ?_, ?_⟩
  · intro o ho; simpa using forall_of_all h1 o ho
  · intro o ho; simpa using forall_of_all h2 o ho
  · intro o ho; simpa using forall_of_all h3 o ho
  · intro o ho; simpa using forall_of_all h4 o ho

/-- The role table is closed under the static call table: whoever calls a function that reaches a
    site is itself classified, and runs the callee in a role the callee lists. -/
theorem roles_closed_under_calls : ∀ e ∈ calls, callOk e = true := by
  have h : calls.all callOk = true := by decide +kernel
  exact forall_of_all h

/-- Every blocking operation on the close lock and the handler wait group has its targets. -/
theorem sync_ops_covered :
    ∀ s ∈ syncOps, syncNeedsTarget s = true → (lookup s.key syncTargets).isSome = true := by
  have h : syncOps.all (fun s => !syncNeedsTarget s || (lookup s.key syncTargets).isSome) = true := by
    decide +kernel
  intro s hs h1
  have := forall_of_all h s hs
  simpa [h1] using this

/-- The operations excused as inboxes exist, are receives, and run in the role whose loop they are. -/
theorem idle_ops_are_inboxes :
    ∀ p ∈ idleOps, ∃ o ∈ chanOps, o.key = p.1 ∧ o.op ≠ .send ∧
      (siteRoles o.fn o.gctx o.garg = [p.2] ∨ (p.2 = .H ∧ siteRoles o.fn o.gctx o.garg = [.H, .HM])) := by
  have h : idleOps.all (fun p => chanOps.any fun o => Nat.beq o.key p.1 && !decide (o.op = .send) &&
      (decide (siteRoles o.fn o.gctx o.garg = [p.2]) ||
       (decide (p.2 = .H) && decide (siteRoles o.fn o.gctx o.garg = [.H, .HM])))) = true := by
    decide +kernel
  intro p hp
  have := forall_of_all h p hp
  obtain ⟨o, ho, hc⟩ := List.any_eq_true.mp this
  simp only [Bool.and_eq_true, Bool.or_eq_true, Bool.not_eq_true', decide_eq_false_iff_not,
    decide_eq_true_eq] at hc
  exact ⟨o, ho, Nat.eq_of_beq_eq_true hc.1.1, hc.1.2, hc.2⟩

/-- websocketPeer.Close closes `closed` before it waits for the reader (`recvDone`);
    rawSocketPeer.Close never waits for the reader. -/
theorem transport_close_releases_reader :
    (order_transport_websocketPeer_Close.idxOf (key! "close(websocketPeer.closed)") <
      order_transport_websocketPeer_Close.idxOf (key! "<-websocketPeer.recvDone")) ∧
    (key! "<-websocketPeer.recvDone") ∈ order_transport_websocketPeer_Close ∧
    (∀ o ∈ chanOps, o.fn = key! "transport.rawSocketPeer.Close" → o.op = .recv →
      o.owner = key! "rawSocketPeer.writerDone") := by
  refine ⟨by decide +kernel, by decide +kernel, ?_⟩
  have h : chanOps.all (fun o => !(Nat.beq o.fn (key! "transport.rawSocketPeer.Close") &&
      decide (o.op = .recv)) || Nat.beq o.owner (key! "rawSocketPeer.writerDone")) = true := by
    decide +kernel
  intro o ho h1 h2
  have := forall_of_all h o ho
  simp only [h1, h2, Nat.beq_refl, decide_true, Bool.and_self, Bool.not_true, Bool.false_or] at this
  exact Nat.eq_of_beq_eq_true this

/-- What travels through the meta peer towards the meta session's handler: PUBLISH (meta events,
    testaments), REGISTER (realm construction) and whatever the meta procedures return (YIELD or
    ERROR). No CALL, no UNREGISTER: the meta session's handler never starts a call timer and never
    runs the meta-event sends of dealer.unregister. -/
theorem meta_peer_message_kinds :
    ∀ m ∈ msgSends, m.toMeta = true →
      m.msgType = key! "Publish" ∨ m.msgType = key! "Register" ∨ m.msgType = key! "Message" := by
  have h : msgSends.all (fun m => !m.toMeta ||
      memN m.msgType [key! "Publish", key! "Register", key! "Message"]) = true := by decide +kernel
  intro m hm h1
  have := forall_of_all h m hm
  simp only [h1, Bool.not_true, Bool.false_or] at this
  have := memN_iff.mp this
  simpa using this

/-- **The router's workers never wait on each other in a cycle.** The wait-for edges derived from
    the regenerated channel and lock tables descend the rank
    `Srv > Ext1, A1 > Rtr > Ext2 > A2 > H, MP > R > HM > T > D, B, Mem > Rd > W > C > Net`. A new
    blocking operation whose target is not of lower rank than its goroutine breaks this theorem. -/
theorem no_wait_cycle_router : Graph.Acyclic routerEdgesX :=
  Graph.checkRanks_sound (rank := rank) (by decide +kernel)

theorem router_edges_descend : Graph.Descends routerEdgesX rank :=
  Graph.checkRanks_descends (by decide +kernel)

/-- The completed table has every edge of the table derived without the closure contexts, and one
    more: the router goroutine waiting for the client it refuses. -/
theorem router_edges_completed :
    (∀ e ∈ routerEdges, e ∈ routerEdgesX) ∧
    (∀ e ∈ routerEdgesX, e ∈ routerEdges ∨ e = (.Rtr, .C)) ∧ (Role.Rtr, Role.C) ∈ routerEdgesX := by
  have h1 : routerEdges.all (fun e => routerEdgesX.contains e) = true := by decide +kernel
  have h2 : routerEdgesX.all (fun e => routerEdges.contains e || decide (e = (.Rtr, .C))) = true := by
    decide +kernel
  refine ⟨?_, ?_, by decide +kernel⟩
  · intro e he; simpa using forall_of_all h1 e he
  · intro e he; simpa using forall_of_all h2 e he

/-- The edge Rtr → C comes from that one operation: the router goroutine waits for a client nowhere
    else. -/
theorem rtr_waits_for_client_only_in_abort :
    ∀ o ∈ allChanOps, (Role.Rtr, Role.C) ∈ opEdges o →
      o.key = key! "router.router.AttachClient|send|client.Send()@posted router.actionChan" := by
  have h : allChanOps.all (fun o => !(opEdges o).contains (Role.Rtr, Role.C) ||
      Nat.beq o.key (key! "router.router.AttachClient|send|client.Send()@posted router.actionChan")) = true := by
    decide +kernel
  intro o ho he
  have := forall_of_all h o ho
  have hc : (opEdges o).contains (Role.Rtr, Role.C) = true := by simpa using he
  simp only [hc, Bool.not_true, Bool.false_or] at this
  exact Nat.eq_of_beq_eq_true this

example : ∃ o ∈ allChanOps, (Role.Rtr, Role.C) ∈ opEdges o := by
  have h : (allChanOps.any fun o => (opEdges o).contains (Role.Rtr, Role.C)) = true := by decide +kernel
  obtain ⟨o, ho, hc⟩ := List.any_eq_true.mp h
  exact ⟨o, ho, by simpa using hc⟩

/-- Deadlock freedom: in every non-empty set of roles, one waits for nobody in the set. -/
theorem no_deadlocked_set_router (s : List Role) (hs : s ≠ []) :
    ∃ a ∈ s, ∀ b, (a, b) ∈ routerEdgesX → b ∉ s :=
  Graph.no_deadlocked_set routerEdgesX rank router_edges_descend s hs

/-- The dealer and the broker wait for nobody; the realm goroutine only for dealer, broker and the
    meta session's handler; that handler only for dealer and broker; a call timer only for the
    dealer. -/
theorem dealer_broker_wait_for_nobody :
    (∀ e ∈ routerEdgesX, e.1 ≠ .D ∧ e.1 ≠ .B) ∧
    (∀ e ∈ routerEdgesX, e.1 = .R → e.2 = .D ∨ e.2 = .B ∨ e.2 = .HM) ∧
    (∀ e ∈ routerEdgesX, e.1 = .HM → e.2 = .D ∨ e.2 = .B) ∧
    (∀ e ∈ routerEdgesX, e.1 = .T → e.2 = .D) := by
  have h1 : routerEdgesX.all (fun e => decide (e.1 ≠ .D) && decide (e.1 ≠ .B)) = true := by decide +kernel
  have h2 : routerEdgesX.all (fun e => !decide (e.1 = .R) ||
      (decide (e.2 = .D) || decide (e.2 = .B) || decide (e.2 = .HM))) = true := by decide +kernel
  have h3 : routerEdgesX.all (fun e => !decide (e.1 = .HM) ||
      (decide (e.2 = .D) || decide (e.2 = .B))) = true := by decide +kernel
  have h4 : routerEdgesX.all (fun e => !decide (e.1 = .T) || decide (e.2 = .D)) = true := by decide +kernel
  refine ⟨?_, ?_, ?_, ?_⟩
  · intro e he; simpa using forall_of_all h1 e he
  · intro e he h; have := forall_of_all h2 e he; simpa [h, or_assoc] using this
  · intro e he h; have := forall_of_all h3 e he; simpa [h] using this
  · intro e he h; have := forall_of_all h4 e he; simpa [h] using this

/-- Non-vacuity: the check rejects a table with a cycle (the realm goroutine waiting for a session
    handler that waits for it). -/
example : Graph.checkRanks ((Role.R, Role.H) :: routerEdgesX) rank = false := by decide +kernel

example : ¬ Graph.Acyclic ((Role.R, Role.H) :: (Role.H, Role.R) :: ([] : List (Role × Role))) :=
  fun h => h .R (.cons List.mem_cons_self (.single (List.mem_cons_of_mem _ List.mem_cons_self)))

/-! ### The bounded exception -/

/-- The handler of a callee whose RESULT cannot be queued sleeps 1, 2, 4, … ms between attempts
    (`yieldRetryDelay`, doubled each round) and stops retrying at the first wake-up at or after
    `sendResultDeadline` = 60 000 ms: wake-up k happens 2^k − 1 ms after the first attempt, and the
    first k with 2^k − 1 ≥ 60 000 is 16. The callee's handler is therefore held for at most
    65 535 ms of retries, whatever the caller does (here the arithmetic; `retry_constants` below ties
    the two constants of dealer.go to the L2 model's, through table (j) of the site tables). -/
def retryWake : Nat → Nat
  | 0 => 0
  | k + 1 => retryWake k + 2 ^ k

theorem retry_schedule :
    (∀ k, k < 16 → retryWake k < 60000) ∧ retryWake 16 = 65535 ∧ 60000 ≤ retryWake 16 := by
  refine ⟨?_, by decide, by decide⟩
  intro k hk
  have : ∀ k, k < 16 → retryWake k < 60000 := by decide
  exact this k hk

/-- The two constants of the retry loop, regenerated from dealer.go (`const sendResultDeadline =
    time.Minute`, `yieldRetryDelay = time.Millisecond`; table (j), nanoseconds), are the constants
    of the L2 model (`Realm.handleYield`, `Realm.retryDue`), and the schedule above is stated for
    them. (Table (j) is in Nexus/L3/WpL3Tables.lean until the gen patch is applied.) -/
theorem retry_constants :
    lookup (key! "router.sendResultDeadline") Nexus.L3.WpL3Tables.durationConsts =
      some (Nexus.L2.Realm.sendResultDeadlineMs * 1000000) ∧
    lookup (key! "router.yieldRetryDelay") Nexus.L3.WpL3Tables.durationConsts =
      some (Nexus.L2.Realm.yieldRetryDelayMs * 1000000) ∧
    (∀ k, k < 16 → retryWake k * Nexus.L2.Realm.yieldRetryDelayMs < Nexus.L2.Realm.sendResultDeadlineMs) ∧
    Nexus.L2.Realm.sendResultDeadlineMs ≤ retryWake 16 * Nexus.L2.Realm.yieldRetryDelayMs := by
  refine ⟨by decide +kernel, by decide +kernel, ?_, by decide⟩
  intro k hk
  have : ∀ k, k < 16 → retryWake k * Nexus.L2.Realm.yieldRetryDelayMs < Nexus.L2.Realm.sendResultDeadlineMs := by
    decide
  exact this k hk

/-! ### From "no cycle" to "no wedge" (audit C §0, (a)3)

`no_deadlocked_set_router` finds in every set of roles one that "waits for nobody in the set" — which
a *terminated* server does too. Progress needs the targets of the wait edges to be alive. -/

section Progress
open Nexus.L3.WpL3.Progress Nexus.L3.WpL3.Serve Nexus.L3.WpL3.ServeModel Nexus.L3.CloseModel Nexus.L3.Shutdown

/-- **No wait cycle ∧ servers keep serving ⇒ progress**, for the router's wait-for table: in any
    snapshot whose waits are edges of the regenerated table and in which nobody waits for a goroutine
    that has terminated, every blocked goroutine's wait chain ends at one that is running. The second
    hypothesis is what `C06.servers_keep_serving` / `blocked_posters_reach_running_server` establish
    for the realm's servers. -/
theorem router_progress (s : Snapshot Role)
    (hsub : ∀ a b, s.waits a b → (a, b) ∈ routerEdgesX)
    (hblk : ∀ a, s.status a = .blocked → ∃ b, s.waits a b)
    (hserve : ∀ a b, s.waits a b → s.status b ≠ .done)
    (a : Role) (ha : s.status a = .blocked) : ∃ z, Chain s.waits a z ∧ s.status z = .running :=
  no_cycle_and_serving_give_progress routerEdgesX no_wait_cycle_router s hsub hblk hserve a ha

/-- Hypotheses of `router_progress`: a session handler blocked on the realm goroutine, which runs. -/
example : ∃ s : Snapshot Role,
    (∀ a b, s.waits a b → (a, b) ∈ routerEdgesX) ∧ (∀ a, s.status a = .blocked → ∃ b, s.waits a b) ∧
    (∀ a b, s.waits a b → s.status b ≠ .done) ∧ s.status .H = .blocked := by
  refine ⟨⟨fun r => if r = .H then .blocked else .running, fun a b => a = .H ∧ b = .R⟩, ?_, ?_, ?_, rfl⟩
  · rintro a b ⟨rfl, rfl⟩; decide +kernel
  · intro a h
    by_cases e : a = .H
    · exact ⟨.R, e, rfl⟩
    · simp [e] at h
  · rintro a b ⟨rfl, rfl⟩; decide

/-- The served-channel instance, with nothing assumed about the servers. In every configuration of
    the realm's shutdown system reachable by guarded steps (guards computed from the exit table,
    `C06.servers_guarded`), let `blockedIn` say which roles are blocked in a post to — or waiting for
    the answer from — which served channel (`C06.server_waits_classified`: these are the waits for the
    realm's servers). Then the chain poster → server → … from every blocked role ends, after at most
    three hops (H → R → HM → D), at a server that is alive and not blocked: nobody is wedged on a
    channel whose reader has left. The realm goroutine posts on behalf of a session handler that
    waits for it (`CloseModel.shutdownRole`), so "alive" for `R` as a *poster* means that handler. -/
theorem blocked_posters_reach_running_server (prog : List I) (hp : realmCloseProg = some prog)
    {c : Cfg Role SChan SFlag} (hreach : Nexus.C06.GReachRealm prog c)
    (blockedIn : Role → Option SChan)
    (hb : ∀ a ch, blockedIn a = some ch → (a, ch) ∈ rawPostPairs ∧ 0 < c.alive (shutdownRole a)) :
    ∀ a ch, blockedIn a = some ch →
      ∃ z, Chain (fun x y => ∃ ch', blockedIn x = some ch' ∧ serverOf ch' = y) a z ∧
        0 < c.alive z ∧ blockedIn z = none := by
  let snap : Snapshot Role :=
    { status := fun x => match blockedIn x with
        | some _ => .blocked
        | none => if 0 < c.alive x then .running else .done
      waits := fun x y => ∃ ch', blockedIn x = some ch' ∧ serverOf ch' = y }
  have hdesc : ∀ p ∈ rawPostPairs, rank (serverOf p.2) < rank p.1 := by
    have h : rawPostPairs.all (fun p => decide (rank (serverOf p.2) < rank p.1)) = true := by
      decide +kernel
    intro p hp'
    exact of_decide_eq_true (forall_of_all h p hp')
  have hmap : ∀ p ∈ rawPostPairs, posts (shutdownRole p.1) p.2 = true := by
    have h : rawPostPairs.all (fun p => posts (shutdownRole p.1) p.2) = true := by decide +kernel
    exact forall_of_all h
  have hlive : Live snap rank :=
    { descends := by
        rintro x y ⟨ch', h1, h2⟩
        subst h2
        exact hdesc (x, ch') (hb x ch' h1).1
      blockedWaits := by
        intro x hx
        cases h : blockedIn x with
        | some ch' => exact ⟨serverOf ch', ch', h, rfl⟩
        | none =>
          simp only [snap, h] at hx
          split at hx <;> cases hx
      serving := by
        rintro x y ⟨ch', h1, h2⟩
        subst h2
        obtain ⟨hm, hal⟩ := hb x ch' h1
        have hs := Nexus.C06.servers_keep_serving prog hp hreach (shutdownRole x) ch' (hmap _ hm) hal
        show (match blockedIn (serverOf ch') with
          | some _ => Status.blocked
          | none => if 0 < c.alive (serverOf ch') then Status.running else Status.done) ≠ .done
        cases blockedIn (serverOf ch') with
        | some _ => intro h; cases h
        | none => simp [hs] }
  intro a ch ha
  have hblocked : snap.status a = .blocked := by simp [snap, ha]
  obtain ⟨z, hc, hz⟩ := chain_ends_running snap rank hlive a hblocked
  refine ⟨z, hc, ?_⟩
  have hz' : (match blockedIn z with
      | some _ => Status.blocked
      | none => if 0 < c.alive z then Status.running else Status.done) = .running := hz
  cases hbz : blockedIn z with
  | some _ => rw [hbz] at hz'; cases hz'
  | none =>
    rw [hbz] at hz'
    refine ⟨?_, rfl⟩
    by_cases hp0 : 0 < c.alive z
    · exact hp0
    · simp [hp0] at hz'

/-- Non-vacuity: a configuration and a `blockedIn` that satisfy the hypotheses — a session handler
    blocked on the realm goroutine (onLeave), the realm goroutine blocked on the meta session's
    handler (`dealer.removeSession` announcing an unregistration), that handler blocked on the dealer —
    and the chain the theorem yields ends at the dealer. -/
example (prog : List I) (hp : realmCloseProg = some prog) :
    ∃ (c : Cfg Role SChan SFlag) (blockedIn : Role → Option SChan),
      Nexus.C06.GReachRealm prog c ∧
      (∀ a ch, blockedIn a = some ch → (a, ch) ∈ rawPostPairs ∧ 0 < c.alive (shutdownRole a)) ∧
      blockedIn .H = some .realmChan ∧ blockedIn .R = some .metaChan ∧ blockedIn .HM = some .dealerChan ∧
      ∃ z, Chain (fun x y => ∃ ch', blockedIn x = some ch' ∧ serverOf ch' = y) .H z ∧
        0 < c.alive z ∧ blockedIn z = none := by
  let b : Role → Option SChan := fun r =>
    match r with | .H => some .realmChan | .R => some .metaChan | .HM => some .dealerChan | _ => none
  have h0 : Nexus.C06.GReachRealm prog Nexus.C06.exCfg := GReach.init (Nexus.C06.exCfg_init prog)
  have hb : ∀ a ch, b a = some ch → (a, ch) ∈ rawPostPairs ∧ 0 < Nexus.C06.exCfg.alive (shutdownRole a) := by
    intro a ch h
    cases a <;> simp only [b] at h <;> (try cases h) <;> exact ⟨by decide +kernel, by decide⟩
  exact ⟨Nexus.C06.exCfg, b, h0, hb, rfl, rfl, rfl,
    blocked_posters_reach_running_server prog hp h0 b hb .H .realmChan rfl⟩

end Progress

end Nexus.C07
