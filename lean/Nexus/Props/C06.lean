/-
C06 — "Router.Close and RemoveRealm are safe at any moment" (concurrency-skeleton half)

  Closing the router or removing a realm at any point - with handshakes, publications, calls, call
  timers, kills and disconnects in flight - always returns, never panics then or later (for instance
  when a timer of a call that was pending expires), tells every attached client GOODBYE
  wamp.close.system_shutdown or closes its transport, answers later attach attempts with an error or
  ABORT rather than a crash, and leaves no goroutine of the router behind. Sessions of realms that
  were not removed are unaffected.

clause → theorem
  never panics then or later: nobody posts to a channel whose server has stopped
      generic ..................................... Shutdown.no_post_after_close (Nexus/L3/Shutdown)
      the program is the regenerated realm.close ... close_stmts_known, close_order
      every poster role is quiesced ................ posters_quiesced, derived_posters
      instantiated ................................. no_post_after_close_realm, no_live_poster_realm
      call timers (F8, F8b) ........................ timer_post_guarded, dealer_channel_never_closed
      late attach (F9, F32) ........................ router_channel_never_closed, post_guarded_by_stopped,
                                                     attach_never_posts_to_realm
      WELCOME vs handler (F26) ..................... welcome_sent_by_handler
      meta handlers (F27, F27b) .................... meta_handler_sends_guarded
  always returns: every wait of the closers descends the rank
      ............................................. close_waits_descend (+ C07.no_wait_cycle_router)
  handleSession / close mutual exclusion ........... handle_session_order, peer_closed_once_by_handler
  router.Close ..................................... router_close_order
The sequential half (GOODBYE to every client, later Attach answered, other realms unchanged) is the L2
model's; "no goroutine left" is observed by family `shutdown` under synctest.
-/
import Nexus.L3.CloseModel

namespace Nexus.C06
open Nexus.Gen.Sites Nexus.L3 Nexus.L3.Shutdown Nexus.L3.CloseModel

/-- Every statement of realm.close (with dealer.close and broker.close inlined) is known to the
    translation. -/
theorem close_stmts_known : realmCloseProg.isSome = true := by decide +kernel

/-- The regenerated statement order of realm.close is the model's protocol: take the close lock
    (no new handler; wait for an attach inside handleSession) → [kick clients] → wait for the
    handlers → end the meta session → wait for the meta-procedure handler → stop the dealer → stop
    the broker → close the realm channel. -/
theorem close_order : realmCloseProg.map essential = some expectedProtocol := by decide +kernel

/-- The poster table derived from the channel operations: who can be left hanging on, or panic at,
    which served channel. -/
theorem derived_posters :
    postPairs = [(.H, .brokerChan), (.HM, .brokerChan), (.MP, .brokerChan),
                 (.H, .dealerChan), (.HM, .dealerChan), (.MP, .dealerChan),
                 (.H, .metaChan), (.MP, .realmChan), (.A2, .realmChan), (.A2, .metaChan),
                 (.H, .realmChan)] := by decide +kernel

/-- Table fact: every poster role of every served channel is quiesced before the statement that
    stops the channel's server — waited for at a point after which it cannot be respawned, or (the
    meta session's handler) outlived by a fixed goroutine that is. -/
theorem posters_quiesced : ∀ prog, realmCloseProg = some prog → checkPosters prog = true := by
  have h : (match realmCloseProg with | some p => checkPosters p | none => true) = true := by
    decide +kernel
  intro prog hp
  rw [hp] at h
  exact h

/-- **Instantiation of `no_post_after_close`**: in every reachable configuration of the shutdown
    system built from the regenerated realm.close, once a served channel is stopped no actor of any
    role that posts to it is alive. -/
theorem no_post_after_close_realm (prog : List I) (hp : realmCloseProg = some prog)
    {c : Cfg Role SChan SFlag} (hreach : Reach (sys prog) c) (r : Role) (ch : SChan)
    (hposts : posts r ch = true) (hclosed : c.closed ch = true) : c.alive r = 0 := by
  have hq := posters_quiesced prog hp
  have hmem : (r, ch) ∈ postPairs := by
    simpa [posts] using hposts
  have := List.all_eq_true.mp hq (r, ch) hmem
  exact no_post_after_close (sys prog) allRoles fuel hreach r ch this hclosed

/-- Equivalently: a post step of the system never targets a stopped channel. -/
theorem no_live_poster_realm (prog : List I) (hp : realmCloseProg = some prog)
    {c : Cfg Role SChan SFlag} (hreach : Reach (sys prog) c) (r : Role) (ch : SChan)
    (halive : 0 < c.alive r) (hposts : posts r ch = true) : c.closed ch = false := by
  cases hc : c.closed ch with
  | false => rfl
  | true =>
    have := no_post_after_close_realm prog hp hreach r ch hposts hc
    rw [this] at halive
    exact absurd halive (Nat.lt_irrefl _)

/-- Non-vacuity 1: the check fails for the order "stop the dealer before waiting for the
    meta-procedure handler" (the mutant of DESIGN §8.4). -/
example : checkPosters [.setFlag .closing, .await .A2, .await .H, .closeChan .metaChan,
    .closeChan .dealerChan, .await .MP, .closeChan .brokerChan, .closeChan .realmChan] = false := by
  decide +kernel

/-- Non-vacuity 2: in that order a meta-procedure handler is alive, and posts to the dealer, while
    the dealer is stopped — a reachable configuration of the model. -/
example : ∃ c, Reach (sys [.setFlag .closing, .await .A2, .await .H, .closeChan .metaChan,
      .closeChan .dealerChan, .await .MP]) c ∧
    PostsOnClosed (sys [.setFlag .closing, .await .A2, .await .H, .closeChan .metaChan,
      .closeChan .dealerChan, .await .MP]) c .MP .dealerChan := by
  let S := sys [.setFlag .closing, .await .A2, .await .H, .closeChan .metaChan,
      .closeChan .dealerChan, .await .MP]
  let c0 : Cfg Role SChan SFlag :=
    { pc := 0, alive := fun r => if r = .MP then 1 else 0, flag := fun _ => false, closed := fun _ => false }
  have hinit : Init S c0 := ⟨rfl, fun _ => rfl, fun _ => rfl, by
    intro r q hq h0
    cases r <;> simp [S, sys, exitNeeds] at hq
    subst hq
    rfl⟩
  have hex : ∃ c, exec S c0 [.closer, .closer, .closer, .closer, .closer] = some c ∧
      PostsOnClosed S c .MP .dealerChan := by
    refine ⟨_, rfl, ?_, ?_, ?_⟩
    · decide
    · decide +kernel
    · decide
  obtain ⟨c, he, hb⟩ := hex
  exact ⟨c, reach_of_exec _ (Reach.init hinit) he, hb⟩

/-! ### The individual guards -/

/-- F8/F8b: the call timer's post to the dealer is a select with `dealer.closing` as alternative … -/
theorem timer_post_guarded :
    ∀ o ∈ chanOps, o.op = .send → o.gctx = .golit → o.garg = key! "router.dealer.syncCall#go1" →
      o.chan = key! "dealer.actionChan" ∧ o.sel = .selMulti ∧ (key! "dealer.closing") ∈ o.alts := by
  have h : chanOps.all (fun o => !(decide (o.op = .send) && decide (o.gctx = .golit) &&
      Nat.beq o.garg (key! "router.dealer.syncCall#go1")) ||
      (Nat.beq o.chan (key! "dealer.actionChan") && decide (o.sel = .selMulti) &&
       memN (key! "dealer.closing") o.alts)) = true := by decide +kernel
  intro o ho h1 h2 h3
  have := forall_of_all h o ho
  simp only [h1, h2, h3, Nat.beq_refl, decide_true, Bool.and_self, Bool.not_true, Bool.false_or,
    Bool.and_eq_true, decide_eq_true_eq] at this
  exact ⟨Nat.eq_of_beq_eq_true this.1.1, this.1.2, memN_iff.mp this.2⟩

/-- … and the dealer's action channel is never closed (ea8fcfd), so that select can never pick a
    send on a closed channel: when the dealer has stopped only the `closing` case is ready. The same
    holds for the router's channel (4a0e46a). The broker's and the realm's channels are closed; all
    their posters are quiesced (`posters_quiesced`). -/
theorem dealer_channel_never_closed :
    reallyClosed (key! "dealer.actionChan") = false ∧ reallyClosed (key! "router.actionChan") = false ∧
    reallyClosed (key! "broker.actionChan") = true ∧ reallyClosed (key! "realm.actionChan") = true := by
  decide +kernel

theorem router_channel_never_closed : reallyClosed (key! "router.actionChan") = false :=
  dealer_channel_never_closed.2.1

/-- F9: the only sends on the router's channel are `router.post`'s select with `router.stopped` as
    alternative, and the first post of `Close` itself (inside closeOnce.Do, before `closing` is closed). -/
theorem post_guarded_by_stopped :
    ∀ o ∈ chanOps, o.op = .send → o.chan = key! "router.actionChan" →
      (o.fn = key! "router.router.post" ∧ o.sel = .selMulti ∧ (key! "router.stopped") ∈ o.alts) ∨
      o.fn = key! "router.router.Close" := by
  have h : chanOps.all (fun o => !(decide (o.op = .send) && Nat.beq o.chan (key! "router.actionChan")) ||
      ((Nat.beq o.fn (key! "router.router.post") && decide (o.sel = .selMulti) &&
        memN (key! "router.stopped") o.alts) || Nat.beq o.fn (key! "router.router.Close"))) = true := by
    decide +kernel
  intro o ho h1 h2
  have := forall_of_all h o ho
  simp only [h1, h2, Nat.beq_refl, decide_true, Bool.and_self, Bool.not_true, Bool.false_or,
    Bool.or_eq_true, Bool.and_eq_true, decide_eq_true_eq] at this
  rcases this with h | h
  · exact Or.inl ⟨Nat.eq_of_beq_eq_true h.1.1, h.1.2, memN_iff.mp h.2⟩
  · exact Or.inr (Nat.eq_of_beq_eq_true h)

/-- F32: no function run by the attaching goroutine outside the close lock (`A1`) sends on a realm,
    dealer or broker channel: the realm pointer it holds may belong to a realm already closed. -/
theorem attach_never_posts_to_realm :
    ∀ o ∈ chanOps, (servedChan o).isSome = true → (siteRoles o.fn o.gctx o.garg).contains .A1 = false := by
  have h : chanOps.all (fun o => !(servedChan o).isSome ||
      !(siteRoles o.fn o.gctx o.garg).contains .A1) = true := by decide +kernel
  intro o ho h1
  have := forall_of_all h o ho
  simpa [h1] using this

/-- F26: WELCOME is sent by the session's handler goroutine — the goroutine that later closes the
    peer — with a non-blocking send; the attaching goroutine sends nothing after it started the
    handler (its only send, the ABORT, is on the refusal paths). -/
theorem welcome_sent_by_handler :
    ∀ m ∈ msgSends, m.msgType = key! "Welcome" →
      m.gctx = .golit ∧ m.garg = key! "router.realm.handleSession#go1" ∧ m.nonBlocking = true := by
  have h : msgSends.all (fun m => !Nat.beq m.msgType (key! "Welcome") ||
      (decide (m.gctx = .golit) && Nat.beq m.garg (key! "router.realm.handleSession#go1") &&
       m.nonBlocking)) = true := by decide +kernel
  intro m hm h1
  have := forall_of_all h m hm
  simp only [h1, Nat.beq_refl, Bool.not_true, Bool.false_or, Bool.and_eq_true,
    decide_eq_true_eq] at this
  exact ⟨this.1.1, Nat.eq_of_beq_eq_true this.1.2, this.2⟩

/-- F27/F27b: every operation of the meta-procedure handler on the meta peer is a select with
    `metaSessDone` (closed when the meta session's handler goroutine returns) as alternative: it can
    neither wait for a GOODBYE that was dropped nor hang on a reply nobody will read. -/
theorem meta_handler_sends_guarded :
    ∀ o ∈ chanOps, o.fn = key! "router.realm.metaProcedureHandler" →
      (o.cls = .peerSendMeta ∨ o.cls = .peerRecvMeta) →
      o.sel = .selMulti ∧ (key! "realm.metaSessDone") ∈ o.alts := by
  have h : chanOps.all (fun o => !(Nat.beq o.fn (key! "router.realm.metaProcedureHandler") &&
      (decide (o.cls = .peerSendMeta) || decide (o.cls = .peerRecvMeta))) ||
      (decide (o.sel = .selMulti) && memN (key! "realm.metaSessDone") o.alts)) = true := by
    decide +kernel
  intro o ho h1 h2
  have := forall_of_all h o ho
  have hb : (decide (o.cls = .peerSendMeta) || decide (o.cls = .peerRecvMeta)) = true := by
    rcases h2 with e | e <;> simp [e]
  simp only [h1, hb, Nat.beq_refl, Bool.and_self, Bool.not_true, Bool.false_or, Bool.and_eq_true,
    decide_eq_true_eq] at this
  exact ⟨this.1, memN_iff.mp this.2⟩

/-! ### Orders -/

/-- handleSession: lock → refuse if closed → register in the wait group → onJoin → unlock → start the
    handler; the handler: WELCOME (non-blocking) → handle messages → [ABORT] → onLeave → close the
    peer → leave the wait group. -/
theorem handle_session_order :
    order_realm_handleSession = [
      key! "realm.closeLock.Lock()",
      key! "if realm.closed {",
      key! "realm.closeLock.Unlock()",
      key! "err := errors.New(\"realm closed\")",
      key! "return err",
      key! "}",
      key! "realm.waitHandlers.Add(1)",
      key! "realm.onJoin(sess)",
      key! "realm.closeLock.Unlock()",
      key! "if realm.debug {",
      key! "realm.log.Println(\"Handling messages for session\", sess)",
      key! "}",
      key! "go func() {",
      key! "select {",
      key! "case sess.Send() <- welcome:",
      key! "default:",
      key! "}",
      key! "shutdown, killAll, err := realm.handleInboundMessages(sess)",
      key! "if err != nil {",
      key! "abortMsg := wamp.Abort{ Reason: wamp.ErrProtocolViolation, Details: wamp.Dict{wamp.OptMessage: err.Error()}, }",
      key! "realm.log.Println(\"Aborting session\", sess, \":\", err)",
      key! "select {",
      key! "case sess.Send() <- &abortMsg:",
      key! "default:",
      key! "}",
      key! "}",
      key! "realm.onLeave(sess, shutdown, killAll)",
      key! "sess.Close()",
      key! "realm.waitHandlers.Done()",
      key! "}()",
      key! "return nil"] := by decide +kernel

/-- After a session's handler exists, its peer is closed in exactly one place: the end of that
    handler. The other `Close` calls on a peer are in AttachClient, on the paths that never start a
    handler. -/
theorem peer_closed_once_by_handler :
    ((closeSites.filter fun c => !c.isChanClose &&
        memN c.recvType [key! "*wamp.Session", key! "wamp.Peer"]).map (·.key)) =
      [key! "router.realm.handleSession|Close|sess",
       key! "router.router.AttachClient|Close|client",
       key! "router.router.AttachClient|Close|client#2"] := by decide +kernel

/-- router.Close: once; inside the router goroutine mark closed and close every realm; then stop the
    router goroutine through `closing` (the action channel stays open for late callers), stop the
    memory logger, and wait for the router goroutine. -/
theorem router_close_order :
    order_router_Close = [
      key! "router.closeOnce.Do(func() {",
      key! "done := make(chan struct{})",
      key! "router.actionChan <- func() {",
      key! "router.closed = true",
      key! "for uri, realm := range router.realms {",
      key! "realm.close()",
      key! "delete(router.realms, uri)",
      key! "router.log.Println(\"Realm\", uri, \"completed shutdown\")",
      key! "}",
      key! "close(done)",
      key! "}",
      key! "<-done",
      key! "close(router.closing)",
      key! "if router.stopMemStats != nil {",
      key! "close(router.stopMemStats)",
      key! "<-router.memStatsStopped",
      key! "}",
      key! "router.log.Println(\"Router stopped\")",
      key! "})",
      key! "<-router.stopped"] := by decide +kernel

/-- RemoveRealm: take the realm out of the router inside the router goroutine (no new attach finds
    it), then close it outside. -/
theorem remove_realm_order :
    order_router_RemoveRealm = [
      key! "var realm *realm",
      key! "var ok bool",
      key! "sync := make(chan struct{})",
      key! "if !router.post(func() {",
      key! "if realm, ok = router.realms[name]; ok {",
      key! "delete(router.realms, name)",
      key! "router.log.Printf(\"Removed realm: %s\", name)",
      key! "}",
      key! "close(sync)",
      key! "}) {",
      key! "return",
      key! "}",
      key! "<-sync",
      key! "if ok {",
      key! "realm.close()",
      key! "router.log.Println(\"Realm\", name, \"was removed and completed shutdown\")",
      key! "}"] := by decide +kernel

/-- "Always returns": every wait inside realm.close, dealer.close, broker.close, router.Close and
    RemoveRealm is for a role of strictly lower rank than the closing goroutine. Together with
    `C07.no_wait_cycle_router` the closer cannot be part of a wait cycle. -/
def closerFns : List Nat :=
  [key! "router.realm.close", key! "router.dealer.close", key! "router.broker.close",
   key! "router.router.Close", key! "router.router.RemoveRealm"]

theorem close_waits_descend :
    (∀ o ∈ chanOps, memN o.fn closerFns = true → ∀ e ∈ opEdges o, rank e.2 < rank e.1) ∧
    (∀ s ∈ syncOps, memN s.fn closerFns = true → ∀ e ∈ syncEdges s, rank e.2 < rank e.1) := by
  have h1 : chanOps.all (fun o => !memN o.fn closerFns ||
      (opEdges o).all fun e => decide (rank e.2 < rank e.1)) = true := by decide +kernel
  have h2 : syncOps.all (fun s => !memN s.fn closerFns ||
      (syncEdges s).all fun e => decide (rank e.2 < rank e.1)) = true := by decide +kernel
  refine ⟨?_, ?_⟩
  · intro o ho hm e he
    have := forall_of_all h1 o ho
    simp only [hm, Bool.not_true, Bool.false_or] at this
    exact of_decide_eq_true (forall_of_all this e he)
  · intro s hs hm e he
    have := forall_of_all h2 s hs
    simp only [hm, Bool.not_true, Bool.false_or] at this
    exact of_decide_eq_true (forall_of_all this e he)

end Nexus.C06
