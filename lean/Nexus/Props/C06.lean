/-
C06 — "Router.Close and RemoveRealm are safe at any moment" (concurrency-skeleton half)

  Closing the router or removing a realm at any point - with handshakes, publications, calls, call
  timers, kills and disconnects in flight - always returns, never panics then or later (for instance
  when a timer of a call that was pending expires), tells every attached client GOODBYE
  wamp.close.system_shutdown or closes its transport, answers later attach attempts with an error or
  ABORT rather than a crash, and leaves no goroutine of the router behind. Sessions of realms that
  were not removed are unaffected.

clause → theorem
  never panics then or later: nobody posts to a channel whose server has stopped
      generic ..................................... Shutdown.no_post_after_close (Nexus/L3/Shutdown)
      the program is the regenerated realm.close ... close_stmts_known, close_order
      every poster role is quiesced ................ posters_quiesced, derived_posters
      instantiated ................................. no_post_after_close_realm, no_live_poster_realm
      call timers (F8, F8b) ........................ timer_post_guarded, dealer_channel_never_closed
      late attach (F9, F32) ........................ router_channel_never_closed, post_guarded_by_stopped,
                                                     attach_never_posts_to_realm
      WELCOME vs handler (F26) ..................... welcome_sent_by_handler
      meta handlers (F27, F27b) .................... meta_handler_sends_guarded
  always returns: every wait of the closers descends the rank
      ............................................. close_waits_descend (+ C07.no_wait_cycle_router)
      and the servers they (and the handlers they wait for) depend on keep serving until the closer
      stops them (audit C §0, (a)4) ................ servers_guarded, server_guard_matches_channel,
                                                     mp_exits_after_hm, assumptions_table_half,
                                                     server_alive_until_stopped, servers_keep_serving,
                                                     mp_serves_while_hm, rtr_serves_until_closed,
                                                     server_waits_classified
                                                     (generic: Nexus/L3/WpL3Serve; tables (i),(l),(m) of
                                                      Nexus/L3/WpL3Tables; C07.blocked_posters_reach_running_server)
  one closer per realm ((d)5) ...................... single_closer, single_closer_generic
  handleSession / close mutual exclusion ........... handle_session_order, peer_closed_once_by_handler
  router.Close ..................................... router_close_order
The sequential half (GOODBYE to every client, later Attach answered, other realms unchanged) is the L2
model's; "no goroutine left" is observed by family `shutdown` under synctest.
-/
import Nexus.L3.CloseModel
import Nexus.L3.WpL3ServeModel
import Nexus.L3.WpL3Wait
import Nexus.L3.WpL3Mutex

namespace Nexus.C06
open Nexus.Gen.Sites Nexus.L3 Nexus.L3.Shutdown Nexus.L3.CloseModel
open Nexus.L3.WpL3Tables Nexus.L3.WpL3.Serve Nexus.L3.WpL3.ServeModel

/-- Every statement of realm.close (with dealer.close and broker.close inlined) is known to the
    translation. -/
theorem close_stmts_known : realmCloseProg.isSome = true := by decide +kernel

/-- The regenerated statement order of realm.close is the model's protocol: take the close lock
    (no new handler; wait for an attach inside handleSession) → [kick clients] → wait for the
    handlers → end the meta session → wait for the meta-procedure handler → stop the dealer → stop
    the broker → close the realm channel. -/
theorem close_order : realmCloseProg.map essential = some expectedProtocol := by decide +kernel

/-- The poster table derived from the channel operations: who can be left hanging on, or panic at,
    which served channel. -/
theorem derived_posters :
    postPairs = [(.H, .brokerChan), (.HM, .brokerChan), (.MP, .brokerChan),
                 (.H, .dealerChan), (.HM, .dealerChan), (.MP, .dealerChan),
                 (.H, .metaChan), (.MP, .realmChan), (.A2, .realmChan), (.A2, .metaChan),
                 (.H, .realmChan)] := by decide +kernel

/-- Table fact: every poster role of every served channel is quiesced before the statement that
    stops the channel's server — waited for at a point after which it cannot be respawned, or (the
    meta session's handler) outlived by a fixed goroutine that is. -/
theorem posters_quiesced : ∀ prog, realmCloseProg = some prog → checkPosters prog = true := by
  have h : (match realmCloseProg with | some p => checkPosters p | none => true) = true := by
    decide +kernel
  intro prog hp
  rw [hp] at h
  exact h

/-- **Instantiation of `no_post_after_close`**: in every reachable configuration of the shutdown
    system built from the regenerated realm.close, once a served channel is stopped no actor of any
    role that posts to it is alive. -/
theorem no_post_after_close_realm (prog : List I) (hp : realmCloseProg = some prog)
    {c : Cfg Role SChan SFlag} (hreach : Reach (sys prog) c) (r : Role) (ch : SChan)
    (hposts : posts r ch = true) (hclosed : c.closed ch = true) : c.alive r = 0 := by
  have hq := posters_quiesced prog hp
  have hmem : (r, ch) ∈ postPairs := by
    simpa [posts] using hposts
  have := List.all_eq_true.mp hq (r, ch) hmem
  exact no_post_after_close (sys prog) allRoles fuel hreach r ch this hclosed

/-- Equivalently: a post step of the system never targets a stopped channel. -/
theorem no_live_poster_realm (prog : List I) (hp : realmCloseProg = some prog)
    {c : Cfg Role SChan SFlag} (hreach : Reach (sys prog) c) (r : Role) (ch : SChan)
    (halive : 0 < c.alive r) (hposts : posts r ch = true) : c.closed ch = false := by
  cases hc : c.closed ch with
  | false => rfl
  | true =>
    have := no_post_after_close_realm prog hp hreach r ch hposts hc
    rw [this] at halive
    exact absurd halive (Nat.lt_irrefl _)

/-- Non-vacuity 1: the check fails for the order "stop the dealer before waiting for the
    meta-procedure handler" (the mutant of DESIGN §8.4). -/
example : checkPosters [.setFlag .closing, .await .A2, .await .H, .closeChan .metaChan,
    .closeChan .dealerChan, .await .MP, .closeChan .brokerChan, .closeChan .realmChan] = false := by
  decide +kernel

/-- Non-vacuity 2: in that order a meta-procedure handler is alive, and posts to the dealer, while
    the dealer is stopped — a reachable configuration of the model. -/
example : ∃ c, Reach (sys [.setFlag .closing, .await .A2, .await .H, .closeChan .metaChan,
      .closeChan .dealerChan, .await .MP]) c ∧
    PostsOnClosed (sys [.setFlag .closing, .await .A2, .await .H, .closeChan .metaChan,
      .closeChan .dealerChan, .await .MP]) c .MP .dealerChan := by
  let S := sys [.setFlag .closing, .await .A2, .await .H, .closeChan .metaChan,
      .closeChan .dealerChan, .await .MP]
  let c0 : Cfg Role SChan SFlag :=
    { pc := 0, alive := fun r => if r = .MP then 1 else 0, flag := fun _ => false, closed := fun _ => false }
  have hinit : Init S c0 := ⟨rfl, fun _ => rfl, fun _ => rfl, by
    intro r q hq h0
    cases r <;> simp [S, sys, exitNeeds] at hq
    subst hq
    rfl⟩
  have hex : ∃ c, exec S c0 [.closer, .closer, .closer, .closer, .closer] = some c ∧
      PostsOnClosed S c .MP .dealerChan := by
    refine ⟨_, rfl, ?_, ?_, ?_⟩
    · decide
    · decide +kernel
    · decide
  obtain ⟨c, he, hb⟩ := hex
  exact ⟨c, reach_of_exec _ (Reach.init hinit) he, hb⟩

/-! ### The individual guards -/

/-- F8/F8b: the call timer's post to the dealer is a select with `dealer.closing` as alternative … -/
theorem timer_post_guarded :
    ∀ o ∈ chanOps, o.op = .send → o.gctx = .golit → o.garg = key! "router.dealer.syncCall#go1" →
      o.chan = key! "dealer.actionChan" ∧ o.sel = .selMulti ∧ (key! "dealer.closing") ∈ o.alts := by
  have h : chanOps.all (fun o => !(decide (o.op = .send) && decide (o.gctx = .golit) &&
      Nat.beq o.garg (key! "router.dealer.syncCall#go1")) ||
      (Nat.beq o.chan (key! "dealer.actionChan") && decide (o.sel = .selMulti) &&
       memN (key! "dealer.closing") o.alts)) = true := by decide +kernel
  intro o ho h1 h2 h3
  have := forall_of_all h o ho
  simp only [h1, h2, h3, Nat.beq_refl, decide_true, Bool.and_self, Bool.not_true, Bool.false_or,
    Bool.and_eq_true, decide_eq_true_eq] at this
  exact ⟨Nat.eq_of_beq_eq_true this.1.1, this.1.2, memN_iff.mp this.2⟩

/-- … and the dealer's action channel is never closed (ea8fcfd), so that select can never pick a
    send on a closed channel: when the dealer has stopped only the `closing` case is ready. The same
    holds for the router's channel (4a0e46a). The broker's and the realm's channels are closed; all
    their posters are quiesced (`posters_quiesced`). -/
theorem dealer_channel_never_closed :
    reallyClosed (key! "dealer.actionChan") = false ∧ reallyClosed (key! "router.actionChan") = false ∧
    reallyClosed (key! "broker.actionChan") = true ∧ reallyClosed (key! "realm.actionChan") = true := by
  decide +kernel

theorem router_channel_never_closed : reallyClosed (key! "router.actionChan") = false :=
  dealer_channel_never_closed.2.1

/-- F9: the only sends on the router's channel are `router.post`'s select with `router.stopped` as
    alternative, and the first post of `Close` itself (inside closeOnce.Do, before `closing` is closed). -/
theorem post_guarded_by_stopped :
    ∀ o ∈ chanOps, o.op = .send → o.chan = key! "router.actionChan" →
      (o.fn = key! "router.router.post" ∧ o.sel = .selMulti ∧ (key! "router.stopped") ∈ o.alts) ∨
      o.fn = key! "router.router.Close" := by
  have h : chanOps.all (fun o => !(decide (o.op = .send) && Nat.beq o.chan (key! "router.actionChan")) ||
      ((Nat.beq o.fn (key! "router.router.post") && decide (o.sel = .selMulti) &&
        memN (key! "router.stopped") o.alts) || Nat.beq o.fn (key! "router.router.Close"))) = true := by
    decide +kernel
  intro o ho h1 h2
  have := forall_of_all h o ho
  simp only [h1, h2, Nat.beq_refl, decide_true, Bool.and_self, Bool.not_true, Bool.false_or,
    Bool.or_eq_true, Bool.and_eq_true, decide_eq_true_eq] at this
  rcases this with h | h
  · exact Or.inl ⟨Nat.eq_of_beq_eq_true h.1.1, h.1.2, memN_iff.mp h.2⟩
  · exact Or.inr (Nat.eq_of_beq_eq_true h)

/-- F32: no function run by the attaching goroutine outside the close lock (`A1`) sends on a realm,
    dealer or broker channel: the realm pointer it holds may belong to a realm already closed. -/
theorem attach_never_posts_to_realm :
    ∀ o ∈ chanOps, (servedChan o).isSome = true → (siteRoles o.fn o.gctx o.garg).contains .A1 = false := by
  have h : chanOps.all (fun o => !(servedChan o).isSome ||
      !(siteRoles o.fn o.gctx o.garg).contains .A1) = true := by decide +kernel
  intro o ho h1
  have := forall_of_all h o ho
  simpa [h1] using this

/-- F26: WELCOME is sent by the session's handler goroutine — the goroutine that later closes the
    peer — with a non-blocking send; the attaching goroutine sends nothing after it started the
    handler (its only send, the ABORT, is on the refusal paths). -/
theorem welcome_sent_by_handler :
    ∀ m ∈ msgSends, m.msgType = key! "Welcome" →
      m.gctx = .golit ∧ m.garg = key! "router.realm.handleSession#go1" ∧ m.nonBlocking = true := by
  have h : msgSends.all (fun m => !Nat.beq m.msgType (key! "Welcome") ||
      (decide (m.gctx = .golit) && Nat.beq m.garg (key! "router.realm.handleSession#go1") &&
       m.nonBlocking)) = true := by decide +kernel
  intro m hm h1
  have := forall_of_all h m hm
  simp only [h1, Nat.beq_refl, Bool.not_true, Bool.false_or, Bool.and_eq_true,
    decide_eq_true_eq] at this
  exact ⟨this.1.1, Nat.eq_of_beq_eq_true this.1.2, this.2⟩

/-- F27/F27b: every operation of the meta-procedure handler on the meta peer is a select with
    `metaSessDone` (closed when the meta session's handler goroutine returns) as alternative: it can
    neither wait for a GOODBYE that was dropped nor hang on a reply nobody will read. -/
theorem meta_handler_sends_guarded :
    ∀ o ∈ chanOps, o.fn = key! "router.realm.metaProcedureHandler" →
      (o.cls = .peerSendMeta ∨ o.cls = .peerRecvMeta) →
      o.sel = .selMulti ∧ (key! "realm.metaSessDone") ∈ o.alts := by
  have h : chanOps.all (fun o => !(Nat.beq o.fn (key! "router.realm.metaProcedureHandler") &&
      (decide (o.cls = .peerSendMeta) || decide (o.cls = .peerRecvMeta))) ||
      (decide (o.sel = .selMulti) && memN (key! "realm.metaSessDone") o.alts)) = true := by
    decide +kernel
  intro o ho h1 h2
  have := forall_of_all h o ho
  have hb : (decide (o.cls = .peerSendMeta) || decide (o.cls = .peerRecvMeta)) = true := by
    rcases h2 with e | e <;> simp [e]
  simp only [h1, hb, Nat.beq_refl, Bool.and_self, Bool.not_true, Bool.false_or, Bool.and_eq_true,
    decide_eq_true_eq] at this
  exact ⟨this.1, memN_iff.mp this.2⟩

/-! ### Orders -/

/-- handleSession: lock → refuse if closed → register in the wait group → onJoin → unlock → start the
    handler; the handler: WELCOME (non-blocking) → handle messages → [ABORT] → onLeave → close the
    peer → leave the wait group. -/
theorem handle_session_order :
    order_realm_handleSession = [
      key! "realm.closeLock.Lock()",
      key! "if realm.closed {",
      key! "realm.closeLock.Unlock()",
      key! "err := errors.New(\"realm closed\")",
      key! "return err",
      key! "}",
      key! "realm.waitHandlers.Add(1)",
      key! "realm.onJoin(sess)",
      key! "realm.closeLock.Unlock()",
      key! "if realm.debug {",
      key! "realm.log.Println(\"Handling messages for session\", sess)",
      key! "}",
      key! "go func() {",
      key! "select {",
      key! "case sess.Send() <- welcome:",
      key! "default:",
      key! "}",
      key! "shutdown, killAll, err := realm.handleInboundMessages(sess)",
      key! "if err != nil {",
      key! "abortMsg := wamp.Abort{ Reason: wamp.ErrProtocolViolation, Details: wamp.Dict{wamp.OptMessage: err.Error()}, }",
      key! "realm.log.Println(\"Aborting session\", sess, \":\", err)",
      key! "select {",
      key! "case sess.Send() <- &abortMsg:",
      key! "default:",
      key! "}",
      key! "}",
      key! "realm.onLeave(sess, shutdown, killAll)",
      key! "sess.Close()",
      key! "realm.waitHandlers.Done()",
      key! "}()",
      key! "return nil"] := by decide +kernel

/-- After a session's handler exists, its peer is closed in exactly one place: the end of that
    handler. The other `Close` calls on a peer are in AttachClient, on the paths that never start a
    handler: `client.Close()` when no HELLO arrived, and the `client.Close()` of the `sendAbort`
    closure, which runs in the attaching goroutine and — called inside the action posted to the router
    goroutine — in the router goroutine (the fourth entry; table (b) completed with the closure's
    second context, Nexus/L3/WpL3Wait.lean; audit C: C06 (b)4). -/
theorem peer_closed_once_by_handler :
    ((WpL3.allCloseSites.filter fun c => !c.isChanClose &&
        memN c.recvType [key! "*wamp.Session", key! "wamp.Peer"]).map (·.key)) =
      [key! "router.realm.handleSession|Close|sess",
       key! "router.router.AttachClient|Close|client",
       key! "router.router.AttachClient|Close|client#2",
       key! "router.router.AttachClient|Close|client@posted router.actionChan"] := by decide +kernel

/-- … and by which goroutines: the handler, the attaching goroutine, the router goroutine. -/
theorem peer_close_roles :
    ∀ c ∈ WpL3.allCloseSites, c.isChanClose = false →
      memN c.recvType [key! "*wamp.Session", key! "wamp.Peer"] = true →
      siteRoles c.fn c.gctx c.garg = [.H] ∨ siteRoles c.fn c.gctx c.garg = [.A1] ∨
      siteRoles c.fn c.gctx c.garg = [.Rtr] := by
  have h : WpL3.allCloseSites.all (fun c => c.isChanClose ||
      !memN c.recvType [key! "*wamp.Session", key! "wamp.Peer"] ||
      (decide (siteRoles c.fn c.gctx c.garg = [.H]) || decide (siteRoles c.fn c.gctx c.garg = [.A1]) ||
       decide (siteRoles c.fn c.gctx c.garg = [.Rtr]))) = true := by decide +kernel
  intro c hc h1 h2
  have := forall_of_all h c hc
  simpa [h1, h2, or_assoc] using this

/-- router.Close: once; inside the router goroutine mark closed and close every realm; then stop the
    router goroutine through `closing` (the action channel stays open for late callers), stop the
    memory logger, and wait for the router goroutine. -/
theorem router_close_order :
    order_router_Close = [
      key! "router.closeOnce.Do(func() {",
      key! "done := make(chan struct{})",
      key! "router.actionChan <- func() {",
      key! "router.closed = true",
      key! "for uri, realm := range router.realms {",
      key! "realm.close()",
      key! "delete(router.realms, uri)",
      key! "router.log.Println(\"Realm\", uri, \"completed shutdown\")",
      key! "}",
      key! "close(done)",
      key! "}",
      key! "<-done",
      key! "close(router.closing)",
      key! "if router.stopMemStats != nil {",
      key! "close(router.stopMemStats)",
      key! "<-router.memStatsStopped",
      key! "}",
      key! "router.log.Println(\"Router stopped\")",
      key! "})",
      key! "<-router.stopped"] := by decide +kernel

/-- RemoveRealm: take the realm out of the router inside the router goroutine (no new attach finds
    it), then close it outside. -/
theorem remove_realm_order :
    order_router_RemoveRealm = [
      key! "var realm *realm",
      key! "var ok bool",
      key! "sync := make(chan struct{})",
      key! "if !router.post(func() {",
      key! "if realm, ok = router.realms[name]; ok {",
      key! "delete(router.realms, name)",
      key! "router.log.Printf(\"Removed realm: %s\", name)",
      key! "}",
      key! "close(sync)",
      key! "}) {",
      key! "return",
      key! "}",
      key! "<-sync",
      key! "if ok {",
      key! "realm.close()",
      key! "router.log.Println(\"Realm\", name, \"was removed and completed shutdown\")",
      key! "}"] := by decide +kernel

/-- "Always returns": every wait inside realm.close, dealer.close, broker.close, router.Close and
    RemoveRealm is for a role of strictly lower rank than the closing goroutine. Together with
    `C07.no_wait_cycle_router` the closer cannot be part of a wait cycle. -/
def closerFns : List Nat :=
  [key! "router.realm.close", key! "router.dealer.close", key! "router.broker.close",
   key! "router.router.Close", key! "router.router.RemoveRealm"]

theorem close_waits_descend :
    (∀ o ∈ chanOps, memN o.fn closerFns = true → ∀ e ∈ opEdges o, rank e.2 < rank e.1) ∧
    (∀ s ∈ syncOps, memN s.fn closerFns = true → ∀ e ∈ syncEdges s, rank e.2 < rank e.1) := by
  have h1 : chanOps.all (fun o => !memN o.fn closerFns ||
      (opEdges o).all fun e => decide (rank e.2 < rank e.1)) = true := by decide +kernel
  have h2 : syncOps.all (fun s => !memN s.fn closerFns ||
      (syncEdges s).all fun e => decide (rank e.2 < rank e.1)) = true := by decide +kernel
  refine ⟨?_, ?_⟩
  · intro o ho hm e he
    have := forall_of_all h1 o ho
    simp only [hm, Bool.not_true, Bool.false_or] at this
    exact of_decide_eq_true (forall_of_all this e he)
  · intro s hs hm e he
    have := forall_of_all h2 s hs
    simp only [hm, Bool.not_true, Bool.false_or] at this
    exact of_decide_eq_true (forall_of_all this e he)

/-! ### Servers keep serving (audit C §0; (a)4 "always returns")

`close_waits_descend` and `C07.no_wait_cycle_router` say that the closer is in no wait *cycle*. The
closer waits for the session handlers, those block on the realm goroutine and on the meta session's
handler, the realm goroutine on the dealer … — acyclic, but if one of those servers could leave its
loop for a reason of its own everybody above it would wait for ever. The theorems below close that
gap: each server leaves its loop only behind the stop signal that the closer issues *after* it has
waited for everybody who posts to that server. -/

/-- In the shutdown model as it was (any actor may exit at any moment) the wedge of audit C §0 is a
    reachable configuration: a session handler alive and posting to the meta session's channel, that
    channel not stopped, and nobody serving it. The guards exclude exactly this. -/
theorem old_model_admits_wedge (prog : List I) :
    ∃ c, Reach (sys prog) c ∧ 0 < c.alive .H ∧ posts .H .metaChan = true ∧
      c.closed .metaChan = false ∧ c.alive (serverOf .metaChan) = 0 := by
  let c0 : Cfg Role SChan SFlag :=
    { pc := 0, alive := fun r => if r = .H ∨ r = .HM ∨ r = .MP then 1 else 0,
      flag := fun _ => false, closed := fun _ => false }
  have hinit : Init (sys prog) c0 := ⟨rfl, fun _ => rfl, fun _ => rfl, by
    intro r q hq h0
    cases r <;> simp [sys, exitNeeds] at hq
    subst hq
    revert h0
    decide⟩
  have hstep : Step (sys prog) c0 { c0 with alive := upd c0.alive .HM (c0.alive .HM - 1) } :=
    Step.exit (S := sys prog) Role.HM (by decide) (by intro q hq; simp [sys, exitNeeds] at hq)
  refine ⟨_, Reach.step (Reach.init hinit) hstep, ?_, ?_, rfl, ?_⟩
  · decide
  · decide +kernel
  · decide

/-- **The guards, computed from the regenerated exit table**: every way out of `dealer.run`,
    `broker.run`, `realm.run` and of the meta session's `handleInboundMessages` is the closer's stop
    signal for that server's channel (for the meta session: or excluded by a named assumption). -/
theorem servers_guarded :
    guardOf .D = some .dealerChan ∧ guardOf .B = some .brokerChan ∧
    guardOf .R = some .realmChan ∧ guardOf .HM = some .metaChan := by decide +kernel

theorem server_guard_matches_channel (ch : SChan) : servers.guard (servers.server ch) = some ch := by
  cases ch
  · exact servers_guarded.1
  · exact servers_guarded.2.1
  · exact servers_guarded.2.2.1
  · exact servers_guarded.2.2.2

/-- The meta-procedure handler: every exit of its loop follows the exit of the meta session's
    handler — `metaSessDone` (closed only by that goroutine, never sent on) is closed, its closure `send`
    failed (it returns false only on `metaSessDone`), or that handler's parting GOODBYE arrived. This
    is `CloseModel.exitNeeds .MP = some .HM`, derived from table (i). -/
theorem mp_exits_after_hm : mpExitsAfterHM = true ∧ exitNeeds .MP = some .HM := by
  refine ⟨by decide +kernel, rfl⟩

/-- The table half of each assumption holds (see Nexus/L3/WpL3ServeModel.lean for what remains). -/
theorem assumptions_table_half : ∀ a : Assumption, neverOk a = true := by
  intro a; cases a <;> decide +kernel

/-- The assumptions the guard of the meta session's handler uses; no other guard uses any. -/
theorem assumptions_used :
    ((exitWhy.filterMap fun e => match e.2.2 with | .never a => some (e.2.1, a) | _ => none).eraseDups) =
      [(.HM, .C04_meta_never_ends), (.HM, .metaNotInClients), (.HM, .metaPeerNeverClosed),
       (.HM, .metaMessageKinds), (.MP, .metaPeerNeverClosed)] := by decide +kernel

/-- Non-vacuity of the guard computation: a wrong stop signal, a wrong closer statement, or one more
    `return` in the loop (an exit without entry) take the guard away. -/
example : specOk { specD with signal := key! "dealer.stopped" } = false := by decide +kernel
example : specOk { specD with stopStmt := key! "<-dealer.stopped" } = false := by decide +kernel
example : specOk { specB with chan := some .dealerChan } = false := by decide +kernel
example : exitOk specD ⟨key! "router.dealer.run|exit|ret|if dealer.debug {", key! "router.dealer.run", .ret, true,
    key! "", key! "", .other, key! "", false, [key! "if dealer.debug {"]⟩ = false := by decide +kernel

/-- The realm's shutdown system with servers and guards. -/
abbrev GReachRealm (prog : List I) (c : Cfg Role SChan SFlag) : Prop := GReach (sys prog) servers c

/-- **A server is alive until the closer stops it**: in every configuration reachable by guarded
    steps, while the stop statement of a served channel has not been executed its server has a live
    actor. -/
theorem server_alive_until_stopped (prog : List I) {c : Cfg Role SChan SFlag}
    (hreach : GReachRealm prog c) (ch : SChan) (hopen : c.closed ch = false) :
    0 < c.alive (serverOf ch) :=
  guarded_alive hreach (serverOf ch) ch (server_guard_matches_channel ch) hopen

/-- **Servers keep serving.** In every reachable configuration a live actor of any role that posts
    to a served channel (table `derived_posters`) finds that channel's server alive: nobody is left
    hanging on `metaPeer.Send()`, `dealer.actionChan`, `broker.actionChan` or `realm.actionChan`. -/
theorem servers_keep_serving (prog : List I) (hp : realmCloseProg = some prog)
    {c : Cfg Role SChan SFlag} (hreach : GReachRealm prog c) (r : Role) (ch : SChan)
    (hposts : posts r ch = true) (halive : 0 < c.alive r) : 0 < c.alive (serverOf ch) := by
  have hq := posters_quiesced prog hp
  have hmem : (r, ch) ∈ postPairs := by simpa [posts] using hposts
  have hqr := List.all_eq_true.mp hq (r, ch) hmem
  exact poster_finds_server (sys prog) servers allRoles fuel hreach r ch hqr halive hposts
    (server_guard_matches_channel ch)

/-- The meta-procedure handler is alive while the meta session's handler is, hence until the meta
    session is stopped. -/
theorem mp_serves_while_hm (prog : List I) {c : Cfg Role SChan SFlag} (hreach : GReachRealm prog c) :
    (0 < c.alive .HM → 0 < c.alive .MP) ∧ (c.closed .metaChan = false → 0 < c.alive .MP) := by
  have h1 : 0 < c.alive .HM → 0 < c.alive .MP :=
    dependent_alive (reach_of_greach hreach) (r := .MP) (q := .HM) rfl rfl rfl
  exact ⟨h1, fun ho => h1 (server_alive_until_stopped prog hreach .metaChan ho)⟩

/-- Non-vacuity: the hypotheses hold in a non-trivial configuration — a session handler, the fixed
    goroutines and an attach in progress, the closer three instructions into `realm.close` — and in
    the guarded system the meta session's handler cannot leave before its stop instruction. -/
def exCfg : Cfg Role SChan SFlag :=
  { pc := 0, alive := fun r => if r = .H ∨ r = .HM ∨ r = .MP ∨ r = .R ∨ r = .D ∨ r = .B then 1 else 0,
    flag := fun _ => false, closed := fun _ => false }

theorem exCfg_init (prog : List I) : GInit (sys prog) servers exCfg := by
  refine ⟨⟨rfl, fun _ => rfl, fun _ => rfl, ?_⟩, ?_⟩
  · intro r q hq h0
    cases r <;> simp [sys, exitNeeds] at hq
    subst hq
    revert h0
    decide
  · intro r ch hg
    have : ∀ r, (guardOf r).isSome = true → 0 < exCfg.alive r := by
      intro r; cases r <;> decide +kernel
    exact this r (by simp [show guardOf r = some ch from hg])

/-- Hypotheses of `server_alive_until_stopped`. -/
example (prog : List I) : GReachRealm prog exCfg ∧ exCfg.closed .dealerChan = false :=
  ⟨GReach.init (exCfg_init prog), rfl⟩

example (prog : List I) (hp : realmCloseProg = some prog) :
    ∃ c, GReachRealm prog c ∧ 0 < c.alive .H ∧ posts .H .metaChan = true ∧ 0 < c.alive (serverOf .metaChan) := by
  have h0 : GReachRealm prog exCfg := GReach.init (exCfg_init prog)
  exact ⟨exCfg, h0, by decide, by decide +kernel,
    servers_keep_serving prog hp h0 .H .metaChan (by decide +kernel) (by decide)⟩

example : ∀ prog, realmCloseProg = some prog →
    gexec (sys prog) servers guardedPairs exCfg [.exit .HM] = none ∧
    (gexec (sys prog) servers guardedPairs exCfg
      (List.replicate 15 .closer ++ [.exit .H, .closer, .closer, .exit .HM])).isSome = true := by
  have h : (match realmCloseProg with
      | some prog => decide (gexec (sys prog) servers guardedPairs exCfg [.exit .HM] = none) &&
          (gexec (sys prog) servers guardedPairs exCfg
            (List.replicate 15 .closer ++ [.exit .H, .closer, .closer, .exit .HM])).isSome
      | none => true) = true := by decide +kernel
  intro prog hp
  rw [hp] at h
  simpa using h

/-- The router goroutine: the only way out of `router.run` is `case <-router.closing`, a channel
    nobody sends on and that only `router.Close` closes (inside `closeOnce.Do`, after the action that
    closed every realm has answered, `router_close_order`); `router.stopped` is closed only by
    `router.run` itself on that exit, and it is the alternative of every later post
    (`post_guarded_by_stopped`): whoever posts to the router goroutine is served or released. -/
theorem rtr_serves_until_closed :
    specOk specRtr = true ∧ endChanOk (key! "router.stopped") = true ∧
    (order_router_Close.idxOf (key! "<-done") < order_router_Close.idxOf (key! "close(router.closing)")) := by
  decide +kernel

/-- **Every wait for a server is accounted for.** Each channel operation that makes a goroutine wait
    for one of the server roles HM, R, D, B, Rtr, MP is a post covered by `servers_keep_serving`, a post
    with the server's stop signal as alternative, the closer's own post or a post during construction,
    the wait for the answer of a posted closure (the waiter being a poster to that very channel), or the
    wait for the server's termination on a channel that only the server's exit closes. -/
theorem server_waits_classified :
    ∀ o ∈ chanOps, waitsForServer o = true → (classifyServerOp o).isSome = true := by
  have h : chanOps.all (fun o => !waitsForServer o || (classifyServerOp o).isSome) = true := by
    decide +kernel
  intro o ho hw
  have := forall_of_all h o ho
  simpa [hw] using this

/-- Non-vacuity: there are such waits, of every class. -/
example : ∀ c ∈ [EdgeClass.awaitEnd, .servedPost, .replyWait, .exemptPost, .guardedPost, .stopAlt],
    (chanOps.any fun o => waitsForServer o && decide (classifyServerOp o = some c)) = true := by
  decide +kernel

/-- The served post edges are edges of the router's wait-for relation (C07), poster → server. -/
theorem serve_edges_are_wait_edges : ∀ e ∈ serveEdges, e ∈ routerEdges := by
  have h : serveEdges.all (fun e => routerEdges.contains e) = true := by decide +kernel
  intro e he
  simpa using forall_of_all h e he

/-! ### One closer per realm (audit (d)5) -/

/-- `realm.closed` is assigned in one place in the whole tree, `realm.closed = true` in `realm.close`
    (table (k)); `realm.close` begins `Lock; defer Unlock; if closed { return }; closed = true`, releases
    the lock nowhere but in that deferred call, and every statement that waits for a role or stops a
    server comes after the assignment. Two goroutines in `realm.close` (Router.Close in the router
    goroutine, RemoveRealm outside it) are serialised by the lock and the second returns at the test:
    the shutdown system's single closer is the code's. `handleSession` tests the same flag under the
    same lock (`handle_session_order`). The generic statement — test-and-set under a mutex lets exactly
    one caller through, for any number of callers and every interleaving — is
    `single_closer_generic` (Nexus/L3/WpL3Mutex.lean). -/
theorem single_closer :
    ((fieldAssigns.filter fun a => Nat.beq a.field (key! "realm.closed")).map fun a => (a.fn, a.rhs, a.gctx)) =
      [(key! "router.realm.close", key! "true", GCtx.body)] ∧
    order_realm_close.take 6 =
      [key! "realm.closeLock.Lock()", key! "defer realm.closeLock.Unlock()", key! "if realm.closed {",
       key! "return", key! "}", key! "realm.closed = true"] ∧
    ((syncOps.filter fun s => Nat.beq s.fn (key! "router.realm.close") && decide (s.kind = .unlock)).length = 1) ∧
    (∀ s ∈ (order_realm_close.drop 1).take 5, ∀ is, lookup s stmtInstr = some is → is = [.skip]) ∧
    (key! "return") ∉ order_realm_close.drop 6 := by
  refine ⟨by decide +kernel, by decide +kernel, by decide +kernel, ?_, by decide +kernel⟩
  have h : ((order_realm_close.drop 1).take 5).all (fun s =>
      match lookup s stmtInstr with | some is => decide (is = [.skip]) | none => true) = true := by
    decide +kernel
  intro s hs is his
  have := forall_of_all h s hs
  rw [his] at this
  exact of_decide_eq_true this

/-- Any number of goroutines running `Lock; if flag { return }; flag = true; …; Unlock`: at most one
    gets past the test, and once the flag is set every later caller leaves at the test. -/
theorem single_closer_generic {s : WpL3.Mutex.St} (h : WpL3.Mutex.Reach s) :
    s.passed.length ≤ 1 ∧ (s.flag = true → ∀ i, s.pc i ≠ .willSet) :=
  ⟨WpL3.Mutex.single_pass h, WpL3.Mutex.later_callers_bail h⟩

end Nexus.C06
