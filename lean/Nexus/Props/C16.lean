/-
  C16 — "Client calls return their own reply, once, and honour cancellation"

  Each blocking client operation (Subscribe, Unsubscribe, Register, Unregister, acknowledged
  Publish, Call, CallProgressive) issued from any number of goroutines returns the router's reply
  to its own request and no other, or an error when the reply does not come within the response
  timeout or the connection ends. Call delivers progressive results to the progress handler in
  order and never after Call has returned, and when its context is cancelled or expires it sends
  CANCEL with the configured mode and returns the context's error. An invocation handler runs once
  per invocation (progressive chunks in order to the same run), sees its context cancelled on
  INTERRUPT or timeout, and answers with exactly one YIELD or ERROR carrying the invocation's id;
  event handlers run one at a time in arrival order.

  The theorems are about the transition systems `Nexus.Client.R` (reply rendezvous, receive loop,
  Close) and `Nexus.Client.I` (invocation workers): every interleaving of the client's goroutines
  is an event sequence of these systems, so "for every reachable state" is "for every schedule".
  The systems are instantiated with facts regenerated from client/*.go (`Nexus.Gen.Client`).

  clause                                               theorem
  ---------------------------------------------------  ---------------------------------------------
  reply to its own request and no other                correlation, facts_reconciled, config_today
  request ids unique per session (IDGen)               ids_unique
  one reply per operation, nothing after return        reply_once
  progress results in order, none after return         progress_order_and_closure
  context end ⇒ one CANCEL, configured mode, ctx error  cancel_sends_cancel, cancel_is_sent
  one worker per new invocation id, chunks in order,   invocation_once
    duplicate / old ids ignored
  exactly one YIELD/ERROR per completed worker         one_answer
  event handlers one at a time, in arrival order       events_serial
-/
import Nexus.Client.RendezvousAll
import Nexus.Client.ProgressiveProps
import Nexus.Client.InvokeProps

namespace Nexus.C16
open Nexus.Client Nexus.Gen

/-! ## what the model takes from the source, re-checked on every run -/

/-- The facts about client.go the hand-written model relies on: the reply channel is unbuffered and
    comes with a `gone` channel; `runSignalReply` selects on (send, gone, c.Done()); the three
    selects of the wait functions; each wait function ends in one `doneWaiting`, which deletes the
    `awaitingReply` entry and then closes `gone`; the CANCEL mode is `c.cancelMode`; the invocation
    queue and result channel have capacity 1; the IsNewRecvID gate guards worker creation; a
    repeat after an invocation's final message is dropped; the enqueue select has its two escapes;
    only `Close()` closes the peer. -/
theorem facts_reconciled :
    Client.replyChanCap = 0 ∧ Client.replyWaiterHasGone = true ∧
    Client.signalSelect = ["send w.ch", "recv w.gone", "recv c.Done()"] ∧
    Client.waitForReplySelects = ["recv wait | recv timer.C | recv c.Done()"] ∧
    Client.waitForReplyWithCancelSelects =
      ["recv wait | recv ctx.Done() | recv c.Done()", "recv wait | recv timer.C"] ∧
    Client.waitForReplyDoneWaitingCalls = 1 ∧ Client.waitForReplyWithCancelDoneWaitingCalls = 1 ∧
    Client.doneWaitingDeletes = 1 ∧ Client.doneWaitingClosesGone = 1 ∧ Client.doneWaitingDeleteFirst = true ∧
    Client.waitForReplyDeletes = 0 ∧ Client.waitForReplyWithCancelDeletes = 0 ∧
    Client.cancelModeExprs = ["c.cancelMode"] ∧
    Client.invQueueCap = 1 ∧ Client.resChanCap = 1 ∧ Client.invGateChecked = true ∧
    Client.invFinalGate = true ∧ Client.invFinalSet = true ∧ Client.invFinalCleared = true ∧
    Client.enqueueSelect = ["send handlerQueue", "recv ctx.Done()", "recv c.sess.RecvDone()"] ∧
    Client.sessCloseCallers = ["Close"] ∧ Client.abortSessionEndsRecv = true ∧
    Client.recvDefaultExits = false := by decide

/-- … from which the model's configuration is derived. -/
theorem config_today :
    R.cfgToday.signalEscapes = true ∧ R.cfgToday.deletesEntry = true ∧ R.cfgToday.abortClosesSend = false ∧
    ({} : I.Cfg).invGate = true ∧ ({} : I.Cfg).finalGate = true ∧ ({} : I.Cfg).enqueueEscapes = true := by decide

/-- Every reply-type case of `runReceiveFromRouter` signals by the message's `Request` field. -/
theorem signals_by_request : ∀ c ∈ Client.recvSwitch, c.kind = "signal" → c.arg = "Request" := by decide

/-- … so the id a reply is signalled under is its `Request` field. -/
theorem sigId_request (m : RMsg) (id : Nat) (h : R.sigId m = some id) : m.request? = some id := by
  cases m <;>
    simp [R.sigId, R.actionOf, RMsg.typeName, Client.recvSwitch, Client.recvDefaultExits, RMsg.field?,
      RMsg.request?] at h ⊢ <;>
    exact h

/-! ## correlation -/

/-- In every reachable state of the rendezvous: a reply the loop is about to hand to waiter `g`,
    and every message ever handed to `g`, bears `g`'s request id in its `Request` field. -/
theorem correlation (cfg : R.Cfg) (st : R.State) (hr : R.Reachable cfg st) :
    (∀ g m, st.run = .signalling g m → m.request? = some (st.ws g).req) ∧
    (∀ g m, R.Out.handed g m ∈ st.out → m.request? = some (st.ws g).req) := by
  have hi := R.allInv_reachable cfg st hr
  constructor
  · intro g m h; exact sigId_request m _ (hi.corr.2 g m h).1
  · intro g m h; exact sigId_request m _ (hi.handedCorr _ h g m rfl).1

/-- Request ids are unique per session as long as fewer than 2^53 were drawn (IDGen wraps then). -/
theorem ids_unique (cfg : R.Cfg) (st : R.State) (hr : R.Reachable cfg st) (hb : st.drawn < 2 ^ 53)
    (g g' : Nat) (h0 : (st.ws g).req ≠ 0) (he : (st.ws g).req = (st.ws g').req) : g = g' :=
  ((R.allInv_reachable cfg st hr).ids hb).2.2.2 g g' h0 he

/-- Non-vacuity: a reachable state in which the loop is handing SUBSCRIBED(1) to the waiter that drew id 1. -/
example : (R.steps {} {} [.apiStart 1 .subscribe "t" false, .inject (.subscribed 1 5), .runRecv]).map
    (fun st => (match st.run with | .signalling 1 (.subscribed 1 5) => true | _ => false) && (st.ws 1).req == 1) =
    some true := by decide

/-! ## reply_once -/

/-- An API call returns at most once; nothing is handed to its waiter and its progress handler is
    not called after it returned; every operation but Call takes at most one message. -/
theorem reply_once (cfg : R.Cfg) (st : R.State) (hr : R.Reachable cfg st) :
    (∀ g, List.countP (R.isRet g) st.out ≤ 1) ∧
    R.quietAfterRet st.out ∧
    (∀ g, (st.ws g).op ≠ .call → List.countP (R.isHanded g) st.out ≤ 1) := by
  have hi := R.allInv_reachable cfg st hr
  refine ⟨?_, hi.ret.2, fun g hg => (hi.hand g hg).1⟩
  intro g; rw [hi.ret.1 g]; split <;> omega

/-! ## progress_order_and_closure -/

/-- The progressive results the progress handler of Call `g` saw are, in order, a subsequence of
    those handed to the call's waiter; and (`quietAfterRet`) none after Call returned. -/
theorem progress_order_and_closure (cfg : R.Cfg) (st : R.State) (hr : R.Reachable cfg st) (g : Nat) :
    (R.progressMsgs g st.out).Sublist (R.handedMsgs g st.out) ∧ R.quietAfterRet st.out := by
  have hi := R.allInv_reachable cfg st hr
  refine ⟨?_, hi.ret.2⟩
  exact (List.sublist_append_right _ _).trans (hi.prog g)

/-! ## cancel_sends_cancel -/

/-- Every CANCEL carries the configured mode; a call has exactly one CANCEL in the log if it took
    the ctx.Done branch and none otherwise; once it took that branch it can only return the
    context's error (or ErrReplyTimeout when the router does not answer the CANCEL). -/
theorem cancel_sends_cancel (cfg : R.Cfg) (st : R.State) (hr : R.Reachable cfg st) (hb : st.drawn < 2 ^ 53) :
    (∀ p ∈ R.cancelsOf st.out, p.2 = cfg.cancelMode) ∧
    (∀ g, (st.ws g).req ≠ 0 →
      List.countP (R.isCancelFor (st.ws g).req) st.out = if (st.ws g).cancelled then 1 else 0) ∧
    (∀ g r, (st.ws g).cancelled = true → (st.ws g).phase = .returned r →
      ∃ k, (st.ws g).ctx = some k ∧ (r = .ctx k ∨ r = .timeout)) := by
  have hi := R.allInv_reachable cfg st hr
  refine ⟨fun p hp => (hi.cancelMode hb p hp).1, hi.cancelCount hb, ?_⟩
  intro g r hc hp
  have hw := (hi.state.2.2.2 g).2.2
  rw [hp] at hw
  obtain ⟨k, hk, ho⟩ := hw hc
  refine ⟨k, hk, ?_⟩
  cases r <;> simp [R.Ret.cancelOutcome] at ho ⊢
  exact ho.symm ▸ rfl

/-- … and the ctx.Done branch is enabled as soon as the context of a waiting Call has ended: the
    step exists and sends CANCEL with the call's id and the configured mode. -/
theorem cancel_is_sent (cfg : R.Cfg) (st : R.State) (g : Nat) (k : R.CtxKind)
    (hc : st.crashed = none) (hsc : st.sendClosed = false)
    (hop : (st.ws g).op = .call) (hph : (st.ws g).phase = .waiting) (hctx : (st.ws g).ctx = some k) :
    ∃ st', R.step cfg st (.noticeCtx g) = some st' ∧
      st'.out = .send (.cancel (st.ws g).req cfg.cancelMode) :: st.out ∧
      (st'.ws g).phase = .cancelWaiting k ∧ (st'.ws g).cancelled = true := by
  refine ⟨(st.sendR (.cancel (st.ws g).req cfg.cancelMode)).setW g
      { st.ws g with phase := .cancelWaiting k, cancelled := true, deadline := st.now + cfg.timeout }, ?_, ?_, ?_, ?_⟩
  · simp [R.step, R.stepCore, hc, hsc, hop, hph, hctx]
  all_goals simp

/-- Non-vacuity: a reachable state with a cancelled Call and its one CANCEL (default mode). -/
example : (R.steps {} {} [.apiStart 1 .call "p" false, .apiWait 1, .ctxEnd 1 .canceled, .noticeCtx 1]).map
    (fun st => (st.ws 1).cancelled && R.cancelsOf st.out == [(1, Client.defaultCancelMode)]) = some true := by
  decide

/-! ## invocation_once -/

/-- (a) at most one live worker per (registration, request); (b) a worker is only started for an
    INVOCATION whose id `IsNewRecvID` accepts (the gate is in the source: `invGateChecked`) and
    that has no live worker; (c) a duplicate / old id without live worker changes nothing;
    (d) everything a worker's handler is given carries that worker's (registration, request);
    the queue between them is FIFO (`I.innerTake_takes_head`, `I.enqueue_appends`). -/
theorem invocation_once (cfg : I.Cfg) (st : I.State) (hr : I.Reachable cfg st) :
    (∀ w w', (st.ws w).live = true → (st.ws w').live = true →
       (st.ws w).reg = (st.ws w').reg → (st.ws w).req = (st.ws w').req → w = w') ∧
    (∀ ev st', I.step cfg st ev = some st' → st'.n ≠ st.n →
       ∃ i hasH, ev = .recvInvocation i hasH ∧ hasH = true ∧ st'.n = st.n + 1 ∧
         I.findLive st i.reg i.req st.n = none ∧
         (cfg.invGate = true → isNewRecvID st.lastRecv (UInt64.ofNat i.req) = true)) ∧
    (∀ i, cfg.invGate = true → isNewRecvID st.lastRecv (UInt64.ofNat i.req) = false →
       I.findLive st i.reg i.req st.n = none → I.accept cfg st i = st.emit (.ignored i.req)) ∧
    (∀ i w, cfg.finalGate = true → I.findLive st i.reg i.req st.n = some w → (st.ws w).final = true →
       I.accept cfg st i = st.emit (.repeated i.req)) ∧
    (∀ w, ∀ i ∈ (st.ws w).handled, i.req = (st.ws w).req ∧ i.reg = (st.ws w).reg) := by
  have hi := I.allInv_reachable cfg st hr
  exact ⟨hi.live.2, fun ev st' h hn => I.worker_created_only_when_new cfg st ev st' h hn,
    fun i hg ho hn => I.stale_invocation_ignored cfg st i hg ho hn,
    fun i w hg hl hf => I.repeated_final_dropped cfg st i w hg hl hf, hi.matching.2.1⟩

/-- "progressive chunks in order to the same run", at the level of the whole history: for every worker
    (one handler run per invocation id, `invocation_once`), the sequence of INVOCATION messages its
    handler has been given is a prefix of the sequence accepted from the router for that worker, in
    the same order; while the worker is live the messages not yet given are exactly its queue, in
    order; everything given carries the worker's (registration, request). -/
theorem chunks_in_order (cfg : I.Cfg) (st : I.State) (hr : I.Reachable cfg st) (w : Nat) :
    (st.ws w).handled.reverse <+: (st.ws w).accepted.reverse ∧
    ((st.ws w).live = true → (st.ws w).accepted.reverse = (st.ws w).handled.reverse ++ (st.ws w).queue) ∧
    (∀ i ∈ (st.ws w).handled, i.req = (st.ws w).req ∧ i.reg = (st.ws w).reg) := by
  have hi := I.allInv_reachable cfg st hr
  obtain ⟨rest, hrest⟩ := hi.prefix_.2.1 w
  refine ⟨⟨rest.reverse, by rw [hrest, List.reverse_append]⟩, fun hl => ?_, hi.matching.2.1 w⟩
  rw [hi.prefix_.1 w hl, List.reverse_append, List.reverse_reverse]

/-- Non-vacuity: three chunks accepted, two given to the handler so far, the third waiting. -/
example : ((I.steps {} {} [.recvInvocation { req := 7, reg := 3, details := [(N.OptProgress, .bool true)], args := [.int 1] } true,
      .innerTake 0, .recvInvocation { req := 7, reg := 3, details := [(N.OptProgress, .bool true)], args := [.int 2] } true,
      .handlerReturn 0 { err := N.InternalProgressiveOmitResult } false, .innerTake 0,
      .recvInvocation { req := 7, reg := 3, args := [.int 3] } true]).map
    (fun st => ((st.ws 0).accepted.length, (st.ws 0).handled.length, (st.ws 0).queue.length))) = some (3, 2, 1) := by
  decide

/-- Today the gate is in place. -/
theorem gate_in_place : ({} : I.Cfg).invGate = true := by decide

/-! ## one_answer -/

/-- Worker `w` has exactly one answer in the log if its outer goroutine ended by answering, none
    otherwise; an answer is a final YIELD or an ERROR of type INVOCATION with the worker's id. -/
theorem one_answer (cfg : I.Cfg) (st : I.State) (hr : I.Reachable cfg st) :
    (∀ w, List.countP (I.isAnswer w) st.out = if (st.ws w).outer.answered then 1 else 0) ∧
    (∀ w m, I.Out.answer w m ∈ st.out → I.answerFor (st.ws w).req m = true) := by
  have hi := I.allInv_reachable cfg st hr
  exact ⟨hi.answer, fun w m h => (hi.shape _ h w m rfl).2⟩

/-- Non-vacuity: a worker that ran its handler and answered once. -/
example : (I.steps {} {} [.recvInvocation { req := 7, reg := 3 } true, .innerTake 0, .handlerReturn 0 {} false,
    .outerTake 0, .outerAnswer 0 false]).map
    (fun st => (st.ws 0).outer.answered && List.countP (I.isAnswer 0) st.out == 1) = some true := by decide

/-! ## SendProgress (callee side) -/

/-- A handler's `SendProgress` sends a YIELD with the invocation's own request id and
    `progress: true`, only for an invocation whose caller asked for progressive results and whose
    gate is still there (regenerated: the `progGate` lookup, the `progress: true` literal, the select
    of the send); otherwise it is refused and nothing is sent. Progressive YIELDs are not answers
    (`one_answer` counts the final YIELD / ERROR). -/
theorem send_progress (cfg : I.Cfg) (st : I.State) (hr : I.Reachable cfg st) :
    (Client.sendProgressGateChecked = true ∧ Client.sendProgressMarksProgress = true ∧
      Client.sendProgressSelect = ["send c.sess.Send()", "recv ctx.Done()"]) ∧
    (∀ w, (st.ws w).spArmed = true → (st.ws w).progOK = true ∧ w < st.n) ∧
    (∀ w st', I.step cfg st (.spSend w) = some st' →
      st'.out = .progressSent w :: .send (.yield (st.ws w).req true) :: st.out) ∧
    (∀ w st', ((st.ws w).progOK && st.progGate (st.ws w).req) = false →
      I.step cfg st (.spCheck w) = some st' → st' = st.emit (.progressRefused w)) :=
  ⟨by decide, (I.allInv_reachable cfg st hr).sp, fun w st' h => I.spSend_sends cfg st st' w h,
   fun w st' hg h => I.spCheck_refuses cfg st st' w hg h⟩

/-- Observation (a race, not covered by the property's sentence): a handler that ignores its
    cancelled context and is inside `SendProgress` when the worker answers the INTERRUPT can still
    send its progressive YIELD after the invocation's ERROR (both cases of the select are ready). -/
theorem send_progress_after_answer_possible :
    (I.steps {} {} I.progressAfterAnswer).map (fun st => st.out.filterMap fun o => match o with | .send m => some m | _ => none) =
      some [.yield 7 true, .error I.tINVOCATION 7 N.ErrCanceled] := I.progress_after_answer_possible

/-! ## events_serial -/

/-- Event handlers run one at a time (starts and ends alternate; one is open exactly while the
    loop is inside it), for EVENTs in the order the loop took them from the transport, which is
    the order the router sent them (the transport is FIFO). -/
theorem events_serial (cfg : R.Cfg) (st : R.State) (hr : R.Reachable cfg st) :
    R.wellNested st.out = true ∧ R.evOpen st.out = st.run.isInEvent ∧
    (R.startedEvents st.out).Sublist (R.recvEvents st.out) ∧
    (R.recvLog st.out).reverse ++ st.inbox.filterMap id = st.arrived.reverse := by
  have hi := R.allInv_reachable cfg st hr
  exact ⟨hi.events.2.1, hi.events.1, hi.events.2.2, hi.fifo⟩

/-! ## CallProgressive -/

/-- `CallProgressive` is `Call` with `sendProg` in front and one more goroutine (regenerated skeletons of
    the two API functions: the same calls, channel operations and go statements in the same order):
    its API goroutine is the waiter of `Nexus.Client.R`, so `correlation`, `reply_once`,
    `progress_order_and_closure` and `cancel_sends_cancel` speak about it as they do about `Call`. -/
theorem callProgressive_is_call_plus_sender :
    Client.callProgressiveSkeleton.filter (fun s => s != "sendProg" && s != "go") =
      Client.callSkeleton.filter (· != "go") ∧
    Client.callSkeleton.count "go" = 1 ∧ Client.callProgressiveSkeleton.count "go" = 2 ∧
    Client.callProgressiveSkeleton.take 2 = ["c.Connected", "sendProg"] ∧
    Client.progSenderOps = ["sendProg", "send c.sess.Send() wamp.Cancel", "return", "c.prepareCallPayloadMessage",
      "send c.sess.Send() wamp.Cancel", "return", "send c.sess.Send() message"] ∧
    ({} : P.Cfg).bare = true := by decide

/-- `Call` and `CallProgressive` wait for the progress-handler goroutine unconditionally (regenerated
    skeletons): `close progChan` is followed at once by a plain receive from `progDone`, after
    `waitForReplyWithCancel` and before the result is prepared. A receive that is merely one
    alternative of a `select` is labelled `select-recv` by the extractor, and there is none for
    `progDone`. This is the step `closing → returned` of the model `R`, which is taken only on
    `progDone` ("never after Call has returned"). -/
theorem progress_handler_joined :
    (Client.callSkeleton.dropWhile (· != "c.waitForReplyWithCancel")).take 4 =
      ["c.waitForReplyWithCancel", "close progChan", "recv progDone", "c.prepareCallResultMessage"] ∧
    (Client.callProgressiveSkeleton.dropWhile (· != "c.waitForReplyWithCancel")).take 4 =
      ["c.waitForReplyWithCancel", "close progChan", "recv progDone", "c.prepareCallResultMessage"] ∧
    Client.callSkeleton.count "recv progDone" = 1 ∧ Client.callProgressiveSkeleton.count "recv progDone" = 1 ∧
    "select-recv progDone" ∉ Client.callSkeleton ∧ "select-recv progDone" ∉ Client.callProgressiveSkeleton := by
  decide

/-- The waiter's side of every run of waiter + sender is a run of `R` (so the `R` theorems apply to
    it under every interleaving with the sender). -/
theorem callProgressive_waiter (cfg : RP.Cfg) (st : RP.State) (hr : RP.Reachable cfg st) :
    R.Reachable cfg.r st.r := RP.r_reachable cfg st hr

/-- What the sender goroutine of call `g` sends, in every reachable state: chunks with
    `progress: true`, then — exactly when it has exited — one final chunk or one CANCEL; never
    anything after that; all with the call's request id and procedure. -/
theorem sender_sends_shape (cfg : RP.Cfg) (st : RP.State) (hr : RP.Reachable cfg st) (g : Nat) :
    P.Shape cfg.pc st.p g := RP.sender_shape cfg st hr g

/-- Every CANCEL sent for a call, by the waiter and by the sender goroutine, carries the configured
    mode (regenerated: the mode expression of every `wamp.Cancel` literal in `waitForReplyWithCancel`
    and in the sender goroutine is `c.cancelMode`; fix 4f8171f). -/
theorem cancel_modes (cfg : RP.Cfg) (st : RP.State) (hr : RP.Reachable cfg st) (hb : st.r.drawn < 2 ^ 53)
    (hp : cfg.p.usesConfigured = true) :
    (∀ q ∈ R.cancelsOf st.r.out, q.2 = cfg.r.cancelMode) ∧
    (∀ q ∈ P.cancelsOf st.p.out, q.2 = cfg.r.cancelMode) := by
  refine ⟨(cancel_sends_cancel cfg.r st.r (RP.r_reachable cfg st hr) hb).1, fun q hq => ?_⟩
  have := RP.sender_cancel_mode cfg st hr q hq
  simpa [RP.Cfg.pc, P.Cfg.senderCancelMode, hp] using this

/-- Full strength, for today's code and ANY configured mode: in every run of waiter + sender, every
    CANCEL carries the configured mode. A run may still contain TWO CANCELs for one request — when the
    caller's context ends while a `sendProg` that honours it is waiting, the waiter sends one and the
    sender goroutine another (`RP.doubleCancel`) — both with the configured mode. -/
theorem cancel_configured_mode (mode : String) (evs : List RP.Ev) (st : RP.State)
    (h : RP.steps { r := { cancelMode := mode } } {} evs = some st) (hb : st.r.drawn < 2 ^ 53) :
    (∀ q ∈ R.cancelsOf st.r.out, q.2 = mode) ∧ (∀ q ∈ P.cancelsOf st.p.out, q.2 = mode) :=
  cancel_modes { r := { cancelMode := mode } } st ⟨evs, h⟩ hb P.sender_uses_configured_today

/-- The two CANCELs of `RP.doubleCancel` under mode "kill": both say "kill" (regression witness of
    fix 4f8171f) … -/
theorem double_cancel_same_mode :
    (RP.steps { r := { cancelMode := "kill" } } {} RP.doubleCancel).map
      (fun st => (R.cancelsOf st.r.out, P.cancelsOf st.p.out)) = some ([(1, "kill")], [(1, "kill")]) := by decide

/-- … whereas with the hard-coded mode of before the fix the sender's said "killnowait". -/
theorem double_cancel_old_code_mixed_modes :
    (RP.steps { r := { cancelMode := "kill" }, p := { usesConfigured := false } } {} RP.doubleCancel).map
      (fun st => (R.cancelsOf st.r.out, P.cancelsOf st.p.out)) = some ([(1, "kill")], [(1, "killnowait")]) := by decide

/-- Options that leave `progress` unset (allowed by the documentation of `SendProgressiveData`) mean
    the last chunk (comma-ok assertion, fix 42310e3): the sender sends it with `progress: false` and
    exits … -/
theorem unset_progress_is_last_chunk :
    (RP.steps {} {} RP.unsetProgress).map (fun st => (P.sendsOf 1 st.p.out, (st.p.ss 1).phase, st.p.crashed)) =
      some ([.callChunk 1 "p" false true, .callChunk 1 "p" false false], .exited, none) := by decide

/-- … whereas the bare assertion of before the fix panicked the sender goroutine. -/
theorem unset_progress_old_code_panics :
    (RP.steps { p := { progressCommaOk := false } } {} RP.unsetProgress.dropLast).map (fun st => st.p.crashed) =
      some (some P.noFlagSite) := by decide

/-- The sender watches neither the call's return nor Done (finding candidate, leak): after the call
    has returned it goes on pulling chunks and sending CALLs for the finished request … -/
theorem sender_outlives_call :
    (RP.steps {} {} RP.senderOutlivesCall).map (fun st =>
      (match (st.r.ws 1).phase with | .returned _ => true | _ => false) &&
      P.sendsOf 1 st.p.out == [.callChunk 1 "p" false true]) = some true := by decide

/-- … and after `Close()` its next send panics (one more instance of open finding F43). -/
theorem sender_after_close_panics :
    (RP.steps {} {} RP.senderAfterClose).map (fun st => (st.r.close, st.p.crashed)) =
      some (.returned, some "send on closed channel") := by decide

/-- "issued from any number of goroutines": every goroutine entering the client API, and the dealer
    for invocation ids, draws from `Session.IDGen`; `ids_unique` speaks of one sequential generator, so
    the field must be the mutex-protected `SyncIDGen`, whose `Next` is lock; defer unlock; the
    sequential `IDGen.Next` (facts regenerated from wamp/session.go and wamp/idgen.go). -/
theorem idgen_is_synchronised :
    Nexus.Gen.sessionIDGenType = "SyncIDGen" ∧
    Nexus.Gen.syncIDGenNext = ["g.lock.Lock()", "defer g.lock.Unlock()", "return g.IDGen.Next()"] := by
  decide

end Nexus.C16
