/-
  C02 — Every routed CALL gets exactly one final RESULT or ERROR.

  Property text.  "For every CALL from a caller that stays attached and keeps reading, the caller
  receives at most one final reply (a RESULT without the progress flag or an ERROR of type CALL)
  bearing that call's request id, preceded only by progressive RESULTs of that same call and followed
  by nothing more for that request; it never receives a reply for a request id it did not issue.  It
  receives exactly one final reply as soon as the call cannot be routed, or the callee has answered
  finally, or the callee's session has ended, or the caller cancelled it in skip or killnowait mode,
  or its router-handled timeout expired with no kill-mode cancel outstanding - whatever the callee
  and bystanders do (duplicate, late, foreign, malformed or missing answers)."

  All theorems are about the dealer model `Nexus.L2.Dealer` (tied to router/dealer.go by the `l2`
  correspondence family), for EVERY state satisfying `DealerInv` (hence every reachable state:
  `Reachable.inv`), EVERY environment `DEnv` (session table, queue-full predicate, time) and every
  argument.  A *step* (`DStep s o`) is one atomic action of the dealer goroutine: any `sync*` function
  with any arguments, or timers leaving the timer table.

  Vocabulary (Nexus/L2/Proofs/DealerReply.lean).  A call id is `c = (caller session, request)`.
  `x.replyTo = some c`  — the queued message `x` is a RESULT or an ERROR of type CALL, addressed to
                          session `c.sess`, bearing request id `c.req`;
  `isFinalReply`        — RESULT whose details do not have `progress: true`, or ERROR(CALL);
  `repliesFor c sends`, `finalsFor c sends`, `progsFor c sends` — the replies / final / progressive
                          replies to `c` among the messages a step sends (in order);
  `IsCallStep s o c`    — the step is `syncCall` for the CALL message (first or later chunk) with id `c`;
  `Run s tr s'`         — a sequence of consecutive steps from `s` to `s'`; `tr` lists (state before, output).

  clause                                                            theorem
  ----------------------------------------------------------------  -----------------------------------
  a final reply is emitted only in a step that removes the call     C02_final_removes_call
    (calls, invocationByCall, invocations), one per step
  at most one final; nothing more for that request afterwards       C02_at_most_one_final (one step),
                                                                    C02_nothing_after_final (any run until
                                                                    the next CALL with that id)
  preceded only by progressive RESULTs of that same call            C02_progress_only_before_final
  never a reply for a request id it did not issue                   C02_no_foreign_reply
  exactly one final reply as soon as the call cannot be routed      C02_unroutable_nomatch, C02_unroutable_refused,
                                                                    C02_unroutable_callee_full,
                                                                    C02_later_chunk_callee_full
  … the callee has answered finally                                 C02_callee_final_yield (+ _payload),
                                                                    C02_callee_final_error
  … the callee's session has ended (also after a kill-mode cancel)  C02_callee_gone
  … the caller cancelled in skip or killnowait mode                 C02_cancel_skip_killnowait
  … router-handled timeout expired, no kill-mode cancel outstanding C02_timeout
  caller not reading (queue full): what happens instead             C02_full_retry, C02_full_giveup,
                                                                    C02_full_dropped_at_realm

  END TO END (realm level, queues): how the realm hands the dealer's messages to the sessions' queues
  (`Realm.applyD` / `Realm.deliver`; `dqueueOf r k` = the router→client queue of k, `dmsgsTo k sends` = the
  messages of `sends` addressed to k, `qReplies req ms` = the replies to request `req` among `ms`).
  dealer `sends` are delivered in order; a full queue drops that       C02_realm_delivery
    message only; meta INVOCATIONs → `metaInvoke` tasks, aborts →
    `leave … aborted` tasks
  the handlers are `applyD` of the `sync*` functions                   C02_realm_handlers
  callee's session ends (`Realm.leave`, not a shutdown): one ERROR     C02_realm_callee_gone
    canceled appended to the caller's queue
  call timer fires in `Realm.advance`: one ERROR timeout appended      C02_realm_timeout
  … never in a tick that ends before the deadline                      C02_realm_timeout_not_before

  the whole episode of a call incl. later chunks: progress* final?     C02_episode, C02_episode_from_call,
    and nothing after the final until a NEW call re-uses the id          C02_nothing_after_final_chunks
  every pending call goes back to a CALL step of its caller            C02_pending_was_called
  a CALL the Authorizer refuses is answered by the handler, the        C02_realm_call_denied
    dealer never sees it
  … so a refused LATER CHUNK of a pending progressive call gives the   C02_realm_one_final_full (def),
    caller an ERROR while the call lives on: TWO final replies for       C02_realm_one_final_full_fails
    one request id at realm level (finding; not a dealer step)

  "keeps reading" is the hypothesis `env.full caller = false` where a RESULT is to be delivered by
  `syncYield` (the only place where the dealer itself looks at the caller's queue).  ERROR replies are
  handed to the realm's `trySend`, which drops a message for a full queue (`C02_full_dropped_at_realm`).

  History.  Two clauses were FALSE of the model and of the router when first stated; both were
  confirmed on the real router, fixed in /repo and the model updated (so they hold now):
  * a later chunk of a pending progressive call whose procedure no longer resolved was answered
    ERROR no_such_procedure while the call stayed pending → second final reply later
    (fixes 63465ac, 0365a6a: a later chunk is now routed to the stored callee without matching its URI again,
    so it can no longer be "unroutable"; if the callee's queue is full: `C02_later_chunk_callee_full`);
  * (C04) two callees under an unknown `invoke` policy string made `syncCall` panic (fix 5b7e81a).
-/
import Nexus.L2.Proofs.DealerReply
import Nexus.L2.Proofs.DealerExamples
import Nexus.L2.Proofs.DealerRealmRpc
import Nexus.L2.Proofs.DealerOrder
import Nexus.L2.Proofs.RealmAuthz
import Nexus.L2.Proofs.RealmKeys

namespace Nexus.C02
open Nexus.L2 Nexus.Gen.N Nexus

/-! ### safety -/

/-- Whenever a step emits a final reply for `c`, it emits exactly one reply for `c` and `c` is removed
    from `calls`, `invocationByCall` and `invocations` in the same step. -/
theorem C02_final_removes_call {s : DState} {o : DOut} (h : DealerInv s) (st : DStep s o) (c : ReqId)
    (hf : finalsFor c o.sends ≠ []) :
    (repliesFor c o.sends).length = 1 ∧ c ∉ o.st.d.calls ∧ o.st.d.byCall? c = none ∧
      ∀ v ∈ o.st.d.invs, v.callId ≠ c := by
  have hr := st.replyOK h c
  have hinv := st.inv h
  have hc := hr.final hf
  have hne : repliesFor c o.sends ≠ [] := by
    intro he; apply hf; simp [finalsFor, he]
  refine ⟨?_, hc, hinv.call.byCall?_none hc, fun v hv he => hc (he ▸ (hinv.call.inv_call hv).1)⟩
  have := hr.one
  have : (repliesFor c o.sends).length ≠ 0 := fun h0 => hne (List.length_eq_zero_iff.1 h0)
  omega

example : finalsFor ⟨2, 5⟩ (syncYield Ex.env Ex.sCall 1 1 [] [.int 8] [] false true).sends ≠ [] := by decide +kernel

/-- A final reply for `c` is only ever emitted in a step that starts with `c` pending (or is the CALL
    for `c` itself, which then is not recorded) and ends with `c` not pending; a step emits at most one
    reply for `c`. -/
theorem C02_at_most_one_final {s : DState} {o : DOut} (h : DealerInv s) (st : DStep s o) (c : ReqId) :
    (repliesFor c o.sends).length ≤ 1 ∧
      (finalsFor c o.sends ≠ [] → (c ∈ s.d.calls ∨ IsCallStep s o c) ∧ c ∉ o.st.d.calls) := by
  have hr := st.replyOK h c
  refine ⟨hr.one, fun hf => ⟨hr.known ?_, hr.final hf⟩⟩
  intro he; apply hf; simp [finalsFor, he]

/-- Once `c` is not pending (in particular right after its final reply, `C02_final_removes_call`),
    nothing more is sent for that request, whatever callers, callees and bystanders do, until the
    caller issues a new CALL with that id. -/
theorem C02_nothing_after_final {s s' : DState} {tr : List (DState × DOut)} (c : ReqId) (run : Run s tr s') :
    DealerInv s → c ∉ s.d.calls → (∀ p ∈ tr, ¬ IsCallStep p.1 p.2 c) →
    (∀ p ∈ tr, repliesFor c p.2.sends = []) ∧ c ∉ s'.d.calls ∧ DealerInv s' := by
  induction run with
  | nil s => intro h hc _; exact ⟨by simp, hc, h⟩
  | @cons s o tr s' st _ ih =>
    intro h hc hno
    have hno0 := hno (s, o) (List.mem_cons_self ..)
    have hc' : c ∉ o.st.d.calls := fun hx => (st.calls_sub h c hx).elim hc hno0
    obtain ⟨h1, h2, h3⟩ := ih (st.inv h) hc' (fun p hp => hno p (List.mem_cons_of_mem _ hp))
    refine ⟨?_, h2, h3⟩
    intro p hp
    rcases List.mem_cons.1 hp with rfl | hp
    · cases hr : repliesFor c o.sends with
      | nil => rfl
      | cons x xs =>
        exact absurd ((st.replyOK h c).known (by simp [hr])) (fun hx => hx.elim hc hno0)
    · exact h1 p hp

/-- … the same with later chunks allowed: once `c` is not pending nothing is sent for that request as long as no NEW
    call with that id is made (a CALL step for `c` in a state where `c` is not pending). -/
theorem C02_nothing_after_final_chunks {s s' : DState} {tr : List (DState × DOut)} (c : ReqId) (run : Run s tr s') :
    DealerInv s → c ∉ s.d.calls → (∀ p ∈ tr, IsCallStep p.1 p.2 c → c ∈ p.1.d.calls) →
    (∀ p ∈ tr, repliesFor c p.2.sends = []) ∧ c ∉ s'.d.calls ∧ DealerInv s' := by
  induction run with
  | nil s => intro h hc _; exact ⟨by simp, hc, h⟩
  | @cons s o tr s' st _ ih =>
    intro h hc hno
    have hno0 : ¬ IsCallStep s o c := fun hx => hc (hno (s, o) (List.mem_cons_self ..) hx)
    have hc' : c ∉ o.st.d.calls := fun hx => (st.calls_sub h c hx).elim hc hno0
    obtain ⟨h1, h2, h3⟩ := ih (st.inv h) hc' (fun p hp => hno p (List.mem_cons_of_mem _ hp))
    refine ⟨?_, h2, h3⟩
    intro p hp
    rcases List.mem_cons.1 hp with rfl | hp
    · cases hr : repliesFor c o.sends with
      | nil => rfl
      | cons x xs =>
        exact absurd ((st.replyOK h c).known (by simp [hr])) (fun hx => hx.elim hc hno0)
    · exact h1 p hp

/-- THE EPISODE OF ONE CALL (later chunks included).  Over any run in which every CALL step carrying the id `c` is a
    later chunk of the pending call `c` (no NEW call re-uses the id), whatever the callee, the caller and bystanders
    do in between: the replies sent for `c` are a list of progressive RESULTs followed by at most one final reply,
    and with the final reply the call is gone at the end of the run.  (`C08_progress_order` is the special case
    without later chunks.) -/
theorem C02_episode {s s' : DState} {tr : List (DState × DOut)} (c : ReqId) (run : Run s tr s') :
    DealerInv s → (∀ p ∈ tr, IsCallStep p.1 p.2 c → c ∈ p.1.d.calls) →
    ∃ ps f, replyStream c tr = ps ++ f ∧ (∀ x ∈ ps, x.msg.isFinalReply = false) ∧
      (f = [] ∨ ∃ x, f = [x] ∧ x.msg.isFinalReply = true ∧ c ∉ s'.d.calls) := by
  induction run with
  | nil s => intro _ _; exact ⟨[], [], rfl, by simp, Or.inl rfl⟩
  | @cons s o tr s' st rest ih =>
    intro h hno
    have hno' : ∀ p ∈ tr, IsCallStep p.1 p.2 c → c ∈ p.1.d.calls := fun p hp => hno p (List.mem_cons_of_mem _ hp)
    have hr := st.replyOK h c
    rw [replyStream_cons]
    match hrep : repliesFor c o.sends with
    | [] =>
      obtain ⟨ps, f, h1, h2, h3⟩ := ih (st.inv h) hno'
      exact ⟨ps, f, by simpa using h1, h2, h3⟩
    | [x] =>
      cases hf : x.msg.isFinalReply with
      | true =>
        have hgone : c ∉ o.st.d.calls := hr.final (by simp [finalsFor, hrep, hf])
        obtain ⟨hnone, hc', _⟩ := C02_nothing_after_final_chunks c rest (st.inv h) hgone hno'
        have hempty : replyStream c tr = [] := by
          unfold replyStream
          rw [List.flatMap_eq_nil_iff]
          exact hnone
        exact ⟨[], [x], by simp [hempty], by simp, Or.inr ⟨x, rfl, hf, hc'⟩⟩
      | false =>
        obtain ⟨ps, f, h1, h2, h3⟩ := ih (st.inv h) hno'
        refine ⟨x :: ps, f, by simp [h1], ?_, h3⟩
        intro y hy
        rcases List.mem_cons.1 hy with rfl | hy
        · exact hf
        · exact h2 y hy
    | _ :: _ :: _ =>
      have := hr.one
      rw [hrep] at this
      simp at this

/-- … starting WITH the CALL that opens the call: the first step may be any step (in particular the first chunk of
    `c`, when `c` is not pending yet); all later CALL steps with that id must be chunks of the pending call. -/
theorem C02_episode_from_call {s s' : DState} {o : DOut} {tr : List (DState × DOut)} (c : ReqId)
    (run : Run s ((s, o) :: tr) s') (h : DealerInv s)
    (hno : ∀ p ∈ tr, IsCallStep p.1 p.2 c → c ∈ p.1.d.calls) :
    ∃ ps f, replyStream c ((s, o) :: tr) = ps ++ f ∧ (∀ x ∈ ps, x.msg.isFinalReply = false) ∧
      (f = [] ∨ ∃ x, f = [x] ∧ x.msg.isFinalReply = true ∧ c ∉ s'.d.calls) := by
  obtain ⟨_, st, rest⟩ := Run.head run
  have hr := st.replyOK h c
  rw [replyStream_cons]
  match hrep : repliesFor c o.sends with
  | [] =>
    obtain ⟨ps, f, h1, h2, h3⟩ := C02_episode c rest (st.inv h) hno
    exact ⟨ps, f, by simpa using h1, h2, h3⟩
  | [x] =>
    cases hf : x.msg.isFinalReply with
    | true =>
      have hgone : c ∉ o.st.d.calls := hr.final (by simp [finalsFor, hrep, hf])
      obtain ⟨hnone, hc', _⟩ := C02_nothing_after_final_chunks c rest (st.inv h) hgone hno
      have hempty : replyStream c tr = [] := by
        unfold replyStream
        rw [List.flatMap_eq_nil_iff]
        exact hnone
      exact ⟨[], [x], by simp [hempty], by simp, Or.inr ⟨x, rfl, hf, hc'⟩⟩
    | false =>
      obtain ⟨ps, f, h1, h2, h3⟩ := C02_episode c rest (st.inv h) hno
      refine ⟨x :: ps, f, by simp [h1], ?_, h3⟩
      intro y hy
      rcases List.mem_cons.1 hy with rfl | hy
      · exact hf
      · exact h2 y hy
  | _ :: _ :: _ =>
    have := hr.one
    rw [hrep] at this
    simp at this

/-- the hypotheses are met: the first chunk of the progressive call (2, 7) (state `Ex.sReg` → `Ex.sProg`), then a
    later chunk — a CALL step for (2, 7) in a state where it is pending -/
example : Run Ex.sReg [(Ex.sReg, syncCall Ex.env Ex.sReg 2 7 [(OptProgress, .bool true)] "p" [] [] 0),
      (Ex.sProg, syncCall Ex.env Ex.sProg 2 7 [] "p" [] [] 0)]
      (syncCall Ex.env Ex.sProg 2 7 [] "p" [] [] 0).st ∧ (⟨2, 7⟩ : ReqId) ∈ Ex.sProg.d.calls :=
  ⟨.cons (.call ..) (.cons (.call ..) (.nil _)), by decide +kernel⟩

/-- A REPLY ONLY FOR A REQUEST THAT WAS ISSUED (run form of `C02_no_foreign_reply`).  If `c` is not pending at the start
    of a run and pending at its end, the run contains a CALL step by session `c.sess` with request id `c.req` that
    found `c` not pending and recorded it.  So every pending call — and hence (`C02_no_foreign_reply`) every reply —
    goes back to a CALL message its caller has sent. -/
theorem C02_pending_was_called {s s' : DState} {tr : List (DState × DOut)} (c : ReqId) (run : Run s tr s') :
    DealerInv s → c ∉ s.d.calls → c ∈ s'.d.calls →
    ∃ p ∈ tr, IsCallStep p.1 p.2 c ∧ c ∉ p.1.d.calls ∧ c ∈ p.2.st.d.calls := by
  induction run with
  | nil s => intro _ hc hc'; exact absurd hc' hc
  | @cons s o tr s' st _ ih =>
    intro h hc hc'
    by_cases hmid : c ∈ o.st.d.calls
    · rcases st.calls_sub h c hmid with hx | hx
      · exact absurd hx hc
      · exact ⟨(s, o), List.mem_cons_self .., hx, hc, hmid⟩
    · obtain ⟨p, hp, hq⟩ := ih (st.inv h) hmid hc'
      exact ⟨p, List.mem_cons_of_mem _ hp, hq⟩

example : (⟨2, 5⟩ : ReqId) ∉ Ex.sReg.d.calls ∧ (⟨2, 5⟩ : ReqId) ∈ Ex.sCall.d.calls := by decide +kernel

/-- A progressive RESULT for `c` is emitted only while `c` is pending, and leaves it pending: progressive
    results come before the final reply only. -/
theorem C02_progress_only_before_final {s : DState} {o : DOut} (h : DealerInv s) (st : DStep s o) (c : ReqId)
    (hp : progsFor c o.sends ≠ []) : c ∈ s.d.calls ∧ c ∈ o.st.d.calls ∧ finalsFor c o.sends = [] := by
  have hr := st.replyOK h c
  obtain ⟨h1, h2⟩ := hr.prog hp
  refine ⟨h1, h2, ?_⟩
  cases hf : finalsFor c o.sends with
  | nil => rfl
  | cons x xs => exact absurd h2 (hr.final (by simp [hf]))

example : progsFor ⟨2, 5⟩ (syncYield Ex.env Ex.sCall 1 1 [] [.int 8] [] true true).sends ≠ [] := by decide +kernel

/-- RESULT / ERROR(CALL) messages go only to the session `c.sess` of a call `c` that is pending when
    the step starts (or whose CALL is being processed), with `c`'s request id: a session never gets a
    reply for a request id it did not issue. -/
theorem C02_no_foreign_reply {s : DState} {o : DOut} (h : DealerInv s) (st : DStep s o) (x : Send) (hx : x ∈ o.sends)
    (c : ReqId) (hc : x.replyTo = some c) : c ∈ s.d.calls ∨ IsCallStep s o c := by
  apply (st.replyOK h c).known
  intro he
  have : x ∈ repliesFor c o.sends := List.mem_filter.2 ⟨hx, by simp [hc]⟩
  rw [he] at this; cases this

/-! ### liveness, same step -/

/-- No registration matches (and the CALL is not a chunk of a pending call): exactly one ERROR
    no_such_procedure to the caller, nothing recorded, nothing else sent. -/
theorem C02_unroutable_nomatch {env : DEnv} {s : DState} (h : DealerInv s) (caller : SessKey) (req : Nat) (opts : Dict)
    (proc : String) (args : List WVal) (kw : Dict) (rnd : Nat) (hc : (⟨caller, req⟩ : ReqId) ∉ s.d.calls)
    (hm : s.d.matchProcedure proc = none) :
    syncCall env s caller req opts proc args kw rnd =
      { st := s, sends := [callErr ⟨caller, req⟩ [] ErrNoSuchProcedure [] []] } :=
  syncCall_nomatch caller req opts args kw rnd hm (h.call.byCall?_none hc)

example : Ex.sCall.d.matchProcedure "q" = none ∧ (⟨2, 9⟩ : ReqId) ∉ Ex.sCall.d.calls := by decide +kernel

/-- A later chunk of a pending call whose callee has no room: the call is ended with exactly one ERROR
    network_failure to the caller (the only message of the step) and removed. -/
theorem C02_later_chunk_callee_full {env : DEnv} {s : DState} (h : DealerInv s) {v : Invk} (hv : v ∈ s.d.invs)
    (opts : Dict) (proc : String) (args : List WVal) (kw : Dict) (rnd : Nat)
    (hprog : (opts.optFlag OptProgress && !hasFeat env v.callId.sess RoleCaller FeatureProgCallInvocations) = false)
    (hf : env.full v.callee = true) :
    (syncCall env s v.callId.sess v.callId.req opts proc args kw rnd).sends =
        [callErr v.callId [] ErrNetworkFailure [.str "<text>"] []] ∧
      v.callId ∉ (syncCall env s v.callId.sess v.callId.req opts proc args kw rnd).st.d.calls := by
  obtain ⟨_, hb, hfi⟩ := h.call.inv_call hv
  rw [syncCall_later proc args kw rnd hprog hb hfi]
  obtain ⟨h1, h2⟩ := laterChunk_full h opts args kw hb hfi hf
  exact ⟨h1, by rw [h2]; simp⟩

/-- The CALL is refused (callee lacks a feature the call needs, or `disclose_me` is not allowed):
    exactly one ERROR(CALL) with the refusal's URI to the caller, nothing sent to anybody else, the
    call is not recorded. -/
theorem C02_unroutable_refused {env : DEnv} {s : DState} (h : DealerInv s) {caller : SessKey} {req : Nat} {opts : Dict}
    {proc : String} (args : List WVal) (kw : Dict) {rnd : Nat} {reg reg' : Reg} {callee : SessKey} {e : String}
    (hc : (⟨caller, req⟩ : ReqId) ∉ s.d.calls) (hm : s.d.matchProcedure proc = some reg)
    (hprog : (opts.optFlag OptProgress && !hasFeat env caller RoleCaller FeatureProgCallInvocations) = false)
    (hp : pickCallee reg rnd = some (callee, reg'))
    (hr : callRefusal env s.d.allowDisclose reg caller callee opts = some (.err e)) :
    (syncCall env s caller req opts proc args kw rnd).sends = [callErr ⟨caller, req⟩ [] e [] []] ∧
      (syncCall env s caller req opts proc args kw rnd).st.d.calls = s.d.calls ∧
      (syncCall env s caller req opts proc args kw rnd).st.d.invs = s.d.invs ∧
      (syncCall env s caller req opts proc args kw rnd).st.d.byCall = s.d.byCall := by
  have hne : reg.callees.isEmpty = false := by
    have := (h.reg.regs.callees reg (matchProcedure_mem hm)).1
    cases hx : reg.callees with
    | nil => exact absurd hx this
    | cons _ _ => rfl
  rw [syncCall_first args kw hm hne hprog (h.call.byCall?_none hc) hp, firstChunk_eq, hr]
  exact ⟨rfl, rfl, rfl, rfl⟩

example : (match callRefusal Ex.env false Ex.regPlain 2 3 [(OptProgress, .bool true)] with
    | some (.err e) => e | _ => "") = ErrFeatureNotSupported := by decide +kernel

/-- The chosen callee's queue is full: exactly one ERROR network_failure to the caller, the call is not
    recorded. -/
theorem C02_unroutable_callee_full {env : DEnv} {s : DState} (h : DealerInv s) {caller : SessKey} {req : Nat} {opts : Dict}
    {proc : String} (args : List WVal) (kw : Dict) {rnd : Nat} {reg reg' : Reg} {callee : SessKey}
    (hc : (⟨caller, req⟩ : ReqId) ∉ s.d.calls) (hm : s.d.matchProcedure proc = some reg)
    (hprog : (opts.optFlag OptProgress && !hasFeat env caller RoleCaller FeatureProgCallInvocations) = false)
    (hp : pickCallee reg rnd = some (callee, reg'))
    (hr : callRefusal env s.d.allowDisclose reg caller callee opts = none) (hf : env.full callee = true) :
    (syncCall env s caller req opts proc args kw rnd).sends =
        [callErr ⟨caller, req⟩ [] ErrNetworkFailure [.str "<text>"] []] ∧
      (syncCall env s caller req opts proc args kw rnd).st.d.calls = s.d.calls := by
  have hmem := matchProcedure_mem hm
  have hne : reg.callees.isEmpty = false := by
    have := (h.reg.regs.callees reg hmem).1
    cases hx : reg.callees with
    | nil => exact absurd hx this
    | cons _ _ => rfl
  rw [syncCall_first args kw hm hne hprog (h.call.byCall?_none hc) hp]
  exact firstChunk_full h hmem args kw (pickCallee_shape hp).1 hc hr hf

/-- The owning callee answers a pending call with a non-progress YIELD and the caller is able to
    receive: exactly one reply to the caller, it is final, the call is removed.  This holds for a call
    in the cancelled-kill state too (the callee's answer becomes the final reply). -/
theorem C02_callee_final_yield {env : DEnv} {s : DState} (h : DealerInv s) {v : Invk} (hv : v ∈ s.d.invs) (opts : Dict)
    (args : List WVal) (kw : Dict) (canRetry : Bool) (hfull : env.full v.callId.sess = false) :
    ∃ x, repliesFor v.callId (syncYield env s v.id.sess v.id.req opts args kw false canRetry).sends = [x] ∧
      x.msg.isFinalReply = true ∧
      v.callId ∉ (syncYield env s v.id.sess v.id.req opts args kw false canRetry).st.d.calls :=
  yield_final h hv opts args kw canRetry hfull

/-- … and unless payload passthru is misused the reply is the RESULT with the YIELD's payload unchanged
    (details: the `ppt_*` keys of the YIELD when passthru is used, else empty). -/
theorem C02_callee_final_yield_payload {env : DEnv} {s : DState} (h : DealerInv s) {v : Invk} (hv : v ∈ s.d.invs)
    (opts : Dict) (args : List WVal) (kw : Dict) (canRetry : Bool) (hfull : env.full v.callId.sess = false)
    (h1 : yieldPptCalleeBad env v.id.sess opts = false) (h2 : yieldPptCallerBad env v.callId.sess opts = false) :
    (syncYield env s v.id.sess v.id.req opts args kw false canRetry).sends =
      [⟨v.callId.sess, .result v.callId.req (yieldDetails opts false) args kw⟩] :=
  yield_final_payload h hv opts args kw canRetry hfull h1 h2

example : (syncYield Ex.env Ex.sKill 1 1 [] [.int 8] [] false true).sends.map Ex.summary = [(2, 50, some 5, true)] := by
  decide +kernel

/-- The owning callee answers a pending call with an INVOCATION ERROR: exactly that error (URI, details,
    payload unchanged) as ERROR(CALL) to the caller, call removed. -/
theorem C02_callee_final_error {s : DState} (h : DealerInv s) {v : Invk} (hv : v ∈ s.d.invs) (details : Dict)
    (err : String) (args : List WVal) (kw : Dict) :
    (syncError s v.id.sess v.id.req details err args kw).sends = [callErr v.callId details err args kw] ∧
      v.callId ∉ (syncError s v.id.sess v.id.req details err args kw).st.d.calls := by
  have hf : s.d.findInv ⟨v.id.sess, v.id.req⟩ = some v := (findInv_eq_some h.call.invIds).2 ⟨hv, rfl⟩
  rw [syncError_some' h.call details err args kw hf]
  exact ⟨rfl, by simp⟩

/-- The callee's session ends: every call it was serving — also one with a kill-mode cancel
    outstanding — gets exactly one ERROR wamp.error.canceled to its caller and is removed. -/
theorem C02_callee_gone {env : DEnv} {s : DState} (h : DealerInv s) (k : SessKey) {v : Invk} (hv : v ∈ s.d.invs)
    (hk : v.callee = k) :
    repliesFor v.callId (syncRemoveSession env s k).sends = [goneErr v.callId] ∧
      v.callId ∉ (syncRemoveSession env s k).st.d.calls := by
  rcases syncRemoveSession_replies (env := env) h k v.callId with ⟨_, h2⟩ | ⟨h1, _⟩
  · exact absurd rfl (h2 v hv hk)
  · exact ⟨h1, fun hc => (syncRemoveSession_calls h k v.callId hc).2.2 v hv hk rfl⟩

/-- the cancelled-kill state of `Ex.sKill`: the callee leaves, the caller is answered -/
example : (syncRemoveSession Ex.env Ex.sKill 1).sends.map Ex.summary = [(2, 8, some 5, true)] ∧
    (syncRemoveSession Ex.env Ex.sKill 1).st.d.calls = [] := by decide +kernel

/-- CANCEL of a pending, not yet cancelled call in a mode other than kill (skip, killnowait), or in kill
    mode when the callee cannot be interrupted: exactly one ERROR(CALL) with the cancel's reason to the
    caller, call removed. -/
theorem C02_cancel_skip_killnowait {env : DEnv} {s : DState} (h : DealerInv s) {c : ReqId} {v : Invk}
    (hv : v ∈ s.d.invs) (hvc : v.callId = c) (hcan : v.canceled = false) (mode reason : String) (errArgs : List WVal)
    (hmode : mode ≠ CancelModeKill ∨ canInterrupt env v mode = false) :
    repliesFor c (syncCancel env s c.sess c.req mode reason errArgs).sends = [callErr c [] reason errArgs []] ∧
      c ∉ (syncCancel env s c.sess c.req mode reason errArgs).st.d.calls := by
  have hc : c ∈ s.d.calls := hvc ▸ (h.call.inv_call hv).1
  obtain ⟨i, v', hv', hvi, hvc', _, hb, hf, hsc⟩ := syncCancel_lookup (env := env) h hc
  have : v' = v := nodup_map_inj h.call.invCalls hv' hv (hvc'.trans hvc.symm)
  subst this
  rw [hsc, if_neg (by simp [hcan]), cancelOut_eq]
  have heta : (⟨c.sess, c.req⟩ : ReqId) = c := rfl
  rw [heta]
  split
  · rename_i hci
    have hk : ¬ mode = CancelModeKill := hmode.elim id (fun hx => by rw [hx] at hci; cases hci)
    rw [if_neg hk]; exact ⟨by simp [repliesFor_cons], by simp⟩
  · exact ⟨by simp [repliesFor_cons], by simp⟩

example : (syncCancel Ex.env Ex.sCall 2 5 CancelModeSkip ErrCanceled []).sends.map Ex.summary = [(2, 8, some 5, true)] := by
  decide +kernel

/-- The router-side timeout of a pending call fires (`syncCancel` in killnowait mode with reason
    wamp.error.timeout, as posted by the timer goroutine) and no cancel is outstanding: exactly one
    ERROR wamp.error.timeout to the caller, call removed. -/
theorem C02_timeout {env : DEnv} {s : DState} (h : DealerInv s) {c : ReqId} {v : Invk}
    (hv : v ∈ s.d.invs) (hvc : v.callId = c) (hcan : v.canceled = false) :
    repliesFor c (syncCancel env s c.sess c.req CancelModeKillNoWait ErrTimeout [.str "<text>"]).sends =
        [callErr c [] ErrTimeout [.str "<text>"] []] ∧
      c ∉ (syncCancel env s c.sess c.req CancelModeKillNoWait ErrTimeout [.str "<text>"]).st.d.calls :=
  C02_cancel_skip_killnowait h hv hvc hcan _ _ _ (Or.inl (by decide))

example : (syncCancel Ex.env Ex.sTimed 2 6 CancelModeKillNoWait ErrTimeout [.str "<text>"]).sends.map Ex.summary =
    [(1, 69, none, false), (2, 8, some 6, true)] := by decide +kernel

/-! ### the caller does not keep reading -/

/-- Caller's queue full, retries left: nothing is sent, the call stays as it is (the handler re-posts the
    YIELD later; a non-progress YIELD has already stopped the call timer). -/
theorem C02_full_retry {env : DEnv} {s : DState} (h : DealerInv s) {v : Invk} (hv : v ∈ s.d.invs) (opts : Dict)
    (args : List WVal) (kw : Dict) (progress : Bool) (hfull : env.full v.callId.sess = true)
    (h1 : yieldPptCalleeBad env v.id.sess opts = false) (h2 : yieldPptCallerBad env v.callId.sess opts = false) :
    syncYield env s v.id.sess v.id.req opts args kw progress true =
      { st := yieldTimer s progress v, again := true } := by
  have hf : s.d.findInv ⟨v.id.sess, v.id.req⟩ = some v := (findInv_eq_some h.call.invIds).2 ⟨hv, rfl⟩
  rw [syncYield_some' h.call opts args kw progress true hf, yieldOut_retry args kw progress v h1 h2 hfull]

/-- Caller's queue full, no retry left: the RESULT is dropped and the call is cancelled (killnowait,
    wamp.error.canceled): a not yet cancelled call is removed, its ERROR handed to the realm (which
    drops it if the queue is still full), the callee interrupted when possible. -/
theorem C02_full_giveup {env : DEnv} {s : DState} (h : DealerInv s) {v : Invk} (hv : v ∈ s.d.invs) (opts : Dict)
    (args : List WVal) (kw : Dict) (progress : Bool) (hfull : env.full v.callId.sess = true)
    (h1 : yieldPptCalleeBad env v.id.sess opts = false) (h2 : yieldPptCallerBad env v.callId.sess opts = false)
    (hcan : v.canceled = false) :
    (syncYield env s v.id.sess v.id.req opts args kw progress false).sends =
        (if canInterrupt env v CancelModeKillNoWait
          then [interruptOf v v.id CancelModeKillNoWait ErrCanceled] else []) ++ [callErr v.callId [] ErrCanceled [] []] ∧
      v.callId ∉ (syncYield env s v.id.sess v.id.req opts args kw progress false).st.d.calls := by
  have hf : s.d.findInv ⟨v.id.sess, v.id.req⟩ = some v := (findInv_eq_some h.call.invIds).2 ⟨hv, rfl⟩
  rw [syncYield_some' h.call opts args kw progress false hf, yieldOut_giveup' h args kw progress hv rfl h1 h2 hfull,
    if_neg (by simp [hcan])]
  exact ⟨rfl, by simp⟩

/-- The realm's `trySend` drops a message for a session whose queue is full: nothing else changes. -/
theorem C02_full_dropped_at_realm (r : Realm) (k : SessKey) (m : Msg) (c : Session) (hk : k ≠ metaKey)
    (hc : r.clients.find? (fun c => c.key == k) = some c) (hfull : r.queueLen k ≥ c.cap) :
    r.trySend ⟨k, m⟩ = r := by
  unfold Realm.trySend
  simp only [hk, if_false, hc, hfull, if_true]

/-! ### end to end: the realm's queues -/

/-- DELIVERY.  Applying a dealer action `o` (`Realm.applyD`):
    * the queue of an attached client `k` becomes its old content followed by the messages of `o.sends` addressed
      to `k`, in the order of `o.sends`, cut off where the capacity `c.cap` is reached — a message that meets a
      full queue is dropped, nothing else is affected;
    * INVOCATIONs addressed to the meta session become `metaInvoke` tasks (in order), then come the dealer's meta
      events (`metaPub` tasks), then one `leave k aborted` task per aborted session;
    * the dealer state is `o.st`. -/
theorem C02_realm_delivery (r : Realm) (o : DOut) :
    (∀ (k : SessKey) (c : Session), k ≠ metaKey → r.clients.find? (fun c => c.key == k) = some c →
      (r.applyD o).dqueueOf k = r.dqueueOf k ++ (Realm.dmsgsTo k o.sends).take (c.cap - r.queueLen k)) ∧
    (r.applyD o).tasks = r.tasks ++ o.sends.filterMap Realm.dmetaTask ++ o.metaPubs.map Task.metaPub ++
      o.aborts.map (fun k => Task.leave k .aborted) ∧
    (r.applyD o).ending = r.ending ++ o.aborts ∧
    (r.applyD o).ds = o.st :=
  ⟨fun _ _ hk hc => Realm.dapplyD_queueOf r o hk hc, Realm.dapplyD_tasks r o, Realm.dapplyD_ending r o, Realm.applyD_ds r o⟩

/-- the RPC handlers of a session goroutine, the call timer and the retry turn are `applyD` of the `sync*`
    functions (so `C02_realm_delivery` describes their observable effect) -/
theorem C02_realm_handlers (r : Realm) (s : Session) (req : Nat) (opts : Dict) (proc : String) (args : List WVal)
    (kw : Dict) (details : Dict) (err : String) (t : Timer) :
    r.handleCall s req opts proc args kw = r.applyD (syncCall r.denv r.ds s.key req opts proc args kw r.rnd) ∧
    r.handleError s req details err args kw = r.applyD (syncError r.ds s.key req details err args kw) ∧
    ((Realm.cancelMode opts = CancelModeKillNoWait ∨ Realm.cancelMode opts = CancelModeKill ∨
        Realm.cancelMode opts = CancelModeSkip) →
      r.handleCancel s req opts = r.applyD (syncCancel r.denv r.ds s.key req (Realm.cancelMode opts) ErrCanceled [])) ∧
    (∀ k, (r.handleYield s req opts args kw).dqueueOf k =
      (r.applyD (syncYield r.denv r.ds s.key req opts args kw (opts.optFlag OptProgress) true)).dqueueOf k) ∧
    r.timerDue t =
      ({ r with ds := { r.ds with timers := r.ds.timers.filter (fun y => y.id != t.id) } } : Realm).applyD
        (syncCancel r.denv { r.ds with timers := r.ds.timers.filter (fun y => y.id != t.id) } t.caller t.req
          CancelModeKillNoWait ErrTimeout [.str "<text>"]) := by
  refine ⟨rfl, rfl, Realm.handleCancel_known s req opts, ?_, rfl⟩
  intro k
  unfold Realm.handleYield
  simp only
  split <;> rfl

/-- the three sends of a departing callee's `syncRemoveSession` reach a caller with room, in order -/
example : (Realm.dmsgsTo 2 (syncRemoveSession Ex.env Ex.sKill 1).sends).map Msg.typeCode = [8] := by decide +kernel

/-- CALLEE GONE, end to end.  Session `k` leaves (any `mode` but a realm shutdown).  For every call it was serving
    (`v`, also one in the cancelled-kill state) whose caller is an attached client with room for the dealer's
    messages: the caller's queue is extended by a list `app` containing exactly one reply for that request — ERROR
    (CALL, req, wamp.error.canceled) — and the call is gone from the dealer. -/
theorem C02_realm_callee_gone (r : Realm) (h : DealerInv r.ds) {k : SessKey} {s : Session} (mode : LeaveMode)
    (hfind : r.clients.find? (fun c => c.key == k) = some s) (hmode : mode.isShutdown = false)
    {v : Invk} (hv : v ∈ r.ds.d.invs) (hk : v.callee = k) {c : Session} (hcm : v.callId.sess ≠ metaKey)
    (hc : r.clients.find? (fun c => c.key == v.callId.sess) = some c)
    (hroom : (Realm.leaveSend r k mode).queueLen v.callId.sess +
      (Realm.dmsgsTo v.callId.sess (syncRemoveSession (Realm.leaveSend r k mode).denv r.ds k).sends).length ≤ c.cap) :
    ∃ app, (r.leave k mode).dqueueOf v.callId.sess = (Realm.leaveSend r k mode).dqueueOf v.callId.sess ++ app ∧
      Realm.qReplies v.callId.req app = [.error tCALL v.callId.req [] ErrCanceled [.str "<text>"] []] ∧
      v.callId ∉ (syncRemoveSession (Realm.leaveSend r k mode).denv r.ds k).st.d.calls :=
  Realm.leave_callee_gone r h mode hfind hmode hv hk hcm hc hroom

/-- TIMEOUT, end to end.  In `Realm.advance … target` the next due event is the timer `t` of a pending, not
    cancelled call (so `t.deadline ≤ target`).  Then `advance` fires it with the clock at the deadline; the
    caller's queue is extended, in order and as far as it has room, by the dealer's messages `app` for it (at most
    two), among which there is exactly one reply for that request: ERROR(CALL, req, wamp.error.timeout); the call is
    removed; and `advance` goes on from there. -/
theorem C02_realm_timeout (r : Realm) (h : DealerInv r.ds) (fuel target : Nat) (t : Timer)
    (hn : Realm.nextDue r target = some (.timer t)) {v : Invk} (hv : v ∈ r.ds.d.invs)
    (hvc : v.callId = ⟨t.caller, t.req⟩) (hcan : v.canceled = false) {c : Session} (hcm : t.caller ≠ metaKey)
    (hc : r.clients.find? (fun c => c.key == t.caller) = some c) :
    t.deadline ≤ target ∧
    Realm.advance (fuel + 1) r target =
      Realm.advance fuel (Realm.drain Realm.taskFuel
        (({ r with now := max r.now t.deadline } : Realm).timerDue t)) target ∧
    ∃ app, (({ r with now := max r.now t.deadline } : Realm).timerDue t).dqueueOf t.caller =
        r.dqueueOf t.caller ++ app.take (c.cap - r.queueLen t.caller) ∧
      Realm.qReplies t.req app = [.error tCALL t.req [] ErrTimeout [.str "<text>"] []] ∧ app.length ≤ 2 ∧
      (⟨t.caller, t.req⟩ : ReqId) ∉ (({ r with now := max r.now t.deadline } : Realm).timerDue t).ds.d.calls := by
  refine ⟨(Realm.nextDue_timer hn).2.2.1, ?_, ?_⟩
  · simp only [Realm.advance, hn]
    rfl
  · exact Realm.timerDue_queueOf ({ r with now := max r.now t.deadline } : Realm) h t hv hvc hcan hcm hc

/-- `C02_realm_callee_gone` and `C02_realm_timeout` in every REACHABLE realm (any history of inputs): the dealer
    invariant holds, and the caller — an attached client — does not carry the meta session's key
    (`Realm.Reachable.find?_ne_meta`: `join` under that key is a no-op of the model), so the two side conditions
    `DealerInv r.ds` and `… ≠ metaKey` are discharged. -/
theorem C02_realm_callee_gone_reachable {cfg : Config} {r : Realm} (hr : Realm.Reachable cfg r) {k : SessKey} {s : Session}
    (mode : LeaveMode) (hfind : r.clients.find? (fun c => c.key == k) = some s) (hmode : mode.isShutdown = false)
    {v : Invk} (hv : v ∈ r.ds.d.invs) (hk : v.callee = k) {c : Session}
    (hc : r.clients.find? (fun c => c.key == v.callId.sess) = some c)
    (hroom : (Realm.leaveSend r k mode).queueLen v.callId.sess +
      (Realm.dmsgsTo v.callId.sess (syncRemoveSession (Realm.leaveSend r k mode).denv r.ds k).sends).length ≤ c.cap) :
    ∃ app, (r.leave k mode).dqueueOf v.callId.sess = (Realm.leaveSend r k mode).dqueueOf v.callId.sess ++ app ∧
      Realm.qReplies v.callId.req app = [.error tCALL v.callId.req [] ErrCanceled [.str "<text>"] []] ∧
      v.callId ∉ (syncRemoveSession (Realm.leaveSend r k mode).denv r.ds k).st.d.calls :=
  C02_realm_callee_gone r hr.inv.1.dinv mode hfind hmode hv hk (hr.find?_ne_meta hc) hc hroom

theorem C02_realm_timeout_reachable {cfg : Config} {r : Realm} (hr : Realm.Reachable cfg r) (fuel target : Nat) (t : Timer)
    (hn : Realm.nextDue r target = some (.timer t)) {v : Invk} (hv : v ∈ r.ds.d.invs)
    (hvc : v.callId = ⟨t.caller, t.req⟩) (hcan : v.canceled = false) {c : Session}
    (hc : r.clients.find? (fun c => c.key == t.caller) = some c) :
    t.deadline ≤ target ∧
    Realm.advance (fuel + 1) r target =
      Realm.advance fuel (Realm.drain Realm.taskFuel
        (({ r with now := max r.now t.deadline } : Realm).timerDue t)) target ∧
    ∃ app, (({ r with now := max r.now t.deadline } : Realm).timerDue t).dqueueOf t.caller =
        r.dqueueOf t.caller ++ app.take (c.cap - r.queueLen t.caller) ∧
      Realm.qReplies t.req app = [.error tCALL t.req [] ErrTimeout [.str "<text>"] []] ∧ app.length ≤ 2 ∧
      (⟨t.caller, t.req⟩ : ReqId) ∉ (({ r with now := max r.now t.deadline } : Realm).timerDue t).ds.d.calls :=
  C02_realm_timeout r hr.inv.1.dinv fuel target t hn hv hvc hcan (hr.find?_ne_meta hc) hc

/-- … and never earlier: in a tick to a time before its deadline a timer does not fire. -/
theorem C02_realm_timeout_not_before {target : Nat} {r r' : Realm} {evs : List (Realm × Realm.Due)}
    (h : Realm.Adv target r evs r') (t : Timer) (hlt : target < t.deadline) : ∀ p ∈ evs, p.2 ≠ .timer t := by
  intro p hp he
  have := (h.fired p hp t he).2.2.1
  omega

/-! ### "cannot be routed" at the handler: a CALL the Authorizer refuses -/

/-- the ERROR `authzMessage` answers a refused CALL with -/
def deniedCallErr (dec : String) (req : Nat) : Msg :=
  if dec == "fail" then .error tCALL req [] ErrAuthorizationFailed [.str "<text>"] []
  else .error tCALL req [] ErrNotAuthorized [] []

/-- A CALL REFUSED BY THE AUTHORIZER never reaches the dealer: the handler answers it itself (realm.go
    `authzMessage`).  For an attached client `c` that is subject to authorization and whose CALL the rule table does
    not allow: the dealer state is untouched; exactly one message is appended to the caller's queue if it has room
    (none if it is full) — ERROR(CALL, req, wamp.error.not_authorized), or wamp.error.authorization_failed with one
    argument when the Authorizer failed — which has the form of a final reply for that request; no other queue changes. -/
theorem C02_realm_call_denied (r : Realm) (rules : List AuthzRule) (s c : Session) (req : Nat) (opts : Dict)
    (proc : String) (args : List WVal) (kw : Dict)
    (hcfg : r.cfg.authz = some rules) (hex : Realm.exempt r.cfg.localAuthz s = false)
    (hdec : ¬ (Realm.authzDecision rules s.key (.call req opts proc args kw) = "allow" ∨
      Realm.authzDecision rules s.key (.call req opts proc args kw) = "allowerr"))
    (hc : r.clients.find? (fun c => c.key == s.key) = some c) :
    (Realm.handleMsg r s (.call req opts proc args kw)).ds = r.ds ∧
    (Realm.handleMsg r s (.call req opts proc args kw)).dqueueOf s.key =
      (if r.queueLen s.key ≥ c.cap then r.dqueueOf s.key
       else r.dqueueOf s.key ++ [deniedCallErr (Realm.authzDecision rules s.key (.call req opts proc args kw)) req]) ∧
    (∀ k, k ≠ s.key → (Realm.handleMsg r s (.call req opts proc args kw)).dqueueOf k = r.dqueueOf k) ∧
    (deniedCallErr (Realm.authzDecision rules s.key (.call req opts proc args kw)) req).replyReq = some req ∧
    (deniedCallErr (Realm.authzDecision rules s.key (.call req opts proc args kw)) req).isFinalReply = true := by
  have hk : s.key ≠ metaKey := by
    intro e
    have : Realm.exempt r.cfg.localAuthz s = true := by simp [Realm.exempt, e]
    rw [this] at hex; cases hex
  have hden : Realm.denialReply (Realm.authzDecision rules s.key (.call req opts proc args kw)) (.call req opts proc args kw) =
      some (deniedCallErr (Realm.authzDecision rules s.key (.call req opts proc args kw)) req) := by
    unfold Realm.denialReply deniedCallErr
    simp only [Bool.false_eq_true, if_false]
    rfl
  rw [Realm.handleMsg_eq_handleMsgG, hcfg, Option.map_some, Realm.handleMsgG_refused _ _ r s _ hex hdec, hden]
  refine ⟨Realm.trySend_ds _ _, ?_, ?_, ?_, ?_⟩
  · exact Realm.dtrySend_queueOf_self r ⟨s.key, _⟩ hk hc
  · intro k hne
    exact Realm.dtrySend_queueOf_other r ⟨s.key, _⟩ (fun e => hne e.symm)
  · unfold deniedCallErr; split <;> rfl
  · unfold deniedCallErr; split <;> rfl

/-- a realm whose Authorizer denies CALLs to "q" -/
def Ex.cfgDenyQ : Config := { authz := some [{ typ := 48, uri := "q", sess := none, decision := "deny" }] }

/-- the hypotheses of `C02_realm_call_denied` are met by the remote session 5 calling "q" in such a realm -/
example :
    let s5 : Session := { key := 5, details := [], roles := [], isLocal := false }
    let r : Realm := { cfg := Ex.cfgDenyQ, clients := [s5], queues := [(5, [])] }
    r.cfg.authz = some [{ typ := 48, uri := "q", sess := none, decision := "deny" }] ∧
    Realm.exempt r.cfg.localAuthz s5 = false ∧
    Realm.authzDecision [{ typ := 48, uri := "q", sess := none, decision := "deny" }] 5 (.call 1 [] "q" [] []) = "deny" ∧
    (r.clients.find? (fun c => c.key == s5.key)).isSome = true := by
  intro s5 r
  exact ⟨rfl, by decide +kernel, by decide +kernel, by decide +kernel⟩

def Ex.runObs (r : Realm) : List Realm.Op → List Realm.Observed × Realm
  | [] => ([], r)
  | op :: ops => ((r.step op).1 :: (Ex.runObs (r.step op).2 ops).1, (Ex.runObs (r.step op).2 ops).2)

/-- the final replies for request `req` session `k` reads over a history -/
def finalsSeen (obs : List Realm.Observed) (k : SessKey) (req : Nat) : List Msg :=
  (obs.flatMap (fun o => (o.out.filter (fun q => q.1 == k)).flatMap (·.2))).filter
    (fun m => m.replyReq == some req && m.isFinalReply)

/-- the `progress` flags of the CALL messages session `k` sends with request id `req`, in order -/
def chunkFlags (ops : List Realm.Op) (k : SessKey) (req : Nat) : List Bool :=
  ops.filterMap (fun op => match op with
    | .msg k' (.call q opts _ _ _) => if k' = k ∧ q = req then some (opts.optFlag OptProgress) else none
    | _ => none)

/-- the request id is used for ONE call: all its CALL messages but the last carry `progress: true` -/
def OneCall (flags : List Bool) : Prop := ∀ i, i + 1 < flags.length → flags[i]! = true

/-- full strength at realm level: over every history from a fresh realm, a session that uses a request id for one call
    (possibly a progressive call invocation in several chunks) reads at most one final reply for it -/
def C02_realm_one_final_full : Prop :=
  ∀ (cfg : Config) (r0 : Realm), Realm.create cfg = some r0 → ∀ (ops : List Realm.Op) (k : SessKey) (req : Nat),
    OneCall (chunkFlags ops k req) → (finalsSeen (Ex.runObs r0 ops).1 k req).length ≤ 1

/-- the history: callee 1 registers "p"; caller 2 opens the progressive call 7 to "p" (allowed); its last chunk names
    "q" — the dealer would route it to the stored callee without looking at the URI, but the Authorizer denies it:
    ERROR(CALL, 7, not_authorized) to the caller, the call stays pending; then the callee answers: RESULT(7). -/
def Ex.opsDenied : List Realm.Op :=
  [ .join 1 false [] [(RoleCallee, [FeatureCallCanceling, FeatureProgCallInvocations])] 8,
    .join 2 false [] [(RoleCaller, [FeatureProgCallInvocations])] 8,
    .msg 1 (.register 1 [] "p"),
    .msg 2 (.call 7 [(OptProgress, .bool true)] "p" [] []),
    .msg 2 (.call 7 [] "q" [] []),
    .msg 1 (.yield 1 [] [.int 1] []) ]

set_option maxRecDepth 100000 in
/-- FALSE, of the model and (by reading realm.go `authzMessage` + dealer.go `syncCall`) of the router: the ERROR the
    handler sends for a refused LATER CHUNK of a pending progressive call invocation is a final reply by its form, but
    the call is not ended — its callee's answer is a second final reply for the same request.  (The dealer-level
    statement `C02_episode` is not affected: the refused chunk never becomes a dealer step.) -/
theorem C02_realm_one_final_full_fails : ¬ C02_realm_one_final_full := by
  intro hfull
  have hc : Realm.create Ex.cfgDenyQ = some ((Realm.create Ex.cfgDenyQ).getD default) := by
    have : (Realm.create Ex.cfgDenyQ).isSome = true := by decide +kernel
    cases h : Realm.create Ex.cfgDenyQ with
    | none => rw [h] at this; cases this
    | some r => rfl
  have hflags : chunkFlags Ex.opsDenied 2 7 = [true, false] := by decide +kernel
  have hone : OneCall (chunkFlags Ex.opsDenied 2 7) := by
    rw [hflags]
    intro i hi
    have : i = 0 := by simp at hi; omega
    subst this
    rfl
  have hseen : (finalsSeen (Ex.runObs ((Realm.create Ex.cfgDenyQ).getD default) Ex.opsDenied).1 2 7).map Msg.typeCode =
      [8, 50] := by decide +kernel
  have := hfull _ _ hc Ex.opsDenied 2 7 hone
  have hlen := congrArg List.length hseen
  simp only [List.length_map, List.length_cons, List.length_nil] at hlen
  omega

end Nexus.C02
