/-
  C20 — Event history returns the retained publications, and only those (broker + meta API, L2).

  Property text.  "For a topic or pattern configured with event history of limit N,
  wamp.subscription.get_events on its subscription returns the most recent at most N publications
  matching it, oldest first (newest first when reversed), each with its original publication id,
  arguments and topic, and never a publication that was restricted to particular receivers by
  exclude/eligible session lists; filters (limit, time and publication-id bounds, topic) select
  exactly the entries they describe, whichever transport and serializer the asking client uses.
  Retention does not depend on who is subscribed: history is kept with no subscriber present and
  survives subscribers coming and going."

  Model: `Nexus.L2.Broker` (`preInit`, `syncPubEvent`/`Hist.save`, subscription deletion) and the
  `MetaProcEventHistory` branch of `Nexus.L2.Realm.metaProc` (`histScan`, `takeLast`).  Declarative
  vocabulary: Nexus/L2/Proofs/BrokerSpec.lean (`BStep`, `Broker.run`, `retained`, `retainedEntry`,
  `lastN`) and Nexus/L2/Proofs/BrokerQuerySpec.lean (`timeOk`, `topicOk`, the four `*Stage`s,
  `scanSpec`, `histAnswer`).  "Restricted" is read as the code reads it: the options contain the
  key `exclude` or the key `eligible` (whatever the value); `exclude_<attr>`/`eligible_<attr>` alone
  do not keep a publication out of the history.

  clause                                                              theorem
  ------------------------------------------------------------------  -----------------------------------
  a configured (topic, policy, N) has a store and a subscription      C20_configured
  after ANY sequence of publish/subscribe/unsubscribe/remove steps
    from the pre-initialised broker the store still exists, is the
    only one of its subscription, its subscription still exists
    (never removed, never orphaned), and its entries are the last N
    (oldest first) of the matching unrestricted publications           C20_retention
  the same as an invariant over an explicit ghost list, from any
    state satisfying BrokerInv                                         C20_retention_invariant
  each entry: publication id, args, kw of the publication;
    details.topic present iff the subscription is pattern-based        C20_entry_content
  retention is independent of who is subscribed                       C20_independent_of_subscribers
  scan of get_events = declarative pipeline, for EVERY query           C20_query_scan
  answer = scan, then last `limit`, then reversed iff `reverse`        C20_query_answer
  only limit/reverse: most recent min(limit,len), oldest first,
    reversed iff `reverse`                                             C20_query_limit_reverse
  time bounds and topic (no publication bounds): exactly the entries
    with from ≤ t, after < t, t < before, t ≤ until, details.topic = it C20_query_time_topic
  from/after/before/until_publication (distinct publication ids),
    including what happens when the named publication is absent        C20_query_from_publication, C20_query_after_publication,
                                                                       C20_query_before_publication, C20_query_until_publication
  the meta procedure answers with exactly that, rendered per entry     C20_query_metaProc

  What the pipeline of `C20_query_scan` says about COMBINED bounds (this is what the code does):
  the time bounds are applied first and hide entries from the publication bounds — a
  `from_publication`/`after_publication` naming an entry outside the time window is "absent" and the
  answer is empty; `after_publication` is searched only from the `from_publication` entry on;
  `before_publication` cuts before `until_publication` is looked at; the `topic` filter is applied
  last and does not hide an entry from the publication bounds.
  Explicit assumptions: N > 0 (`0 < h.limit`; the realm configuration check guarantees it);
  publication ids in a store distinct for the four `*_publication` clauses (`Fresh` ids).
-/
import Nexus.L2.Proofs.BrokerHist
import Nexus.L2.Proofs.BrokerQuery

namespace Nexus.C20
open Nexus.L2 Gen.N
open Realm (HistQuery histScan takeLast histEntryVal histQuery? metaProc mYield)

/-! ### a concrete history used by the `example`s -/

def exCfg : List (String × String × Nat) := [("t", "exact", 2), ("a.", "prefix", 3)]
def exB0 : Broker := ({} : Broker).preInit exCfg
def exPub (n : Nat) (opts : Dict) : Publication :=
  { publisher := 1, pubDetails := [], topic := "t", pubId := n, args := [.int n], kw := [], opts := opts,
    excludePub := true, disclose := false, baseDetails := [] }
def noSess : SessKey → Option Session := fun _ => none
/-- publications 10, 11 (restricted), 12, 13 on "t", with a subscriber coming, going, leaving -/
def exSteps : List BStep :=
  [.publish noSess 1 (exPub 10 []), .subscribe 5 1 "t" "exact" 0, .publish noSess 2 (exPub 11 [("exclude", .list [])]),
   .unsubscribe 5 2 1 0, .publish noSess 3 (exPub 12 []), .subscribe 6 1 "t" "exact" 0, .removeSession 6 0,
   .publish noSess 4 (exPub 13 [])]
def exH0 : Hist := { sub := 1, limit := 2, entries := [] }
def exS0 : Sub := { id := 1, topic := "t", «match» := "exact", members := [] }

theorem exB0_hist : exB0.hist = [exH0, { sub := 2, limit := 3, entries := [] }] := by rfl
theorem exB0_subs : exB0.subs = [exS0, { id := 2, topic := "a.", «match» := "prefix", members := [] }] := by rfl

/-! ### retention -/

/-- A configured (topic, policy, limit) — the last entry of the configuration naming that (topic,
    policy) — has, in the broker the realm starts with, an empty store with that limit on a
    subscription with that topic and policy. -/
theorem C20_configured (strict allowDisclose : Bool) (pre post : List (String × String × Nat))
    (topic m : String) (limit : Nat)
    (hlast : ∀ c ∈ post, ¬(c.1 = topic ∧ matchKind c.2.1 = matchKind m)) :
    ∃ h ∈ (({ strict := strict, allowDisclose := allowDisclose } : Broker).preInit
              (pre ++ (topic, m, limit) :: post)).hist,
    ∃ s ∈ (({ strict := strict, allowDisclose := allowDisclose } : Broker).preInit
              (pre ++ (topic, m, limit) :: post)).subs,
      s.id = h.sub ∧ h.limit = limit ∧ h.entries = [] ∧ s.topic = topic ∧ s.kind = matchKind m :=
  preInit_has_store strict allowDisclose pre post topic m limit hlast

/-- Retention.  Let `h0` be a store of the pre-initialised broker, on subscription `s0`, with limit
    N > 0.  After ANY sequence of steps (publications by anybody, with any options and session
    tables; SUBSCRIBE / UNSUBSCRIBE / session removal of any session, i.e. arbitrary subscriber
    churn) the broker has exactly one store `h` for that subscription, with the same limit; the
    subscription still exists with the same id, topic and policy; and `h.entries` are the last N,
    oldest first, of `retained s0 steps`: the publications so far, in publish order, whose topic
    matches `s0` under its policy and whose options contain neither `exclude` nor `eligible`. -/
theorem C20_retention (strict allowDisclose : Bool) (cfg : List (String × String × Nat)) (steps : List BStep)
    {h0 : Hist} {s0 : Sub}
    (hh : h0 ∈ (({ strict := strict, allowDisclose := allowDisclose } : Broker).preInit cfg).hist)
    (hs : s0 ∈ (({ strict := strict, allowDisclose := allowDisclose } : Broker).preInit cfg).subs)
    (hid : s0.id = h0.sub) (hN : 0 < h0.limit) :
    ∃ h ∈ ((({ strict := strict, allowDisclose := allowDisclose } : Broker).preInit cfg).run steps).hist,
      h.sub = h0.sub ∧ h.limit = h0.limit ∧
      h.entries = lastN h0.limit (retained s0 steps) ∧
      (∀ h' ∈ ((({ strict := strict, allowDisclose := allowDisclose } : Broker).preInit cfg).run steps).hist,
          h'.sub = h0.sub → h' = h) ∧
      ∃ s ∈ ((({ strict := strict, allowDisclose := allowDisclose } : Broker).preInit cfg).run steps).subs,
        s.id = s0.id ∧ s.topic = s0.topic ∧ s.«match» = s0.«match» := by
  have hb := BrokerInv.preInit strict allowDisclose cfg
  have hempty : h0.entries = lastN h0.limit [] := by
    rw [preInit_entries cfg _ (by simp) h0 hh]; simp [lastN]
  obtain ⟨h, hm, e1, e2, e3, s, hsm, e4⟩ := run_store steps hb hh hs hid hN [] hempty
  refine ⟨h, hm, e1, e2, by simpa using e3, ?_, s, hsm, e4⟩
  intro h' hm' e
  exact hist_eq_of_sub_eq (hb.run steps).hist_nodup hm' hm (e.trans e1.symm)

/-- non-vacuity: the example configuration has the store and the subscription; the ghost list of the
    example history is publications 10, 12, 13 (11 carried `exclude`), so the store ends with 12, 13 —
    although the subscription had no subscriber at the first and the last publication. -/
example : exH0 ∈ exB0.hist ∧ exS0 ∈ exB0.subs ∧ exS0.id = exH0.sub ∧ 0 < exH0.limit := by
  rw [exB0_hist, exB0_subs]; simp [exS0, exH0]

example : (retained exS0 exSteps).map (·.pub) = [10, 12, 13] ∧
    (lastN exH0.limit (retained exS0 exSteps)).map (fun e => (e.pub, e.time)) = [(12, 3), (13, 4)] := by
  constructor <;> rfl

/-- The same as an invariant over an explicit ghost list `L`, from ANY state satisfying the broker
    invariant: if a store with limit N > 0 holds the last N of `L`, then after the steps it holds the
    last N of `L ++ retained s steps`, and store and subscription are still there. -/
theorem C20_retention_invariant {b : Broker} (hb : BrokerInv b) (steps : List BStep) {h : Hist} (hh : h ∈ b.hist)
    {s : Sub} (hs : s ∈ b.subs) (hid : s.id = h.sub) (hN : 0 < h.limit) (L : List HistEntry)
    (hL : h.entries = lastN h.limit L) :
    ∃ h' ∈ (b.run steps).hist, h'.sub = h.sub ∧ h'.limit = h.limit ∧
      h'.entries = lastN h.limit (L ++ retained s steps) ∧
      ∃ s' ∈ (b.run steps).subs, s'.id = s.id ∧ s'.topic = s.topic ∧ s'.«match» = s.«match» :=
  run_store steps hb hh hs hid hN L hL

/-- What a retained entry is: the publication's id, arguments and keyword arguments unchanged, the
    time of publication, the subscription's id; `details.topic` is the publication's topic iff the
    subscription is pattern-based (given that the payload-passthru details have no `topic`, as is the
    case for every publication the realm hands over: `Nexus.C01.C01_realm_base_has_no_topic`). -/
theorem C20_entry_content (s : Sub) (now : Nat) (p : Publication) :
    (retainedEntry s now p).pub = p.pubId ∧ (retainedEntry s now p).args = p.args ∧
    (retainedEntry s now p).kw = p.kw ∧ (retainedEntry s now p).time = now ∧
    (retainedEntry s now p).sub = s.id ∧
    (p.baseDetails.get? "topic" = none →
      ((retainedEntry s now p).details.get? "topic" = some (.str p.topic) ↔ s.isPattern = true) ∧
      (s.isPattern = false → (retainedEntry s now p).details.get? "topic" = none)) := by
  refine ⟨rfl, rfl, rfl, rfl, rfl, ?_⟩
  intro hbase
  rw [retainedEntry_topic]
  cases s.isPattern <;> simp [hbase]

/-- Retention does not depend on who is subscribed: what must be retained is determined by the
    publish steps alone, so two histories from the same configuration with the same publications —
    and any subscriber churn whatsoever in between — end with equal store contents. -/
theorem C20_independent_of_subscribers (strict allowDisclose : Bool) (cfg : List (String × String × Nat))
    (steps1 steps2 : List BStep)
    (hpub : steps1.filter BStep.isPublish = steps2.filter BStep.isPublish)
    {h0 : Hist} {s0 : Sub}
    (hh : h0 ∈ (({ strict := strict, allowDisclose := allowDisclose } : Broker).preInit cfg).hist)
    (hs : s0 ∈ (({ strict := strict, allowDisclose := allowDisclose } : Broker).preInit cfg).subs)
    (hid : s0.id = h0.sub) (hN : 0 < h0.limit) :
    ∃ h1 ∈ ((({ strict := strict, allowDisclose := allowDisclose } : Broker).preInit cfg).run steps1).hist,
    ∃ h2 ∈ ((({ strict := strict, allowDisclose := allowDisclose } : Broker).preInit cfg).run steps2).hist,
      h1.sub = h0.sub ∧ h2.sub = h0.sub ∧ h1.entries = h2.entries := by
  obtain ⟨h1, m1, a1, _, c1, _⟩ := C20_retention strict allowDisclose cfg steps1 hh hs hid hN
  obtain ⟨h2, m2, a2, _, c2, _⟩ := C20_retention strict allowDisclose cfg steps2 hh hs hid hN
  refine ⟨h1, m1, h2, m2, a1, a2, ?_⟩
  rw [c1, c2, retained_filter_publish s0 steps1, retained_filter_publish s0 steps2, hpub]

/-! ### queries -/

/-- For EVERY query (any combination of bounds) the scan loop of `subEventHistory` selects exactly
    the pipeline `scanSpec`: time bounds; then from_publication (from the first entry with that id
    on); then after_publication (after the first entry with that id); then before_publication
    (before the first such entry); then until_publication (up to and including it); then topic. -/
theorem C20_query_scan (q : HistQuery) (es : List HistEntry) :
    histScan q es q.fromPub q.afterPub false = scanSpec q es :=
  histScan_eq_scanSpec q es

/-- The answer: the scan result, cut to its last `limit` entries when a limit is given, reversed iff
    `reverse`. -/
theorem C20_query_answer (q : HistQuery) (es : List HistEntry) :
    histAnswer q es =
      (let r := if q.limit > 0 then lastN q.limit (scanSpec q es) else scanSpec q es
       if q.reverse then r.reverse else r) := by
  unfold histAnswer
  rw [C20_query_scan]
  rfl

/-- Only `limit` and `reverse`: the most recent min(limit, len) entries, oldest first; reversed iff
    `reverse`.  (Without `limit`: all entries.) -/
theorem C20_query_limit_reverse (q : HistQuery) (es : List HistEntry)
    (hT : q.fromT = none ∧ q.afterT = none ∧ q.beforeT = none ∧ q.untilT = none) (htopic : q.topic = "")
    (hP : q.fromPub = 0 ∧ q.afterPub = 0 ∧ q.beforePub = 0 ∧ q.untilPub = 0) :
    histAnswer q es =
      (if q.reverse then (if q.limit > 0 then lastN q.limit es else es).reverse
       else (if q.limit > 0 then lastN q.limit es else es)) ∧
    (lastN q.limit es).length = min q.limit es.length ∧
    (∃ older, es = older ++ lastN q.limit es) := by
  refine ⟨?_, lastN_length _ _, ⟨es.take (es.length - q.limit), (List.take_append_drop _ _).symm⟩⟩
  rw [C20_query_answer]
  unfold scanSpec
  rw [hP.1, hP.2.1, hP.2.2.1, hP.2.2.2, fromStage_zero, afterStage_zero, beforeStage_zero, untilStage_zero,
    filter_timeOk_none q hT, filter_topicOk_none q htopic]

example : ∃ q : HistQuery, (q.fromT = none ∧ q.afterT = none ∧ q.beforeT = none ∧ q.untilT = none) ∧
    q.topic = "" ∧ (q.fromPub = 0 ∧ q.afterPub = 0 ∧ q.beforePub = 0 ∧ q.untilPub = 0) ∧ q.limit = 2 ∧
    q.reverse = true := ⟨{ limit := 2, reverse := true }, by simp⟩

/-- Time bounds and topic, no publication bounds: exactly the entries (in store order, each once)
    with `from_time ≤ t`, `after_time < t`, `t < before_time`, `t ≤ until_time` for the bounds that
    are present, and — when `topic` is given — a stored `details.topic` equal to it. -/
theorem C20_query_time_topic (q : HistQuery) (es : List HistEntry)
    (hP : q.fromPub = 0 ∧ q.afterPub = 0 ∧ q.beforePub = 0 ∧ q.untilPub = 0) :
    histScan q es q.fromPub q.afterPub false =
      es.filter (fun e =>
        (q.fromT.all (fun t => t ≤ e.time) && q.afterT.all (fun t => t < e.time) &&
         q.beforeT.all (fun t => e.time < t) && q.untilT.all (fun t => e.time ≤ t)) &&
        (q.topic == "" || topicIs e q.topic)) := by
  rw [C20_query_scan]
  unfold scanSpec
  rw [hP.1, hP.2.1, hP.2.2.1, hP.2.2.2, fromStage_zero, afterStage_zero, beforeStage_zero, untilStage_zero,
    List.filter_filter]
  apply List.filter_congr
  intro e _
  rw [Bool.and_comm]
  rfl

/-- `from_publication = x` alone, distinct publication ids: if the store is `pre ++ f :: post` with
    `f` the entry of publication `x`, the result is `f :: post`; if no entry has id `x`, nothing. -/
theorem C20_query_from_publication (q : HistQuery) (es : List HistEntry)
    (hT : q.fromT = none ∧ q.afterT = none ∧ q.beforeT = none ∧ q.untilT = none) (htopic : q.topic = "")
    (hP : q.fromPub ≠ 0 ∧ q.afterPub = 0 ∧ q.beforePub = 0 ∧ q.untilPub = 0)
    (hn : (es.map (·.pub)).Nodup) :
    (∀ pre f post, es = pre ++ f :: post → f.pub = q.fromPub →
        histScan q es q.fromPub q.afterPub false = f :: post) ∧
    ((∀ e ∈ es, e.pub ≠ q.fromPub) → histScan q es q.fromPub q.afterPub false = []) := by
  have hscan : histScan q es q.fromPub q.afterPub false = es.dropWhile (fun e => e.pub != q.fromPub) := by
    rw [C20_query_scan]
    unfold scanSpec
    rw [hP.2.1, hP.2.2.1, hP.2.2.2, afterStage_zero, beforeStage_zero, untilStage_zero,
      filter_timeOk_none q hT, filter_topicOk_none q htopic]
    unfold fromStage; rw [if_neg hP.1]
  rw [hscan]
  constructor
  · rintro pre f post rfl hf
    exact dropWhile_decomp _ pre post f hf (hf ▸ pre_ne_of_nodup hn)
  · exact dropWhile_absent _ es

/-- `after_publication = x` alone: `post` (the entries after `f`); nothing if `x` is absent. -/
theorem C20_query_after_publication (q : HistQuery) (es : List HistEntry)
    (hT : q.fromT = none ∧ q.afterT = none ∧ q.beforeT = none ∧ q.untilT = none) (htopic : q.topic = "")
    (hP : q.fromPub = 0 ∧ q.afterPub ≠ 0 ∧ q.beforePub = 0 ∧ q.untilPub = 0)
    (hn : (es.map (·.pub)).Nodup) :
    (∀ pre f post, es = pre ++ f :: post → f.pub = q.afterPub →
        histScan q es q.fromPub q.afterPub false = post) ∧
    ((∀ e ∈ es, e.pub ≠ q.afterPub) → histScan q es q.fromPub q.afterPub false = []) := by
  have hscan : histScan q es q.fromPub q.afterPub false =
      (es.dropWhile (fun e => e.pub != q.afterPub)).drop 1 := by
    rw [C20_query_scan]
    unfold scanSpec
    rw [hP.1, hP.2.2.1, hP.2.2.2, fromStage_zero, beforeStage_zero, untilStage_zero,
      filter_timeOk_none q hT, filter_topicOk_none q htopic]
    unfold afterStage; rw [if_neg hP.2.1]
  rw [hscan]
  constructor
  · rintro pre f post rfl hf
    rw [dropWhile_decomp _ pre post f hf (hf ▸ pre_ne_of_nodup hn)]; rfl
  · intro h; rw [dropWhile_absent _ es h]; rfl

/-- `before_publication = x` alone: `pre` (the entries before `f`); ALL entries if `x` is absent. -/
theorem C20_query_before_publication (q : HistQuery) (es : List HistEntry)
    (hT : q.fromT = none ∧ q.afterT = none ∧ q.beforeT = none ∧ q.untilT = none) (htopic : q.topic = "")
    (hP : q.fromPub = 0 ∧ q.afterPub = 0 ∧ q.beforePub ≠ 0 ∧ q.untilPub = 0)
    (hn : (es.map (·.pub)).Nodup) :
    (∀ pre f post, es = pre ++ f :: post → f.pub = q.beforePub →
        histScan q es q.fromPub q.afterPub false = pre) ∧
    ((∀ e ∈ es, e.pub ≠ q.beforePub) → histScan q es q.fromPub q.afterPub false = es) := by
  have hscan : histScan q es q.fromPub q.afterPub false = es.takeWhile (fun e => e.pub != q.beforePub) := by
    rw [C20_query_scan]
    unfold scanSpec
    rw [hP.1, hP.2.1, hP.2.2.2, fromStage_zero, afterStage_zero, untilStage_zero,
      filter_timeOk_none q hT, filter_topicOk_none q htopic]
    unfold beforeStage; rw [if_neg hP.2.2.1]
  rw [hscan]
  constructor
  · rintro pre f post rfl hf
    exact takeWhile_decomp _ pre post f hf (hf ▸ pre_ne_of_nodup hn)
  · exact takeWhile_absent _ es

/-- `until_publication = x` alone: `pre ++ [f]` (up to and including `f`); ALL entries if `x` is
    absent. -/
theorem C20_query_until_publication (q : HistQuery) (es : List HistEntry)
    (hT : q.fromT = none ∧ q.afterT = none ∧ q.beforeT = none ∧ q.untilT = none) (htopic : q.topic = "")
    (hP : q.fromPub = 0 ∧ q.afterPub = 0 ∧ q.beforePub = 0 ∧ q.untilPub ≠ 0)
    (hn : (es.map (·.pub)).Nodup) :
    (∀ pre f post, es = pre ++ f :: post → f.pub = q.untilPub →
        histScan q es q.fromPub q.afterPub false = pre ++ [f]) ∧
    ((∀ e ∈ es, e.pub ≠ q.untilPub) → histScan q es q.fromPub q.afterPub false = es) := by
  have hscan : histScan q es q.fromPub q.afterPub false =
      es.takeWhile (fun e => e.pub != q.untilPub) ++ (es.dropWhile (fun e => e.pub != q.untilPub)).take 1 := by
    rw [C20_query_scan]
    unfold scanSpec
    rw [hP.1, hP.2.1, hP.2.2.1, fromStage_zero, afterStage_zero, beforeStage_zero,
      filter_timeOk_none q hT, filter_topicOk_none q htopic]
    unfold untilStage; rw [if_neg hP.2.2.2]
  rw [hscan]
  constructor
  · rintro pre f post rfl hf
    rw [takeWhile_decomp _ pre post f hf (hf ▸ pre_ne_of_nodup hn),
      dropWhile_decomp _ pre post f hf (hf ▸ pre_ne_of_nodup hn)]
    rfl
  · intro h; rw [takeWhile_absent _ es h, dropWhile_absent _ es h]; simp

/-- non-vacuity for the four publication clauses: a store with distinct ids, split at publication 12 -/
example : ∃ (es pre post : List HistEntry) (f : HistEntry), es = pre ++ f :: post ∧ f.pub = 12 ∧
    (es.map (·.pub)).Nodup ∧ pre ≠ [] ∧ post ≠ [] :=
  ⟨retained exS0 exSteps, [retainedEntry exS0 1 (exPub 10 [])], [retainedEntry exS0 4 (exPub 13 [])],
    retainedEntry exS0 3 (exPub 12 []), by rfl, rfl, by decide, by simp, by simp⟩

/-- The meta procedure `wamp.subscription.get_events`, called with a valid subscription id and valid
    keyword arguments on a subscription that exists and has a store, answers YIELD with exactly
    `histAnswer q store` (each entry rendered with its subscription id, publication id, details,
    arguments and keyword arguments) and does not change the realm. -/
theorem C20_query_metaProc (r : Realm) (req : Nat) (details : Dict) (a : WVal) (rest : List WVal) (kw : Dict)
    (id : Nat) (q : HistQuery) (h : Hist) (ha : a.asID = some id) (hq : histQuery? kw = some q)
    (hsub : (r.broker.findId id).isSome = true) (hh : r.broker.hist.find? (fun h => h.sub == id) = some h) :
    metaProc r MetaProcEventHistory req details (a :: rest) kw =
      (mYield req ((histAnswer q h.entries).map histEntryVal)
        [("is_limit_reached", .bool (h.entries.length ≥ h.limit))], r) :=
  metaProc_history r req details a rest kw id q h ha hq hsub hh

example : histQuery? [("limit", .int 2), ("reverse", .bool true)] =
    some { limit := 2, reverse := true } := by rfl

end Nexus.C20
