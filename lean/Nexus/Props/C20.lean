/-
  C20 — Event history returns the retained publications, and only those (broker + meta API, L2).

  Property text.  "For a topic or pattern configured with event history of limit N,
  wamp.subscription.get_events on its subscription returns the most recent at most N publications
  matching it, oldest first (newest first when reversed), each with its original publication id,
  arguments and topic, and never a publication that was restricted to particular receivers by
  exclude/eligible session lists; filters (limit, time and publication-id bounds, topic) select
  exactly the entries they describe, whichever transport and serializer the asking client uses.
  Retention does not depend on who is subscribed: history is kept with no subscriber present and
  survives subscribers coming and going."

  Model: `Nexus.L2.Broker` (`preInit`, `syncPubEvent`/`Hist.save`, subscription deletion) and the
  `MetaProcEventHistory` branch of `Nexus.L2.Realm.metaProc` (`histScan`, `takeLast`).  Declarative
  vocabulary: Nexus/L2/Proofs/BrokerSpec.lean (`BStep`, `Broker.run`, `retained`, `retainedEntry`,
  `lastN`) and Nexus/L2/Proofs/BrokerQuerySpec.lean (`timeOk`, `topicOk`, the four `*Stage`s,
  `scanSpec`, `histAnswer`).  "Restricted" is read as the code reads it: the options contain the
  key `exclude` or the key `eligible` (whatever the value); `exclude_<attr>`/`eligible_<attr>` alone
  do not keep a publication out of the history.

  clause                                                              theorem
  ------------------------------------------------------------------  -----------------------------------
  a configured (topic, policy, N) has a store and a subscription      C20_configured
  after ANY sequence of publish/subscribe/unsubscribe/remove steps
    from the pre-initialised broker the store still exists, is the
    only one of its subscription, its subscription still exists
    (never removed, never orphaned), and its entries are the last N
    (oldest first) of the matching unrestricted publications           C20_retention
  the same as an invariant over an explicit ghost list, from any
    state satisfying BrokerInv                                         C20_retention_invariant
  each entry: publication id, args, kw of the publication;
    details.topic present iff the subscription is pattern-based        C20_entry_content
  retention is independent of who is subscribed                       C20_independent_of_subscribers
  scan of get_events = declarative pipeline, for EVERY query           C20_query_scan
  answer = scan, then last `limit`, then reversed iff `reverse`        C20_query_answer
  only limit/reverse: most recent min(limit,len), oldest first,
    reversed iff `reverse`                                             C20_query_limit_reverse
  time bounds and topic (no publication bounds): exactly the entries
    with from ≤ t, after < t, t < before, t ≤ until, details.topic = it C20_query_time_topic
  from/after/before/until_publication (distinct publication ids),
    including what happens when the named publication is absent        C20_query_from_publication, C20_query_after_publication,
                                                                       C20_query_before_publication, C20_query_until_publication
  the meta procedure answers with exactly that, rendered per entry     C20_query_metaProc
  "and only those": for EVERY query the answer (read backwards when
    `reverse`) is a sub-list of the store: entries of that store,
    each at most once, in store order                                  C20_scan_sublist, C20_answer_sublist, C20_answer_mem,
                                                                       C20_query_metaProc_sublist (meta procedure level)
  … hence no answered entry carries a publisher key (C12)              C20_answer_no_identity
  `topic` filter, read as the property text reads it ("entries of
    publications to that topic"): TRUE for every subscription
    (Go fix 30f858f: the entries of an exact-match subscription
    store no `details.topic`; their topic is the subscription's,
    which the handler hands to the scan as `q.subTopic`): for an
    exact-match subscription get_events(sub, topic = its own topic)
    answers what it answers without `topic`, any other topic nothing    C20_topic_filter_full (def), C20_topic_filter_full_holds,
                                                                       C20_topic_filter_pattern, C20_topic_filter_exact,
                                                                       C20_topic_filter_exact_scan, C20_topic_filter_exact_metaProc,
                                                                       C20_topic_filter_scan (list level, any subscription)
  the caller cannot set `subTopic`: the parser leaves it empty,
    the handler fills in the topic of the subscription queried         C20_histQuery_subTopic, C20_query_metaProc
  argument parsing: what each keyword argument is parsed to; the
    parser fails exactly on the listed malformations; well-formed
    arguments always parse                                             C20_histQuery_spec, C20_histQuery_none_iff, C20_histQuery_total
  other branches of the meta procedure: no argument / first argument
    not an id / malformed kwargs ⇒ ERROR invalid_argument, state
    unchanged; unknown subscription or subscription without store ⇒
    empty list, is_limit_reached = false                               C20_query_metaProc_errors, C20_query_metaProc_nostore
  REALM LEVEL (every `Realm.Reachable cfg r`; Nexus/L2/Proofs/WpAEvo.lean, WpARealm.lean):
  the realm's broker IS a `Broker.run` of steps from the
    pre-initialised broker; its publish steps carry strictly
    increasing ids drawn from the realm's counter and payload-passthru
    details without `topic` / publisher keys                           C20_reachable_run
  stored publication ids are strictly increasing, hence distinct
    (the `Nodup` hypothesis of the four publication-bound clauses),
    and below pubBase + pubCount                                       C20_store_pubs_nodup
  retention for a configured (topic, policy, N) in every reachable
    realm state (N > 0 follows from the configuration check)           C20_retention_realm
  the four publication-bound clauses for every store of a reachable
    realm, no side condition left                                      C20_query_publication_realm
  the topic filter for every configured store of a reachable realm,
    any policy, no side condition left                                 C20_topic_filter_realm
  no get_events answer in a reachable realm carries a publisher key    C20_answer_no_identity_realm

  What the pipeline of `C20_query_scan` says about COMBINED bounds (this is what the code does):
  the time bounds are applied first and hide entries from the publication bounds — a
  `from_publication`/`after_publication` naming an entry outside the time window is "absent" and the
  answer is empty; `after_publication` is searched only from the `from_publication` entry on;
  `before_publication` cuts before `until_publication` is looked at; the `topic` filter is applied
  last and does not hide an entry from the publication bounds.
  Explicit assumptions: N > 0 (`0 < h.limit`; the realm configuration check guarantees it);
  publication ids in a store distinct for the four `*_publication` clauses (`Fresh` ids) — discharged
  for every reachable realm by `C20_store_pubs_nodup`.
-/
import Nexus.L2.Proofs.BrokerHist
import Nexus.L2.Proofs.BrokerQuery
import Nexus.L2.Proofs.WpARealm
import Nexus.L2.Proofs.WpABkC20

namespace Nexus.C20
open Nexus.L2 Gen.N
open Realm (HistQuery histScan takeLast histEntryVal histQuery? metaProc mYield)

/-! ### a concrete history used by the `example`s -/

def exCfg : List (String × String × Nat) := [("t", "exact", 2), ("a.", "prefix", 3)]
def exB0 : Broker := ({} : Broker).preInit exCfg
def exPub (n : Nat) (opts : Dict) : Publication :=
  { publisher := 1, pubDetails := [], topic := "t", pubId := n, args := [.int n], kw := [], opts := opts,
    excludePub := true, disclose := false, baseDetails := [] }
def noSess : SessKey → Option Session := fun _ => none
/-- publications 10, 11 (restricted), 12, 13 on "t", with a subscriber coming, going, leaving -/
def exSteps : List BStep :=
  [.publish noSess 1 (exPub 10 []), .subscribe 5 1 "t" "exact" 0, .publish noSess 2 (exPub 11 [("exclude", .list [])]),
   .unsubscribe 5 2 1 0, .publish noSess 3 (exPub 12 []), .subscribe 6 1 "t" "exact" 0, .removeSession 6 0,
   .publish noSess 4 (exPub 13 [])]
def exH0 : Hist := { sub := 1, limit := 2, entries := [] }
def exS0 : Sub := { id := 1, topic := "t", «match» := "exact", members := [] }

theorem exB0_hist : exB0.hist = [exH0, { sub := 2, limit := 3, entries := [] }] := by rfl
theorem exB0_subs : exB0.subs = [exS0, { id := 2, topic := "a.", «match» := "prefix", members := [] }] := by rfl

/-! ### retention -/

/-- A configured (topic, policy, limit) — the last entry of the configuration naming that (topic,
    policy) — has, in the broker the realm starts with, an empty store with that limit on a
    subscription with that topic and policy. -/
theorem C20_configured (strict allowDisclose : Bool) (pre post : List (String × String × Nat))
    (topic m : String) (limit : Nat)
    (hlast : ∀ c ∈ post, ¬(c.1 = topic ∧ matchKind c.2.1 = matchKind m)) :
    ∃ h ∈ (({ strict := strict, allowDisclose := allowDisclose } : Broker).preInit
              (pre ++ (topic, m, limit) :: post)).hist,
    ∃ s ∈ (({ strict := strict, allowDisclose := allowDisclose } : Broker).preInit
              (pre ++ (topic, m, limit) :: post)).subs,
      s.id = h.sub ∧ h.limit = limit ∧ h.entries = [] ∧ s.topic = topic ∧ s.kind = matchKind m :=
  preInit_has_store strict allowDisclose pre post topic m limit hlast

/-- Retention.  Let `h0` be a store of the pre-initialised broker, on subscription `s0`, with limit
    N > 0.  After ANY sequence of steps (publications by anybody, with any options and session
    tables; SUBSCRIBE / UNSUBSCRIBE / session removal of any session, i.e. arbitrary subscriber
    churn) the broker has exactly one store `h` for that subscription, with the same limit; the
    subscription still exists with the same id, topic and policy; and `h.entries` are the last N,
    oldest first, of `retained s0 steps`: the publications so far, in publish order, whose topic
    matches `s0` under its policy and whose options contain neither `exclude` nor `eligible`. -/
theorem C20_retention (strict allowDisclose : Bool) (cfg : List (String × String × Nat)) (steps : List BStep)
    {h0 : Hist} {s0 : Sub}
    (hh : h0 ∈ (({ strict := strict, allowDisclose := allowDisclose } : Broker).preInit cfg).hist)
    (hs : s0 ∈ (({ strict := strict, allowDisclose := allowDisclose } : Broker).preInit cfg).subs)
    (hid : s0.id = h0.sub) (hN : 0 < h0.limit) :
    ∃ h ∈ ((({ strict := strict, allowDisclose := allowDisclose } : Broker).preInit cfg).run steps).hist,
      h.sub = h0.sub ∧ h.limit = h0.limit ∧
      h.entries = lastN h0.limit (retained s0 steps) ∧
      (∀ h' ∈ ((({ strict := strict, allowDisclose := allowDisclose } : Broker).preInit cfg).run steps).hist,
          h'.sub = h0.sub → h' = h) ∧
      ∃ s ∈ ((({ strict := strict, allowDisclose := allowDisclose } : Broker).preInit cfg).run steps).subs,
        s.id = s0.id ∧ s.topic = s0.topic ∧ s.«match» = s0.«match» := by
  have hb := BrokerInv.preInit strict allowDisclose cfg
  have hempty : h0.entries = lastN h0.limit [] := by
    rw [preInit_entries cfg _ (by simp) h0 hh]; simp [lastN]
  obtain ⟨h, hm, e1, e2, e3, s, hsm, e4⟩ := run_store steps hb hh hs hid hN [] hempty
  refine ⟨h, hm, e1, e2, by simpa using e3, ?_, s, hsm, e4⟩
  intro h' hm' e
  exact hist_eq_of_sub_eq (hb.run steps).hist_nodup hm' hm (e.trans e1.symm)

/-- non-vacuity: the example configuration has the store and the subscription; the ghost list of the
    example history is publications 10, 12, 13 (11 carried `exclude`), so the store ends with 12, 13 —
    although the subscription had no subscriber at the first and the last publication. -/
example : exH0 ∈ exB0.hist ∧ exS0 ∈ exB0.subs ∧ exS0.id = exH0.sub ∧ 0 < exH0.limit := by
  rw [exB0_hist, exB0_subs]; simp [exS0, exH0]

example : (retained exS0 exSteps).map (·.pub) = [10, 12, 13] ∧
    (lastN exH0.limit (retained exS0 exSteps)).map (fun e => (e.pub, e.time)) = [(12, 3), (13, 4)] := by
  constructor <;> rfl

/-- The same as an invariant over an explicit ghost list `L`, from ANY state satisfying the broker
    invariant: if a store with limit N > 0 holds the last N of `L`, then after the steps it holds the
    last N of `L ++ retained s steps`, and store and subscription are still there. -/
theorem C20_retention_invariant {b : Broker} (hb : BrokerInv b) (steps : List BStep) {h : Hist} (hh : h ∈ b.hist)
    {s : Sub} (hs : s ∈ b.subs) (hid : s.id = h.sub) (hN : 0 < h.limit) (L : List HistEntry)
    (hL : h.entries = lastN h.limit L) :
    ∃ h' ∈ (b.run steps).hist, h'.sub = h.sub ∧ h'.limit = h.limit ∧
      h'.entries = lastN h.limit (L ++ retained s steps) ∧
      ∃ s' ∈ (b.run steps).subs, s'.id = s.id ∧ s'.topic = s.topic ∧ s'.«match» = s.«match» :=
  run_store steps hb hh hs hid hN L hL

/-- What a retained entry is: the publication's id, arguments and keyword arguments unchanged, the
    time of publication, the subscription's id; `details.topic` is the publication's topic iff the
    subscription is pattern-based (given that the payload-passthru details have no `topic`, as is the
    case for every publication the realm hands over: `Nexus.C01.C01_realm_base_has_no_topic`). -/
theorem C20_entry_content (s : Sub) (now : Nat) (p : Publication) :
    (retainedEntry s now p).pub = p.pubId ∧ (retainedEntry s now p).args = p.args ∧
    (retainedEntry s now p).kw = p.kw ∧ (retainedEntry s now p).time = now ∧
    (retainedEntry s now p).sub = s.id ∧
    (p.baseDetails.get? "topic" = none →
      ((retainedEntry s now p).details.get? "topic" = some (.str p.topic) ↔ s.isPattern = true) ∧
      (s.isPattern = false → (retainedEntry s now p).details.get? "topic" = none)) := by
  refine ⟨rfl, rfl, rfl, rfl, rfl, ?_⟩
  intro hbase
  rw [retainedEntry_topic]
  cases s.isPattern <;> simp [hbase]

/-- Retention does not depend on who is subscribed: what must be retained is determined by the
    publish steps alone, so two histories from the same configuration with the same publications —
    and any subscriber churn whatsoever in between — end with equal store contents. -/
theorem C20_independent_of_subscribers (strict allowDisclose : Bool) (cfg : List (String × String × Nat))
    (steps1 steps2 : List BStep)
    (hpub : steps1.filter BStep.isPublish = steps2.filter BStep.isPublish)
    {h0 : Hist} {s0 : Sub}
    (hh : h0 ∈ (({ strict := strict, allowDisclose := allowDisclose } : Broker).preInit cfg).hist)
    (hs : s0 ∈ (({ strict := strict, allowDisclose := allowDisclose } : Broker).preInit cfg).subs)
    (hid : s0.id = h0.sub) (hN : 0 < h0.limit) :
    ∃ h1 ∈ ((({ strict := strict, allowDisclose := allowDisclose } : Broker).preInit cfg).run steps1).hist,
    ∃ h2 ∈ ((({ strict := strict, allowDisclose := allowDisclose } : Broker).preInit cfg).run steps2).hist,
      h1.sub = h0.sub ∧ h2.sub = h0.sub ∧ h1.entries = h2.entries := by
  obtain ⟨h1, m1, a1, _, c1, _⟩ := C20_retention strict allowDisclose cfg steps1 hh hs hid hN
  obtain ⟨h2, m2, a2, _, c2, _⟩ := C20_retention strict allowDisclose cfg steps2 hh hs hid hN
  refine ⟨h1, m1, h2, m2, a1, a2, ?_⟩
  rw [c1, c2, retained_filter_publish s0 steps1, retained_filter_publish s0 steps2, hpub]

/-! ### queries -/

/-- For EVERY query (any combination of bounds) the scan loop of `subEventHistory` selects exactly
    the pipeline `scanSpec`: time bounds; then from_publication (from the first entry with that id
    on); then after_publication (after the first entry with that id); then before_publication
    (before the first such entry); then until_publication (up to and including it); then topic. -/
theorem C20_query_scan (q : HistQuery) (es : List HistEntry) :
    histScan q es q.fromPub q.afterPub false = scanSpec q es :=
  histScan_eq_scanSpec q es

/-- The answer: the scan result, cut to its last `limit` entries when a limit is given, reversed iff
    `reverse`. -/
theorem C20_query_answer (q : HistQuery) (es : List HistEntry) :
    histAnswer q es =
      (let r := if q.limit > 0 then lastN q.limit (scanSpec q es) else scanSpec q es
       if q.reverse then r.reverse else r) := by
  unfold histAnswer
  rw [C20_query_scan]
  rfl

/-- Only `limit` and `reverse`: the most recent min(limit, len) entries, oldest first; reversed iff
    `reverse`.  (Without `limit`: all entries.) -/
theorem C20_query_limit_reverse (q : HistQuery) (es : List HistEntry)
    (hT : q.fromT = none ∧ q.afterT = none ∧ q.beforeT = none ∧ q.untilT = none) (htopic : q.topic = "")
    (hP : q.fromPub = 0 ∧ q.afterPub = 0 ∧ q.beforePub = 0 ∧ q.untilPub = 0) :
    histAnswer q es =
      (if q.reverse then (if q.limit > 0 then lastN q.limit es else es).reverse
       else (if q.limit > 0 then lastN q.limit es else es)) ∧
    (lastN q.limit es).length = min q.limit es.length ∧
    (∃ older, es = older ++ lastN q.limit es) := by
  refine ⟨?_, lastN_length _ _, ⟨es.take (es.length - q.limit), (List.take_append_drop _ _).symm⟩⟩
  rw [C20_query_answer]
  unfold scanSpec
  rw [hP.1, hP.2.1, hP.2.2.1, hP.2.2.2, fromStage_zero, afterStage_zero, beforeStage_zero, untilStage_zero,
    filter_timeOk_none q hT, filter_topicOk_none q htopic]

example : ∃ q : HistQuery, (q.fromT = none ∧ q.afterT = none ∧ q.beforeT = none ∧ q.untilT = none) ∧
    q.topic = "" ∧ (q.fromPub = 0 ∧ q.afterPub = 0 ∧ q.beforePub = 0 ∧ q.untilPub = 0) ∧ q.limit = 2 ∧
    q.reverse = true := ⟨{ limit := 2, reverse := true }, by simp⟩

/-- Time bounds and topic, no publication bounds: exactly the entries (in store order, each once)
    with `from_time ≤ t`, `after_time < t`, `t < before_time`, `t ≤ until_time` for the bounds that
    are present, and — when `topic` is given — a publication topic equal to it (`topicIs q.subTopic`: the
    stored `details.topic`, or, for an entry without one, the topic `q.subTopic` of the subscription). -/
theorem C20_query_time_topic (q : HistQuery) (es : List HistEntry)
    (hP : q.fromPub = 0 ∧ q.afterPub = 0 ∧ q.beforePub = 0 ∧ q.untilPub = 0) :
    histScan q es q.fromPub q.afterPub false =
      es.filter (fun e =>
        (q.fromT.all (fun t => t ≤ e.time) && q.afterT.all (fun t => t < e.time) &&
         q.beforeT.all (fun t => e.time < t) && q.untilT.all (fun t => e.time ≤ t)) &&
        (q.topic == "" || topicIs q.subTopic e q.topic)) := by
  rw [C20_query_scan]
  unfold scanSpec
  rw [hP.1, hP.2.1, hP.2.2.1, hP.2.2.2, fromStage_zero, afterStage_zero, beforeStage_zero, untilStage_zero,
    List.filter_filter]
  apply List.filter_congr
  intro e _
  rw [Bool.and_comm]
  rfl

/-- `from_publication = x` alone, distinct publication ids: if the store is `pre ++ f :: post` with
    `f` the entry of publication `x`, the result is `f :: post`; if no entry has id `x`, nothing. -/
theorem C20_query_from_publication (q : HistQuery) (es : List HistEntry)
    (hT : q.fromT = none ∧ q.afterT = none ∧ q.beforeT = none ∧ q.untilT = none) (htopic : q.topic = "")
    (hP : q.fromPub ≠ 0 ∧ q.afterPub = 0 ∧ q.beforePub = 0 ∧ q.untilPub = 0)
    (hn : (es.map (·.pub)).Nodup) :
    (∀ pre f post, es = pre ++ f :: post → f.pub = q.fromPub →
        histScan q es q.fromPub q.afterPub false = f :: post) ∧
    ((∀ e ∈ es, e.pub ≠ q.fromPub) → histScan q es q.fromPub q.afterPub false = []) := by
  have hscan : histScan q es q.fromPub q.afterPub false = es.dropWhile (fun e => e.pub != q.fromPub) := by
    rw [C20_query_scan]
    unfold scanSpec
    rw [hP.2.1, hP.2.2.1, hP.2.2.2, afterStage_zero, beforeStage_zero, untilStage_zero,
      filter_timeOk_none q hT, filter_topicOk_none q htopic]
    unfold fromStage; rw [if_neg hP.1]
  rw [hscan]
  constructor
  · rintro pre f post rfl hf
    exact dropWhile_decomp _ pre post f hf (hf ▸ pre_ne_of_nodup hn)
  · exact dropWhile_absent _ es

/-- `after_publication = x` alone: `post` (the entries after `f`); nothing if `x` is absent. -/
theorem C20_query_after_publication (q : HistQuery) (es : List HistEntry)
    (hT : q.fromT = none ∧ q.afterT = none ∧ q.beforeT = none ∧ q.untilT = none) (htopic : q.topic = "")
    (hP : q.fromPub = 0 ∧ q.afterPub ≠ 0 ∧ q.beforePub = 0 ∧ q.untilPub = 0)
    (hn : (es.map (·.pub)).Nodup) :
    (∀ pre f post, es = pre ++ f :: post → f.pub = q.afterPub →
        histScan q es q.fromPub q.afterPub false = post) ∧
    ((∀ e ∈ es, e.pub ≠ q.afterPub) → histScan q es q.fromPub q.afterPub false = []) := by
  have hscan : histScan q es q.fromPub q.afterPub false =
      (es.dropWhile (fun e => e.pub != q.afterPub)).drop 1 := by
    rw [C20_query_scan]
    unfold scanSpec
    rw [hP.1, hP.2.2.1, hP.2.2.2, fromStage_zero, beforeStage_zero, untilStage_zero,
      filter_timeOk_none q hT, filter_topicOk_none q htopic]
    unfold afterStage; rw [if_neg hP.2.1]
  rw [hscan]
  constructor
  · rintro pre f post rfl hf
    rw [dropWhile_decomp _ pre post f hf (hf ▸ pre_ne_of_nodup hn)]; rfl
  · intro h; rw [dropWhile_absent _ es h]; rfl

/-- `before_publication = x` alone: `pre` (the entries before `f`); ALL entries if `x` is absent. -/
theorem C20_query_before_publication (q : HistQuery) (es : List HistEntry)
    (hT : q.fromT = none ∧ q.afterT = none ∧ q.beforeT = none ∧ q.untilT = none) (htopic : q.topic = "")
    (hP : q.fromPub = 0 ∧ q.afterPub = 0 ∧ q.beforePub ≠ 0 ∧ q.untilPub = 0)
    (hn : (es.map (·.pub)).Nodup) :
    (∀ pre f post, es = pre ++ f :: post → f.pub = q.beforePub →
        histScan q es q.fromPub q.afterPub false = pre) ∧
    ((∀ e ∈ es, e.pub ≠ q.beforePub) → histScan q es q.fromPub q.afterPub false = es) := by
  have hscan : histScan q es q.fromPub q.afterPub false = es.takeWhile (fun e => e.pub != q.beforePub) := by
    rw [C20_query_scan]
    unfold scanSpec
    rw [hP.1, hP.2.1, hP.2.2.2, fromStage_zero, afterStage_zero, untilStage_zero,
      filter_timeOk_none q hT, filter_topicOk_none q htopic]
    unfold beforeStage; rw [if_neg hP.2.2.1]
  rw [hscan]
  constructor
  · rintro pre f post rfl hf
    exact takeWhile_decomp _ pre post f hf (hf ▸ pre_ne_of_nodup hn)
  · exact takeWhile_absent _ es

/-- `until_publication = x` alone: `pre ++ [f]` (up to and including `f`); ALL entries if `x` is
    absent. -/
theorem C20_query_until_publication (q : HistQuery) (es : List HistEntry)
    (hT : q.fromT = none ∧ q.afterT = none ∧ q.beforeT = none ∧ q.untilT = none) (htopic : q.topic = "")
    (hP : q.fromPub = 0 ∧ q.afterPub = 0 ∧ q.beforePub = 0 ∧ q.untilPub ≠ 0)
    (hn : (es.map (·.pub)).Nodup) :
    (∀ pre f post, es = pre ++ f :: post → f.pub = q.untilPub →
        histScan q es q.fromPub q.afterPub false = pre ++ [f]) ∧
    ((∀ e ∈ es, e.pub ≠ q.untilPub) → histScan q es q.fromPub q.afterPub false = es) := by
  have hscan : histScan q es q.fromPub q.afterPub false =
      es.takeWhile (fun e => e.pub != q.untilPub) ++ (es.dropWhile (fun e => e.pub != q.untilPub)).take 1 := by
    rw [C20_query_scan]
    unfold scanSpec
    rw [hP.1, hP.2.1, hP.2.2.1, fromStage_zero, afterStage_zero, beforeStage_zero,
      filter_timeOk_none q hT, filter_topicOk_none q htopic]
    unfold untilStage; rw [if_neg hP.2.2.2]
  rw [hscan]
  constructor
  · rintro pre f post rfl hf
    rw [takeWhile_decomp _ pre post f hf (hf ▸ pre_ne_of_nodup hn),
      dropWhile_decomp _ pre post f hf (hf ▸ pre_ne_of_nodup hn)]
    rfl
  · intro h; rw [takeWhile_absent _ es h, dropWhile_absent _ es h]; simp

/-- non-vacuity for the four publication clauses: a store with distinct ids, split at publication 12 -/
example : ∃ (es pre post : List HistEntry) (f : HistEntry), es = pre ++ f :: post ∧ f.pub = 12 ∧
    (es.map (·.pub)).Nodup ∧ pre ≠ [] ∧ post ≠ [] :=
  ⟨retained exS0 exSteps, [retainedEntry exS0 1 (exPub 10 [])], [retainedEntry exS0 4 (exPub 13 [])],
    retainedEntry exS0 3 (exPub 12 []), by rfl, rfl, by decide, by simp, by simp⟩

/-- The meta procedure `wamp.subscription.get_events`, called with a valid subscription id and valid
    keyword arguments on a subscription `s` that exists and has a store, answers YIELD with exactly
    `histAnswer q' store` — where `q'` is the parsed query `q` with `subTopic` set to the topic of `s` —
    (each entry rendered with its subscription id, publication id, details, arguments and keyword
    arguments) and does not change the realm. -/
theorem C20_query_metaProc (r : Realm) (req : Nat) (details : Dict) (a : WVal) (rest : List WVal) (kw : Dict)
    (id : Nat) (q : HistQuery) (h : Hist) (s : Sub) (ha : a.asID = some id) (hq : histQuery? kw = some q)
    (hsub : r.broker.findId id = some s) (hh : r.broker.hist.find? (fun h => h.sub == id) = some h) :
    metaProc r MetaProcEventHistory req details (a :: rest) kw =
      (mYield req ((histAnswer { q with subTopic := s.topic } h.entries).map histEntryVal)
        [("is_limit_reached", .bool (h.entries.length ≥ h.limit))], r) := by
  rw [metaProc_history r req details a rest kw id q h ha hq (by rw [hsub]; rfl) hh]
  unfold subQuery
  rw [hsub]
  rfl

/-- the caller has no say in `subTopic`: whatever the keyword arguments, the parser leaves it empty -/
theorem C20_histQuery_subTopic (kw : Dict) (q : HistQuery) (h : histQuery? kw = some q) : q.subTopic = "" := by
  rw [Nexus.L2.WpA.histQuery?_eq] at h
  split at h
  · split at h
    · split at h
      · cases h
      · cases h; rfl
    · cases h; rfl
  · cases h

example : histQuery? [("limit", .int 2), ("reverse", .bool true)] =
    some { limit := 2, reverse := true } := by rfl

/-! ### "and only those": the answer is a sub-list of the store (work package A, audit C20-G5) -/

theorem fromStage_sublist (x : Nat) (l : List HistEntry) : (fromStage x l).Sublist l := by
  unfold fromStage; split
  · exact List.Sublist.refl _
  · exact List.dropWhile_sublist _

theorem afterStage_sublist (x : Nat) (l : List HistEntry) : (afterStage x l).Sublist l := by
  unfold afterStage; split
  · exact List.Sublist.refl _
  · exact (List.drop_sublist _ _).trans (List.dropWhile_sublist _)

theorem beforeStage_sublist (x : Nat) (l : List HistEntry) : (beforeStage x l).Sublist l := by
  unfold beforeStage; split
  · exact List.Sublist.refl _
  · exact List.takeWhile_sublist _

theorem untilStage_sublist (x : Nat) (l : List HistEntry) : (untilStage x l).Sublist l := by
  unfold untilStage; split
  · exact List.Sublist.refl _
  · have h : (l.takeWhile (fun e => e.pub != x) ++ (l.dropWhile (fun e => e.pub != x)).take 1).Sublist
        (l.takeWhile (fun e => e.pub != x) ++ l.dropWhile (fun e => e.pub != x)) :=
      List.Sublist.append (List.Sublist.refl _) (List.take_sublist _ _)
    rwa [List.takeWhile_append_dropWhile] at h

/-- every stage of the pipeline only removes entries -/
theorem C20_scan_sublist (q : HistQuery) (es : List HistEntry) : (scanSpec q es).Sublist es := by
  unfold scanSpec
  exact (List.filter_sublist).trans ((untilStage_sublist _ _).trans ((beforeStage_sublist _ _).trans
    ((afterStage_sublist _ _).trans ((fromStage_sublist _ _).trans List.filter_sublist))))

/-- "… and only those", list level.  For EVERY query the entries answered are entries of the store,
    each at most once, in store order — after undoing the reversal when `reverse` was asked for. -/
theorem C20_answer_sublist (q : HistQuery) (es : List HistEntry) :
    (if q.reverse then (histAnswer q es).reverse else histAnswer q es).Sublist es := by
  have hr : (if q.limit > 0 then lastN q.limit (scanSpec q es) else scanSpec q es).Sublist es := by
    split
    · exact (List.drop_sublist _ _).trans (C20_scan_sublist q es)
    · exact C20_scan_sublist q es
  rw [C20_query_answer]
  cases hrev : q.reverse
  · simpa using hr
  · simpa using hr

/-- consequence: every answered entry is an entry of the store -/
theorem C20_answer_mem (q : HistQuery) (es : List HistEntry) : ∀ e ∈ histAnswer q es, e ∈ es := by
  intro e he
  have h := C20_answer_sublist q es
  cases hrev : q.reverse
  · rw [hrev] at h; exact h.subset he
  · rw [hrev] at h; exact h.subset (List.mem_reverse.mpr he)

/-- consequence for C12 ("get_events answers never reveal the publisher", audit C12-a6): if no entry
    of the store carries a publisher key (`Nexus.C12.C12_history_no_identity`), no answered entry does. -/
theorem C20_answer_no_identity (q : HistQuery) (es : List HistEntry)
    (hclean : ∀ e ∈ es, ∀ key, isPublisherKey key → e.details.get? key = none) :
    ∀ e ∈ histAnswer q es, ∀ key, isPublisherKey key → e.details.get? key = none :=
  fun e he => hclean e (C20_answer_mem q es e he)

/-- The same at the level of the meta procedure: a well-formed `wamp.subscription.get_events` call on
    an existing subscription with store `h` answers the list `ans.map histEntryVal` where `ans`
    (read backwards when `reverse` was requested) is a sub-list of `h.entries`; in particular every
    value in the answer is the rendering of an entry of THAT subscription's store. -/
theorem C20_query_metaProc_sublist (r : Realm) (req : Nat) (details : Dict) (a : WVal) (rest : List WVal) (kw : Dict)
    (id : Nat) (q : HistQuery) (h : Hist) (s : Sub) (ha : a.asID = some id) (hq : histQuery? kw = some q)
    (hsub : r.broker.findId id = some s) (hh : r.broker.hist.find? (fun h => h.sub == id) = some h) :
    ∃ ans : List HistEntry,
      metaProc r MetaProcEventHistory req details (a :: rest) kw =
        (mYield req (ans.map histEntryVal) [("is_limit_reached", .bool (h.entries.length ≥ h.limit))], r) ∧
      (if q.reverse then ans.reverse else ans).Sublist h.entries ∧
      (∀ v ∈ ans.map histEntryVal, ∃ e ∈ h.entries, v = histEntryVal e) ∧
      h ∈ r.broker.hist ∧ h.sub = id :=
  ⟨histAnswer { q with subTopic := s.topic } h.entries, C20_query_metaProc r req details a rest kw id q h s ha hq hsub hh,
    C20_answer_sublist { q with subTopic := s.topic } h.entries,
    fun v hv => by
      obtain ⟨e, he, rfl⟩ := List.mem_map.mp hv
      exact ⟨e, C20_answer_mem { q with subTopic := s.topic } h.entries e he, rfl⟩,
    List.mem_of_find?_eq_some hh, by simpa using List.find?_some hh⟩

/-- a realm whose broker went through the example history -/
def exRealm : Realm := { broker := exB0.run exSteps }

/-- by `C20_retention`: subscription 1 of `exRealm` exists and its store is found, with limit 2 and
    the last two retained publications (12 and 13) -/
theorem exRealm_store : ∃ h, exRealm.broker.hist.find? (fun h => h.sub == 1) = some h ∧ h.limit = 2 ∧
    h.entries = lastN 2 (retained exS0 exSteps) ∧ ∃ s, exRealm.broker.findId 1 = some s ∧ s.topic = "t" := by
  have hh : exH0 ∈ (({ strict := false, allowDisclose := false } : Broker).preInit exCfg).hist := by
    show exH0 ∈ exB0.hist
    rw [exB0_hist]; simp
  have hs : exS0 ∈ (({ strict := false, allowDisclose := false } : Broker).preInit exCfg).subs := by
    show exS0 ∈ exB0.subs
    rw [exB0_subs]; simp
  obtain ⟨h, hm, e1, e2, e3, huniq, s, hsm, e4, e5, _⟩ :=
    C20_retention false false exCfg exSteps hh hs rfl (by decide)
  have hinv : BrokerInv exRealm.broker := (BrokerInv.preInit false false exCfg).run exSteps
  refine ⟨h, ?_, e2, e3, ?_⟩
  · cases hf : exRealm.broker.hist.find? (fun h => h.sub == 1) with
    | none =>
      have := List.find?_eq_none.mp hf h hm
      have e1' : h.sub = 1 := e1
      exact absurd (by simp [e1']) this
    | some h' =>
      have h1 := List.mem_of_find?_eq_some hf
      have h2 := List.find?_some hf
      rw [huniq h' h1 (show h'.sub = 1 by simpa using h2)]
  · have := findId_of_mem hinv.ids_nodup hsm
    rw [e4] at this
    rw [show exS0.id = 1 from rfl] at this
    exact ⟨s, this, e5⟩

/-- non-vacuity: the query `limit = 1, reverse` on subscription 1 of `exRealm` is well-formed, finds
    the store (entries 12, 13) and is answered with the single entry 13. -/
example : (WVal.int 1).asID = some 1 ∧
    histQuery? [("limit", .int 1), ("reverse", .bool true)] = some { limit := 1, reverse := true } ∧
    (∃ h, exRealm.broker.hist.find? (fun h => h.sub == 1) = some h ∧ h.entries.map (·.pub) = [12, 13] ∧
      ∃ s, exRealm.broker.findId 1 = some s ∧ s.topic = "t") ∧
    (histAnswer { limit := 1, reverse := true, subTopic := "t" }
      (lastN 2 (retained exS0 exSteps))).map (·.pub) = [13] := by
  obtain ⟨h, h1, _, h3, h4⟩ := exRealm_store
  exact ⟨by decide, by rfl, ⟨h, h1, by rw [h3]; rfl, h4⟩, by rfl⟩

/-! ### the `topic` filter (work package A, audit C20-G4; Go fix 30f858f) -/

/-- an exact-match subscription matches exactly its own topic -/
theorem exact_matchesTopic {s : Sub} (hp : s.isPattern = false) (t : String) :
    s.matchesTopic t = true ↔ s.topic = t := by
  unfold Sub.isPattern at hp
  unfold Sub.matchesTopic
  cases hk : s.kind <;> simp [hk] at hp ⊢

/-- FULL statement of "the topic filter selects exactly the entries it describes", read as the
    property text reads it: an entry retained for publication `p` in the store of subscription `s`
    passes the filter `topic = t` of a query on `s` (the handler sets `subTopic := s.topic`) iff `p` was
    published to `t`. -/
def C20_topic_filter_full : Prop :=
  ∀ (s : Sub) (now : Nat) (p : Publication) (t : String),
    p.baseDetails.get? "topic" = none → s.matchesTopic p.topic = true →
    (topicIs s.topic (retainedEntry s now p) t = true ↔ p.topic = t)

/-- for a pattern-based subscription (prefix, wildcard) the stored `details.topic` decides, whatever
    the subscription's own topic (a pattern) is -/
theorem C20_topic_filter_pattern (s : Sub) (now : Nat) (p : Publication) (t : String)
    (hp : s.isPattern = true) (sub : String) :
    topicIs sub (retainedEntry s now p) t = true ↔ p.topic = t := by
  unfold topicIs
  rw [retainedEntry_topic, hp]
  simp

/-- for an EXACT-match subscription the stored details carry no `topic` key (given that the
    payload-passthru details have none, as for every publication the realm hands over), and an entry
    passes the filter `topic = t` iff `t` is the subscription's own topic: the subscription's own topic
    selects every entry, any other topic none. -/
theorem C20_topic_filter_exact (s : Sub) (now : Nat) (p : Publication) (t : String)
    (hp : s.isPattern = false) (hbase : p.baseDetails.get? "topic" = none) :
    topicIs s.topic (retainedEntry s now p) t = (s.topic == t) := by
  unfold topicIs
  rw [retainedEntry_topic, hp]
  simp only [Bool.false_eq_true, if_false, hbase]

/-- The full statement HOLDS (before the Go fix 30f858f it was false for exact-match subscriptions:
    the former witness `C20_topic_filter_full_fails`). -/
theorem C20_topic_filter_full_holds : C20_topic_filter_full := by
  intro s now p t hbase hm
  cases hp : s.isPattern
  · rw [C20_topic_filter_exact s now p t hp hbase]
    have := (exact_matchesTopic hp p.topic).mp hm
    rw [← this]
    simp
  · exact C20_topic_filter_pattern s now p t hp s.topic

/-- non-vacuity: the former counterexample — the exact-match subscription `exS0` on "t" retains
    publication 10 (published to "t"); its entry passes `topic = "t"` and not `topic = "u"` -/
example : exS0.isPattern = false ∧ (exPub 10 []).baseDetails.get? "topic" = none ∧
    exS0.matchesTopic (exPub 10 []).topic = true ∧
    topicIs exS0.topic (retainedEntry exS0 1 (exPub 10 [])) "t" = true ∧
    topicIs exS0.topic (retainedEntry exS0 1 (exPub 10 [])) "u" = false := by
  refine ⟨by decide, by rfl, by decide, by rfl, by rfl⟩

/-- list level, ANY subscription: on a store whose entries are retained entries of subscription `s`
    (`C20_retention`), queried with `subTopic = s.topic` (what the handler does), the scan selects,
    after the time and publication bounds, exactly the entries retained for publications to `q.topic`. -/
theorem C20_topic_filter_scan (q : HistQuery) (s : Sub) (steps : List BStep) (n : Nat)
    (hq : q.subTopic = s.topic) (ht : q.topic ≠ "")
    (hbase : ∀ sess now p, BStep.publish sess now p ∈ steps → p.baseDetails.get? "topic" = none) :
    ∀ e ∈ lastN n (retained s steps), topicOk q e = true ↔
      ∃ sess now p, BStep.publish sess now p ∈ steps ∧ s.matchesTopic p.topic = true ∧
        e = retainedEntry s now p ∧ p.topic = q.topic := by
  have key : ∀ e ∈ retained s steps, ∃ sess now p, BStep.publish sess now p ∈ steps ∧
      s.matchesTopic p.topic = true ∧ e = retainedEntry s now p := by
    intro e he
    induction steps with
    | nil => cases he
    | cons st rest ih =>
      have ih' := fun h => ih (fun sess now p hm => hbase sess now p (List.mem_cons_of_mem _ hm)) h
      cases st with
      | publish sess now p =>
        unfold retained at he
        split at he
        · rename_i hc
          rcases List.mem_cons.mp he with rfl | he
          · simp only [Bool.and_eq_true] at hc
            exact ⟨sess, now, p, List.mem_cons_self .., hc.1.1, rfl⟩
          · obtain ⟨a, b, c, h1, h2, h3⟩ := ih' he
            exact ⟨a, b, c, List.mem_cons_of_mem _ h1, h2, h3⟩
        · obtain ⟨a, b, c, h1, h2, h3⟩ := ih' he
          exact ⟨a, b, c, List.mem_cons_of_mem _ h1, h2, h3⟩
      | subscribe a b c d e' =>
        obtain ⟨a', b', c', h1, h2, h3⟩ := ih' (by unfold retained at he; exact he)
        exact ⟨a', b', c', List.mem_cons_of_mem _ h1, h2, h3⟩
      | unsubscribe a b c d =>
        obtain ⟨a', b', c', h1, h2, h3⟩ := ih' (by unfold retained at he; exact he)
        exact ⟨a', b', c', List.mem_cons_of_mem _ h1, h2, h3⟩
      | removeSession a b =>
        obtain ⟨a', b', c', h1, h2, h3⟩ := ih' (by unfold retained at he; exact he)
        exact ⟨a', b', c', List.mem_cons_of_mem _ h1, h2, h3⟩
  intro e he
  obtain ⟨sess, now, p, hm, hmt, rfl⟩ := key e ((List.drop_sublist _ _).subset he)
  have hb := hbase sess now p hm
  unfold topicOk
  rw [hq]
  have hne : (q.topic == "") = false := by simpa using ht
  rw [hne, Bool.false_or]
  constructor
  · intro h; exact ⟨sess, now, p, hm, hmt, rfl, (C20_topic_filter_full_holds s now p q.topic hb hmt).mp h⟩
  · rintro ⟨sess', now', p', hm', hmt', he', ht'⟩
    rw [he']
    exact (C20_topic_filter_full_holds s now' p' q.topic (hbase sess' now' p' hm') hmt').mpr ht'

/-- the stages before the topic filter do not look at `topic` -/
theorem scanSpec_topic_congr (q : HistQuery) (es : List HistEntry) :
    scanSpec q es = (scanSpec { q with topic := "" } es).filter (topicOk q) := by
  unfold scanSpec
  rw [filter_topicOk_none { q with topic := "" } rfl]
  rfl

/-- list level, EXACT-match subscription: on the store of an exact-match subscription whose entries are
    retained entries (`C20_retention`), queried with `subTopic = s.topic`: the subscription's own topic
    selects every entry — the answer is the one without the `topic` argument, whatever the other bounds —
    and any other topic selects none. -/
theorem C20_topic_filter_exact_scan (q : HistQuery) (s : Sub) (es : List HistEntry)
    (hs : s.isPattern = false) (hq : q.subTopic = s.topic)
    (hes : ∀ e ∈ es, ∃ now p, p.baseDetails.get? "topic" = none ∧ e = retainedEntry s now p) :
    (q.topic = s.topic → histAnswer q es = histAnswer { q with topic := "" } es) ∧
    (q.topic ≠ "" → q.topic ≠ s.topic → histAnswer q es = []) := by
  have hmem : ∀ e ∈ scanSpec { q with topic := "" } es, e ∈ es := fun e he => (C20_scan_sublist _ es).subset he
  have hok : ∀ e ∈ es, topicOk q e = (q.topic == "" || s.topic == q.topic) := by
    intro e he
    obtain ⟨now, p, hb, rfl⟩ := hes e he
    unfold topicOk
    rw [hq, C20_topic_filter_exact s now p q.topic hs hb]
  constructor
  · intro ht
    have hscan : scanSpec q es = scanSpec { q with topic := "" } es := by
      rw [scanSpec_topic_congr, List.filter_eq_self]
      intro e he
      rw [hok e (hmem e he), ht]; simp
    rw [C20_query_answer, C20_query_answer, hscan]
  · intro ht hne
    have hscan : scanSpec q es = [] := by
      rw [scanSpec_topic_congr, List.filter_eq_nil_iff]
      intro e he
      rw [hok e (hmem e he)]
      have h1 : (q.topic == "") = false := by simpa using ht
      have h2 : (s.topic == q.topic) = false := by simpa using fun e => hne e.symm
      rw [h1, h2]; simp
    rw [C20_query_answer, hscan]
    simp [lastN]

example : exS0.isPattern = false ∧ ({ topic := "t", subTopic := "t" } : HistQuery).subTopic = exS0.topic ∧
    (∀ e ∈ lastN 2 (retained exS0 exSteps), ∃ now p, p.baseDetails.get? "topic" = none ∧ e = retainedEntry exS0 now p) ∧
    lastN 2 (retained exS0 exSteps) ≠ [] := by
  refine ⟨by decide, rfl, ?_, by decide⟩
  intro e he
  have : e = retainedEntry exS0 3 (exPub 12 []) ∨ e = retainedEntry exS0 4 (exPub 13 []) := by
    have h2 : lastN 2 (retained exS0 exSteps) = [retainedEntry exS0 3 (exPub 12 []), retainedEntry exS0 4 (exPub 13 [])] := by rfl
    rw [h2] at he; simpa using he
  rcases this with rfl | rfl
  · exact ⟨3, exPub 12 [], rfl, rfl⟩
  · exact ⟨4, exPub 13 [], rfl, rfl⟩

/-- Concrete, at the level of the meta procedure: the configuration `exCfg` (history of limit 2 on
    the exact topic "t"), publications 10, 12, 13 to "t" retained (store = 12, 13); the call
    `wamp.subscription.get_events [1] {topic: "t"}` is answered with BOTH stored entries, exactly as
    the call without the `topic` argument; `{topic: "u"}` is answered with the empty list. -/
theorem C20_topic_filter_exact_metaProc (req : Nat) (details : Dict) :
    ∃ h, exRealm.broker.hist.find? (fun h => h.sub == 1) = some h ∧ h.entries.map (·.pub) = [12, 13] ∧
      metaProc exRealm MetaProcEventHistory req details [.int 1] [("topic", .str "t")] =
        (mYield req (h.entries.map histEntryVal) [("is_limit_reached", .bool true)], exRealm) ∧
      metaProc exRealm MetaProcEventHistory req details [.int 1] [] =
        (mYield req (h.entries.map histEntryVal) [("is_limit_reached", .bool true)], exRealm) ∧
      metaProc exRealm MetaProcEventHistory req details [.int 1] [("topic", .str "u")] =
        (mYield req [] [("is_limit_reached", .bool true)], exRealm) := by
  obtain ⟨h, hh, hl, he, s, hs, hst⟩ := exRealm_store
  have hlim : decide (h.entries.length ≥ h.limit) = true := by rw [he, hl]; rfl
  refine ⟨h, hh, by rw [he]; rfl, ?_, ?_, ?_⟩
  · rw [C20_query_metaProc exRealm req details (.int 1) [] [("topic", .str "t")] 1 { topic := "t" } h s
      (by decide) (by rfl) hs hh, hlim, he, hst]
    rfl
  · rw [C20_query_metaProc exRealm req details (.int 1) [] [] 1 {} h s (by decide) (by rfl) hs hh, hlim, he, hst]
    rfl
  · rw [C20_query_metaProc exRealm req details (.int 1) [] [("topic", .str "u")] 1 { topic := "u" } h s
      (by decide) (by rfl) hs hh, hlim, he, hst]
    rfl
/-! ### argument parsing of get_events (work package A, audit C20-G6) -/

open Nexus.L2.WpA (timeBound limRaw reverseArg timeArg pubArg histQuery?_eq)
open Realm (kwStr mErr)

def histTimeKeys : List String := ["from_time", "after_time", "before_time", "until_time"]
def histPubKeys : List String :=
  ["from_publication", "after_publication", "before_publication", "until_publication"]

/-- the publication bound denoted by key `k`: 0 (= no bound) when absent, else the id -/
def pubBound (kw : Dict) (k : String) : Nat :=
  match kw.get? k with
  | none => 0
  | some v => (v.asID).getD 0

/-- The malformed keyword arguments of `get_events`: `limit` present and not an integer ≥ 1;
    `reverse` present and not a boolean; one of the four `*_time` keys holding a string (the model
    treats every string as an unparsable time; real times travel as the placeholder `{"$ms": n}`);
    one of the four `*_publication` keys present and not a valid id. -/
def HistMalformed (kw : Dict) : Prop :=
  (∃ v, kw.get? "limit" = some v ∧ ∀ n : Int, v = .int n → n < 1) ∨
  (∃ v, kw.get? "reverse" = some v ∧ ∀ b, v ≠ .bool b) ∨
  (∃ k ∈ histTimeKeys, ∃ s, kw.get? k = some (.str s)) ∨
  (∃ k ∈ histPubKeys, ∃ v, kw.get? k = some v ∧ v.asID = none)

/-- `histQuery?` fails exactly on the malformed keyword arguments. -/
theorem C20_histQuery_none_iff (kw : Dict) : histQuery? kw = none ↔ HistMalformed kw := by
  rw [histQuery?_eq]
  constructor
  · intro h
    split at h
    · rename_i lim rev ft at_ bt ut fp ap bp up h1 h2 h3 h4 h5 h6 h7 h8 h9 h10
      split at h
      · rename_i l
        split at h
        · rename_i hl
          exact Or.inl ⟨_, Nexus.L2.WpA.limRaw_some_some.mp h1, fun n hn => by cases hn; exact hl⟩
        · exact absurd h (by simp)
      · exact absurd h (by simp)
    · rename_i hx
      rcases h1 : limRaw kw with _ | lim
      · obtain ⟨v, hv, hne⟩ := Nexus.L2.WpA.limRaw_none.mp h1
        exact Or.inl ⟨v, hv, fun n hn => absurd hn (hne n)⟩
      rcases h2 : reverseArg kw with _ | rev
      · exact Or.inr (Or.inl (Nexus.L2.WpA.reverseArg_none.mp h2))
      rcases h3 : timeArg kw "from_time" with _ | ft
      · exact Or.inr (Or.inr (Or.inl ⟨_, by simp [histTimeKeys], Nexus.L2.WpA.timeArg_none.mp h3⟩))
      rcases h4 : timeArg kw "after_time" with _ | at_
      · exact Or.inr (Or.inr (Or.inl ⟨_, by simp [histTimeKeys], Nexus.L2.WpA.timeArg_none.mp h4⟩))
      rcases h5 : timeArg kw "before_time" with _ | bt
      · exact Or.inr (Or.inr (Or.inl ⟨_, by simp [histTimeKeys], Nexus.L2.WpA.timeArg_none.mp h5⟩))
      rcases h6 : timeArg kw "until_time" with _ | ut
      · exact Or.inr (Or.inr (Or.inl ⟨_, by simp [histTimeKeys], Nexus.L2.WpA.timeArg_none.mp h6⟩))
      rcases h7 : pubArg kw "from_publication" with _ | fp
      · exact Or.inr (Or.inr (Or.inr ⟨_, by simp [histPubKeys], Nexus.L2.WpA.pubArg_none.mp h7⟩))
      rcases h8 : pubArg kw "after_publication" with _ | ap
      · exact Or.inr (Or.inr (Or.inr ⟨_, by simp [histPubKeys], Nexus.L2.WpA.pubArg_none.mp h8⟩))
      rcases h9 : pubArg kw "before_publication" with _ | bp
      · exact Or.inr (Or.inr (Or.inr ⟨_, by simp [histPubKeys], Nexus.L2.WpA.pubArg_none.mp h9⟩))
      rcases h10 : pubArg kw "until_publication" with _ | up
      · exact Or.inr (Or.inr (Or.inr ⟨_, by simp [histPubKeys], Nexus.L2.WpA.pubArg_none.mp h10⟩))
      exact (hx _ _ _ _ _ _ _ _ _ _ h1 h2 h3 h4 h5 h6 h7 h8 h9 h10).elim
  · intro h
    split
    · rename_i lim rev ft at_ bt ut fp ap bp up h1 h2 h3 h4 h5 h6 h7 h8 h9 h10
      rcases h with ⟨v, hv, hn⟩ | ⟨v, hv, hn⟩ | ⟨k, hk, s, hs⟩ | ⟨k, hk, v, hv, hn⟩
      · cases lim with
        | none =>
          have := Nexus.L2.WpA.limRaw_some_none.mp h1
          rw [this] at hv; exact absurd hv (by simp)
        | some l =>
          have := Nexus.L2.WpA.limRaw_some_some.mp h1
          rw [this] at hv
          have hl : l < 1 := hn l (by simpa using hv.symm)
          simp [hl]
      · have : reverseArg kw = none := Nexus.L2.WpA.reverseArg_none.mpr ⟨v, hv, hn⟩
        rw [this] at h2; exact absurd h2 (by simp)
      · have hnone : timeArg kw k = none := Nexus.L2.WpA.timeArg_none.mpr ⟨s, hs⟩
        simp only [histTimeKeys, List.mem_cons, List.not_mem_nil, or_false] at hk
        rcases hk with rfl | rfl | rfl | rfl
        · rw [hnone] at h3; exact absurd h3 (by simp)
        · rw [hnone] at h4; exact absurd h4 (by simp)
        · rw [hnone] at h5; exact absurd h5 (by simp)
        · rw [hnone] at h6; exact absurd h6 (by simp)
      · have hnone : pubArg kw k = none := Nexus.L2.WpA.pubArg_none.mpr ⟨v, hv, hn⟩
        simp only [histPubKeys, List.mem_cons, List.not_mem_nil, or_false] at hk
        rcases hk with rfl | rfl | rfl | rfl
        · rw [hnone] at h7; exact absurd h7 (by simp)
        · rw [hnone] at h8; exact absurd h8 (by simp)
        · rw [hnone] at h9; exact absurd h9 (by simp)
        · rw [hnone] at h10; exact absurd h10 (by simp)
    · rfl

/-- well-formed keyword arguments are always parsed -/
theorem C20_histQuery_total (kw : Dict) (h : ¬ HistMalformed kw) : ∃ q, histQuery? kw = some q := by
  cases hq : histQuery? kw with
  | none => exact absurd ((C20_histQuery_none_iff kw).mp hq) h
  | some q => exact ⟨q, rfl⟩

/-- What `histQuery?` parses, key by key.  `limit`: absent ⇒ 0 (no limit), an integer n ≥ 1 ⇒ n;
    `reverse`: absent ⇒ false, a boolean ⇒ it; the four time bounds: the placeholder `{"$ms": n}` ⇒
    `some n`, anything else that is not a string (or absent) ⇒ no bound; the four publication
    bounds: absent ⇒ 0 (no bound), else the id `asID` reads; `topic`: the string (else "" = no
    filter).  And nothing malformed was present. -/
theorem C20_histQuery_spec (kw : Dict) (q : HistQuery) (h : histQuery? kw = some q) :
    ((kw.get? "limit" = none ∧ q.limit = 0) ∨
      ∃ n : Int, kw.get? "limit" = some (.int n) ∧ 1 ≤ n ∧ q.limit = n.toNat) ∧
    ((kw.get? "reverse" = none ∧ q.reverse = false) ∨ kw.get? "reverse" = some (.bool q.reverse)) ∧
    q.fromT = timeBound kw "from_time" ∧ q.afterT = timeBound kw "after_time" ∧
    q.beforeT = timeBound kw "before_time" ∧ q.untilT = timeBound kw "until_time" ∧
    q.fromPub = pubBound kw "from_publication" ∧ q.afterPub = pubBound kw "after_publication" ∧
    q.beforePub = pubBound kw "before_publication" ∧ q.untilPub = pubBound kw "until_publication" ∧
    q.topic = kwStr kw "topic" ∧ ¬ HistMalformed kw := by
  have hmal : ¬ HistMalformed kw := fun hm => by
    rw [(C20_histQuery_none_iff kw).mpr hm] at h; exact absurd h (by simp)
  have hpub : ∀ k n, pubArg kw k = some n → n = pubBound kw k := by
    intro k n hk
    unfold pubBound
    rcases Nexus.L2.WpA.pubArg_some.mp hk with ⟨h1, h2⟩ | ⟨v, h1, h2⟩
    · rw [h1]; exact h2
    · rw [h1]; simp [h2]
  rw [histQuery?_eq] at h
  split at h
  · rename_i lim rev ft at_ bt ut fp ap bp up h1 h2 h3 h4 h5 h6 h7 h8 h9 h10
    have hrev := Nexus.L2.WpA.reverseArg_some.mp h2
    have e3 := Nexus.L2.WpA.timeArg_some h3
    have e4 := Nexus.L2.WpA.timeArg_some h4
    have e5 := Nexus.L2.WpA.timeArg_some h5
    have e6 := Nexus.L2.WpA.timeArg_some h6
    have e7 := hpub _ _ h7
    have e8 := hpub _ _ h8
    have e9 := hpub _ _ h9
    have e10 := hpub _ _ h10
    split at h
    · rename_i l
      split at h
      · exact absurd h (by simp)
      · rename_i hl
        have hq : q = _ := (Option.some.inj h).symm
        subst hq
        exact ⟨Or.inr ⟨l, Nexus.L2.WpA.limRaw_some_some.mp h1, by omega, rfl⟩, hrev, e3, e4, e5, e6, e7, e8, e9, e10,
          rfl, hmal⟩
    · have hq : q = _ := (Option.some.inj h).symm
      subst hq
      exact ⟨Or.inl ⟨Nexus.L2.WpA.limRaw_some_none.mp h1, rfl⟩, hrev, e3, e4, e5, e6, e7, e8, e9, e10, rfl, hmal⟩
  · exact absurd h (by simp)

/-- non-vacuity and the per-key failure cases of the specification, on concrete arguments -/
example : histQuery? [("limit", .int 3), ("reverse", .bool true), ("from_time", .dict [("$ms", .int 5)]),
      ("until_time", .null), ("after_publication", .int 12), ("topic", .str "a.b")] =
    some { limit := 3, reverse := true, fromT := some 5, afterPub := 12, topic := "a.b" } := by rfl
example : HistMalformed [("limit", .int 0)] ∧ HistMalformed [("limit", .str "3")] ∧
    HistMalformed [("reverse", .int 1)] ∧ HistMalformed [("before_time", .str "2024-01-01T00:00:00Z")] ∧
    HistMalformed [("until_publication", .int 0)] ∧ HistMalformed [("from_publication", .str "x")] ∧
    ¬ HistMalformed [("limit", .int 3), ("after_time", .int 7)] := by
  refine ⟨Or.inl ⟨_, rfl, ?_⟩, Or.inl ⟨_, rfl, ?_⟩, Or.inr (Or.inl ⟨_, rfl, ?_⟩),
    Or.inr (Or.inr (Or.inl ⟨"before_time", by simp [histTimeKeys], _, rfl⟩)),
    Or.inr (Or.inr (Or.inr ⟨"until_publication", by simp [histPubKeys], _, rfl, by decide⟩)),
    Or.inr (Or.inr (Or.inr ⟨"from_publication", by simp [histPubKeys], _, rfl, by decide⟩)), ?_⟩
  · intro n hn; cases hn; decide
  · intro n hn; cases hn
  · intro b hb; cases hb
  · intro hm
    rw [← C20_histQuery_none_iff] at hm
    exact absurd hm (by rw [show histQuery? [("limit", .int 3), ("after_time", .int 7)] = some { limit := 3 } from rfl]; simp)

/-! ### the remaining branches of the meta procedure -/

/-- `get_events` with no argument, with a first argument that is not an id, or with malformed
    keyword arguments answers ERROR `wamp.error.invalid_argument` and changes nothing. -/
theorem C20_query_metaProc_errors (r : Realm) (req : Nat) (details : Dict) (kw : Dict) :
    metaProc r MetaProcEventHistory req details [] kw = (mErr req ErrInvalidArgument, r) ∧
    (∀ a rest, a.asID = none →
      metaProc r MetaProcEventHistory req details (a :: rest) kw = (mErr req ErrInvalidArgument, r)) ∧
    (∀ a rest, HistMalformed kw →
      metaProc r MetaProcEventHistory req details (a :: rest) kw = (mErr req ErrInvalidArgument, r)) := by
  refine ⟨?_, ?_, ?_⟩
  · rw [Nexus.L2.WpA.metaProc_history_eq]
  · intro a rest ha
    rw [Nexus.L2.WpA.metaProc_history_eq]
    simp only [ha]
  · intro a rest hm
    rw [Nexus.L2.WpA.metaProc_history_eq]
    simp only [(C20_histQuery_none_iff kw).mpr hm]
    cases a.asID <;> rfl

/-- A well-formed `get_events` naming a subscription id that does not exist, or a subscription
    without a history store, answers the empty list with `is_limit_reached = false`. -/
theorem C20_query_metaProc_nostore (r : Realm) (req : Nat) (details : Dict) (a : WVal) (rest : List WVal) (kw : Dict)
    (id : Nat) (ha : a.asID = some id) (hq : ¬ HistMalformed kw)
    (hno : r.broker.findId id = none ∨ ∀ h ∈ r.broker.hist, h.sub ≠ id) :
    metaProc r MetaProcEventHistory req details (a :: rest) kw =
      (mYield req [] [("is_limit_reached", .bool false)], r) := by
  obtain ⟨q, hq⟩ := C20_histQuery_total kw hq
  rw [Nexus.L2.WpA.metaProc_history_eq]
  simp only [ha, hq]
  have : (if (r.broker.findId id).isSome then r.broker.hist.find? (fun h => h.sub == id) else none) = none := by
    rcases hno with h | h
    · rw [h]; rfl
    · split
      · rw [List.find?_eq_none]; intro x hx; simpa using h x hx
      · rfl
  rw [this]

/-- non-vacuity: in `exRealm` subscription 7 does not exist; subscription 2 (prefix "a.") exists -/
example : (WVal.int 7).asID = some 7 ∧ ¬ HistMalformed [] ∧ (WVal.str "x").asID = none := by
  refine ⟨by decide, ?_, rfl⟩
  intro hm
  rw [← C20_histQuery_none_iff] at hm
  exact absurd hm (by rw [show histQuery? [] = some {} from rfl]; simp)

/-! ### realm level (work package A): every reachable realm -/

/-- A reachable realm's broker IS a run of broker steps from the broker the realm started with
    (pre-initialised from the configuration).  The `.publish` steps of that run carry strictly
    increasing publication ids, all drawn from the realm's counter (`pubBase ≤ id < pubBase +
    pubCount`), and hand the broker payload-passthru details without `topic` or publisher keys.
    (`WpA.stepPubId e` is the publication id of a publish step, `none` for the other steps.) -/
theorem C20_reachable_run {cfg : Config} {r : Realm} (h : Realm.Reachable cfg r) :
    ∃ steps, r.broker =
        (({ strict := cfg.strict, allowDisclose := cfg.allowDisclose } : Broker).preInit cfg.history).run steps ∧
      (steps.filterMap WpA.stepPubId).Pairwise (· < ·) ∧
      (∀ i ∈ steps.filterMap WpA.stepPubId, pubBase ≤ i ∧ i < pubBase + r.pubCount) ∧
      (∀ sess now p, BStep.publish sess now p ∈ steps →
        ∀ key, (key = "topic" ∨ isPublisherKey key) → p.baseDetails.get? key = none) := by
  obtain ⟨steps, hb, ht⟩ := WpA.reachable_run h
  refine ⟨steps, hb, ht.ids.1, fun i hi => ?_, fun sess now p hm => WpA.Trace.pubOk ht sess now p hm⟩
  have := ht.ids.2 i hi
  omega

/-- In a reachable realm the publication ids stored in any history are strictly increasing in store
    order — hence pairwise distinct: the hypothesis `hn` of the four `C20_query_*_publication` theorems
    holds for every store — and all of them have been drawn already. -/
theorem C20_store_pubs_nodup {cfg : Config} {r : Realm} (h : Realm.Reachable cfg r) :
    ∀ st ∈ r.broker.hist, (st.entries.map (·.pub)).Nodup ∧ (st.entries.map (·.pub)).Pairwise (· < ·) ∧
      ∀ e ∈ st.entries, e.pub < pubBase + r.pubCount := by
  intro st hst
  obtain ⟨h1, h2⟩ := WpA.store_pubs_fresh h st hst
  exact ⟨WpA.pairwise_lt_nodup h1, h1, h2⟩

/-- retention for a given run of broker steps leading to the broker of a reachable realm -/
theorem retention_of_run {cfg : Config} {r : Realm} (h : Realm.Reachable cfg r) (steps : List BStep)
    (hb : r.broker =
      (({ strict := cfg.strict, allowDisclose := cfg.allowDisclose } : Broker).preInit cfg.history).run steps)
    (pre post : List (String × String × Nat)) (topic m : String) (limit : Nat)
    (hcfg : cfg.history = pre ++ (topic, m, limit) :: post)
    (hlast : ∀ c ∈ post, ¬(c.1 = topic ∧ matchKind c.2.1 = matchKind m)) :
    0 < limit ∧
      ∃ st ∈ r.broker.hist, ∃ s ∈ r.broker.subs,
        s.id = st.sub ∧ s.topic = topic ∧ s.kind = matchKind m ∧ st.limit = limit ∧
        st.entries = lastN limit (retained s steps) ∧
        (∀ st' ∈ r.broker.hist, st'.sub = st.sub → st' = st) := by
  obtain ⟨r0, h0⟩ := WpA.reachable_created h
  have hpos : 0 < limit := by
    have := (WpA.create_historyOk h0 (topic, m, limit) (by rw [hcfg]; simp)).2
    exact this
  refine ⟨hpos, ?_⟩
  obtain ⟨h00, hh0, s0, hs0, e1, e2, _, e4, e5⟩ :=
    C20_configured cfg.strict cfg.allowDisclose pre post topic m limit hlast
  rw [← hcfg] at hh0 hs0
  obtain ⟨st, hst, f1, f2, f3, f4, s, hs, g1, g2, g3⟩ :=
    C20_retention cfg.strict cfg.allowDisclose cfg.history steps hh0 hs0 e1 (by rw [e2]; exact hpos)
  rw [← hb] at hst hs f4
  refine ⟨st, hst, s, hs, by rw [g1, e1, f1], g2.trans e4, ?_, f2.trans e2, ?_, ?_⟩
  · have : s.kind = s0.kind := by unfold Sub.kind; rw [g3]
    rw [this, e5]
  · rw [f3, e2, retained_congr g1 g2 g3]
  · intro st' hst' he
    exact f4 st' hst' (he.trans f1)

/-- Retention for reachable realms.  If `(topic, m, limit)` is an entry of the realm's history
    configuration not overridden by a later entry for the same (topic, policy), then in EVERY reachable
    realm state: the broker is the run of some steps from the initial broker; the limit is positive;
    there is exactly one store for the subscription `s` with that topic and policy, which still exists;
    and the store holds the last `limit`, oldest first, of the publications of that run that match `s`
    and were not restricted by `exclude`/`eligible`. -/
theorem C20_retention_realm {cfg : Config} {r : Realm} (h : Realm.Reachable cfg r)
    (pre post : List (String × String × Nat)) (topic m : String) (limit : Nat)
    (hcfg : cfg.history = pre ++ (topic, m, limit) :: post)
    (hlast : ∀ c ∈ post, ¬(c.1 = topic ∧ matchKind c.2.1 = matchKind m)) :
    0 < limit ∧
    ∃ steps, r.broker =
        (({ strict := cfg.strict, allowDisclose := cfg.allowDisclose } : Broker).preInit cfg.history).run steps ∧
      ∃ st ∈ r.broker.hist, ∃ s ∈ r.broker.subs,
        s.id = st.sub ∧ s.topic = topic ∧ s.kind = matchKind m ∧ st.limit = limit ∧
        st.entries = lastN limit (retained s steps) ∧
        (∀ st' ∈ r.broker.hist, st'.sub = st.sub → st' = st) := by
  obtain ⟨steps, hb, _⟩ := WpA.reachable_run h
  obtain ⟨hpos, rest⟩ := retention_of_run h steps hb pre post topic m limit hcfg hlast
  exact ⟨hpos, steps, hb, rest⟩

/-- THE TOPIC FILTER IN A REACHABLE REALM, for a configured (topic, policy, limit) of ANY policy (exact,
    prefix, wildcard): the subscription `s` exists and is the one `get_events` finds under the store's id
    (so the handler runs the scan with `subTopic := s.topic`), and for every query with a `topic`
    argument an entry of the store passes the topic filter iff it was retained for a publication to
    exactly that topic.  No side condition: the publications the realm hands the broker carry no `topic`
    in their payload-passthru details (`C20_reachable_run`). -/
theorem C20_topic_filter_realm {cfg : Config} {r : Realm} (h : Realm.Reachable cfg r)
    (pre post : List (String × String × Nat)) (topic m : String) (limit : Nat)
    (hcfg : cfg.history = pre ++ (topic, m, limit) :: post)
    (hlast : ∀ c ∈ post, ¬(c.1 = topic ∧ matchKind c.2.1 = matchKind m)) :
    ∃ steps, r.broker =
        (({ strict := cfg.strict, allowDisclose := cfg.allowDisclose } : Broker).preInit cfg.history).run steps ∧
      ∃ st ∈ r.broker.hist, ∃ s ∈ r.broker.subs,
        s.topic = topic ∧ s.kind = matchKind m ∧ r.broker.findId st.sub = some s ∧
        ∀ q : HistQuery, q.topic ≠ "" → ∀ e ∈ st.entries,
          (topicOk { q with subTopic := s.topic } e = true ↔
            ∃ sess now p, BStep.publish sess now p ∈ steps ∧ s.matchesTopic p.topic = true ∧
              e = retainedEntry s now p ∧ p.topic = q.topic) := by
  obtain ⟨steps, hb, ht⟩ := WpA.reachable_run h
  obtain ⟨_, st, hst, s, hs, e1, e2, e3, _, e5, _⟩ := retention_of_run h steps hb pre post topic m limit hcfg hlast
  refine ⟨steps, hb, st, hst, s, hs, e2, e3, ?_, ?_⟩
  · rw [← e1]; exact findId_of_mem h.inv.1.binv.ids_nodup hs
  · intro q hq e he
    rw [e5] at he
    exact C20_topic_filter_scan { q with subTopic := s.topic } s steps limit rfl hq
      (fun sess now p hm => WpA.Trace.pubOk ht sess now p hm "topic" (Or.inl rfl)) e he

/-- The four publication-bound clauses for the stores of reachable realms: the `Nodup` hypothesis
    is discharged by `C20_store_pubs_nodup`. -/
theorem C20_query_publication_realm {cfg : Config} {r : Realm} (h : Realm.Reachable cfg r)
    (st : Hist) (hst : st ∈ r.broker.hist) (q : HistQuery)
    (hT : q.fromT = none ∧ q.afterT = none ∧ q.beforeT = none ∧ q.untilT = none) (htopic : q.topic = "") :
    ((q.fromPub ≠ 0 ∧ q.afterPub = 0 ∧ q.beforePub = 0 ∧ q.untilPub = 0) →
      (∀ pre f post, st.entries = pre ++ f :: post → f.pub = q.fromPub →
          histScan q st.entries q.fromPub q.afterPub false = f :: post) ∧
      ((∀ e ∈ st.entries, e.pub ≠ q.fromPub) → histScan q st.entries q.fromPub q.afterPub false = [])) ∧
    ((q.fromPub = 0 ∧ q.afterPub ≠ 0 ∧ q.beforePub = 0 ∧ q.untilPub = 0) →
      (∀ pre f post, st.entries = pre ++ f :: post → f.pub = q.afterPub →
          histScan q st.entries q.fromPub q.afterPub false = post) ∧
      ((∀ e ∈ st.entries, e.pub ≠ q.afterPub) → histScan q st.entries q.fromPub q.afterPub false = [])) ∧
    ((q.fromPub = 0 ∧ q.afterPub = 0 ∧ q.beforePub ≠ 0 ∧ q.untilPub = 0) →
      (∀ pre f post, st.entries = pre ++ f :: post → f.pub = q.beforePub →
          histScan q st.entries q.fromPub q.afterPub false = pre) ∧
      ((∀ e ∈ st.entries, e.pub ≠ q.beforePub) → histScan q st.entries q.fromPub q.afterPub false = st.entries)) ∧
    ((q.fromPub = 0 ∧ q.afterPub = 0 ∧ q.beforePub = 0 ∧ q.untilPub ≠ 0) →
      (∀ pre f post, st.entries = pre ++ f :: post → f.pub = q.untilPub →
          histScan q st.entries q.fromPub q.afterPub false = pre ++ [f]) ∧
      ((∀ e ∈ st.entries, e.pub ≠ q.untilPub) → histScan q st.entries q.fromPub q.afterPub false = st.entries)) := by
  have hn := (C20_store_pubs_nodup h st hst).1
  exact ⟨fun hP => C20_query_from_publication q st.entries hT htopic hP hn,
         fun hP => C20_query_after_publication q st.entries hT htopic hP hn,
         fun hP => C20_query_before_publication q st.entries hT htopic hP hn,
         fun hP => C20_query_until_publication q st.entries hT htopic hP hn⟩

/-- In a reachable realm no `get_events` answer reveals a publisher: no stored entry carries a
    publisher key (whatever was published with `disclose_me`, whoever was subscribed), and every
    answered entry is a stored entry (`C20_answer_mem`). -/
theorem C20_answer_no_identity_realm {cfg : Config} {r : Realm} (h : Realm.Reachable cfg r)
    (st : Hist) (hst : st ∈ r.broker.hist) (q : HistQuery) :
    ∀ e ∈ histAnswer q st.entries, ∀ key, isPublisherKey key → e.details.get? key = none :=
  C20_answer_no_identity q st.entries (fun e he => WpA.hist_clean_reachable h st hst e he)

/-- a concrete reachable realm with a history store that has retained a publication:
    configuration `("a.", prefix, 2)`, session 1 joins and publishes "a.b" -/
def exRCfg : Config := { history := [("a.", "prefix", 2)] }
def exR0 : Realm := (Realm.create exRCfg).getD {}
theorem exR0_create : Realm.create exRCfg = some exR0 := by
  have h : (Realm.create exRCfg).isSome = true := by decide +kernel
  unfold exR0
  cases hc : Realm.create exRCfg with
  | none => rw [hc] at h; cases h
  | some r => rfl
def exR : Realm :=
  ((exR0.step (.join 1 false [] [] 8)).2.step (.msg 1 (.publish 1 [] "a.b" [.int 5] []))).2
theorem exR_reachable : Realm.Reachable exRCfg exR := .step _ (.step _ (.init exR0_create))

/-- the store of the example realm holds the publication; its id is `pubBase + 1`: the first id was
    spent on the `wamp.session.on_join` meta event (which no store matches) -/
example : exR.broker.hist.map (fun st => (st.sub, st.limit, st.entries.map (fun e => (e.pub, e.time)))) =
    [(1, 2, [(pubBase + 1, 0)])] ∧ exR.pubCount = 2 := by decide +kernel

example : exRCfg.history = [] ++ ("a.", "prefix", 2) :: [] ∧
    ∀ c ∈ ([] : List (String × String × Nat)), ¬(c.1 = "a." ∧ matchKind c.2.1 = matchKind "prefix") :=
  ⟨rfl, fun _ hc => nomatch hc⟩

end Nexus.C20
