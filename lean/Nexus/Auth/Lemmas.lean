/-
  Helper lemmas for property C09 (the theorems themselves are in Nexus/Props/C09.lean).
-/
import Nexus.Auth.Model

namespace Nexus.Auth
open Nexus

/-! ## Dict -/

theorem get?_set_self (d : Dict) (k : String) (v : WVal) : (d.set k v).get? k = some v := by
  induction d with
  | nil => simp [Dict.set, Dict.get?]
  | cons p rest ih =>
    obtain ⟨k', v'⟩ := p
    by_cases h : k' = k
    · simp [Dict.set, Dict.get?, h]
    · simp [Dict.set, Dict.get?, h, ih]

theorem get?_set_ne (d : Dict) {k k' : String} (v : WVal) (h : k' ≠ k) :
    (d.set k v).get? k' = d.get? k' := by
  have hne : ¬ k = k' := fun e => h e.symm
  induction d with
  | nil => simp [Dict.set, Dict.get?, hne]
  | cons p rest ih =>
    obtain ⟨k1, v1⟩ := p
    by_cases h1 : k1 = k
    · subst h1
      simp [Dict.set, Dict.get?, hne]
    · by_cases h2 : k1 = k'
      · subst h2
        simp [Dict.set, Dict.get?, h1]
      · simp [Dict.set, Dict.get?, h1, h2, ih]

theorem get?_set (d : Dict) (k k' : String) (v : WVal) :
    (d.set k v).get? k' = if k' = k then some v else d.get? k' := by
  by_cases h : k' = k
  · subst h; simp [get?_set_self]
  · simp [h, get?_set_ne d v h]

theorem get?_cons (k1 : String) (v1 : WVal) (rest : Dict) (k : String) :
    Dict.get? ((k1, v1) :: rest) k = if k1 = k then some v1 else Dict.get? rest k := by
  by_cases h : k1 = k <;> simp [Dict.get?, h]

theorem mergeInto_cons (skip : List String) (dst rest : Dict) (k1 : String) (v1 : WVal) :
    mergeInto skip dst ((k1, v1) :: rest) =
      (if k1 ∈ skip then mergeInto skip dst rest else (mergeInto skip dst rest).set k1 v1) := by
  by_cases h : k1 ∈ skip <;> simp [mergeInto, List.foldr, h]

/-- What a merge loop leaves under key `k`. -/
theorem get?_mergeInto (skip : List String) (dst src : Dict) (k : String) :
    (mergeInto skip dst src).get? k =
      if k ∈ skip then dst.get? k
      else match src.get? k with
        | some v => some v
        | none => dst.get? k := by
  induction src with
  | nil => simp [mergeInto, Dict.get?]
  | cons p rest ih =>
    obtain ⟨k1, v1⟩ := p
    rw [mergeInto_cons, get?_cons]
    by_cases hs : k1 ∈ skip
    · rw [if_pos hs, ih]
      by_cases hk : k1 = k
      · subst hk; simp [hs]
      · simp [hk]
    · rw [if_neg hs, get?_set]
      by_cases hk : k1 = k
      · subst hk; simp [hs]
      · have hk' : ¬ k = k1 := fun e => hk e.symm
        simp [hk, hk', ih]

/-- The recorded session details, key by key. -/
theorem get?_sessDetails (fx : Facts) (hello welcome : Dict) (sid : Nat) (k : String) :
    (sessDetails fx hello welcome sid).get? k =
      if k = fx.sessionKey then some (.int sid)
      else if k ∈ fx.welcomeSkip then
        (if k ∈ fx.helloSkip then none else hello.get? k)
      else match welcome.get? k with
        | some v => some v
        | none => if k ∈ fx.helloSkip then none else hello.get? k := by
  unfold sessDetails
  rw [get?_set]
  by_cases h : k = fx.sessionKey
  · simp [h]
  · simp only [h, if_false]
    rw [get?_mergeInto, get?_mergeInto]
    have hnil : Dict.get? [] k = none := rfl
    by_cases hw : k ∈ fx.welcomeSkip
    · simp only [hw, if_true]
      by_cases hh : k ∈ fx.helloSkip
      · simp [hh, hnil]
      · simp only [hh, if_false, hnil]
        cases hello.get? k <;> rfl
    · simp only [hw, if_false]
      cases welcome.get? k with
      | some v => rfl
      | none =>
        by_cases hh : k ∈ fx.helloSkip
        · simp [hh, hnil]
        · simp only [hh, if_false, hnil]
          cases hello.get? k <;> rfl

/-! ## recvTimeout -/

theorem recvTimeout_msg {t : Nat} {arr : List Arrival} {m : ClientMsg} {rest : List Arrival}
    (h : recvTimeout t arr = (.msg m, rest)) :
    ∃ d, arr = ⟨d, .msg m⟩ :: rest ∧ d < t := by
  cases arr with
  | nil => simp [recvTimeout] at h
  | cons a as =>
    obtain ⟨d, ev⟩ := a
    unfold recvTimeout at h
    by_cases hd : d < t
    · simp only [hd, if_true] at h
      cases ev with
      | msg m' =>
        simp at h
        obtain ⟨h1, h2⟩ := h
        subst h1; subst h2
        exact ⟨d, rfl, hd⟩
      | close => simp at h
    · simp [hd] at h

theorem recvTimeout_of_msg {t d : Nat} {m : ClientMsg} {rest : List Arrival} (hd : d < t) :
    recvTimeout t (⟨d, .msg m⟩ :: rest) = (.msg m, rest) := by
  simp [recvTimeout, hd]

/-! ## getAuthenticator -/

/-- `methods` offers `method` after a prefix none of which has an authenticator. -/
def FirstConfigured (auths : List (String × Authr)) (methods : List String) (method : String) (a : Authr) : Prop :=
  ∃ pre post, methods = pre ++ method :: post ∧
    (∀ m ∈ pre, lookupAuth auths m = none) ∧ lookupAuth auths method = some a

theorem getAuthenticator_first {auths : List (String × Authr)} {ms : List String} {a : Authr} {m : String}
    (h : getAuthenticator true auths ms = some (a, m)) : FirstConfigured auths ms m a := by
  induction ms with
  | nil => simp [getAuthenticator] at h
  | cons x xs ih =>
    unfold getAuthenticator at h
    simp only [if_true] at h
    cases hx : lookupAuth auths x with
    | some a' =>
      rw [hx] at h
      simp at h
      obtain ⟨h1, h2⟩ := h
      subst h1; subst h2
      exact ⟨[], xs, rfl, by simp, hx⟩
    | none =>
      rw [hx] at h
      obtain ⟨pre, post, he, hp, hl⟩ := ih h
      refine ⟨x :: pre, post, by simp [he], ?_, hl⟩
      intro y hy
      cases hy with
      | head => exact hx
      | tail _ hy' => exact hp y hy'

theorem getAuthenticator_of_first {auths : List (String × Authr)} {ms : List String} {a : Authr} {m : String}
    (h : FirstConfigured auths ms m a) : getAuthenticator true auths ms = some (a, m) := by
  obtain ⟨pre, post, he, hp, hl⟩ := h
  subst he
  induction pre with
  | nil => simp [getAuthenticator, hl]
  | cons x xs ih =>
    have hx : lookupAuth auths x = none := hp x (by simp)
    have : getAuthenticator true auths (x :: xs ++ m :: post) = getAuthenticator true auths (xs ++ m :: post) := by
      simp [getAuthenticator, hx]
    rw [this]
    exact ih (fun y hy => hp y (by simp [hy]))

theorem getAuthenticator_none {auths : List (String × Authr)} {ms : List String}
    (h : getAuthenticator true auths ms = none) : ∀ m ∈ ms, lookupAuth auths m = none := by
  induction ms with
  | nil => simp
  | cons x xs ih =>
    unfold getAuthenticator at h
    simp only [if_true] at h
    cases hx : lookupAuth auths x with
    | some a' => rw [hx] at h; simp at h
    | none =>
      rw [hx] at h
      intro m hm
      cases hm with
      | head => exact hx
      | tail _ hm' => exact ih h m hm'

end Nexus.Auth
