/-
  Inversion lemmas for `authClient`, `attachRealm` and `attach` (helpers for C09).
-/
import Nexus.Auth.Accept

namespace Nexus.Auth
open Nexus

/-! ## authClient -/

/-- The non-bypass route through `authClient`. -/
def ViaAuthenticator (fx : Facts) (rc : RealmCfg) (env : Env) (details : Dict) (script : List Arrival)
    (w : Dict) : Prop :=
  ∃ a method w0,
    getAuthenticator fx.firstMatch (realmAuths rc) (offeredMethods details) = some (a, method) ∧
    (runAuth fx a env details script).res = .ok w0 ∧
    w = (w0.set "authmethod" (.str method)).set "roles" env.routerRoles

theorem authClient_ok_iff {fx : Facts} {rc : RealmCfg} {env : Env} {details : Dict} {script : List Arrival}
    {w : Dict} :
    (authClient fx rc env details script).res = .ok w ↔
      (env.isLocal = true ∧ rc.requireLocalAuth = false ∧ w = localWelcome env details) ∨
      (¬ (env.isLocal = true ∧ rc.requireLocalAuth = false) ∧ ViaAuthenticator fx rc env details script w) := by
  unfold authClient ViaAuthenticator
  by_cases hl : env.isLocal = true ∧ rc.requireLocalAuth = false
  · obtain ⟨h1, h2⟩ := hl
    simp only [h1, h2, Bool.not_false, Bool.and_self, if_true]
    constructor
    · intro h
      simp at h
      exact Or.inl ⟨trivial, trivial, h.symm⟩
    · intro h
      rcases h with ⟨_, _, hw⟩ | ⟨hn, _⟩
      · simp [hw]
      · exact absurd ⟨trivial, trivial⟩ hn
  · have hc : (env.isLocal && !rc.requireLocalAuth) = false := by
      cases h1 : env.isLocal <;> cases h2 : rc.requireLocalAuth <;> simp_all
    simp only [hc, Bool.false_eq_true, if_false]
    cases hm : offeredMethods details with
    | nil =>
      simp only [getAuthenticator]
      constructor
      · intro h; simp at h
      · intro h
        rcases h with ⟨h1, h2, _⟩ | ⟨_, a, m, w0, hg, _⟩
        · exact absurd ⟨h1, h2⟩ hl
        · simp at hg
    | cons m ms =>
      simp only []
      cases hg : getAuthenticator fx.firstMatch (realmAuths rc) (m :: ms) with
      | none =>
        constructor
        · intro h; simp at h
        · intro h
          rcases h with ⟨h1, h2, _⟩ | ⟨_, a, m', w0, hg', _⟩
          · exact absurd ⟨h1, h2⟩ hl
          · simp at hg'
      | some am =>
        obtain ⟨a, method⟩ := am
        simp only []
        cases hr : (runAuth fx a env details script).res with
        | error e =>
          constructor
          · intro h; simp at h
          · intro h
            rcases h with ⟨h1, h2, _⟩ | ⟨_, a', m', w0, hg', hr', _⟩
            · exact absurd ⟨h1, h2⟩ hl
            · simp at hg'
              obtain ⟨e1, e2⟩ := hg'
              subst e1; subst e2
              rw [hr] at hr'
              simp at hr'
        | ok w0 =>
          constructor
          · intro h
            simp at h
            exact Or.inr ⟨hl, a, method, w0, rfl, hr, h.symm⟩
          · intro h
            rcases h with ⟨h1, h2, _⟩ | ⟨_, a', m', w0', hg', hr', hw⟩
            · exact absurd ⟨h1, h2⟩ hl
            · simp at hg'
              obtain ⟨e1, e2⟩ := hg'
              subst e1; subst e2
              rw [hr] at hr'
              simp at hr'
              subst hr'
              simp [hw]

/-- Whatever happens, `authClient` sends only CHALLENGEs (never WELCOME or ABORT). -/
def OnlyChallenges (l : List Sent) : Prop := ∀ s ∈ l, ∃ m e, s = .challenge m e

theorem exchange_sent (blocked : Bool) (t : Nat) (m : String) (e : Dict) (script : List Arrival) :
    OnlyChallenges (exchange blocked t (.challenge m e) script).sent := by
  unfold exchange
  cases blocked with
  | true => intro s hs; simp at hs
  | false =>
    simp only [Bool.false_eq_true, if_false]
    split <;> (intro s hs; simp at hs; exact ⟨m, e, hs⟩)

theorem onlyChallenges_nil : OnlyChallenges [] := by intro s hs; simp at hs

theorem runAuth_sent (fx : Facts) (a : Authr) (env : Env) (details : Dict) (script : List Arrival) :
    OnlyChallenges (runAuth fx a env details script).sent := by
  cases a with
  | anonymous role => exact onlyChallenges_nil
  | custom m f => exact onlyChallenges_nil
  | ticket ks t =>
    simp only [runAuth, ticketAuth]
    split
    · exact onlyChallenges_nil
    · split
      · exact onlyChallenges_nil
      · exact exchange_sent _ _ _ _ _
  | wampcra ks t =>
    simp only [runAuth, craAuth]
    split
    · exact onlyChallenges_nil
    · split
      · exact onlyChallenges_nil
      · split
        · exact onlyChallenges_nil
        · exact exchange_sent _ _ _ _ _
  | cryptosign ks t =>
    simp only [runAuth, csAuth]
    split
    · exact onlyChallenges_nil
    · split
      · exact onlyChallenges_nil
      · split
        · exact onlyChallenges_nil
        · split
          · exact onlyChallenges_nil
          · split
            · exact onlyChallenges_nil
            · split
              · exact onlyChallenges_nil
              · exact exchange_sent _ _ _ _ _

theorem authClient_sent (fx : Facts) (rc : RealmCfg) (env : Env) (details : Dict) (script : List Arrival) :
    OnlyChallenges (authClient fx rc env details script).sent := by
  unfold authClient
  split
  · exact onlyChallenges_nil
  · split
    · exact onlyChallenges_nil
    · split
      · exact onlyChallenges_nil
      · simp only []
        split <;> exact runAuth_sent _ _ _ _ _

/-! ## lookupRealm -/

/-- The realm named in HELLO is there, or the template creates it. -/
def RealmAvailable (rt : RouterCfg) (realm : String) (rc : RealmCfg) (created : Option RealmCfg) : Prop :=
  rt.closed = false ∧ rt.closing = false ∧
  ((findRealm rt.realms realm = some rc ∧ created = none) ∨
   (findRealm rt.realms realm = none ∧ created = some rc ∧
      ∃ t, rt.template = some t ∧ L2.validUri t.strictURI "" realm = true ∧ rc = { t with uri := realm }))

theorem lookupRealm_ok_iff {rt : RouterCfg} {realm : String} {rc : RealmCfg} {created : Option RealmCfg} :
    lookupRealm rt realm = .ok (rc, created) ↔ RealmAvailable rt realm rc created := by
  unfold lookupRealm RealmAvailable
  cases hcd : rt.closed with
  | true => simp
  | false =>
  cases hc : rt.closing with
  | true => simp
  | false =>
    simp only [Bool.false_eq_true, if_false, true_and]
    cases hf : findRealm rt.realms realm with
    | some rc' =>
      simp only [Except.ok.injEq, Prod.mk.injEq]
      constructor
      · rintro ⟨h1, h2⟩; exact Or.inl ⟨by rw [h1], h2.symm⟩
      · rintro (⟨h1, h2⟩ | ⟨h1, _⟩)
        · simp at h1; exact ⟨h1, h2.symm⟩
        · simp at h1
    | none =>
      cases ht : rt.template with
      | none => simp
      | some t =>
        simp only []
        by_cases hv : L2.validUri t.strictURI "" realm = true
        · simp only [hv, if_true, Except.ok.injEq, Prod.mk.injEq]
          constructor
          · rintro ⟨h1, h2⟩
            exact Or.inr ⟨trivial, by rw [← h2, h1], t, rfl, hv, h1.symm⟩
          · rintro (⟨h1, _⟩ | ⟨_, h2, t', ht', _, hrc⟩)
            · simp at h1
            · simp at ht'
              subst ht'
              exact ⟨hrc.symm, by rw [h2, hrc]⟩
        · simp only [hv]
          constructor
          · intro h; simp at h
          · rintro (⟨h1, _⟩ | ⟨_, _, t', ht', hv', _⟩)
            · simp at h1
            · simp at ht'
              subst ht'
              exact absurd hv' hv

/-! ## attach -/

/-- The exact condition under which `attach` ends with WELCOME, and what it then records. -/
def Welcomed (fx : Facts) (rt : RouterCfg) (env : Env) (arr : List Arrival)
    (sid : Nat) (sess w : Dict) : Prop :=
  ∃ d realm details rest rc created,
    arr = ⟨d, .msg (.hello realm details)⟩ :: rest ∧ d < Gen.Auth.helloTimeoutMs ∧
    realm ≠ "" ∧ RealmAvailable rt realm rc created ∧
    hasClientRole details = true ∧
    (authClient fx rc env (helloDetails env details) rest).res = .ok w ∧
    rc.closing = false ∧
    sid = env.o.sid ∧ sess = sessDetails fx (helloDetails env details) w sid

theorem attachRealm_welcome {fx : Facts} {rc : RealmCfg} {created : Option RealmCfg} {env : Env}
    {details : Dict} {script : List Arrival} {sid : Nat} {sess w : Dict}
    (h : (attachRealm fx rc created env details script).outcome = .welcome sid sess w) :
    hasClientRole details = true ∧
    (authClient fx rc env (helloDetails env details) script).res = .ok w ∧
    rc.closing = false ∧ sid = env.o.sid ∧ sess = sessDetails fx (helloDetails env details) w sid := by
  unfold attachRealm at h
  cases hr : hasClientRole details with
  | false => simp [hr, abortWith] at h
  | true =>
    simp only [hr, Bool.not_true, Bool.false_eq_true, if_false] at h
    cases ha : (authClient fx rc env (helloDetails env details) script).res with
    | error e => simp [ha, abortWith] at h
    | ok w' =>
      simp only [ha] at h
      cases hc : rc.closing with
      | true => simp [hc, abortWith] at h
      | false =>
        simp [hc] at h
        obtain ⟨h1, h2, h3⟩ := h
        subst h3
        exact ⟨rfl, rfl, rfl, h1.symm, by rw [← h2, h1]⟩

theorem attach_welcome {fx : Facts} {rt : RouterCfg} {env : Env} {arr : List Arrival}
    {sid : Nat} {sess w : Dict}
    (h : (attach fx rt env arr).outcome = .welcome sid sess w) : Welcomed fx rt env arr sid sess w := by
  unfold attach at h
  split at h
  · simp at h
  · simp at h
  · simp [abortWith] at h
  · simp [abortWith] at h
  · rename_i realm details rest hrecv
    obtain ⟨d, harr, hd⟩ := recvTimeout_msg hrecv
    by_cases hre : (realm == "") = true
    · simp [hre, abortWith] at h
    · simp only [hre] at h
      cases hl : lookupRealm rt realm with
      | error e => simp [hl, abortWith] at h
      | ok p =>
        obtain ⟨rc, created⟩ := p
        simp only [hl] at h
        obtain ⟨h1, h2, h3, h4, h5⟩ := attachRealm_welcome h
        exact ⟨d, realm, details, rest, rc, created, harr, hd, by simpa using hre,
          lookupRealm_ok_iff.mp hl, h1, h2, h3, h4, h5⟩

theorem attach_of_welcomed {fx : Facts} {rt : RouterCfg} {env : Env} {arr : List Arrival}
    {sid : Nat} {sess w : Dict} (h : Welcomed fx rt env arr sid sess w) :
    (attach fx rt env arr).outcome = .welcome sid sess w := by
  obtain ⟨d, realm, details, rest, rc, created, harr, hd, hre, hav, hrole, hauth, hcl, hsid, hsess⟩ := h
  subst harr
  have hl := lookupRealm_ok_iff.mpr hav
  have hre' : (realm == "") = false := by simpa using hre
  simp [attach, recvTimeout, hd, hre', hl, attachRealm, hrole, hauth, hcl, hsid, hsess]

/-- In the WELCOME case the transcript is what `authClient` sent, then WELCOME. -/
theorem attach_welcome_sent {fx : Facts} {rt : RouterCfg} {env : Env} {d : Nat} {realm : String}
    {details : Dict} {rest : List Arrival} {rc : RealmCfg} {created : Option RealmCfg}
    {sid : Nat} {sess w : Dict}
    (h : (attach fx rt env (⟨d, .msg (.hello realm details)⟩ :: rest)).outcome = .welcome sid sess w)
    (hav : RealmAvailable rt realm rc created) :
    (attach fx rt env (⟨d, .msg (.hello realm details)⟩ :: rest)).sent =
        (authClient fx rc env (helloDetails env details) rest).sent ++
          (if fx.welcomeNonBlocking && env.challengeBlocked then [] else [.welcome sid w]) ∧
      (attach fx rt env (⟨d, .msg (.hello realm details)⟩ :: rest)).created = created ∧
      (attach fx rt env (⟨d, .msg (.hello realm details)⟩ :: rest)).rest =
        (authClient fx rc env (helloDetails env details) rest).rest := by
  obtain ⟨d', realm', details', rest', rc', created', harr, hd, hre, hav', hrole, hauth, hcl, hsid, hsess⟩ :=
    attach_welcome h
  simp at harr
  obtain ⟨⟨h1, h2, h3⟩, h4⟩ := harr
  subst h1; subst h2; subst h3; subst h4
  have hl := lookupRealm_ok_iff.mpr hav
  have hl' := lookupRealm_ok_iff.mpr hav'
  rw [hl] at hl'
  simp at hl'
  obtain ⟨e1, e2⟩ := hl'
  subst e1; subst e2
  have hre' : (realm == "") = false := by simpa using hre
  simp only [attach, recvTimeout, hd, if_true, hre', Bool.false_eq_true, if_false, hl, attachRealm, hrole,
    Bool.not_true, hauth, hcl, hsid]
  refine ⟨?_, trivial, trivial⟩
  split <;> simp

theorem authClient_via_sent {fx : Facts} {rc : RealmCfg} {env : Env} {details : Dict}
    {script : List Arrival} {a : Authr} {method : String}
    (hn : ¬ (env.isLocal = true ∧ rc.requireLocalAuth = false))
    (hg : getAuthenticator fx.firstMatch (realmAuths rc) (offeredMethods details) = some (a, method)) :
    (authClient fx rc env details script).sent = (runAuth fx a env details script).sent ∧
    (authClient fx rc env details script).rest = (runAuth fx a env details script).rest := by
  have hc : (env.isLocal && !rc.requireLocalAuth) = false := by
    cases h1 : env.isLocal <;> cases h2 : rc.requireLocalAuth <;> simp_all
  unfold authClient
  simp only [hc, Bool.false_eq_true, if_false]
  cases hm : offeredMethods details with
  | nil => rw [hm] at hg; simp [getAuthenticator] at hg
  | cons m ms =>
    rw [hm] at hg
    simp only [hg]
    split <;> exact ⟨rfl, rfl⟩

theorem authClient_local_sent {fx : Facts} {rc : RealmCfg} {env : Env} {details : Dict}
    {script : List Arrival} (h1 : env.isLocal = true) (h2 : rc.requireLocalAuth = false) :
    (authClient fx rc env details script).sent = [] ∧
    (authClient fx rc env details script).rest = script := by
  simp [authClient, h1, h2]

end Nexus.Auth
