/-
  The attach decision of the nexus router (property C09) as a total function.

  Mirrors, decision by decision:
    router/router.go   AttachClient
    router/realm.go    newRealm (authenticator table), authClient, getAuthenticator,
                       handleSession (closed check), cleanSessionDetails
    router/auth/*.go   AnonymousAuth, TicketAuthenticator, CRAuthenticator (wampcra, incl. the
                       salted variant and the BypassKeyStore shortcut), CryptoSignAuthenticator
    wamp/crsign        VerifySignature
    wamp/session.go    setRoles, HasRole
    wamp/peer.go       RecvTimeout

  Everything cryptographic or random is a parameter (`Oracle`): HMAC-SHA256, base64 / hex
  decoding, `sign.Open`, the nonces, the timestamp, the random ids.  Key stores and custom
  authenticators are parameters too (`KeyStore`, `Authr.custom`).

  Representation: `WVal` erases the difference between `map[string]any` and `wamp.Dict` (and
  between `[]any` and `wamp.List`), so `wamp.NormalizeDict` is the identity here; the
  handshake family feeds the real code both representations.  A `Dict` is an association
  list read with `Dict.get?` (first binding wins) — Go maps have unique keys, and every
  map-building loop below is written so that the binding `get?` sees is the one the Go loop
  leaves in the map.
-/
import Nexus.Base.WVal
import Nexus.Gen.Names
import Nexus.Gen.Auth
import Nexus.L2.Uri

namespace Nexus.Auth
open Nexus

abbrev Bytes := List UInt8

/-! ## Small concrete helpers (not cryptographic) -/

/-- `strconv.FormatUint(x, 16)` -/
def fmtHex (n : Nat) : String := String.ofList (Nat.toDigits 16 n)

def hexByte (b : UInt8) : List Char :=
  [Nat.digitChar (b.toNat / 16), Nat.digitChar (b.toNat % 16)]

/-- `hex.EncodeToString` -/
def hexEncode (bs : Bytes) : String := String.ofList (bs.flatMap hexByte)

/-- `fmt.Sprintf` restricted to the verbs `%s` and `%d` (arguments already rendered). -/
def sprintfAux : List Char → List String → List Char
  | '%' :: 's' :: rest, a :: as => a.toList ++ sprintfAux rest as
  | '%' :: 'd' :: rest, a :: as => a.toList ++ sprintfAux rest as
  | c :: rest, as => c :: sprintfAux rest as
  | [], _ => []

def sprintf (fmt : String) (args : List String) : String := String.ofList (sprintfAux fmt.toList args)

/-- `copy(pubkey[:], publicKey)` into a zeroed `[32]byte`. -/
def pad32 (k : Bytes) : Bytes := (k ++ List.replicate 32 0).take 32

/-! ## What the client does -/

inductive ClientMsg where
  | hello (realm : String) (details : Dict)
  | authenticate (signature : String) (extra : Dict)
  /-- any other message type, by its code -/
  | other (typ : Nat)
  deriving Inhabited

inductive ClientEv where
  | msg (m : ClientMsg)
  /-- the client closes its side: the router's receive channel is closed -/
  | close
  deriving Inhabited

/-- The client's next action, `delay` ms after the router started to wait for it. -/
structure Arrival where
  delay : Nat
  ev : ClientEv
  deriving Inhabited

inductive RecvRes where
  | msg (m : ClientMsg)
  | closed
  | timeout

/-- `wamp.RecvTimeout(client, timeout)`: the client's next action if it comes before the timer.
    (Delay equal to the timeout is a race in Go; the family never produces it.) -/
def recvTimeout (timeoutMs : Nat) : List Arrival → RecvRes × List Arrival
  | [] => (.timeout, [])
  | a :: rest =>
    if a.delay < timeoutMs then
      match a.ev with
      | .msg m => (.msg m, rest)
      | .close => (.closed, rest)
    else (.timeout, a :: rest)

/-! ## What the router sends -/

inductive Sent where
  | challenge (method : String) (extra : Dict)
  | abort (reason : String)
  | welcome (sid : Nat) (details : Dict)
  deriving Inhabited

/-- Why a handshake failed: one constructor per failing branch of the Go code. -/
inductive Why where
  | helloTimeout | helloClosed            -- RecvTimeout(helloTimeout) failed: no ABORT is sent
  | notHello (typ : Nat)
  | emptyRealm
  | routerClosed                          -- the router goroutine has exited (after Router.Close)
  | routerClosing
  | noSuchRealm
  | realmCreateFailed
  | noRoles
  | noAuthSupplied                        -- "no authentication supplied"
  | noAuthenticator                       -- "could not authenticate with any method"
  | missingAuthid
  | authRoleError                         -- cryptosign: keyStore.AuthRole failed
  | keyError                              -- cryptosign: "failed to retrieve key"
  | nonceError                            -- rand.Read failed
  | challengeBlocked                      -- "cannot send challenge to client: blocked"
  | recvTimeout | recvClosed
  | unexpectedMsg
  | invalidTicket
  | invalidSignature
  | sigDecode                             -- cryptosign: hex.DecodeString failed
  | sigLength                             -- cryptosign: decoded length is not 96
  | onWelcomeError
  | customError
  | realmClosing                          -- handleSession: "realm closed"
  deriving DecidableEq, Repr, Inhabited

/-! ## Oracles -/

/-- Everything random or cryptographic, for one handshake. -/
structure Oracle where
  /-- `wamp.GlobalID()` drawn for the session id -/
  sid : Nat
  /-- `wamp.GlobalID()` drawn when an authid is generated (anonymous, local) -/
  authidRand : Nat
  /-- `nonce()` for the substitute key of wampcra when the key store has no key; `none` = rand failed -/
  keyNonce : Option String
  /-- `wamp.NowISO8601()` used when even that nonce is empty -/
  keyNow : String
  /-- `nonce()` inside `makeChallengeStr`; `none` = rand failed -/
  chalNonce : Option String
  /-- `wamp.NowISO8601()` inside `makeChallengeStr` -/
  now : String
  /-- the 32 random bytes of `computeChallenge`; `none` = rand failed -/
  csChallenge : Option Bytes
  /-- `base64.StdEncoding.DecodeString` -/
  b64decode : String → Option Bytes
  /-- `hex.DecodeString` -/
  hexdecode : String → Option Bytes
  /-- HMAC-SHA256 (key, message) -/
  hmac : Bytes → String → Bytes
  /-- `sign.Open(nil, signed, pubkey)`: the opened message if the signature verifies -/
  signOpen : Bytes → Bytes → Option Bytes

/-- `auth.BypassKeyStore` additions. -/
structure Bypass where
  alreadyAuth : String → Dict → Bool
  /-- `OnWelcome(authid, welcome, details)`: error, or the WELCOME details it leaves -/
  onWelcome : String → Dict → Dict → Except String Dict

/-- `auth.KeyStore` as oracle answers. -/
structure KeyStore where
  provider : String
  authRole : String → Except String String
  /-- `AuthKey(authid, method)`: error, or the key (`none` = a nil slice with nil error) -/
  authKey : String → String → Except String (Option Bytes)
  /-- salt, keylen, iterations -/
  passwordInfo : String → String × Int × Int
  bypass : Option Bypass

/-- An authenticator configured on a realm. `timeoutMs = 0` selects `defaultCRAuthTimeout`. -/
inductive Authr where
  | anonymous (authRole : String)
  | ticket (ks : KeyStore) (timeoutMs : Nat)
  | wampcra (ks : KeyStore) (timeoutMs : Nat)
  | cryptosign (ks : KeyStore) (timeoutMs : Nat)
  /-- any other `auth.Authenticator`: its method name and its answer (sid, HELLO details) -/
  | custom (method : String) (result : Nat → Dict → Except String Dict)

def Authr.method : Authr → String
  | .anonymous _ => "anonymous"
  | .ticket _ _ => "ticket"
  | .wampcra _ _ => "wampcra"
  | .cryptosign _ _ => "cryptosign"
  | .custom m _ => m

def crTimeout (t : Nat) : Nat := if t = 0 then Gen.Auth.defaultCRAuthTimeoutMs else t

structure RealmCfg where
  uri : String
  authenticators : List Authr := []
  anonymousAuth : Bool := false
  requireLocalAuth : Bool := false
  strictURI : Bool := false
  metaStrict : Bool := false
  metaInc : List String := []
  /-- `handleSession` finds the realm closed (RemoveRealm / Close during the handshake) -/
  closing : Bool := false

structure RouterCfg where
  realms : List RealmCfg
  template : Option RealmCfg
  /-- `r.closed` is set (Router.Close in progress) -/
  closing : Bool := false
  /-- Router.Close has completed: `post` refuses the action -/
  closed : Bool := false

/-- Per-handshake environment. -/
structure Env where
  isLocal : Bool
  /-- `transportDetails` handed to `AttachClient` -/
  transport : Dict := []
  /-- the client's outbound queue has no room during the handshake: a non-blocking send
      (CHALLENGE; WELCOME when the handler sends it) finds it full -/
  challengeBlocked : Bool := false
  /-- `{broker: brokerRole, dealer: dealerRole}` -/
  routerRoles : WVal
  o : Oracle

/-! ## setRoles / HasRole -/

/-- `v.(Dict)` or, failing that, `NormalizeDict(v) != nil`: maps only (nil is not a map). -/
def mapOf : WVal → Option Dict
  | .dict d => some d
  | _ => none

/-- features of one role dict: `none` where the Go code leaves `roleMap[role] = nil`. -/
def featuresOf (roleDict : WVal) : Option (List String) :=
  match mapOf roleDict with
  | none => none
  | some rd =>
    match rd.get? "features" with
    | none => none
    | some f =>
      match mapOf f with
      | none => none
      | some fd => some (fd.filterMap fun kv => match kv.2 with | .bool true => some kv.1 | _ => none)

abbrev RoleMap := List (String × Option (List String))

/-- `Session.setRoles`: `none` = `s.roles = nil`. `AsDict` accepts nil (then `len == 0`). -/
def setRoles (details : Dict) : Option RoleMap :=
  match details.get? "roles" with
  | none => none
  | some v =>
    match v.asDict with
    | none => none
    | some [] => none
    | some roles => some (roles.map fun kv => (kv.1, featuresOf kv.2))

def hasRole (rm : Option RoleMap) (role : String) : Bool :=
  match rm with
  | none => false
  | some m => m.any (fun kv => kv.1 == role)

/-- the `rolesOK` test of `AttachClient` -/
def hasClientRole (details : Dict) : Bool :=
  Gen.Auth.clientRoles.any (hasRole (setRoles details))

/-! ## Realm table -/

def findRealm (realms : List RealmCfg) (uri : String) : Option RealmCfg :=
  realms.find? (fun r => r.uri == uri)

/-- `newRealm`: the method → authenticator map (later entries replace earlier ones), plus the
    default anonymous authenticator when `AnonymousAuth` is set and none was configured. -/
def realmAuths (rc : RealmCfg) : List (String × Authr) :=
  let m := rc.authenticators.foldl
    (fun (m : List (String × Authr)) a => (m.filter (fun p => p.1 != a.method)) ++ [(a.method, a)]) []
  if rc.anonymousAuth && !(m.any (fun p => p.1 == "anonymous")) then
    m ++ [("anonymous", .anonymous "anonymous")]
  else m

def lookupAuth (auths : List (String × Authr)) (method : String) : Option Authr :=
  match auths.find? (fun p => p.1 == method) with
  | some p => some p.2
  | none => none

/-- `getAuthenticator`: the first of the client's methods that has an authenticator.
    `firstMatch = false` models a loop without `break` (the last match wins). -/
def getAuthenticator (firstMatch : Bool) (auths : List (String × Authr)) :
    List String → Option (Authr × String)
  | [] => none
  | m :: ms =>
    if firstMatch then
      match lookupAuth auths m with
      | some a => some (a, m)
      | none => getAuthenticator firstMatch auths ms
    else
      match getAuthenticator firstMatch auths ms with
      | some r => some r
      | none =>
        match lookupAuth auths m with
        | some a => some (a, m)
        | none => none

/-- The client's method list as `authClient` reads it: `AsList` (anything that is not a list
    counts as absent), default `anonymous` when empty, then non-strings and "" dropped. -/
def offeredMethods (details : Dict) : List String :=
  let raw : List WVal :=
    match details.get? "authmethods" with
    | some v => (v.asList).getD []
    | none => []
  let raw := if raw.isEmpty then [WVal.str Gen.Auth.defaultMethod] else raw
  raw.filterMap fun v =>
    match v with
    | .str s => if s == "" then none else some s
    | _ => none

/-! ## The built-in authenticators -/

structure AuthRes where
  sent : List Sent
  res : Except Why Dict
  rest : List Arrival

def stdWelcome (authid authrole method provider : String) : Dict :=
  [("authid", .str authid), ("authrole", .str authrole), ("authmethod", .str method),
   ("authprovider", .str provider)]

/-- `AnonymousAuth.Authenticate` -/
def anonymousAuth (role : String) (o : Oracle) (script : List Arrival) : AuthRes :=
  { sent := [], rest := script,
    res := .ok [("authid", .str (fmtHex o.authidRand)), ("authrole", .str role),
                ("authprovider", .str "static"), ("authmethod", .str "anonymous")] }

/-- the tail shared by ticket and wampcra: `if ks != nil { ks.OnWelcome(...) }` -/
def finishWelcome (bp : Option Bypass) (authid : String) (w details : Dict) : Except Why Dict :=
  match bp with
  | none => .ok w
  | some b =>
    match b.onWelcome authid w details with
    | .ok w' => .ok w'
    | .error _ => .error .onWelcomeError

/-- the `AlreadyAuth` shortcut shared by ticket, wampcra and cryptosign -/
def alreadyAuth (bp : Option Bypass) (authid : String) (details : Dict) : Bool :=
  match bp with
  | none => false
  | some b => b.alreadyAuth authid details

/-- The exchange shared by ticket, wampcra and cryptosign: a non-blocking send of CHALLENGE, then
    `RecvTimeout` for one message, which has to be AUTHENTICATE. -/
structure Exch where
  sent : List Sent
  got : Except Why String
  rest : List Arrival

def exchange (blocked : Bool) (timeoutMs : Nat) (ch : Sent) (script : List Arrival) : Exch :=
  if blocked then { sent := [], got := .error .challengeBlocked, rest := script } else
  match recvTimeout timeoutMs script with
  | (.timeout, rest) => { sent := [ch], got := .error .recvTimeout, rest := rest }
  | (.closed, rest) => { sent := [ch], got := .error .recvClosed, rest := rest }
  | (.msg (.authenticate sig _), rest) => { sent := [ch], got := .ok sig, rest := rest }
  | (.msg _, rest) => { sent := [ch], got := .error .unexpectedMsg, rest := rest }

/-- `x.got >>= f` -/
def andThen (got : Except Why String) (f : String → Except Why Dict) : Except Why Dict :=
  match got with
  | .ok sig => f sig
  | .error e => .error e

/-- the role ticket (default "") and wampcra (default "user") put into WELCOME -/
def roleOr (ks : KeyStore) (authid dflt : String) : String :=
  match ks.authRole authid with | .ok r => r | .error _ => dflt

/-- the ticket the response is compared with: an `AuthKey` error is turned into nil -/
def storedTicket (ks : KeyStore) (authid : String) : Option Bytes :=
  match ks.authKey authid "ticket" with | .ok k => k | .error _ => none

/-- `ticket == nil || authRsp.Signature != string(ticket)` negated -/
def ticketMatches (ticket : Option Bytes) (sig : String) : Bool :=
  match ticket with
  | none => false
  | some t => sig.toUTF8.toList == t

/-- `TicketAuthenticator.Authenticate` -/
def ticketAuth (ks : KeyStore) (timeoutMs : Nat) (env : Env) (details : Dict)
    (script : List Arrival) : AuthRes :=
  let authid := details.optString "authid"
  let w := stdWelcome authid (roleOr ks authid "") "ticket" ks.provider
  if authid == "" then { sent := [], res := .error .missingAuthid, rest := script }
  else if alreadyAuth ks.bypass authid details then
    { sent := [], res := finishWelcome ks.bypass authid w details, rest := script }
  else
    let x := exchange env.challengeBlocked (crTimeout timeoutMs) (.challenge "ticket" []) script
    { sent := x.sent, rest := x.rest,
      res := andThen x.got fun sig =>
        if ticketMatches (storedTicket ks authid) sig then finishWelcome ks.bypass authid w details
        else .error .invalidTicket }

/-- `CRAuthenticator.makeChallengeStr` over the regenerated format string -/
def craChallengeStr (nonce provider authid ts authrole : String) (sid : Nat) : String :=
  sprintf Gen.Auth.craChallengeFormat [nonce, provider, authid, ts, authrole, "wampcra", toString sid]

/-- the throw-away key of wampcra: `nonce()`, or `wamp.NowISO8601()` when that is empty -/
def craThrowAway (o : Oracle) : Bytes :=
  let s := o.keyNonce.getD ""
  (if s == "" then o.keyNow else s).toUTF8.toList

/-- the key wampcra signs with: the stored key, or a throw-away random one when the key store
    answers an error — or, if `refuseEmpty` (regenerated: `Gen.Auth.craRefusesEmptyKey`, the guard
    `err != nil || len(key) == 0`), no key at all (nil or empty slice with nil error) -/
def craKey (refuseEmpty : Bool) (ks : KeyStore) (o : Oracle) (authid : String) : Bytes :=
  match ks.authKey authid "wampcra" with
  | .ok k => if refuseEmpty && (k.getD []).isEmpty then craThrowAway o else k.getD []
  | .error _ => craThrowAway o

/-- `crsign.VerifySignature(sig, chal, key)` -/
def craVerify (o : Oracle) (sig chal : String) (key : Bytes) : Bool :=
  match o.b64decode sig with
  | none => false
  | some sb => sb == o.hmac key chal

def craExtra (ks : KeyStore) (authid chStr : String) : Dict :=
  if (ks.passwordInfo authid).1 == "" then [("challenge", .str chStr)]
  else [("challenge", .str chStr), ("salt", .str (ks.passwordInfo authid).1),
        ("keylen", .int (ks.passwordInfo authid).2.1), ("iterations", .int (ks.passwordInfo authid).2.2)]

/-- the challenge string wampcra issues in this handshake -/
def craChallengeOf (ks : KeyStore) (env : Env) (authid nonce : String) : String :=
  craChallengeStr nonce ks.provider authid env.o.now (roleOr ks authid "user") env.o.sid

/-- `CRAuthenticator.Authenticate` -/
def craAuth (refuseEmpty : Bool) (ks : KeyStore) (timeoutMs : Nat) (env : Env) (details : Dict)
    (script : List Arrival) : AuthRes :=
  let authid := details.optString "authid"
  let w := stdWelcome authid (roleOr ks authid "user") "wampcra" ks.provider
  if authid == "" then { sent := [], res := .error .missingAuthid, rest := script }
  else if alreadyAuth ks.bypass authid details then
    { sent := [], res := finishWelcome ks.bypass authid w details, rest := script }
  else
    match env.o.chalNonce with
    | none => { sent := [], res := .error .nonceError, rest := script }
    | some nonce =>
      let chStr := craChallengeOf ks env authid nonce
      let x := exchange env.challengeBlocked (crTimeout timeoutMs)
        (.challenge "wampcra" (craExtra ks authid chStr)) script
      { sent := x.sent, rest := x.rest,
        res := andThen x.got fun sig =>
          if craVerify env.o sig chStr (craKey refuseEmpty ks env.o authid) then finishWelcome ks.bypass authid w details
          else .error .invalidSignature }

/-- `CryptoSignAuthenticator.verifySignature`.  `checksChallenge` is regenerated from the
    source (`Gen.Auth.cryptosignChecksChallenge`): the code as it stands never looks at the
    opened message. -/
def csVerify (checksChallenge : Bool) (o : Oracle) (sig : String) (pubkey challenge : Bytes) :
    Except Why Bool :=
  match o.hexdecode sig with
  | none => .error .sigDecode
  | some sb =>
    if sb.length ≠ Gen.Auth.cryptosignSignedLen then .error .sigLength
    else
      match o.signOpen sb (pad32 pubkey) with
      | none => .ok false
      | some opened => .ok (if checksChallenge then opened == challenge else true)

/-- the decision after AUTHENTICATE arrived -/
def csDecide (checksChallenge : Bool) (o : Oracle) (pubkey challenge : Bytes) (w : Dict) (sig : String) :
    Except Why Dict :=
  match csVerify checksChallenge o sig pubkey challenge with
  | .error e => .error e
  | .ok false => .error .invalidSignature
  | .ok true => .ok w

/-- `CryptoSignAuthenticator.Authenticate` (no `OnWelcome` on the challenge path) -/
def csAuth (checksChallenge refuseEmpty : Bool) (ks : KeyStore) (timeoutMs : Nat) (env : Env) (details : Dict)
    (script : List Arrival) : AuthRes :=
  let authid := details.optString "authid"
  if authid == "" then { sent := [], res := .error .missingAuthid, rest := script } else
  match ks.authRole authid with
  | .error _ => { sent := [], res := .error .authRoleError, rest := script }
  | .ok authrole =>
    let w := stdWelcome authid authrole "cryptosign" ks.provider
    if alreadyAuth ks.bypass authid details then
      { sent := [], res := finishWelcome ks.bypass authid w details, rest := script }
    else
      match ks.authKey authid "cryptosign" with
      | .error _ => { sent := [], res := .error .keyError, rest := script }
      | .ok key =>
        -- `err != nil || len(key) == 0` (regenerated: `Gen.Auth.csRefusesEmptyKey`): no public key, no CHALLENGE
        if refuseEmpty && (key.getD []).isEmpty then { sent := [], res := .error .keyError, rest := script } else
        match env.o.csChallenge with
        | none => { sent := [], res := .error .nonceError, rest := script }
        | some challenge =>
          let x := exchange env.challengeBlocked (crTimeout timeoutMs)
            (.challenge "cryptosign" [("challenge", .str (hexEncode challenge))]) script
          { sent := x.sent, rest := x.rest,
            res := andThen x.got (csDecide checksChallenge env.o (key.getD []) challenge w) }

/-- Static facts of the source the model is parametrised by (all regenerated). -/
structure Facts where
  /-- WELCOME is sent without blocking (by the session handler): a full queue drops it -/
  welcomeNonBlocking : Bool
  firstMatch : Bool
  csChecksChallenge : Bool
  /-- wampcra treats a key store answer without a key like an error (throw-away random key) -/
  craRefusesEmptyKey : Bool
  /-- cryptosign refuses a key store answer without a key before any CHALLENGE -/
  csRefusesEmptyKey : Bool
  helloSkip : List String
  welcomeSkip : List String
  sessionKey : String

def Facts.gen : Facts :=
  { welcomeNonBlocking := Gen.Auth.welcomeSendNonBlocking
    firstMatch := Gen.Auth.getAuthenticatorFirstMatch
    csChecksChallenge := Gen.Auth.cryptosignChecksChallenge
    craRefusesEmptyKey := Gen.Auth.craRefusesEmptyKey
    csRefusesEmptyKey := Gen.Auth.csRefusesEmptyKey
    helloSkip := Gen.Auth.helloSkip
    welcomeSkip := Gen.Auth.welcomeSkip
    sessionKey := Gen.Auth.sessionKey }

/-- `authr.Authenticate(sid, details, client)` -/
def runAuth (fx : Facts) (a : Authr) (env : Env) (details : Dict) (script : List Arrival) : AuthRes :=
  match a with
  | .anonymous role => anonymousAuth role env.o script
  | .ticket ks t => ticketAuth ks t env details script
  | .wampcra ks t => craAuth fx.craRefusesEmptyKey ks t env details script
  | .cryptosign ks t => csAuth fx.csChecksChallenge fx.csRefusesEmptyKey ks t env details script
  | .custom _ f =>
    { sent := [], rest := script,
      res := match f env.o.sid details with | .ok w => .ok w | .error _ => .error .customError }

/-- WELCOME details for an in-process client (the bypass) -/
def localWelcome (env : Env) (details : Dict) : Dict :=
  let authid := details.optString "authid"
  let authid := if authid == "" then fmtHex env.o.authidRand else authid
  [("authid", .str authid), ("authrole", .str "trusted"), ("authmethod", .str "local"),
   ("authprovider", .str "static"), ("roles", env.routerRoles)]

/-- `realm.authClient` -/
def authClient (fx : Facts) (rc : RealmCfg) (env : Env) (details : Dict) (script : List Arrival) : AuthRes :=
  if env.isLocal && !rc.requireLocalAuth then
    { sent := [], res := .ok (localWelcome env details), rest := script }
  else
    match offeredMethods details with
    | [] => { sent := [], res := .error .noAuthSupplied, rest := script }
    | m :: ms =>
      match getAuthenticator fx.firstMatch (realmAuths rc) (m :: ms) with
      | none => { sent := [], res := .error .noAuthenticator, rest := script }
      | some (a, method) =>
        let r := runAuth fx a env details script
        match r.res with
        | .error e => { r with res := .error e }
        | .ok w =>
          { r with res := .ok ((w.set "authmethod" (.str method)).set "roles" env.routerRoles) }

/-! ## Session details -/

/-- `for k, v := range src { if k ∈ skip { continue }; dst[k] = v }` for a map `src` given as an
    association list read by `get?` (first binding is the map's binding: it is assigned last). -/
def mergeInto (skip : List String) (dst src : Dict) : Dict :=
  src.foldr (fun kv acc => if skip.contains kv.1 then acc else acc.set kv.1 kv.2) dst

/-- The three steps of `AttachClient` that build `sess.Details`. -/
def sessDetails (fx : Facts) (hello welcome : Dict) (sid : Nat) : Dict :=
  (mergeInto fx.welcomeSkip (mergeInto fx.helloSkip [] hello) welcome).set fx.sessionKey (.int sid)

/-- `wamp.DictChild`: a present, non-nil map child. -/
def dictChild (d : Dict) (k : String) : Option Dict :=
  match d.get? k with
  | some (.dict c) => some c
  | _ => none

/-- `realm.cleanSessionDetails`: what `wamp.session.get` and `on_join` show. -/
def cleanSessionDetails (metaStrict : Bool) (inc : List String) (details : Dict) : Dict :=
  let clean : Dict :=
    if metaStrict then
      (Gen.Auth.metaStdItems ++ inc).foldl
        (fun acc k => match details.get? k with | some v => acc.set k v | none => acc) []
    else details
  match dictChild details "transport" with
  | none => clean
  | some t =>
    match dictChild t "auth" with
    | none => clean
    | some _ =>
      let alt := t.filter (fun kv => kv.1 != "auth")
      clean.set "transport" (if alt.isEmpty then .null else .dict alt)

/-! ## AttachClient -/

inductive Outcome where
  | welcome (sid : Nat) (session : Dict) (welcomeDetails : Dict)
  | abort (reason : String) (why : Why)
  /-- no HELLO arrived: the peer is closed without ABORT -/
  | dropped (why : Why)

structure Result where
  outcome : Outcome
  /-- every message the router sent to the client, in order -/
  sent : List Sent
  /-- `onJoin` ran: the session is in the realm's client table and `on_join` was published -/
  joined : Bool
  /-- a realm was created from the template (it stays, whatever happens next) -/
  created : Option RealmCfg
  /-- client actions the router never read -/
  rest : List Arrival

def abortWith (reason : String) (why : Why) (sent : List Sent) (created : Option RealmCfg)
    (rest : List Arrival) : Result :=
  { outcome := .abort reason why, sent := sent ++ [.abort reason], joined := false,
    created := created, rest := rest }

/-- realm lookup / creation inside the router's action function -/
def lookupRealm (rt : RouterCfg) (realm : String) : Except Why (RealmCfg × Option RealmCfg) :=
  if rt.closed then .error .routerClosed else
  if rt.closing then .error .routerClosing else
  match findRealm rt.realms realm with
  | some rc => .ok (rc, none)
  | none =>
    match rt.template with
    | none => .error .noSuchRealm
    | some t =>
      if L2.validUri t.strictURI "" realm then
        let rc := { t with uri := realm }
        .ok (rc, some rc)
      else .error .realmCreateFailed

def reasonOfLookup : Why → String
  | .routerClosed => Gen.N.ErrSystemShutdown
  | .routerClosing => Gen.N.ErrSystemShutdown
  | _ => Gen.N.ErrNoSuchRealm

/-- HELLO.Details as `authClient` and the session see them: `AttachClient` stores the transport
    details (when there are any) under `transport`, replacing what the client wrote there. -/
def helloDetails (env : Env) (details : Dict) : Dict :=
  if env.transport.isEmpty then details else details.set "transport" (.dict env.transport)

/-- everything after the realm is known -/
def attachRealm (fx : Facts) (rc : RealmCfg) (created : Option RealmCfg) (env : Env)
    (details : Dict) (script : List Arrival) : Result :=
  if !hasClientRole details then
    abortWith Gen.N.ErrNoSuchRole .noRoles [] created script
  else
    let details' := helloDetails env details
    let r := authClient fx rc env details' script
    match r.res with
    | .error e => abortWith Gen.N.ErrAuthenticationFailed e r.sent created r.rest
    | .ok w =>
      let sess := sessDetails fx details' w env.o.sid
      if rc.closing then
        abortWith Gen.N.ErrSystemShutdown .realmClosing r.sent created r.rest
      else
        { outcome := .welcome env.o.sid sess w,
          sent := if fx.welcomeNonBlocking && env.challengeBlocked then r.sent
                  else r.sent ++ [.welcome env.o.sid w],
          joined := true, created := created, rest := r.rest }

/-- `router.AttachClient` -/
def attach (fx : Facts) (rt : RouterCfg) (env : Env) (arrivals : List Arrival) : Result :=
  match recvTimeout Gen.Auth.helloTimeoutMs arrivals with
  | (.timeout, rest) =>
    { outcome := .dropped .helloTimeout, sent := [], joined := false, created := none, rest := rest }
  | (.closed, rest) =>
    { outcome := .dropped .helloClosed, sent := [], joined := false, created := none, rest := rest }
  | (.msg (.authenticate _ _), rest) =>
    abortWith Gen.N.ErrProtocolViolation (.notHello 5) [] none rest
  | (.msg (.other t), rest) =>
    abortWith Gen.N.ErrProtocolViolation (.notHello t) [] none rest
  | (.msg (.hello realm details), rest) =>
    if realm == "" then abortWith Gen.N.ErrNoSuchRealm .emptyRealm [] none rest else
    match lookupRealm rt realm with
    | .error e => abortWith (reasonOfLookup e) e [] none rest
    | .ok (rc, created) => attachRealm fx rc created env details rest

/-- The router after a handshake: a template-created realm stays. -/
def routerAfter (rt : RouterCfg) (r : Result) : RouterCfg :=
  match r.created with
  | none => rt
  | some rc => { rt with realms := rt.realms ++ [rc] }

end Nexus.Auth
