/-
  WpD (audit D, C09 a2/d2): the wampcra challenge string determines the session id.

  `CRAuthenticator.makeChallengeStr` (router/auth/crauth.go) renders
      { "nonce":"%s", "authprovider":"%s", "authid":"%s", "timestamp":"%s", "authrole":"%s",
        "authmethod":"%s", "session":%d }
  The format string is regenerated from the source (`Gen.Auth.craChallengeFormat`); the lemmas
  below are about THAT string, so that a change of the format breaks the build here.

  The argument: the rendered string ends in `:<decimal digits of the session id> }`.  The decimal
  digits contain no `:`, so the maximal `:`-free suffix of the string is `<digits> }`, whatever the
  five `%s` arguments are (they may contain `:`, `"`, `}`, digits — they all come BEFORE that last
  `:`).  Equal strings therefore have equal digit runs, and `Nat.toDigits 10` is injective.
-/
import Nexus.Auth.Model

namespace Nexus.Auth.WpD
open Nexus Nexus.Auth

/-! ## `sprintfAux` on literal text and on one verb -/

/-- literal text without `%` is copied -/
theorem sprintfAux_lit (lit rest : List Char) (args : List String) (h : '%' ∉ lit) :
    sprintfAux (lit ++ rest) args = lit ++ sprintfAux rest args := by
  induction lit with
  | nil => rfl
  | cons c cs ih =>
    have hc : c ≠ '%' := fun e => h (by simp [e])
    have hcs : '%' ∉ cs := fun e => h (by simp [e])
    simp only [List.cons_append]
    rw [sprintfAux]
    · rw [ih hcs]
    · intro _ _ _ _ e _; exact hc e
    · intro _ _ _ _ e _; exact hc e

theorem sprintfAux_s (rest : List Char) (a : String) (as : List String) :
    sprintfAux ('%' :: 's' :: rest) (a :: as) = a.toList ++ sprintfAux rest as := by
  rw [sprintfAux]

theorem sprintfAux_d (rest : List Char) (a : String) (as : List String) :
    sprintfAux ('%' :: 'd' :: rest) (a :: as) = a.toList ++ sprintfAux rest as := by
  rw [sprintfAux]

set_option maxRecDepth 20000 in
/-- The regenerated format string, cut at its seven verbs. -/
theorem craFormat_split :
    Gen.Auth.craChallengeFormat.toList =
      "{ \"nonce\":\"".toList ++ '%' :: 's' :: ("\", \"authprovider\":\"".toList ++ '%' :: 's' ::
      ("\", \"authid\":\"".toList ++ '%' :: 's' :: ("\", \"timestamp\":\"".toList ++ '%' :: 's' ::
      ("\", \"authrole\":\"".toList ++ '%' :: 's' :: ("\", \"authmethod\":\"".toList ++ '%' :: 's' ::
      ("\", \"session\":".toList ++ '%' :: 'd' :: " }".toList)))))) := by
  decide

/-- everything `makeChallengeStr` writes before the `:` that precedes the session id -/
def craPrefix (nonce provider authid ts authrole : String) : List Char :=
  "{ \"nonce\":\"".toList ++ (nonce.toList ++ ("\", \"authprovider\":\"".toList ++ (provider.toList ++
  ("\", \"authid\":\"".toList ++ (authid.toList ++ ("\", \"timestamp\":\"".toList ++ (ts.toList ++
  ("\", \"authrole\":\"".toList ++ (authrole.toList ++ ("\", \"authmethod\":\"".toList ++ ("wampcra".toList ++
  "\", \"session\"".toList)))))))))))

/-- The challenge string, spelled out: the prefix, `:`, the decimal digits of the session id, ` }`. -/
theorem craChallengeStr_toList (nonce provider authid ts authrole : String) (sid : Nat) :
    (craChallengeStr nonce provider authid ts authrole sid).toList =
      craPrefix nonce provider authid ts authrole ++ ':' :: (Nat.toDigits 10 sid ++ [' ', '}']) := by
  have hd : (toString sid).toList = Nat.toDigits 10 sid := by
    rw [Nat.toString_eq_repr, Nat.toList_repr]
  have hlast : "\", \"session\":".toList = "\", \"session\"".toList ++ [':'] := by decide
  have hend : sprintfAux " }".toList [] = [' ', '}'] := by decide
  unfold craChallengeStr sprintf craPrefix
  rw [String.toList_ofList, craFormat_split]
  rw [sprintfAux_lit _ _ _ (by decide), sprintfAux_s]
  rw [sprintfAux_lit _ _ _ (by decide), sprintfAux_s]
  rw [sprintfAux_lit _ _ _ (by decide), sprintfAux_s]
  rw [sprintfAux_lit _ _ _ (by decide), sprintfAux_s]
  rw [sprintfAux_lit _ _ _ (by decide), sprintfAux_s]
  rw [sprintfAux_lit _ _ _ (by decide), sprintfAux_s]
  rw [sprintfAux_lit _ _ _ (by decide), sprintfAux_d, hend, hd, hlast]
  simp only [List.append_assoc, List.cons_append, List.nil_append]

/-! ## The digit run before ` }` is determined by the string -/

/-- two `:`-free lists followed by `:` and anything: equal wholes have equal `:`-free parts -/
theorem sep_inj {d₁ d₂ x y : List Char} (h₁ : ∀ c ∈ d₁, c ≠ ':') (h₂ : ∀ c ∈ d₂, c ≠ ':')
    (h : d₁ ++ ':' :: x = d₂ ++ ':' :: y) : d₁ = d₂ := by
  induction d₁ generalizing d₂ with
  | nil =>
    cases d₂ with
    | nil => rfl
    | cons c cs =>
      simp only [List.nil_append, List.cons_append, List.cons.injEq] at h
      exact absurd h.1.symm (h₂ c (by simp))
  | cons a as ih =>
    cases d₂ with
    | nil =>
      simp only [List.nil_append, List.cons_append, List.cons.injEq] at h
      exact absurd h.1 (h₁ a (by simp))
    | cons c cs =>
      simp only [List.cons_append, List.cons.injEq] at h
      rw [h.1, ih (fun c hc => h₁ c (by simp [hc])) (fun c hc => h₂ c (by simp [hc])) h.2]

theorem digit_ne_colon {c : Char} (h : c.isDigit = true) : c ≠ ':' := by
  intro e
  subst e
  exact absurd h (by decide)

/-- decimal rendering is injective -/
theorem toDigits_ten_inj {a b : Nat} (h : Nat.toDigits 10 a = Nat.toDigits 10 b) : a = b := by
  have ha := @Nat.ofDigitChars_ten_toDigits a
  rw [h, Nat.ofDigitChars_ten_toDigits] at ha
  exact ha.symm

/-- `pre ++ ":" ++ digits(s) ++ " }"` determines `s`, whatever `pre` is. -/
theorem suffix_sid_inj {pre₁ pre₂ : List Char} {s₁ s₂ : Nat}
    (h : pre₁ ++ ':' :: (Nat.toDigits 10 s₁ ++ [' ', '}']) = pre₂ ++ ':' :: (Nat.toDigits 10 s₂ ++ [' ', '}'])) :
    s₁ = s₂ := by
  have e : ∀ (pre D : List Char), (pre ++ ':' :: (D ++ [' ', '}'])).reverse =
      ('}' :: ' ' :: D.reverse) ++ ':' :: pre.reverse := by
    intro pre D; simp
  have hr := congrArg List.reverse h
  rw [e, e] at hr
  have hfree : ∀ s : Nat, ∀ c ∈ '}' :: ' ' :: (Nat.toDigits 10 s).reverse, c ≠ ':' := by
    intro s c hc
    simp only [List.mem_cons, List.mem_reverse] at hc
    rcases hc with hc | hc | hc
    · subst hc; decide
    · subst hc; decide
    · exact digit_ne_colon (Nat.isDigit_of_mem_toDigits (by decide) (by decide) hc)
  have hd := sep_inj (hfree s₁) (hfree s₂) hr
  simp only [List.cons.injEq, true_and, List.reverse_inj] at hd
  exact toDigits_ten_inj hd

/-- `craChallengeStr_sid_inj`: two wampcra challenge strings that are equal were made for the same
    session id — whatever nonce, provider, authid, timestamp and authrole went into them. -/
theorem craChallengeStr_sid_inj {n p a t r n' p' a' t' r' : String} {s₁ s₂ : Nat}
    (h : craChallengeStr n p a t r s₁ = craChallengeStr n' p' a' t' r' s₂) : s₁ = s₂ := by
  have hl := congrArg String.toList h
  rw [craChallengeStr_toList, craChallengeStr_toList] at hl
  exact suffix_sid_inj hl

end Nexus.Auth.WpD
