/-
  What acceptance by each built-in authenticator means (helper lemmas for C09).
-/
import Nexus.Auth.Lemmas

namespace Nexus.Auth
open Nexus

/-- The script starts with an AUTHENTICATE that arrives before the timeout `t` (ms). -/
def AnswersInTime (t : Nat) (script : List Arrival) (sig : String) (rest : List Arrival) : Prop :=
  ∃ d extra, script = ⟨d, .msg (.authenticate sig extra)⟩ :: rest ∧ d < t

theorem exchange_ok {blocked : Bool} {t : Nat} {ch : Sent} {script : List Arrival} {sig : String}
    (h : (exchange blocked t ch script).got = .ok sig) :
    blocked = false ∧ (exchange blocked t ch script).sent = [ch] ∧
      AnswersInTime t script sig (exchange blocked t ch script).rest := by
  unfold exchange at h ⊢
  cases blocked with
  | true => simp at h
  | false =>
    simp only [Bool.false_eq_true, if_false] at h ⊢
    split at h
    · simp at h
    · simp at h
    · rename_i sig' extra rest hrecv
      simp at h
      subst h
      refine ⟨by simp, ?_, ?_⟩
      · simp
      · obtain ⟨d, he, hd⟩ := recvTimeout_msg hrecv
        exact ⟨d, extra, he, hd⟩
    · simp at h

theorem exchange_of_answer {t : Nat} {ch : Sent} {script rest : List Arrival} {sig : String}
    (h : AnswersInTime t script sig rest) :
    exchange false t ch script = { sent := [ch], got := .ok sig, rest := rest } := by
  obtain ⟨d, extra, he, hd⟩ := h
  subst he
  simp [exchange, recvTimeout, hd]

theorem andThen_ok {got : Except Why String} {f : String → Except Why Dict} {w : Dict}
    (h : andThen got f = .ok w) : ∃ sig, got = .ok sig ∧ f sig = .ok w := by
  cases got with
  | ok sig => exact ⟨sig, rfl, h⟩
  | error e => simp [andThen] at h

theorem ticketMatches_iff {ticket : Option Bytes} {sig : String} :
    ticketMatches ticket sig = true ↔ ∃ t, ticket = some t ∧ sig.toUTF8.toList = t := by
  cases ticket with
  | none => simp [ticketMatches]
  | some t => simp [ticketMatches]

theorem storedTicket_some {ks : KeyStore} {authid : String} {t : Bytes}
    (h : storedTicket ks authid = some t) : ks.authKey authid "ticket" = .ok (some t) := by
  unfold storedTicket at h
  cases hk : ks.authKey authid "ticket" with
  | ok k => rw [hk] at h; simp at h; simp [h]
  | error e => rw [hk] at h; simp at h

/-! ### ticket -/

/-- ticket (challenge path): the response is the stored ticket. -/
def TicketAccepts (ks : KeyStore) (t : Nat) (env : Env) (details : Dict) (script rest : List Arrival) : Prop :=
  env.challengeBlocked = false ∧
  ∃ sig key, AnswersInTime (crTimeout t) script sig rest ∧
    ks.authKey (details.optString "authid") "ticket" = .ok (some key) ∧ sig.toUTF8.toList = key

theorem ticketAuth_ok {ks : KeyStore} {t : Nat} {env : Env} {details : Dict} {script : List Arrival} {w : Dict}
    (h : (ticketAuth ks t env details script).res = .ok w) :
    details.optString "authid" ≠ "" ∧
    finishWelcome ks.bypass (details.optString "authid")
      (stdWelcome (details.optString "authid") (roleOr ks (details.optString "authid") "") "ticket" ks.provider)
      details = .ok w ∧
    ((alreadyAuth ks.bypass (details.optString "authid") details = true ∧
        (ticketAuth ks t env details script).sent = []) ∨
     (alreadyAuth ks.bypass (details.optString "authid") details = false ∧
        (ticketAuth ks t env details script).sent = [.challenge "ticket" []] ∧
        TicketAccepts ks t env details script (ticketAuth ks t env details script).rest)) := by
  by_cases ha : details.optString "authid" = ""
  · simp [ticketAuth, ha] at h
  · refine ⟨ha, ?_⟩
    by_cases hal : alreadyAuth ks.bypass (details.optString "authid") details = true
    · simp only [ticketAuth, beq_iff_eq, ha, hal, if_true, if_false] at h ⊢
      exact ⟨h, Or.inl ⟨trivial, trivial⟩⟩
    · simp only [ticketAuth, beq_iff_eq, ha, hal, if_false] at h ⊢
      obtain ⟨sig, hgot, hdec⟩ := andThen_ok h
      obtain ⟨hb, hsent, hans⟩ := exchange_ok hgot
      by_cases hm : ticketMatches (storedTicket ks (details.optString "authid")) sig = true
      · simp only [hm, if_true] at hdec
        obtain ⟨tk, htk, hs⟩ := ticketMatches_iff.mp hm
        refine ⟨hdec, Or.inr ⟨by simpa using hal, hsent, hb, sig, tk, hans, storedTicket_some htk, hs⟩⟩
      · simp [hm] at hdec

/-! ### wampcra -/

/-- wampcra (challenge path): the decoded response is the HMAC, under the key the router holds for
    this authid, of the challenge string issued in THIS handshake. -/
def CraAccepts (rk : Bool) (ks : KeyStore) (t : Nat) (env : Env) (details : Dict) (script rest : List Arrival)
    (chStr : String) : Prop :=
  env.challengeBlocked = false ∧
  ∃ nonce sig sb, env.o.chalNonce = some nonce ∧
    chStr = craChallengeOf ks env (details.optString "authid") nonce ∧
    AnswersInTime (crTimeout t) script sig rest ∧
    env.o.b64decode sig = some sb ∧
    sb = env.o.hmac (craKey rk ks env.o (details.optString "authid")) chStr

theorem craVerify_iff {o : Oracle} {sig chal : String} {key : Bytes} :
    craVerify o sig chal key = true ↔ ∃ sb, o.b64decode sig = some sb ∧ sb = o.hmac key chal := by
  unfold craVerify
  cases o.b64decode sig with
  | none => simp
  | some sb => simp

theorem craAuth_ok {rk : Bool} {ks : KeyStore} {t : Nat} {env : Env} {details : Dict} {script : List Arrival} {w : Dict}
    (h : (craAuth rk ks t env details script).res = .ok w) :
    details.optString "authid" ≠ "" ∧
    finishWelcome ks.bypass (details.optString "authid")
      (stdWelcome (details.optString "authid") (roleOr ks (details.optString "authid") "user") "wampcra" ks.provider)
      details = .ok w ∧
    ((alreadyAuth ks.bypass (details.optString "authid") details = true ∧
        (craAuth rk ks t env details script).sent = []) ∨
     (alreadyAuth ks.bypass (details.optString "authid") details = false ∧
        ∃ chStr, (craAuth rk ks t env details script).sent =
            [.challenge "wampcra" (craExtra ks (details.optString "authid") chStr)] ∧
          CraAccepts rk ks t env details script (craAuth rk ks t env details script).rest chStr)) := by
  by_cases ha : details.optString "authid" = ""
  · simp [craAuth, ha] at h
  · refine ⟨ha, ?_⟩
    by_cases hal : alreadyAuth ks.bypass (details.optString "authid") details = true
    · simp only [craAuth, beq_iff_eq, ha, hal, if_true, if_false] at h ⊢
      exact ⟨h, Or.inl ⟨trivial, trivial⟩⟩
    · simp only [craAuth, beq_iff_eq, ha, hal, if_false] at h ⊢
      cases hn : env.o.chalNonce with
      | none => simp [hn] at h
      | some nonce =>
        simp only [hn] at h ⊢
        obtain ⟨sig, hgot, hdec⟩ := andThen_ok h
        obtain ⟨hb, hsent, hans⟩ := exchange_ok hgot
        by_cases hv : craVerify env.o sig (craChallengeOf ks env (details.optString "authid") nonce)
            (craKey rk ks env.o (details.optString "authid")) = true
        · simp only [hv, if_true] at hdec
          obtain ⟨sb, hsb, heq⟩ := craVerify_iff.mp hv
          exact ⟨hdec, Or.inr ⟨by simpa using hal, _, hsent, hb, nonce, sig, sb, hn, rfl, hans, hsb, heq⟩⟩
        · simp [hv] at hdec

/-! ### cryptosign -/

/-- cryptosign as the code decides it: the hex-decoded response has the right length and opens
    under the stored public key; when `checks`, the opened message is the issued challenge. -/
def CsVerified (checks : Bool) (o : Oracle) (sig : String) (pubkey challenge : Bytes) : Prop :=
  ∃ sb opened, o.hexdecode sig = some sb ∧ sb.length = Gen.Auth.cryptosignSignedLen ∧
    o.signOpen sb (pad32 pubkey) = some opened ∧ (checks = true → opened = challenge)

theorem csVerify_true_iff {checks : Bool} {o : Oracle} {sig : String} {pubkey challenge : Bytes} :
    csVerify checks o sig pubkey challenge = .ok true ↔ CsVerified checks o sig pubkey challenge := by
  unfold csVerify CsVerified
  cases o.hexdecode sig with
  | none => simp
  | some sb =>
    by_cases hl : sb.length = Gen.Auth.cryptosignSignedLen
    · cases hso : o.signOpen sb (pad32 pubkey) with
      | none => simp [hl, hso]
      | some opened =>
        cases checks with
        | true => simp [hl, hso]
        | false => simp [hl, hso]
    · simp [hl]

theorem csDecide_ok {checks : Bool} {o : Oracle} {pubkey challenge : Bytes} {w w' : Dict} {sig : String}
    (h : csDecide checks o pubkey challenge w sig = .ok w') :
    w' = w ∧ CsVerified checks o sig pubkey challenge := by
  unfold csDecide at h
  split at h
  · simp at h
  · simp at h
  · rename_i hv
    simp at h
    exact ⟨h.symm, csVerify_true_iff.mp hv⟩

/-- cryptosign (challenge path) -/
def CsAccepts (checks rk : Bool) (ks : KeyStore) (t : Nat) (env : Env) (details : Dict)
    (script rest : List Arrival) (challenge : Bytes) : Prop :=
  env.challengeBlocked = false ∧ env.o.csChallenge = some challenge ∧
  ∃ sig key, AnswersInTime (crTimeout t) script sig rest ∧
    ks.authKey (details.optString "authid") "cryptosign" = .ok key ∧
    (rk && (key.getD []).isEmpty) = false ∧
    CsVerified checks env.o sig (key.getD []) challenge

theorem csAuth_ok {checks rk : Bool} {ks : KeyStore} {t : Nat} {env : Env} {details : Dict}
    {script : List Arrival} {w : Dict}
    (h : (csAuth checks rk ks t env details script).res = .ok w) :
    details.optString "authid" ≠ "" ∧
    ∃ authrole, ks.authRole (details.optString "authid") = .ok authrole ∧
    ((alreadyAuth ks.bypass (details.optString "authid") details = true ∧
        (csAuth checks rk ks t env details script).sent = [] ∧
        finishWelcome ks.bypass (details.optString "authid")
          (stdWelcome (details.optString "authid") authrole "cryptosign" ks.provider) details = .ok w) ∨
     (alreadyAuth ks.bypass (details.optString "authid") details = false ∧
        w = stdWelcome (details.optString "authid") authrole "cryptosign" ks.provider ∧
        ∃ challenge, (csAuth checks rk ks t env details script).sent =
            [.challenge "cryptosign" [("challenge", .str (hexEncode challenge))]] ∧
          CsAccepts checks rk ks t env details script (csAuth checks rk ks t env details script).rest challenge)) := by
  by_cases ha : details.optString "authid" = ""
  · simp [csAuth, ha] at h
  · refine ⟨ha, ?_⟩
    cases hr : ks.authRole (details.optString "authid") with
    | error e => simp [csAuth, ha, hr] at h
    | ok authrole =>
      refine ⟨authrole, rfl, ?_⟩
      by_cases hal : alreadyAuth ks.bypass (details.optString "authid") details = true
      · simp only [csAuth, beq_iff_eq, ha, hr, hal, if_true, if_false] at h ⊢
        exact Or.inl ⟨trivial, trivial, h⟩
      · simp only [csAuth, beq_iff_eq, ha, hr, hal, if_false] at h ⊢
        cases hk : ks.authKey (details.optString "authid") "cryptosign" with
        | error e => simp [hk] at h
        | ok key =>
          simp only [hk] at h ⊢
          cases hrk : (rk && (key.getD []).isEmpty) with
          | true => simp [hrk] at h
          | false =>
          simp only [hrk, Bool.false_eq_true, if_false] at h ⊢
          cases hc : env.o.csChallenge with
          | none => simp [hc] at h
          | some challenge =>
            simp only [hc] at h ⊢
            obtain ⟨sig, hgot, hdec⟩ := andThen_ok h
            obtain ⟨hb, hsent, hans⟩ := exchange_ok hgot
            obtain ⟨hw, hv⟩ := csDecide_ok hdec
            exact Or.inr ⟨by simpa using hal, hw, challenge, hsent, hb, hc, sig, key, hans, hk, hrk, hv⟩

/-! ### anonymous -/

theorem anonymousAuth_res (role : String) (o : Oracle) (script : List Arrival) :
    (anonymousAuth role o script).res =
      .ok [("authid", .str (fmtHex o.authidRand)), ("authrole", .str role),
           ("authprovider", .str "static"), ("authmethod", .str "anonymous")] := rfl

end Nexus.Auth
