/-
  The shape of every `attach` result: what was sent, whether the session joined, and which ABORT
  reason goes with which failing branch (helpers for C09).
-/
import Nexus.Auth.Attach

namespace Nexus.Auth
open Nexus

/-- Branches that fail inside `authClient` / an authenticator. -/
def Why.isAuth : Why → Bool
  | .noAuthSupplied | .noAuthenticator | .missingAuthid | .authRoleError | .keyError | .nonceError
  | .challengeBlocked | .recvTimeout | .recvClosed | .unexpectedMsg | .invalidTicket
  | .invalidSignature | .sigDecode | .sigLength | .onWelcomeError | .customError => true
  | _ => false

/-- The two branches in which no message arrived: the peer is closed without ABORT. -/
def Why.isDrop : Why → Bool
  | .helloTimeout | .helloClosed => true
  | _ => false

/-- The ABORT reason that goes with a failing branch ("" where no ABORT is sent). -/
def reasonOf : Why → String
  | .helloTimeout | .helloClosed => ""
  | .notHello _ => Gen.N.ErrProtocolViolation
  | .emptyRealm | .noSuchRealm | .realmCreateFailed => Gen.N.ErrNoSuchRealm
  | .routerClosed | .routerClosing | .realmClosing => Gen.N.ErrSystemShutdown
  | .noRoles => Gen.N.ErrNoSuchRole
  | _ => Gen.N.ErrAuthenticationFailed

theorem exchange_err {blocked : Bool} {t : Nat} {ch : Sent} {script : List Arrival} {e : Why}
    (h : (exchange blocked t ch script).got = .error e) : e.isAuth = true := by
  unfold exchange at h
  cases blocked with
  | true => simp at h; subst h; rfl
  | false =>
    simp only [Bool.false_eq_true, if_false] at h
    split at h <;> simp at h <;> subst h <;> rfl

theorem finishWelcome_err {bp : Option Bypass} {authid : String} {w details : Dict} {e : Why}
    (h : finishWelcome bp authid w details = .error e) : e.isAuth = true := by
  unfold finishWelcome at h
  split at h
  · simp at h
  · split at h
    · simp at h
    · simp at h; subst h; rfl

theorem andThen_err {got : Except Why String} {f : String → Except Why Dict} {e : Why}
    (h : andThen got f = .error e) (hg : ∀ e', got = .error e' → e'.isAuth = true)
    (hf : ∀ sig e', f sig = .error e' → e'.isAuth = true) : e.isAuth = true := by
  cases got with
  | ok sig => exact hf sig e h
  | error e' =>
    simp [andThen] at h
    subst h
    exact hg e' rfl

theorem csDecide_err {checks : Bool} {o : Oracle} {pubkey challenge : Bytes} {w : Dict} {sig : String} {e : Why}
    (h : csDecide checks o pubkey challenge w sig = .error e) : e.isAuth = true := by
  unfold csDecide at h
  split at h
  · rename_i e' hv
    simp at h
    subst h
    unfold csVerify at hv
    split at hv
    · simp at hv; subst hv; rfl
    · split at hv
      · simp at hv; subst hv; rfl
      · split at hv <;> simp at hv
  · simp at h; subst h; rfl
  · simp at h

theorem runAuth_err {fx : Facts} {a : Authr} {env : Env} {details : Dict} {script : List Arrival} {e : Why}
    (h : (runAuth fx a env details script).res = .error e) : e.isAuth = true := by
  cases a with
  | anonymous role => simp [runAuth, anonymousAuth] at h
  | custom m f =>
    simp only [runAuth] at h
    split at h
    · simp at h
    · simp at h; subst h; rfl
  | ticket ks t =>
    simp only [runAuth, ticketAuth] at h
    split at h
    · simp at h; subst h; rfl
    · split at h
      · exact finishWelcome_err h
      · refine andThen_err h (fun e' he => exchange_err he) ?_
        intro sig e' he
        split at he
        · exact finishWelcome_err he
        · simp at he; subst he; rfl
  | wampcra ks t =>
    simp only [runAuth, craAuth] at h
    split at h
    · simp at h; subst h; rfl
    · split at h
      · exact finishWelcome_err h
      · split at h
        · simp at h; subst h; rfl
        · refine andThen_err h (fun e' he => exchange_err he) ?_
          intro sig e' he
          split at he
          · exact finishWelcome_err he
          · simp at he; subst he; rfl
  | cryptosign ks t =>
    simp only [runAuth, csAuth] at h
    split at h
    · simp at h; subst h; rfl
    · split at h
      · simp at h; subst h; rfl
      · split at h
        · exact finishWelcome_err h
        · split at h
          · simp at h; subst h; rfl
          · split at h
            · simp at h; subst h; rfl
            · split at h
              · simp at h; subst h; rfl
              · exact andThen_err h (fun e' he => exchange_err he) (fun sig e' he => csDecide_err he)

theorem authClient_err {fx : Facts} {rc : RealmCfg} {env : Env} {details : Dict} {script : List Arrival} {e : Why}
    (h : (authClient fx rc env details script).res = .error e) : e.isAuth = true := by
  unfold authClient at h
  split at h
  · simp at h
  · split at h
    · simp at h; subst h; rfl
    · split at h
      · simp at h; subst h; rfl
      · simp only [] at h
        split at h
        · rename_i e' hr
          simp at h
          subst h
          exact runAuth_err hr
        · simp at h

theorem reasonOf_auth {e : Why} (h : e.isAuth = true) : reasonOf e = Gen.N.ErrAuthenticationFailed := by
  cases e <;> simp_all [Why.isAuth, reasonOf]

/-- What a result looks like, by outcome. -/
def Shape (r : Result) : Prop :=
  match r.outcome with
  | .welcome sid _ w =>
    -- WELCOME is the last message; it is missing only when it was dropped at a full queue
    r.joined = true ∧ ∃ pre, OnlyChallenges pre ∧ (r.sent = pre ++ [.welcome sid w] ∨ r.sent = pre)
  | .abort reason why =>
    r.joined = false ∧ reason = reasonOf why ∧ why.isDrop = false ∧
      ∃ pre, r.sent = pre ++ [.abort reason] ∧ OnlyChallenges pre
  | .dropped why =>
    r.joined = false ∧ r.sent = [] ∧ r.created = none ∧ (why = .helloTimeout ∨ why = .helloClosed)

theorem abortWith_shape {reason : String} {why : Why} {sent : List Sent} {created : Option RealmCfg}
    {rest : List Arrival} (hs : OnlyChallenges sent) (hr : reason = reasonOf why)
    (hd : why.isDrop = false := by rfl) :
    Shape (abortWith reason why sent created rest) := by
  simp only [Shape, abortWith]
  exact ⟨trivial, hr, hd, sent, rfl, hs⟩

theorem isDrop_of_isAuth {e : Why} (h : e.isAuth = true) : e.isDrop = false := by
  cases e <;> simp_all [Why.isAuth, Why.isDrop]

theorem attachRealm_shape (fx : Facts) (rc : RealmCfg) (created : Option RealmCfg) (env : Env)
    (details : Dict) (script : List Arrival) : Shape (attachRealm fx rc created env details script) := by
  unfold attachRealm
  split
  · exact abortWith_shape onlyChallenges_nil rfl
  · simp only []
    have hsent := authClient_sent fx rc env (helloDetails env details) script
    split
    · rename_i e he
      exact abortWith_shape hsent (reasonOf_auth (authClient_err he)).symm (isDrop_of_isAuth (authClient_err he))
    · split
      · exact abortWith_shape hsent rfl
      · simp only [Shape]
        refine ⟨trivial, _, hsent, ?_⟩
        split
        · exact Or.inr rfl
        · exact Or.inl rfl

theorem attach_shape (fx : Facts) (rt : RouterCfg) (env : Env) (arr : List Arrival) :
    Shape (attach fx rt env arr) := by
  unfold attach
  split
  · simp [Shape]
  · simp [Shape]
  · exact abortWith_shape onlyChallenges_nil rfl
  · exact abortWith_shape onlyChallenges_nil rfl
  · split
    · exact abortWith_shape onlyChallenges_nil rfl
    · split
      · rename_i e he
        have hcases : e = .routerClosed ∨ e = .routerClosing ∨ e = .noSuchRealm ∨ e = .realmCreateFailed := by
          unfold lookupRealm at he
          split at he
          · simp at he; exact Or.inl he.symm
          · right
            split at he
            · simp at he; exact Or.inl he.symm
            · right
              split at he
              · simp at he
              · split at he
                · simp at he; exact Or.inl he.symm
                · split at he
                  · simp at he
                  · simp at he; exact Or.inr he.symm
        rcases hcases with h | h | h | h <;> subst h <;> exact abortWith_shape onlyChallenges_nil rfl
      · exact attachRealm_shape _ _ _ _ _ _

end Nexus.Auth
