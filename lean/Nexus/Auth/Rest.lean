/-
  The router reads the client's actions in order and never skips one: what is left unread is a
  suffix of the script (helper for C09).
-/
import Nexus.Auth.Shape

namespace Nexus.Auth
open Nexus

theorem recvTimeout_suffix (t : Nat) (arr : List Arrival) : (recvTimeout t arr).2 <:+ arr := by
  cases arr with
  | nil => exact List.suffix_refl _
  | cons a as =>
    obtain ⟨d, ev⟩ := a
    by_cases hd : d < t
    · cases ev with
      | msg m => simp only [recvTimeout, hd, if_true]; exact List.suffix_cons _ _
      | close => simp only [recvTimeout, hd, if_true]; exact List.suffix_cons _ _
    · simp only [recvTimeout, hd, if_false]; exact List.suffix_refl _

theorem exchange_suffix (blocked : Bool) (t : Nat) (ch : Sent) (script : List Arrival) :
    (exchange blocked t ch script).rest <:+ script := by
  unfold exchange
  split
  · exact List.suffix_refl _
  · have h := recvTimeout_suffix t script
    split <;> (rename_i heq; rw [heq] at h; exact h)

theorem runAuth_suffix (fx : Facts) (a : Authr) (env : Env) (details : Dict) (script : List Arrival) :
    (runAuth fx a env details script).rest <:+ script := by
  cases a with
  | anonymous role => exact List.suffix_refl _
  | custom m f => exact List.suffix_refl _
  | ticket ks t =>
    simp only [runAuth, ticketAuth]
    split
    · exact List.suffix_refl _
    · split
      · exact List.suffix_refl _
      · exact exchange_suffix _ _ _ _
  | wampcra ks t =>
    simp only [runAuth, craAuth]
    split
    · exact List.suffix_refl _
    · split
      · exact List.suffix_refl _
      · split
        · exact List.suffix_refl _
        · exact exchange_suffix _ _ _ _
  | cryptosign ks t =>
    simp only [runAuth, csAuth]
    split
    · exact List.suffix_refl _
    · split
      · exact List.suffix_refl _
      · split
        · exact List.suffix_refl _
        · split
          · exact List.suffix_refl _
          · split
            · exact List.suffix_refl _
            · split
              · exact List.suffix_refl _
              · exact exchange_suffix _ _ _ _

theorem authClient_suffix (fx : Facts) (rc : RealmCfg) (env : Env) (details : Dict) (script : List Arrival) :
    (authClient fx rc env details script).rest <:+ script := by
  unfold authClient
  split
  · exact List.suffix_refl _
  · split
    · exact List.suffix_refl _
    · split
      · exact List.suffix_refl _
      · simp only []
        split <;> exact runAuth_suffix _ _ _ _ _

theorem attachRealm_suffix (fx : Facts) (rc : RealmCfg) (created : Option RealmCfg) (env : Env)
    (details : Dict) (script : List Arrival) :
    (attachRealm fx rc created env details script).rest <:+ script := by
  unfold attachRealm
  split
  · exact List.suffix_refl _
  · simp only []
    split
    · exact authClient_suffix _ _ _ _ _
    · split <;> exact authClient_suffix _ _ _ _ _

theorem attach_suffix (fx : Facts) (rt : RouterCfg) (env : Env) (arr : List Arrival) :
    (attach fx rt env arr).rest <:+ arr := by
  have h := recvTimeout_suffix Gen.Auth.helloTimeoutMs arr
  unfold attach
  split <;> rename_i heq <;> rw [heq] at h <;> simp only [] at h
  · exact h
  · exact h
  · exact h
  · exact h
  · split
    · exact h
    · split
      · exact h
      · exact List.IsSuffix.trans (attachRealm_suffix _ _ _ _ _ _) h

end Nexus.Auth
