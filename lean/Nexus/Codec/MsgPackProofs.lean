/-
  Round-trip proofs for the MessagePack model: `dec (enc v ++ rest) = ok (v, rest)` for every
  encodable value of any nesting depth.
-/
import Nexus.Codec.MsgPack

namespace Nexus.Codec.MsgPack

open Nexus.Codec

theorem classify_posfix {n : Nat} (h : n < 128) : classify n = .posfix n := by
  simp [classify, h]

theorem classify_fixmap {n : Nat} (h : n < 16) : classify (0x80 + n) = .fixmap n := by
  have h1 : ¬ (128 + n < 128) := by omega
  have h2 : 128 + n < 144 := by omega
  simp [classify, h1, h2]

theorem classify_fixarr {n : Nat} (h : n < 16) : classify (0x90 + n) = .fixarr n := by
  have h1 : ¬ (144 + n < 128) := by omega
  have h2 : ¬ (144 + n < 144) := by omega
  have h3 : 144 + n < 160 := by omega
  simp [classify, h1, h2, h3]

theorem classify_fixstr {n : Nat} (h : n < 32) : classify (0xa0 + n) = .fixstr n := by
  have h1 : ¬ (160 + n < 128) := by omega
  have h2 : ¬ (160 + n < 144) := by omega
  have h3 : ¬ (160 + n < 160) := by omega
  have h4 : 160 + n < 192 := by omega
  simp [classify, h1, h2, h3, h4]

theorem classify_negfix {t : Nat} (h : 224 ≤ t) : classify t = .negfix t := by
  have h1 : ¬ (t < 128) := by omega
  have h2 : ¬ (t < 144) := by omega
  have h3 : ¬ (t < 160) := by omega
  have h4 : ¬ (t < 192) := by omega
  simp [classify, h1, h2, h3, h4, h]

theorem p8 : 256 ^ 1 = 256 := by decide
theorem p16 : 256 ^ 2 = 65536 := by decide
theorem p32 : 256 ^ 4 = 4294967296 := by decide
theorem p64 : 256 ^ 8 = 18446744073709551616 := by decide

theorem dec_int (fuel : Nat) (i : Int) (rest : Bytes)
    (h0 : -(9223372036854775808 : Int) ≤ i) (h1 : i < (18446744073709551616 : Int)) :
    decF (fuel + 1) (encInt i ++ rest) = .ok (.int i, rest) := by
  unfold encInt
  split
  · rename_i hpos
    have hn : ((i.toNat : Nat) : Int) = i := Int.toNat_of_nonneg hpos
    simp only []
    split
    · rename_i h
      simp [decF, u8_toNat (show i.toNat < 256 by omega), classify_posfix h, hn]
    · split
      · rename_i h _
        simp [decF, classify, mapV, readBE_append (show i.toNat < 256 ^ 1 by omega), hn]
      · split
        · simp [decF, classify, mapV, readBE_append (show i.toNat < 256 ^ 2 by omega), hn]
        · split
          · simp [decF, classify, mapV, readBE_append (show i.toNat < 256 ^ 4 by omega), hn]
          · simp [decF, classify, mapV, readBE_append (show i.toNat < 256 ^ 8 by omega), hn]
  · rename_i hneg
    split
    · have e : (256 + i).toNat = 256 + i := Int.toNat_of_nonneg (by omega)
      have hlt : (256 + i).toNat < 256 := by omega
      have hge : 224 ≤ (256 + i).toNat := by omega
      simp [decF, u8_toNat hlt, classify_negfix hge]
      omega
    · split
      · have hlt : (256 + i).toNat < 256 ^ 1 := by omega
        simp [decF, classify, mapV, readBE_append hlt, toSigned]
        omega
      · split
        · have hlt : (65536 + i).toNat < 256 ^ 2 := by omega
          simp [decF, classify, mapV, readBE_append hlt, toSigned]
          omega
        · split
          · have hlt : (4294967296 + i).toNat < 256 ^ 4 := by omega
            simp [decF, classify, mapV, readBE_append hlt, toSigned]
            omega
          · have hlt : (18446744073709551616 + i).toNat < 256 ^ 8 := by omega
            simp [decF, classify, mapV, readBE_append hlt, toSigned]
            omega


theorem sized_append {k n : Nat} (h : n < 256 ^ k) (body rest : Bytes) (hb : body.length = n) :
    sized k (beBytes k n ++ (body ++ rest)) = .ok (body, rest) := by
  subst hb
  simp [sized, readBE_append h, takeN_append]

theorem dec_str (fuel : Nat) (s rest : Bytes) (h : s.length < maxLen) :
    decF (fuel + 1) ((strHdr s.length ++ s) ++ rest) = .ok (.str s, rest) := by
  unfold maxLen at h
  unfold strHdr
  split
  · rename_i h32
    have hm : (160 + s.length) % 256 = 160 + s.length := Nat.mod_eq_of_lt (by omega)
    simp [decF, hm, classify_fixstr h32, mapV, takeN_append]
  · split
    · simp [decF, classify, mapV, sized_append (show s.length < 256 ^ 1 by omega) s rest rfl]
    · split
      · simp [decF, classify, mapV, sized_append (show s.length < 256 ^ 2 by omega) s rest rfl]
      · simp [decF, classify, mapV, sized_append (show s.length < 256 ^ 4 by omega) s rest rfl]

theorem decKey_str (s rest : Bytes) (h : s.length < maxLen) :
    decKey ((strHdr s.length ++ s) ++ rest) = .ok (s, rest) := by
  unfold maxLen at h
  unfold strHdr
  split
  · rename_i h32
    have hm : (160 + s.length) % 256 = 160 + s.length := Nat.mod_eq_of_lt (by omega)
    simp [decKey, hm, classify_fixstr h32, takeN_append]
  · split
    · simp [decKey, classify, sized_append (show s.length < 256 ^ 1 by omega) s rest rfl]
    · split
      · simp [decKey, classify, sized_append (show s.length < 256 ^ 2 by omega) s rest rfl]
      · simp [decKey, classify, sized_append (show s.length < 256 ^ 4 by omega) s rest rfl]

theorem dec_bin (fuel : Nat) (s rest : Bytes) (h : s.length < maxLen) :
    decF (fuel + 1) ((binHdr s.length ++ s) ++ rest) = .ok (.bin s, rest) := by
  unfold maxLen at h
  unfold binHdr
  split
  · simp [decF, classify, mapV, sized_append (show s.length < 256 ^ 1 by omega) s rest rfl]
  · split
    · simp [decF, classify, mapV, sized_append (show s.length < 256 ^ 2 by omega) s rest rfl]
    · simp [decF, classify, mapV, sized_append (show s.length < 256 ^ 4 by omega) s rest rfl]

theorem dec_arrHdr (fuel n : Nat) (body : Bytes) (h : n < maxLen) :
    decF (fuel + 1) (arrHdr n ++ body) = mapV .list (decItems (decF fuel) n body) := by
  unfold maxLen at h
  unfold arrHdr
  split
  · rename_i h16
    have hm : (144 + n) % 256 = 144 + n := Nat.mod_eq_of_lt (by omega)
    simp [decF, hm, classify_fixarr h16]
  · split
    · simp [decF, classify, readBE_append (show n < 256 ^ 2 by omega)]
    · simp [decF, classify, readBE_append (show n < 256 ^ 4 by omega)]

theorem dec_mapHdr (fuel n : Nat) (body : Bytes) (h : n < maxLen) :
    decF (fuel + 1) (mapHdr n ++ body) = mapV .dict (decPairs decKey (decF fuel) n [] body) := by
  unfold maxLen at h
  unfold mapHdr
  split
  · rename_i h16
    have hm : (128 + n) % 256 = 128 + n := Nat.mod_eq_of_lt (by omega)
    simp [decF, hm, classify_fixmap h16]
  · split
    · simp [decF, classify, readBE_append (show n < 256 ^ 2 by omega)]
    · simp [decF, classify, readBE_append (show n < 256 ^ 4 by omega)]

mutual
  /-- Decoding an encoded value, followed by anything, gives the value back and leaves the rest. -/
  theorem decF_enc : ∀ (v : CVal) (fuel : Nat) (rest : Bytes), validB maxLen v = true → depth v < fuel →
      decF fuel (enc v ++ rest) = .ok (v, rest)
    | .null, fuel, rest, _, hd => by
        cases fuel with
        | zero => simp [depth] at hd
        | succ fuel => simp [enc, decF, classify]
    | .bool b, fuel, rest, _, hd => by
        cases fuel with
        | zero => simp [depth] at hd
        | succ fuel => cases b <;> simp [enc, decF, classify]
    | .int i, fuel, rest, hv, hd => by
        cases fuel with
        | zero => simp [depth] at hd
        | succ fuel =>
          simp [validB] at hv
          simpa [enc] using dec_int fuel i rest hv.1 hv.2
    | .float b, fuel, rest, _, hd => by
        cases fuel with
        | zero => simp [depth] at hd
        | succ fuel =>
          have hb : b.toNat < 256 ^ 8 := by have := b.toNat_lt; omega
          simp [enc, decF, classify, mapV, readBE_append hb]
    | .str s, fuel, rest, hv, hd => by
        cases fuel with
        | zero => simp [depth] at hd
        | succ fuel =>
          simp [validB] at hv
          simpa [enc] using dec_str fuel s rest hv
    | .bin s, fuel, rest, hv, hd => by
        cases fuel with
        | zero => simp [depth] at hd
        | succ fuel =>
          simp [validB] at hv
          simpa [enc] using dec_bin fuel s rest hv
    | .list l, fuel, rest, hv, hd => by
        cases fuel with
        | zero => simp [depth] at hd
        | succ fuel =>
          simp [validB] at hv
          simp [depth] at hd
          rw [enc, List.append_assoc, dec_arrHdr fuel _ _ hv.1, decItems_enc l fuel rest hv.2 hd]
          rfl
    | .dict d, fuel, rest, hv, hd => by
        cases fuel with
        | zero => simp [depth] at hd
        | succ fuel =>
          simp [validB] at hv
          simp [depth] at hd
          rw [enc, List.append_assoc, dec_mapHdr fuel _ _ hv.1.1, decPairs_enc d [] fuel rest hv.2 hv.1.2 hd]
          rfl
  theorem decItems_enc : ∀ (l : List CVal) (fuel : Nat) (rest : Bytes), validListB maxLen l = true →
      depthList l < fuel → decItems (decF fuel) l.length (encList l ++ rest) = .ok (l, rest)
    | [], _, _, _, _ => by simp [encList, decItems]
    | v :: vs, fuel, rest, hv, hd => by
        simp [validListB] at hv
        simp [depthList] at hd
        simp [encList, decItems, List.append_assoc, decF_enc v fuel (encList vs ++ rest) hv.1 (by omega),
          decItems_enc vs fuel rest hv.2 (by omega)]
  theorem decPairs_enc : ∀ (d : List (Bytes × CVal)) (seen : List Bytes) (fuel : Nat) (rest : Bytes),
      validDictB maxLen d = true → noDupFrom seen d = true →
      depthDict d < fuel → decPairs decKey (decF fuel) d.length seen (encDict d ++ rest) = .ok (d, rest)
    | [], _, _, _, _, _, _ => by simp [encDict, decPairs]
    | (k, v) :: r, seen, fuel, rest, hv, hn, hd => by
        simp [validDictB] at hv
        simp [noDupFrom] at hn
        simp [depthDict] at hd
        have hk := decKey_str k (enc v ++ (encDict r ++ rest)) hv.1.1
        simp [encDict, decPairs, List.append_assoc] at hk ⊢
        simp [hk, hn.1, decF_enc v fuel (encDict r ++ rest) hv.1.2 (by omega),
          decPairs_enc r (k :: seen) fuel rest hv.2 hn.2 (by omega)]
end


theorem arrHdr_pos (n : Nat) : 0 < (arrHdr n).length := by
  unfold arrHdr; split <;> (try split) <;> simp

theorem mapHdr_pos (n : Nat) : 0 < (mapHdr n).length := by
  unfold mapHdr; split <;> (try split) <;> simp

mutual
  theorem depth_le : ∀ (v : CVal), depth v ≤ (enc v).length
    | .null => by simp [depth]
    | .bool _ => by simp [depth]
    | .int _ => by simp [depth]
    | .float _ => by simp [depth]
    | .str _ => by simp [depth]
    | .bin _ => by simp [depth]
    | .list l => by
        have := depthList_le l; have := arrHdr_pos l.length
        simp [depth, enc]; omega
    | .dict d => by
        have := depthDict_le d; have := mapHdr_pos d.length
        simp [depth, enc]; omega
  theorem depthList_le : ∀ (l : List CVal), depthList l ≤ (encList l).length
    | [] => by simp [depthList]
    | v :: vs => by
        have := depth_le v; have := depthList_le vs
        simp [depthList, encList]; omega
  theorem depthDict_le : ∀ (d : List (Bytes × CVal)), depthDict d ≤ (encDict d).length
    | [] => by simp [depthDict]
    | (k, v) :: r => by
        have := depth_le v; have := depthDict_le r
        simp [depthDict, encDict]; omega
end

/-- **MessagePack round trip**: for every encodable value of any nesting depth, decoding its
    encoding followed by arbitrary bytes returns the value and exactly those bytes. -/
theorem dec_enc (v : CVal) (rest : Bytes) (hv : validB maxLen v = true) :
    dec (enc v ++ rest) = .ok (v, rest) := by
  unfold dec
  apply decF_enc v _ rest hv
  have := depth_le v
  simp; omega

end Nexus.Codec.MsgPack
