/-
  What comes out of the binary decoders is encodable (strengthening of the range lemmas of
  `WpDRange.lean` / `WpDRangeRec.lean`, audit item C14-a6): every value returned by `MsgPack.dec`
  or `CBOR.dec`, whatever the bytes, satisfies `validB maxLen` — all integers in `int64 ∪ uint64`,
  every string / binary / list / dict length below the format's bound, dict keys pairwise
  distinct, at every depth.  So the hypothesis `validB maxLen v` of the round-trip theorems
  (`MsgPack.dec_enc`, `CBOR.dec_enc`, `C14_msgpack_roundtrip`, `C14_cbor_roundtrip`,
  `C14_wire_roundtrip`) is met by anything that came off the wire, and re-encoding a decoded value
  gives bytes that decode to the same value (`dec_reencode`): the decoders are idempotent up to
  the encoders' canonical form.
-/
import Nexus.Codec.WpDRangeRec

namespace Nexus.Codec

namespace WpD

theorem takeN_length {k : Nat} {bs a r : Bytes} (h : takeN k bs = .ok (a, r)) : a.length = k := by
  unfold takeN at h
  split at h
  · rename_i hk; cases h; simp [List.length_take, Nat.min_eq_left hk]
  · cases h

/-- `f` returns only encodable values. -/
def ValidOk (L : Nat) (f : Bytes → DRes (CVal × Bytes)) : Prop :=
  ∀ bs v r, f bs = .ok (v, r) → validB L v = true

/-- `k` returns only keys shorter than `L`. -/
def KeyOk (L : Nat) (k : Bytes → DRes (Bytes × Bytes)) : Prop :=
  ∀ bs key r, k bs = .ok (key, r) → key.length < L

theorem decItems_valid {L : Nat} {f : Bytes → DRes (CVal × Bytes)} (hf : ValidOk L f) :
    ∀ (n : Nat) (bs : Bytes) (vs : List CVal) (r : Bytes), decItems f n bs = .ok (vs, r) →
      vs.length = n ∧ validListB L vs = true
  | 0, bs, vs, r, h => by
      simp [decItems] at h
      rw [h.1]; exact ⟨rfl, by simp [validListB]⟩
  | n + 1, bs, vs, r, h => by
      unfold decItems at h
      split at h
      · cases h
      · rename_i v r1 h1
        split at h
        · cases h
        · rename_i vs' r2 h2
          cases h
          have a := hf _ _ _ h1
          have b := decItems_valid hf n _ _ _ h2
          exact ⟨by simp [b.1], by simp [validListB, a, b.2]⟩

theorem decPairs_valid {L : Nat} {k : Bytes → DRes (Bytes × Bytes)} {f : Bytes → DRes (CVal × Bytes)}
    (hk : KeyOk L k) (hf : ValidOk L f) :
    ∀ (n : Nat) (seen : List Bytes) (bs : Bytes) (ps : List (Bytes × CVal)) (r : Bytes),
      decPairs k f n seen bs = .ok (ps, r) →
      ps.length = n ∧ noDupFrom seen ps = true ∧ validDictB L ps = true
  | 0, seen, bs, ps, r, h => by
      simp [decPairs] at h
      rw [h.1]; exact ⟨rfl, by simp [noDupFrom], by simp [validDictB]⟩
  | n + 1, seen, bs, ps, r, h => by
      unfold decPairs at h
      split at h
      · cases h
      · rename_i key r0 h0
        split at h
        · cases h
        · rename_i hseen
          split at h
          · cases h
          · rename_i v r1 h1
            split at h
            · cases h
            · rename_i ps' r2 h2
              cases h
              have a := hf _ _ _ h1
              have kl := hk _ _ _ h0
              have b := decPairs_valid hk hf n _ _ _ _ h2
              refine ⟨by simp [b.1], ?_, ?_⟩
              · simp only [noDupFrom, b.2.1, Bool.and_true]
                simpa using hseen
              · simp [validDictB, a, b.2.2, kl]

end WpD

/-! ### MessagePack -/

namespace MsgPack

open WpD

theorem sized_length {k : Nat} {bs a r : Bytes} (h : sized k bs = .ok (a, r)) : a.length < 256 ^ k := by
  unfold sized at h
  split at h
  · rename_i n r' hr
    rw [takeN_length h]; exact readBE_lt hr
  · cases h

theorem decKey_keyOk : KeyOk maxLen decKey := by
  intro bs key r h
  cases bs with
  | nil => cases h
  | cons b rest =>
    unfold decKey at h
    simp only [] at h
    split at h
    all_goals first | cases h | skip
    · rename_i n hc
      have := classify_fixstr_inv hc
      have hn : n = b.toNat - 0xa0 := by
        unfold classify at hc
        repeat' split at hc
        all_goals first | (simp at hc; done) | skip
        simp at hc; omega
      rw [takeN_length h]; unfold maxLen; omega
    · have := sized_length h; unfold maxLen; rw [p8] at this; omega
    · have := sized_length h; unfold maxLen; rw [p16] at this; omega
    · have := sized_length h; unfold maxLen; rw [p32] at this; omega

theorem mapV_valid_of {α} {f : α → CVal} {x : DRes (α × Bytes)} {v : CVal} {r : Bytes}
    (h : mapV f x = .ok (v, r)) (hf : ∀ a, x = .ok (a, r) → validB maxLen (f a) = true) :
    validB maxLen v = true := by
  obtain ⟨a, ha, hb⟩ := mapV_ok h
  rw [hb]; exact hf a ha

theorem valid_int {i : Int} (h : IntRange i) : validB maxLen (.int i) = true := by
  unfold IntRange at h
  simp [validB, h.1, h.2]

theorem valid_float (b : UInt64) : validB maxLen (.float b) = true := by simp [validB]

theorem valid_str {s : Bytes} (h : s.length < maxLen) : validB maxLen (.str s) = true := by
  simp [validB, h]

theorem valid_bin {s : Bytes} (h : s.length < maxLen) : validB maxLen (.bin s) = true := by
  simp [validB, h]

theorem lt_maxLen_of_sized {k : Nat} {bs a r : Bytes} (h : sized k bs = .ok (a, r))
    (hk : k = 1 ∨ k = 2 ∨ k = 4) : a.length < maxLen := by
  have := sized_length h
  unfold maxLen
  rcases hk with rfl | rfl | rfl
  · rw [p8] at this; omega
  · rw [p16] at this; omega
  · rw [p32] at this; omega

theorem v_str_sized {k : Nat} (hk : k = 1 ∨ k = 2 ∨ k = 4) {rest r : Bytes} {v : CVal}
    (h : mapV CVal.str (sized k rest) = .ok (v, r)) : validB maxLen v = true :=
  mapV_valid_of h (fun _ ha => valid_str (lt_maxLen_of_sized ha hk))

theorem v_bin_sized {k : Nat} (hk : k = 1 ∨ k = 2 ∨ k = 4) {rest r : Bytes} {v : CVal}
    (h : mapV CVal.bin (sized k rest) = .ok (v, r)) : validB maxLen v = true :=
  mapV_valid_of h (fun _ ha => valid_bin (lt_maxLen_of_sized ha hk))

theorem v_float {g : Nat → UInt64} {x : DRes (Nat × Bytes)} {r : Bytes} {v : CVal}
    (h : mapV (fun (n : Nat) => CVal.float (g n)) x = .ok (v, r)) : validB maxLen v = true :=
  mapV_valid_of h (fun _ _ => valid_float _)

theorem v_nat {k : Nat} (hk : k = 1 ∨ k = 2 ∨ k = 4 ∨ k = 8) {rest r : Bytes} {v : CVal}
    (h : mapV (fun (n : Nat) => CVal.int (n : Int)) (readBE k rest) = .ok (v, r)) : validB maxLen v = true :=
  mapV_valid_of h (fun _ ha => valid_int (nat_range_of_readBE ha hk))

theorem v_signed {k : Nat} (hk : k = 1 ∨ k = 2 ∨ k = 4 ∨ k = 8) {rest r : Bytes} {v : CVal}
    (h : mapV (fun (n : Nat) => CVal.int (toSigned k n)) (readBE k rest) = .ok (v, r)) :
    validB maxLen v = true :=
  mapV_valid_of h (fun _ ha => valid_int (toSigned_range_of_readBE ha hk))

theorem valid_items {g : Bytes → DRes (CVal × Bytes)} (hg : ValidOk maxLen g) {n : Nat} {bs : Bytes}
    {a : List CVal} {r : Bytes} (h : decItems g n bs = .ok (a, r)) (hn : n < maxLen) :
    validB maxLen (.list a) = true := by
  have := decItems_valid hg n _ _ _ h
  simp [validB, this.1, this.2, hn]

theorem valid_pairs {g : Bytes → DRes (CVal × Bytes)} (hg : ValidOk maxLen g) {n : Nat} {bs : Bytes}
    {a : List (Bytes × CVal)} {r : Bytes} (h : decPairs decKey g n [] bs = .ok (a, r)) (hn : n < maxLen) :
    validB maxLen (.dict a) = true := by
  have := decPairs_valid decKey_keyOk hg n _ _ _ _ h
  simp [validB, this.1, this.2.1, this.2.2, hn]

theorem hdr_valid {k : Nat} {rest : Bytes} {g : Nat → Bytes → DRes (CVal × Bytes)} {v : CVal} {r : Bytes}
    (h : (match readBE k rest with
          | .ok (n, r) => g n r
          | .error e => .error e) = .ok (v, r))
    (hk : k = 2 ∨ k = 4)
    (hg : ∀ n r', n < maxLen → g n r' = .ok (v, r) → validB maxLen v = true) : validB maxLen v = true := by
  split at h
  · rename_i n r' hr
    have := readBE_lt hr
    refine hg _ _ ?_ h
    unfold maxLen
    rcases hk with rfl | rfl
    · rw [p16] at this; omega
    · rw [p32] at this; omega
  · cases h

theorem classify_fixarr_val {t n : Nat} (h : classify t = .fixarr n) : n < 16 := by
  unfold classify at h
  repeat' split at h
  all_goals first | (simp at h; done) | skip
  simp at h; omega

theorem classify_fixmap_val {t n : Nat} (h : classify t = .fixmap n) : n < 16 := by
  unfold classify at h
  repeat' split at h
  all_goals first | (simp at h; done) | skip
  simp at h; omega

theorem classify_fixstr_val {t n : Nat} (h : classify t = .fixstr n) : n < 32 := by
  unfold classify at h
  repeat' split at h
  all_goals first | (simp at h; done) | skip
  simp at h; omega

/-- Every value `decF` returns is encodable. -/
theorem decF_valid : ∀ (fuel : Nat), ValidOk maxLen (decF fuel)
  | 0 => by intro bs v r h; cases h
  | fuel + 1 => by
    have ih := decF_valid fuel
    intro bs v r h
    cases bs with
    | nil => cases h
    | cons b rest =>
      cases hc : classify b.toNat with
      | posfix n =>
        simp only [decF, hc] at h; cases h
        have := classify_posfix_inv hc
        exact valid_int (by unfold IntRange; omega)
      | negfix n =>
        simp only [decF, hc] at h; cases h
        have := classify_negfix_inv hc
        have := b.toNat_lt
        exact valid_int (by unfold IntRange; omega)
      | fixstr n =>
        simp only [decF, hc] at h
        have hn := classify_fixstr_val hc
        exact mapV_valid_of h (fun a ha => valid_str (by rw [takeN_length ha]; unfold maxLen; omega))
      | fixarr n =>
        simp only [decF, hc] at h
        have hn := classify_fixarr_val hc
        exact mapV_valid_of h (fun a ha => valid_items ih ha (by unfold maxLen; omega))
      | fixmap n =>
        simp only [decF, hc] at h
        have hn := classify_fixmap_val hc
        exact mapV_valid_of h (fun a ha => valid_pairs ih ha (by unfold maxLen; omega))
      | tag t =>
        obtain ⟨rfl, h1, h2⟩ := classify_tag_inv hc
        rcases tag_cases h1 h2 with hb | hb | hb | hb | hb | hb | hb | hb | hb | hb | hb | hb | hb |
          hb | hb | hb | hb | hb | hb | hb | hb | hb | hb | hb | hb | hb | hb | hb | hb | hb | hb | hb
        all_goals
          rw [hb] at hc
          simp only [decF, hb, hc] at h
          first
            | (cases h; rfl)
            | exact v_str_sized (Or.inl rfl) h
            | exact v_str_sized (Or.inr (Or.inl rfl)) h
            | exact v_str_sized (Or.inr (Or.inr rfl)) h
            | exact v_bin_sized (Or.inl rfl) h
            | exact v_bin_sized (Or.inr (Or.inl rfl)) h
            | exact v_bin_sized (Or.inr (Or.inr rfl)) h
            | exact v_float h
            | exact v_nat (Or.inl rfl) h
            | exact v_nat (Or.inr (Or.inl rfl)) h
            | exact v_nat (Or.inr (Or.inr (Or.inl rfl))) h
            | exact v_nat (Or.inr (Or.inr (Or.inr rfl))) h
            | exact v_signed (Or.inl rfl) h
            | exact v_signed (Or.inr (Or.inl rfl)) h
            | exact v_signed (Or.inr (Or.inr (Or.inl rfl))) h
            | exact v_signed (Or.inr (Or.inr (Or.inr rfl))) h
            | exact hdr_valid h (Or.inl rfl) (fun n r' hn h' =>
                mapV_valid_of h' (fun a ha => valid_items ih ha hn))
            | exact hdr_valid h (Or.inr rfl) (fun n r' hn h' =>
                mapV_valid_of h' (fun a ha => valid_items ih ha hn))
            | exact hdr_valid h (Or.inl rfl) (fun n r' hn h' =>
                mapV_valid_of h' (fun a ha => valid_pairs ih ha hn))
            | exact hdr_valid h (Or.inr rfl) (fun n r' hn h' =>
                mapV_valid_of h' (fun a ha => valid_pairs ih ha hn))
            | cases h

/-- **Whatever `MsgPack.dec` returns is encodable**: integers in `int64 ∪ uint64`, lengths below
    2^32, dict keys distinct — at every depth, whatever the bytes. -/
theorem dec_valid {bs : Bytes} {v : CVal} {rest : Bytes} (h : dec bs = .ok (v, rest)) :
    validB maxLen v = true :=
  decF_valid _ bs v rest h

/-- Re-encoding a decoded value gives bytes that decode to the same value. -/
theorem dec_reencode {bs : Bytes} {v : CVal} {rest : Bytes} (h : dec bs = .ok (v, rest)) (rest' : Bytes) :
    dec (enc v ++ rest') = .ok (v, rest') :=
  dec_enc v rest' (dec_valid h)

/-- Satisfiable, with non-canonical input: `dc 00 01 cd 00 05` (array 16 of length 1 holding a
    uint 16 for 5) decodes to [5], whose canonical encoding is `91 05`. -/
example : dec [0xdc, 0x00, 0x01, 0xcd, 0x00, 0x05] = .ok (.list [.int 5], [])
    ∧ enc (.list [.int 5]) = [0x91, 0x05] := by
  constructor
  · simp [dec, decF, classify, mapV, decItems, readBE, takeN, beNat]
  · decide

end MsgPack

/-! ### CBOR -/

namespace CBOR

open WpD

theorem decKey_keyOk : KeyOk maxLen decKey := by
  intro bs key r h
  cases bs with
  | nil => cases h
  | cons b rest =>
    simp only [decKey] at h
    split at h
    · split at h
      · split at h
        · cases h
        · rename_i hn
          rw [takeN_length h]; omega
      · cases h
    · cases h

theorem mapV_valid_of {α} {f : α → CVal} {x : DRes (α × Bytes)} {v : CVal} {r : Bytes}
    (h : mapV f x = .ok (v, r)) (hf : ∀ a, x = .ok (a, r) → validB maxLen (f a) = true) :
    validB maxLen v = true := by
  obtain ⟨a, ha, hb⟩ := mapV_ok h
  rw [hb]; exact hf a ha

theorem decSimple_valid {info : Nat} {rest : Bytes} {v : CVal} {r : Bytes}
    (h : decSimple info rest = .ok (v, r)) : validB maxLen v = true := by
  unfold decSimple at h
  repeat' split at h
  all_goals first
    | (cases h; rfl)
    | exact mapV_valid_of h (fun a _ => by simp [validB])
    | cases h

theorem decBody_valid {f : Bytes → DRes (CVal × Bytes)} (hf : ValidOk maxLen f) {major n : Nat}
    {r r' : Bytes} {v : CVal} (hn : n < 18446744073709551616) (h : decBody f major n r = .ok (v, r')) :
    validB maxLen v = true := by
  unfold decBody at h
  split at h
  · cases h; simp [validB]; omega
  · split at h
    · split at h
      · cases h; simp [validB]; omega
      · cases h
    · split at h
      · cases h
      · split at h
        · cases h
        · rename_i hlen
          have hlen' : n < maxLen := by omega
          split at h
          · exact mapV_valid_of h (fun a ha => by simp [validB, takeN_length ha, hlen'])
          · split at h
            · exact mapV_valid_of h (fun a ha => by simp [validB, takeN_length ha, hlen'])
            · split at h
              · exact mapV_valid_of h (fun a ha => by
                  have := decItems_valid hf n _ _ _ ha
                  simp [validB, this.1, this.2, hlen'])
              · exact mapV_valid_of h (fun a ha => by
                  have := decPairs_valid decKey_keyOk hf n _ _ _ _ ha
                  simp [validB, this.1, this.2.1, this.2.2, hlen'])

/-- Every value `decF` returns is encodable. -/
theorem decF_valid : ∀ (fuel : Nat), ValidOk maxLen (decF fuel)
  | 0 => by intro bs v r h; cases h
  | fuel + 1 => by
    have ih := decF_valid fuel
    intro bs v r h
    cases bs with
    | nil => cases h
    | cons b rest =>
      unfold decF at h
      split at h
      · exact decSimple_valid h
      · split at h
        · cases h
        · rename_i n r' ha
          exact decBody_valid ih (readArg_lt (Nat.mod_lt _ (by decide)) ha) h

/-- **Whatever `CBOR.dec` returns is encodable**: integers in `int64 ∪ uint64`, lengths below
    2^63, dict keys distinct — at every depth, whatever the bytes. -/
theorem dec_valid {bs : Bytes} {v : CVal} {rest : Bytes} (h : dec bs = .ok (v, rest)) :
    validB maxLen v = true :=
  decF_valid _ bs v rest h

/-- Re-encoding a decoded value gives bytes that decode to the same value. -/
theorem dec_reencode {bs : Bytes} {v : CVal} {rest : Bytes} (h : dec bs = .ok (v, rest)) (rest' : Bytes) :
    dec (enc v ++ rest') = .ok (v, rest') :=
  dec_enc v rest' (dec_valid h)

/-- Satisfiable, with non-canonical input: `98 01 19 00 05` (array with a one-byte length 1 holding
    5 in two bytes) decodes to [5], whose canonical encoding is `81 05`. -/
example : dec [0x98, 0x01, 0x19, 0x00, 0x05] = .ok (.list [.int 5], [])
    ∧ enc (.list [.int 5]) = [0x81, 0x05] := by
  constructor
  · rfl
  · decide

end CBOR

end Nexus.Codec

namespace Nexus.C14

open Nexus.Codec

/-- **Anything a binary decoder hands on is a value of the round-trip theorems** (audit C14-a6):
    whatever the bytes, a value decoded from MessagePack or CBOR satisfies `validB` for its
    format, and encoding it again in the same format yields bytes that decode to the same value. -/
theorem C14_decoded_valid_bin (fmt : Format) (hf : fmt ∈ [Format.msgpack, Format.cbor])
    (b : Bytes) (v : CVal) (rest : Bytes) (h : Wire.decode fmt b = .ok (v, rest)) :
    ∃ e, Wire.encode fmt v = some e ∧ ∀ rest', Wire.decode fmt (e ++ rest') = .ok (v, rest') := by
  cases fmt with
  | json => simp at hf
  | msgpack =>
    have hv := MsgPack.dec_valid h
    exact ⟨MsgPack.enc v, by simp [Wire.encode, MsgPack.encode, hv], fun r => MsgPack.dec_reencode h r⟩
  | cbor =>
    have hv := CBOR.dec_valid h
    exact ⟨CBOR.enc v, by simp [Wire.encode, CBOR.encode, hv], fun r => CBOR.dec_reencode h r⟩

end Nexus.C14
