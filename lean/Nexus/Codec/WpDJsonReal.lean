/-
  What ugorji/go/codec v1.3.1 really writes for a JSON string (audit item C14-c1).

  `Json.enc` copies every byte ≥ 0x80 of a string raw.  The codec's `quoteStr`
  (json.go:399-470) does that only for bytes that belong to a valid UTF-8 encoding: at a byte
  ≥ 0x80 it calls `utf8.DecodeRuneInString`, and when that answers `(RuneError, 1)` it writes the
  six characters `\uFFFD` and advances by ONE byte (json.go:445-452); a valid encoding is copied
  raw (U+2028 / U+2029 as `\u2028` / `\u2029`, json.go:457-465) and skipped as a whole.

  `encReal` = `enc` with exactly that substitution, for strings and for dict keys.  It agrees
  with `enc` on the fragment `okB` (`encReal_eq_enc_of_okB`), so every round-trip theorem about
  `enc` is a theorem about `encReal` there; outside it does not round-trip
  (`dec_encReal_a80b`: "a\x80b" comes back as "a\uFFFDb").  Replayed on the implementation
  (JSONSerializer.SerializeDataItem("a\x80b") = `"a\uFFFDb"`).

  The codec's JSON *decoder* does not look at UTF-8 at all: `jsonReadAsisChars` (reader.go:777)
  copies everything up to the next `"` or `\`, and `ValidateUnicode` (off in the repo's handle,
  jsonserializer.go:16) only concerns `\u` escapes.  `Json.step` (`.chunk [b] r`) is faithful
  there: `dec_raw_a80b`.
-/
import Nexus.Codec.JsonProofs

namespace Nexus.Codec.Json

open Nexus.Codec

/-- `quoteStr` on the bytes of a Go string, after the opening quote. -/
def encStrBodyReal : Bytes → Bytes
  | [] => []
  | b0 :: r =>
    if b0.toNat < 0x80 then escByte b0 ++ encStrBodyReal r
    else
      match runeLen (b0 :: r), r with
      | 2, b1 :: r' => b0 :: b1 :: encStrBodyReal r'
      | 3, b1 :: b2 :: r' =>
        if b0.toNat = 0xe2 ∧ b1.toNat = 0x80 ∧ b2.toNat = 0xa8 then
          [0x5c, 0x75, 0x32, 0x30, 0x32, 0x38] ++ encStrBodyReal r'
        else if b0.toNat = 0xe2 ∧ b1.toNat = 0x80 ∧ b2.toNat = 0xa9 then
          [0x5c, 0x75, 0x32, 0x30, 0x32, 0x39] ++ encStrBodyReal r'
        else b0 :: b1 :: b2 :: encStrBodyReal r'
      | 4, b1 :: b2 :: b3 :: r' => b0 :: b1 :: b2 :: b3 :: encStrBodyReal r'
      -- `c == utf8.RuneError && size == 1`: write `\uFFFD`, advance one byte
      | _, r => [0x5c, 0x75, 0x46, 0x46, 0x46, 0x44] ++ encStrBodyReal r

def encStrReal (s : Bytes) : Bytes := 0x22 :: (encStrBodyReal s ++ [0x22])

mutual
  /-- `Json.enc` with the codec's real string writer. -/
  def encReal : CVal → Bytes
    | .null => [0x6e, 0x75, 0x6c, 0x6c]
    | .bool true => [0x74, 0x72, 0x75, 0x65]
    | .bool false => [0x66, 0x61, 0x6c, 0x73, 0x65]
    | .int i => encInt i
    | .float _ => [0x6e, 0x75, 0x6c, 0x6c]
    | .str s => encStrReal s
    | .bin _ => [0x6e, 0x75, 0x6c, 0x6c]
    | .list [] => [0x5b, 0x5d]
    | .list (v :: vs) => 0x5b :: (encReal v ++ encTailReal vs)
    | .dict [] => [0x7b, 0x7d]
    | .dict ((k, v) :: r) => 0x7b :: (encStrReal k ++ (0x3a :: (encReal v ++ encMembersReal r)))
  def encTailReal : List CVal → Bytes
    | [] => [0x5d]
    | v :: vs => 0x2c :: (encReal v ++ encTailReal vs)
  def encMembersReal : List (Bytes × CVal) → Bytes
    | [] => [0x7d]
    | (k, v) :: r => 0x2c :: (encStrReal k ++ (0x3a :: (encReal v ++ encMembersReal r)))
end

namespace WpD

theorem escByte_hi {b : UInt8} (h : 0x80 ≤ b.toNat) : escByte b = [b] := by
  unfold escByte
  simp only []
  repeat' split
  all_goals first | rfl | omega

/-- `encStrBody` peels one byte unless it stands at `E2 80 A8` / `E2 80 A9`. -/
theorem encStrBody_cons (b : UInt8) (r : Bytes)
    (h : ∀ c d r', r = c :: d :: r' → ¬ (b.toNat = 0xe2 ∧ c.toNat = 0x80 ∧ (d.toNat = 0xa8 ∨ d.toNat = 0xa9))) :
    encStrBody (b :: r) = escByte b ++ encStrBody r := by
  match r, h with
  | [], _ => simp [encStrBody]
  | [c], _ => simp [encStrBody]
  | c :: d :: r', h =>
    have := h c d r' rfl
    have h1 : ¬ (b.toNat = 0xe2 ∧ c.toNat = 0x80 ∧ d.toNat = 0xa8) := fun ⟨x, y, z⟩ => this ⟨x, y, Or.inl z⟩
    have h2 : ¬ (b.toNat = 0xe2 ∧ c.toNat = 0x80 ∧ d.toNat = 0xa9) := fun ⟨x, y, z⟩ => this ⟨x, y, Or.inr z⟩
    rw [encStrBody, if_neg h1, if_neg h2]

theorem encStrBody_cons_ne {b : UInt8} (r : Bytes) (h : b.toNat ≠ 0xe2) :
    encStrBody (b :: r) = escByte b ++ encStrBody r :=
  encStrBody_cons b r (fun _ _ _ _ hh => h hh.1)

theorem encStrBody_cont {b : UInt8} (r : Bytes) (h : isCont b = true) :
    encStrBody (b :: r) = b :: encStrBody r := by
  simp [isCont] at h
  rw [encStrBody_cons_ne r (by omega), escByte_hi h.1]; rfl

end WpD

namespace WpD

theorem isCont_of_acc {c : Nat} {b : UInt8} (h1 : accLo c ≤ b.toNat) (h2 : b.toNat ≤ accHi c) :
    isCont b = true := by
  simp only [accLo, accHi] at h1 h2
  simp only [isCont, Bool.and_eq_true, decide_eq_true_eq]
  repeat' split at h1
  all_goals repeat' split at h2
  all_goals omega

/-- The shapes `runeLen` distinguishes at a byte ≥ 0x80. -/
theorem runeLen_cases (b0 : UInt8) (r : Bytes) (hlo : ¬ b0.toNat < 0x80) :
    runeLen (b0 :: r) = 0
    ∨ (∃ b1 r', r = b1 :: r' ∧ runeLen (b0 :: r) = 2 ∧ 0xC2 ≤ b0.toNat ∧ b0.toNat < 0xE0 ∧ isCont b1 = true)
    ∨ (∃ b1 b2 r', r = b1 :: b2 :: r' ∧ runeLen (b0 :: r) = 3 ∧ 0xE0 ≤ b0.toNat ∧ b0.toNat < 0xF0
        ∧ isCont b1 = true ∧ isCont b2 = true)
    ∨ (∃ b1 b2 b3 r', r = b1 :: b2 :: b3 :: r' ∧ runeLen (b0 :: r) = 4 ∧ 0xF0 ≤ b0.toNat
        ∧ isCont b1 = true ∧ isCont b2 = true ∧ isCont b3 = true) := by
  unfold runeLen
  simp only [hlo, if_false]
  by_cases h1 : b0.toNat < 0xC2
  · simp [h1]
  · simp only [h1, if_false]
    by_cases h2 : b0.toNat < 0xE0
    · simp only [h2, if_true]
      match r with
      | [] => simp
      | b1 :: r' =>
        by_cases hc : isCont b1 = true
        · right; left; exact ⟨b1, r', rfl, by simp [hc], by omega, trivial, hc⟩
        · left; simp [hc]
    · simp only [h2, if_false]
      by_cases h3 : b0.toNat < 0xF0
      · simp only [h3, if_true]
        match r with
        | [] => simp
        | [_] => simp
        | b1 :: b2 :: r' =>
          by_cases hc : accLo b0.toNat ≤ b1.toNat ∧ b1.toNat ≤ accHi b0.toNat ∧ isCont b2 = true
          · right; right; left
            exact ⟨b1, b2, r', rfl, by simp only [hc, and_self, if_true], by omega, trivial,
              isCont_of_acc hc.1 hc.2.1, hc.2.2⟩
          · left; simp only [hc, if_false]
      · simp only [h3, if_false]
        by_cases h4 : b0.toNat < 0xF5
        · simp only [h4, if_true]
          match r with
          | [] => simp
          | [_] => simp
          | [_, _] => simp
          | b1 :: b2 :: b3 :: r' =>
            by_cases hc : accLo b0.toNat ≤ b1.toNat ∧ b1.toNat ≤ accHi b0.toNat ∧ isCont b2 = true ∧ isCont b3 = true
            · right; right; right
              exact ⟨b1, b2, b3, r', rfl, by simp only [hc, and_self, if_true], by omega,
                isCont_of_acc hc.1 hc.2.1, hc.2.2.1, hc.2.2.2⟩
            · left; simp only [hc, if_false]
        · left; simp [h4]

theorem ofNat_of_toNat (x : UInt8) (k : Nat) (hx : x.toNat = k) : x = UInt8.ofNat k := by
  rw [← hx]; exact UInt8.ofNat_toNat.symm

end WpD

open WpD in
/-- On valid UTF-8 the real string writer and the model's agree. -/
theorem encStrBodyReal_eq_of_utf8 : ∀ (n : Nat) (s : Bytes), s.length = n → utf8OkB s = true →
    encStrBodyReal s = encStrBody s := by
  intro n
  induction n using Nat.strongRecOn with
  | _ n ih =>
    intro s hs hu
    match s, hs, hu with
    | [], _, _ => simp [encStrBodyReal, encStrBody]
    | b0 :: r, hs, hu =>
      by_cases hlo : b0.toNat < 0x80
      · have hr1 : runeLen (b0 :: r) = 1 := by simp [runeLen, hlo]
        unfold utf8OkB at hu
        rw [hr1] at hu
        simp only [] at hu
        unfold encStrBodyReal
        rw [if_pos hlo, encStrBody_cons_ne r (by omega),
          ih r.length (by simp at hs; omega) r rfl hu]
      · rcases runeLen_cases b0 r hlo with h0 | ⟨b1, r', hr, h2, hc⟩ | ⟨b1, b2, r', hr, h3, hc⟩ |
          ⟨b1, b2, b3, r', hr, h4, hc⟩
        · exfalso
          unfold utf8OkB at hu
          split at hu <;> first | omega | cases hu
        · subst hr
          unfold utf8OkB at hu
          rw [h2] at hu
          simp only [] at hu
          have hu' := ih r'.length (by simp at hs; omega) r' rfl hu
          unfold encStrBodyReal
          rw [if_neg hlo, h2]
          simp only []
          rw [hu', encStrBody_cons_ne _ (by omega), escByte_hi (by omega), encStrBody_cont _ hc.2.2]
          rfl
        · subst hr
          unfold utf8OkB at hu
          rw [h3] at hu
          simp only [] at hu
          have hu' := ih r'.length (by simp at hs; omega) r' rfl hu
          unfold encStrBodyReal
          rw [if_neg hlo, h3]
          simp only []
          rw [hu']
          split
          · rename_i h
            rw [ofNat_of_toNat b0 _ h.1, ofNat_of_toNat b1 _ h.2.1, ofNat_of_toNat b2 _ h.2.2]
            simp [encStrBody]
          · split
            · rename_i _ h
              rw [ofNat_of_toNat b0 _ h.1, ofNat_of_toNat b1 _ h.2.1, ofNat_of_toNat b2 _ h.2.2]
              simp [encStrBody]
            · rename_i h1 h2
              rw [encStrBody_cons b0 _ (by
                    intro c d r'' he hh
                    cases he
                    rcases hh with ⟨x, y, z | z⟩
                    · exact h1 ⟨x, y, z⟩
                    · exact h2 ⟨x, y, z⟩),
                escByte_hi (by omega), encStrBody_cont _ hc.2.2.1, encStrBody_cont _ hc.2.2.2]
              rfl
        · subst hr
          unfold utf8OkB at hu
          rw [h4] at hu
          simp only [] at hu
          have hu' := ih r'.length (by simp at hs; omega) r' rfl hu
          unfold encStrBodyReal
          rw [if_neg hlo, h4]
          simp only []
          rw [hu', encStrBody_cons_ne _ (by omega), escByte_hi (by omega), encStrBody_cont _ hc.2.1,
            encStrBody_cont _ hc.2.2.1, encStrBody_cont _ hc.2.2.2]
          rfl

theorem encStrReal_eq_of_utf8 (s : Bytes) (h : utf8OkB s = true) : encStrReal s = encStr s := by
  simp [encStrReal, encStr, encStrBodyReal_eq_of_utf8 s.length s rfl h]

mutual
  /-- **The model's encoder is the codec's on the fragment**: for every value in `okB` (strings and
      keys valid UTF-8) `encReal` — the bytes with the codec's U+FFFD substitution — equals `enc`.
      Hence `dec_enc` is a theorem about the real bytes there. -/
  theorem encReal_eq_enc_of_okB : ∀ (v : CVal), okB v = true → encReal v = enc v
    | .null, _ => rfl
    | .bool true, _ => rfl
    | .bool false, _ => rfl
    | .int _, _ => rfl
    | .float _, _ => rfl
    | .bin _, _ => rfl
    | .str s, h => by
        simp only [okB] at h
        simp [encReal, enc, encStrReal_eq_of_utf8 s h]
    | .list [], _ => rfl
    | .list (v :: vs), h => by
        simp [okB, okListB] at h
        simp [encReal, enc, encReal_eq_enc_of_okB v h.1, encTailReal_eq vs h.2]
    | .dict [], _ => rfl
    | .dict ((k, v) :: r), h => by
        simp [okB, okDictB] at h
        simp [encReal, enc, encStrReal_eq_of_utf8 k h.2.1.1, encReal_eq_enc_of_okB v h.2.1.2,
          encMembersReal_eq r h.2.2]
  theorem encTailReal_eq : ∀ (vs : List CVal), okListB vs = true → encTailReal vs = encTail vs
    | [], _ => rfl
    | v :: vs, h => by
        simp [okListB] at h
        simp [encTailReal, encTail, encReal_eq_enc_of_okB v h.1, encTailReal_eq vs h.2]
  theorem encMembersReal_eq : ∀ (d : List (Bytes × CVal)), okDictB d = true → encMembersReal d = encMembers d
    | [], _ => rfl
    | (k, v) :: r, h => by
        simp [okDictB] at h
        simp [encMembersReal, encMembers, encStrReal_eq_of_utf8 k h.1.1, encReal_eq_enc_of_okB v h.1.2,
          encMembersReal_eq r h.2]
end

/-- Round trip of the codec's real bytes on the fragment. -/
theorem dec_encReal (v : CVal) (rest : Bytes) (hv : okB v = true) (hr : NumSafe rest) :
    dec (encReal v ++ rest) = .ok (v, rest) := by
  rw [encReal_eq_enc_of_okB v hv]; exact dec_enc v rest hv hr

/-! ### What comes back in general -/

/-- The string JSON hands back for the Go string `s`: every byte that does not start a valid
    UTF-8 encoding replaced by U+FFFD (EF BF BD), valid encodings kept — Go's
    `string([]rune(s))`. -/
def sanitize : Bytes → Bytes
  | [] => []
  | b0 :: r =>
    match runeLen (b0 :: r), r with
    | 1, r => b0 :: sanitize r
    | 2, b1 :: r' => b0 :: b1 :: sanitize r'
    | 3, b1 :: b2 :: r' => b0 :: b1 :: b2 :: sanitize r'
    | 4, b1 :: b2 :: b3 :: r' => b0 :: b1 :: b2 :: b3 :: sanitize r'
    | _, r => 0xEF :: 0xBF :: 0xBD :: sanitize r

namespace WpD

/-- Induction along the way `utf8.DecodeRune` walks a byte string: an ASCII byte, a valid two-,
    three- or four-byte encoding, or one invalid byte at a time. -/
theorem rune_ind {P : Bytes → Prop} (nil : P [])
    (ascii : ∀ b r, b.toNat < 0x80 → runeLen (b :: r) = 1 → P r → P (b :: r))
    (two : ∀ b0 b1 r, ¬ b0.toNat < 0x80 → runeLen (b0 :: b1 :: r) = 2 → b0.toNat ≠ 0xe2 →
      isCont b1 = true → P r → P (b0 :: b1 :: r))
    (three : ∀ b0 b1 b2 r, ¬ b0.toNat < 0x80 → runeLen (b0 :: b1 :: b2 :: r) = 3 →
      isCont b1 = true → isCont b2 = true → P r → P (b0 :: b1 :: b2 :: r))
    (four : ∀ b0 b1 b2 b3 r, ¬ b0.toNat < 0x80 → runeLen (b0 :: b1 :: b2 :: b3 :: r) = 4 → b0.toNat ≠ 0xe2 →
      isCont b1 = true → isCont b2 = true → isCont b3 = true → P r → P (b0 :: b1 :: b2 :: b3 :: r))
    (bad : ∀ b r, ¬ b.toNat < 0x80 → runeLen (b :: r) = 0 → P r → P (b :: r)) :
    ∀ s, P s := by
  intro s
  generalize hn : s.length = n
  induction n using Nat.strongRecOn generalizing s with
  | _ n ih =>
    match s, hn with
    | [], _ => exact nil
    | b0 :: r, hn =>
      by_cases hlo : b0.toNat < 0x80
      · exact ascii b0 r hlo (by simp [runeLen, hlo]) (ih r.length (by simp at hn; omega) r rfl)
      · rcases runeLen_cases b0 r hlo with h0 | ⟨b1, r', hr, h2, hc⟩ | ⟨b1, b2, r', hr, h3, hc⟩ |
          ⟨b1, b2, b3, r', hr, h4, hc⟩
        · exact bad b0 r hlo h0 (ih r.length (by simp at hn; omega) r rfl)
        · subst hr
          exact two b0 b1 r' hlo h2 (by omega) hc.2.2 (ih r'.length (by simp at hn; omega) r' rfl)
        · subst hr
          exact three b0 b1 b2 r' hlo h3 hc.2.2.1 hc.2.2.2 (ih r'.length (by simp at hn; omega) r' rfl)
        · subst hr
          exact four b0 b1 b2 b3 r' hlo h4 (by omega) hc.2.1 hc.2.2.1 hc.2.2.2
            (ih r'.length (by simp at hn; omega) r' rfl)

/-! equations of `utf8OkB`, `sanitize`, `encStrBodyReal` in the six cases -/

theorem utf8OkB_1 {b : UInt8} {r : Bytes} (h : runeLen (b :: r) = 1) : utf8OkB (b :: r) = utf8OkB r := by
  rw [utf8OkB.eq_def]; simp only [h]
theorem utf8OkB_2 {b0 b1 : UInt8} {r : Bytes} (h : runeLen (b0 :: b1 :: r) = 2) :
    utf8OkB (b0 :: b1 :: r) = utf8OkB r := by
  rw [utf8OkB.eq_def]; simp only [h]
theorem utf8OkB_3 {b0 b1 b2 : UInt8} {r : Bytes} (h : runeLen (b0 :: b1 :: b2 :: r) = 3) :
    utf8OkB (b0 :: b1 :: b2 :: r) = utf8OkB r := by
  rw [utf8OkB.eq_def]; simp only [h]
theorem utf8OkB_4 {b0 b1 b2 b3 : UInt8} {r : Bytes} (h : runeLen (b0 :: b1 :: b2 :: b3 :: r) = 4) :
    utf8OkB (b0 :: b1 :: b2 :: b3 :: r) = utf8OkB r := by
  rw [utf8OkB.eq_def]; simp only [h]
theorem utf8OkB_0 {b : UInt8} {r : Bytes} (h : runeLen (b :: r) = 0) : utf8OkB (b :: r) = false := by
  rw [utf8OkB.eq_def]
  simp only []
  split <;> first | omega | rfl

theorem sanitize_1 {b : UInt8} {r : Bytes} (h : runeLen (b :: r) = 1) : sanitize (b :: r) = b :: sanitize r := by
  rw [sanitize.eq_def]; simp only [h]
theorem sanitize_2 {b0 b1 : UInt8} {r : Bytes} (h : runeLen (b0 :: b1 :: r) = 2) :
    sanitize (b0 :: b1 :: r) = b0 :: b1 :: sanitize r := by
  rw [sanitize.eq_def]; simp only [h]
theorem sanitize_3 {b0 b1 b2 : UInt8} {r : Bytes} (h : runeLen (b0 :: b1 :: b2 :: r) = 3) :
    sanitize (b0 :: b1 :: b2 :: r) = b0 :: b1 :: b2 :: sanitize r := by
  rw [sanitize.eq_def]; simp only [h]
theorem sanitize_4 {b0 b1 b2 b3 : UInt8} {r : Bytes} (h : runeLen (b0 :: b1 :: b2 :: b3 :: r) = 4) :
    sanitize (b0 :: b1 :: b2 :: b3 :: r) = b0 :: b1 :: b2 :: b3 :: sanitize r := by
  rw [sanitize.eq_def]; simp only [h]
theorem sanitize_0 {b : UInt8} {r : Bytes} (h : runeLen (b :: r) = 0) :
    sanitize (b :: r) = 0xEF :: 0xBF :: 0xBD :: sanitize r := by
  rw [sanitize.eq_def]
  simp only []
  split <;> first | omega | rfl

theorem encStrBodyReal_1 {b : UInt8} {r : Bytes} (h : b.toNat < 0x80) :
    encStrBodyReal (b :: r) = escByte b ++ encStrBodyReal r := by
  rw [encStrBodyReal.eq_def]; simp only [if_pos h]
theorem encStrBodyReal_2 {b0 b1 : UInt8} {r : Bytes} (hlo : ¬ b0.toNat < 0x80) (h : runeLen (b0 :: b1 :: r) = 2) :
    encStrBodyReal (b0 :: b1 :: r) = b0 :: b1 :: encStrBodyReal r := by
  rw [encStrBodyReal.eq_def]; simp only [if_neg hlo, h]
theorem encStrBodyReal_3 {b0 b1 b2 : UInt8} {r : Bytes} (hlo : ¬ b0.toNat < 0x80)
    (h : runeLen (b0 :: b1 :: b2 :: r) = 3) :
    encStrBodyReal (b0 :: b1 :: b2 :: r) =
      if b0.toNat = 0xe2 ∧ b1.toNat = 0x80 ∧ b2.toNat = 0xa8 then
        [0x5c, 0x75, 0x32, 0x30, 0x32, 0x38] ++ encStrBodyReal r
      else if b0.toNat = 0xe2 ∧ b1.toNat = 0x80 ∧ b2.toNat = 0xa9 then
        [0x5c, 0x75, 0x32, 0x30, 0x32, 0x39] ++ encStrBodyReal r
      else b0 :: b1 :: b2 :: encStrBodyReal r := by
  rw [encStrBodyReal.eq_def]
  simp only [if_neg hlo, h]
theorem encStrBodyReal_4 {b0 b1 b2 b3 : UInt8} {r : Bytes} (hlo : ¬ b0.toNat < 0x80)
    (h : runeLen (b0 :: b1 :: b2 :: b3 :: r) = 4) :
    encStrBodyReal (b0 :: b1 :: b2 :: b3 :: r) = b0 :: b1 :: b2 :: b3 :: encStrBodyReal r := by
  rw [encStrBodyReal.eq_def]; simp only [if_neg hlo, h]
theorem encStrBodyReal_0 {b : UInt8} {r : Bytes} (hlo : ¬ b.toNat < 0x80) (h : runeLen (b :: r) = 0) :
    encStrBodyReal (b :: r) = [0x5c, 0x75, 0x46, 0x46, 0x46, 0x44] ++ encStrBodyReal r := by
  rw [encStrBodyReal.eq_def]
  simp only [if_neg hlo]
  split <;> first | omega | rfl

/-! one unit of the string decoder on each kind of output -/

theorem strBody_chunk {f : Nat} {bs tail o s r : Bytes} (hs : step bs = .chunk o tail)
    (h : strBody f tail = .ok (s, r)) : strBody (f + 1) bs = .ok (o ++ s, r) := by
  simp only [strBody, hs, h]

theorem step_raw {b : UInt8} (tail : Bytes) (h : 0x80 ≤ b.toNat) : step (b :: tail) = .chunk [b] tail := by
  simp only [step]
  rw [if_neg (by omega), if_neg (by omega)]

theorem step_fffd (tail : Bytes) :
    step ([0x5c, 0x75, 0x46, 0x46, 0x46, 0x44] ++ tail) = .chunk [0xEF, 0xBF, 0xBD] tail := by
  simp [step, hexVal, utf8Enc]

theorem isCont_hi {b : UInt8} (h : isCont b = true) : 0x80 ≤ b.toNat := by
  simp [isCont] at h; exact h.1

end WpD

open WpD in
/-- **What the codec's JSON makes of any Go string**: decoding the string body the real writer
    produces gives `sanitize s`. -/
theorem strBody_encReal : ∀ (s : Bytes) (fuel : Nat) (rest : Bytes), (encStrBodyReal s).length < fuel →
    strBody fuel (encStrBodyReal s ++ 0x22 :: rest) = .ok (sanitize s, rest) := by
  intro s
  induction s using rune_ind with
  | nil =>
    intro fuel rest hf
    cases fuel with
    | zero => omega
    | succ fuel => simp [encStrBodyReal, sanitize, strBody, step_close]
  | ascii b r hlo h1 ih =>
    intro fuel rest hf
    rw [encStrBodyReal_1 hlo] at hf ⊢
    rw [sanitize_1 h1]
    have hp := escByte_pos b
    cases fuel with
    | zero => omega
    | succ fuel =>
      rw [List.append_assoc]
      exact strBody_chunk (step_esc b _) (ih fuel rest (by simp at hf; omega))
  | two b0 b1 r hlo h2 _ hc1 ih =>
    intro fuel rest hf
    rw [encStrBodyReal_2 hlo h2] at hf ⊢
    rw [sanitize_2 h2]
    match fuel, hf with
    | fuel + 2, hf =>
      have := ih fuel rest (by simp at hf; omega)
      exact strBody_chunk (step_raw _ (by omega)) (strBody_chunk (step_raw _ (isCont_hi hc1)) this)
  | three b0 b1 b2 r hlo h3 hc1 hc2 ih =>
    intro fuel rest hf
    rw [encStrBodyReal_3 hlo h3] at hf ⊢
    rw [sanitize_3 h3]
    split at hf
    · rename_i h
      rw [if_pos h, ofNat_of_toNat b0 _ h.1, ofNat_of_toNat b1 _ h.2.1, ofNat_of_toNat b2 _ h.2.2]
      cases fuel with
      | zero => omega
      | succ fuel =>
        rw [List.append_assoc]
        exact strBody_chunk (step_2028 _) (ih fuel rest (by simp at hf; omega))
    · rename_i hn
      rw [if_neg hn]
      split at hf
      · rename_i h
        rw [if_pos h, ofNat_of_toNat b0 _ h.1, ofNat_of_toNat b1 _ h.2.1, ofNat_of_toNat b2 _ h.2.2]
        cases fuel with
        | zero => omega
        | succ fuel =>
          rw [List.append_assoc]
          exact strBody_chunk (step_2029 _) (ih fuel rest (by simp at hf; omega))
      · rename_i hn'
        rw [if_neg hn']
        match fuel, hf with
        | fuel + 3, hf =>
          have := ih fuel rest (by simp at hf; omega)
          exact strBody_chunk (step_raw _ (by omega)) (strBody_chunk (step_raw _ (isCont_hi hc1))
            (strBody_chunk (step_raw _ (isCont_hi hc2)) this))
  | four b0 b1 b2 b3 r hlo h4 _ hc1 hc2 hc3 ih =>
    intro fuel rest hf
    rw [encStrBodyReal_4 hlo h4] at hf ⊢
    rw [sanitize_4 h4]
    match fuel, hf with
    | fuel + 4, hf =>
      have := ih fuel rest (by simp at hf; omega)
      exact strBody_chunk (step_raw _ (by omega)) (strBody_chunk (step_raw _ (isCont_hi hc1))
        (strBody_chunk (step_raw _ (isCont_hi hc2)) (strBody_chunk (step_raw _ (isCont_hi hc3)) this)))
  | bad b r hlo h0 ih =>
    intro fuel rest hf
    rw [encStrBodyReal_0 hlo h0] at hf ⊢
    rw [sanitize_0 h0]
    cases fuel with
    | zero => omega
    | succ fuel =>
      rw [List.append_assoc]
      exact strBody_chunk (step_fffd _) (ih fuel rest (by simp at hf; omega))

/-- **The real JSON round trip of a string, for every Go string**: what comes back is
    `sanitize s`. -/
theorem dec_encReal_str (s rest : Bytes) :
    dec (encReal (.str s) ++ rest) = .ok (.str (sanitize s), rest) := by
  simp only [encReal, encStrReal, dec, List.cons_append, List.append_assoc, List.nil_append]
  simp only [decV, skipWs_cons (show isWs 0x22 = false by decide)]
  rw [if_neg (by decide), if_neg (by decide), if_pos (by decide)]
  rw [strBody_encReal s _ rest (by simp; omega)]

open WpD in
theorem sanitize_length_ge : ∀ (s : Bytes), s.length ≤ (sanitize s).length := by
  intro s
  induction s using rune_ind with
  | nil => simp [sanitize]
  | ascii b r _ h1 ih => rw [sanitize_1 h1]; simp; omega
  | two b0 b1 r _ h2 _ _ ih => rw [sanitize_2 h2]; simp; omega
  | three b0 b1 b2 r _ h3 _ _ ih => rw [sanitize_3 h3]; simp; omega
  | four b0 b1 b2 b3 r _ h4 _ _ _ _ ih => rw [sanitize_4 h4]; simp; omega
  | bad b r _ h0 ih => rw [sanitize_0 h0]; simp; omega

open WpD in
/-- `sanitize` is the identity exactly on valid UTF-8. -/
theorem sanitize_eq_self_iff : ∀ (s : Bytes), sanitize s = s ↔ utf8OkB s = true := by
  intro s
  induction s using rune_ind with
  | nil => simp [sanitize, utf8OkB]
  | ascii b r _ h1 ih => rw [sanitize_1 h1, utf8OkB_1 h1, ← ih]; simp
  | two b0 b1 r _ h2 _ _ ih => rw [sanitize_2 h2, utf8OkB_2 h2, ← ih]; simp
  | three b0 b1 b2 r _ h3 _ _ ih => rw [sanitize_3 h3, utf8OkB_3 h3, ← ih]; simp
  | four b0 b1 b2 b3 r _ h4 _ _ _ _ ih => rw [sanitize_4 h4, utf8OkB_4 h4, ← ih]; simp
  | bad b r _ h0 _ =>
    rw [sanitize_0 h0, utf8OkB_0 h0]
    constructor
    · intro h
      have := congrArg List.length h
      have := sanitize_length_ge r
      simp at *; omega
    · intro h; cases h

/-- **Exactly the valid UTF-8 strings survive the codec's JSON**: the condition `utf8OkB` in
    `okB` is necessary, not only sufficient. -/
theorem dec_encReal_str_iff (s : Bytes) :
    dec (encReal (.str s)) = .ok (.str s, []) ↔ utf8OkB s = true := by
  have h := dec_encReal_str s []
  rw [List.append_nil] at h
  rw [h, ← sanitize_eq_self_iff]
  constructor
  · intro h1
    injection h1 with h1
    injection h1 with h1 _
    injection h1
  · intro h1; rw [h1]

/-- What the codec writes for the Go string "a\x80b": `"a\uFFFDb"` (replayed on the
    implementation: 22 61 5c 75 46 46 46 44 62 22). -/
theorem encReal_a80b :
    encReal (.str [0x61, 0x80, 0x62]) = [0x22, 0x61, 0x5c, 0x75, 0x46, 0x46, 0x46, 0x44, 0x62, 0x22] := by
  decide

/-- **Witness (C14-c1)**: "a\x80b" does not survive JSON — it comes back as "a\uFFFDb"
    (61 EF BF BD 62). -/
theorem dec_encReal_a80b :
    dec (encReal (.str [0x61, 0x80, 0x62])) = .ok (.str [0x61, 0xEF, 0xBF, 0xBD, 0x62], []) := by
  rw [encReal_a80b]; rfl

/-- The decoder is not the culprit: it hands raw invalid bytes through, as the codec's does
    (`DeserializeDataItem("\"a\x80b\"")` gives the Go string "a\x80b"). -/
theorem dec_raw_a80b :
    dec [0x22, 0x61, 0x80, 0x62, 0x22] = .ok (.str [0x61, 0x80, 0x62], []) := by
  rfl

/-- "a\x80b" is outside the fragment, "aé" (61 C3 A9) is inside. -/
example : okB (.str [0x61, 0x80, 0x62]) = false ∧ okB (.str [0x61, 0xC3, 0xA9]) = true := by decide

end Nexus.Codec.Json
