/-
  Decoder range lemmas (audit item C14-a6): the integer at the head of a decoded top-level list
  is one Go can hold — `uint64` or `int64` — whatever the bytes were.  `headType` converts that
  integer to `wamp.MessageType` with `wrapI64`; with these lemmas the conversion is the identity
  on every accepted head (`Nexus.C14.C14_accept_known_code`), so that "starts with a known message
  code" holds literally, not modulo 2^64.

  `Json.dec_list_head_range`, `CBOR.dec_list_head_range` (JSON and CBOR are the formats whose
  head check converts with `wrapI64`); `MsgPack.dec_list_head_range` for completeness (the
  MessagePack head check compares with 2^63 and does not convert).
-/
import Nexus.Codec.Wire

namespace Nexus.Codec

/-- Go's `int64 ∪ uint64`, with literals. -/
def IntRange (i : Int) : Prop := -(9223372036854775808 : Int) ≤ i ∧ i < (18446744073709551616 : Int)

namespace WpD

theorem beNat_foldl_lt : ∀ (bs : Bytes) (a : Nat),
    bs.foldl (fun a b => a * 256 + b.toNat) a + 1 ≤ (a + 1) * 256 ^ bs.length
  | [], a => by simp
  | b :: t, a => by
      have ih := beNat_foldl_lt t (a * 256 + b.toNat)
      have hb := b.toNat_lt
      have h1 : (a * 256 + b.toNat + 1) * 256 ^ t.length ≤ ((a + 1) * 256) * 256 ^ t.length :=
        Nat.mul_le_mul_right _ (by omega)
      simp only [List.foldl_cons, List.length_cons, Nat.pow_succ]
      calc _ ≤ (a * 256 + b.toNat + 1) * 256 ^ t.length := ih
        _ ≤ ((a + 1) * 256) * 256 ^ t.length := h1
        _ = (a + 1) * (256 ^ t.length * 256) := by rw [Nat.mul_assoc, Nat.mul_comm 256]

theorem beNat_lt (bs : Bytes) : beNat bs < 256 ^ bs.length := by
  have := beNat_foldl_lt bs 0
  simp only [Nat.zero_add, Nat.one_mul] at this
  exact this

theorem readBE_lt {k : Nat} {bs : Bytes} {n : Nat} {r : Bytes} (h : readBE k bs = .ok (n, r)) :
    n < 256 ^ k := by
  unfold readBE takeN at h
  split at h
  · rename_i a r' ht
    split at ht
    · rename_i hk
      cases ht
      cases h
      have := beNat_lt (bs.take k)
      rwa [List.length_take, Nat.min_eq_left hk] at this
    · cases ht
  · cases h

theorem decItems_head {f : Bytes → DRes (CVal × Bytes)} {n : Nat} {bs : Bytes} {v : CVal} {vs : List CVal}
    {r : Bytes} (h : decItems f n bs = .ok (v :: vs, r)) : ∃ r', f bs = .ok (v, r') := by
  cases n with
  | zero => simp [decItems] at h
  | succ n =>
    unfold decItems at h
    split at h
    · cases h
    · rename_i v' r' hf
      split at h
      · cases h
      · cases h; exact ⟨r', hf⟩

end WpD

/-! ### JSON -/

namespace Json

open WpD

theorem decNumTok_range {tok : Bytes} {i : Int} (h : decNumTok tok = .ok (.int i)) : IntRange i := by
  unfold decNumTok at h
  split at h
  · cases h
  · repeat' split at h
    all_goals first | cases h | skip
    all_goals
      unfold IntRange
      omega

theorem decNumTok_not_list {tok : Bytes} {l : List CVal} : decNumTok tok ≠ .ok (.list l) := by
  intro h
  unfold decNumTok at h
  split at h
  · cases h
  · repeat' split at h
    all_goals cases h

theorem lit_not_int {w : Bytes} {v x : CVal} {r r' : Bytes} (h : lit w v r = .ok (x, r')) : x = v := by
  unfold lit at h
  repeat' split at h
  all_goals first | cases h | skip
  all_goals rfl

/-- A value the decoder returns is, when an integer, within `int64 ∪ uint64`. -/
theorem decV_int_range {fuel : Nat} {bs : Bytes} {i : Int} {r : Bytes}
    (h : decV fuel bs = .ok (.int i, r)) : IntRange i := by
  cases fuel with
  | zero => cases h
  | succ fuel =>
    unfold decV at h
    split at h
    · cases h
    · simp only [] at h
      repeat' split at h
      all_goals first | cases h | skip
      all_goals first | (have := lit_not_int h; cases this) | skip
      all_goals (apply decNumTok_range; assumption)

/-- The first element of a decoded list is itself the result of a decode. -/
theorem decV_list_head {fuel : Nat} {bs : Bytes} {v : CVal} {vs : List CVal} {r : Bytes}
    (h : decV fuel bs = .ok (.list (v :: vs), r)) : ∃ f' bs' r', decV f' bs' = .ok (v, r') := by
  cases fuel with
  | zero => cases h
  | succ fuel =>
    unfold decV at h
    split at h
    · cases h
    · simp only [] at h
      repeat' split at h
      all_goals first | cases h | skip
      all_goals first | (have := lit_not_int h; cases this) | skip
      all_goals first
        | exact ⟨_, _, _, by assumption⟩
        | exact absurd (by assumption) decNumTok_not_list

theorem dec_list_head_range {bs : Bytes} {i : Int} {l : List CVal} {rest : Bytes}
    (h : dec bs = .ok (.list (.int i :: l), rest)) : IntRange i := by
  obtain ⟨_, _, _, hv⟩ := decV_list_head h
  exact decV_int_range hv

end Json

/-! ### CBOR -/

namespace CBOR

open WpD

theorem readArg_lt {info : Nat} {rest : Bytes} {n : Nat} {r : Bytes} (hi : info < 32)
    (h : readArg info rest = .ok (n, r)) : n < 18446744073709551616 := by
  unfold readArg at h
  repeat' split at h
  all_goals first | cases h | skip
  all_goals first
    | omega
    | (have := readBE_lt h; rw [show (256:Nat) ^ 1 = 256 by decide] at this; omega)
    | (have := readBE_lt h; rw [show (256:Nat) ^ 2 = 65536 by decide] at this; omega)
    | (have := readBE_lt h; rw [show (256:Nat) ^ 4 = 4294967296 by decide] at this; omega)
    | (have := readBE_lt h; rw [show (256:Nat) ^ 8 = 18446744073709551616 by decide] at this; omega)

theorem mapV_ok {α β} {f : α → β} {x : DRes (α × Bytes)} {b : β} {r : Bytes}
    (h : mapV f x = .ok (b, r)) : ∃ a, x = .ok (a, r) ∧ b = f a := by
  unfold mapV at h
  split at h
  · cases h; exact ⟨_, rfl, rfl⟩
  · cases h

theorem decSimple_not_int {info : Nat} {rest : Bytes} {i : Int} {r : Bytes} :
    decSimple info rest ≠ .ok (.int i, r) := by
  intro h
  unfold decSimple at h
  repeat' split at h
  all_goals first | cases h | skip
  all_goals
    obtain ⟨a, _, hb⟩ := mapV_ok h
    cases hb

theorem decSimple_not_list {info : Nat} {rest : Bytes} {l : List CVal} {r : Bytes} :
    decSimple info rest ≠ .ok (.list l, r) := by
  intro h
  unfold decSimple at h
  repeat' split at h
  all_goals first | cases h | skip
  all_goals
    obtain ⟨a, _, hb⟩ := mapV_ok h
    cases hb

theorem decF_int_range {fuel : Nat} {bs : Bytes} {i : Int} {r : Bytes}
    (h : decF fuel bs = .ok (.int i, r)) : IntRange i := by
  match fuel, bs, h with
  | 0, _, h => cases h
  | _ + 1, [], h => cases h
  | fuel + 1, b :: rest, h =>
    unfold decF at h
    split at h
    · exact absurd h decSimple_not_int
    · split at h
      · cases h
      · rename_i n r' ha
        have hn := readArg_lt (Nat.mod_lt _ (by decide)) ha
        unfold decBody at h
        repeat' split at h
        all_goals first | cases h | skip
        all_goals first
          | (unfold IntRange; omega)
          | (obtain ⟨a, _, hb⟩ := mapV_ok h; cases hb)

theorem decF_list_head {fuel : Nat} {bs : Bytes} {v : CVal} {vs : List CVal} {r : Bytes}
    (h : decF fuel bs = .ok (.list (v :: vs), r)) : ∃ f' bs' r', decF f' bs' = .ok (v, r') := by
  match fuel, bs, h with
  | 0, _, h => cases h
  | _ + 1, [], h => cases h
  | fuel + 1, b :: rest, h =>
    unfold decF at h
    split at h
    · exact absurd h decSimple_not_list
    · split at h
      · cases h
      · unfold decBody at h
        repeat' split at h
        all_goals first | cases h | skip
        all_goals
          obtain ⟨a, ha, hb⟩ := mapV_ok h
          first
          | (cases hb; obtain ⟨r', hf⟩ := decItems_head ha; exact ⟨_, _, _, hf⟩)
          | cases hb

theorem dec_list_head_range {bs : Bytes} {i : Int} {l : List CVal} {rest : Bytes}
    (h : dec bs = .ok (.list (.int i :: l), rest)) : IntRange i := by
  obtain ⟨_, _, _, hv⟩ := decF_list_head h
  exact decF_int_range hv

end CBOR

/-! ### MessagePack -/

namespace MsgPack

open WpD

theorem classify_posfix_inv {t n : Nat} (h : classify t = .posfix n) : n = t ∧ t < 0x80 := by
  unfold classify at h
  repeat' split at h
  all_goals first | cases h | skip
  all_goals (constructor <;> first | rfl | omega)

theorem classify_negfix_inv {t n : Nat} (h : classify t = .negfix n) : n = t ∧ 0xe0 ≤ t := by
  unfold classify at h
  repeat' split at h
  all_goals first | cases h | skip
  all_goals (constructor <;> first | rfl | omega)

theorem mapV_ok {α β} {f : α → β} {x : DRes (α × Bytes)} {b : β} {r : Bytes}
    (h : mapV f x = .ok (b, r)) : ∃ a, x = .ok (a, r) ∧ b = f a := by
  unfold mapV at h
  split at h
  · cases h; exact ⟨_, rfl, rfl⟩
  · cases h

theorem toSigned_range {k n : Nat} (hk : k = 1 ∨ k = 2 ∨ k = 4 ∨ k = 8) (hn : n < 256 ^ k) :
    IntRange (toSigned k n) := by
  unfold IntRange toSigned
  rcases hk with rfl | rfl | rfl | rfl <;> simp only [Nat.reducePow, Nat.reduceDiv] at hn ⊢ <;> split <;> omega

theorem nat_range {k n : Nat} (hk : k = 1 ∨ k = 2 ∨ k = 4 ∨ k = 8) (hn : n < 256 ^ k) :
    IntRange (n : Int) := by
  unfold IntRange
  rcases hk with rfl | rfl | rfl | rfl <;> simp only [Nat.reducePow] at hn <;> omega

theorem nat_range_of_readBE {k n : Nat} {bs r : Bytes} (h : readBE k bs = .ok (n, r))
    (hk : k = 1 ∨ k = 2 ∨ k = 4 ∨ k = 8) : IntRange (n : Int) := nat_range hk (readBE_lt h)

theorem toSigned_range_of_readBE {k n : Nat} {bs r : Bytes} (h : readBE k bs = .ok (n, r))
    (hk : k = 1 ∨ k = 2 ∨ k = 4 ∨ k = 8) : IntRange (toSigned k n) := toSigned_range hk (readBE_lt h)

theorem decF_int_range {fuel : Nat} {bs : Bytes} {i : Int} {r : Bytes}
    (h : decF fuel bs = .ok (.int i, r)) : IntRange i := by
  match fuel, bs, h with
  | 0, _, h => cases h
  | _ + 1, [], h => cases h
  | fuel + 1, b :: rest, h =>
    unfold decF at h
    split at h
    all_goals first | cases h | skip
    all_goals first
      | (rename_i hc; have := classify_posfix_inv hc; unfold IntRange; omega)
      | (rename_i hc; have := classify_negfix_inv hc; have := b.toNat_lt; unfold IntRange; omega)
      | (split at h <;> first | cases h | (obtain ⟨a, ha, hb⟩ := mapV_ok h; cases hb))
      | (obtain ⟨a, ha, hb⟩ := mapV_ok h; cases hb)
    all_goals first
      | exact nat_range_of_readBE ha (by decide)
      | exact toSigned_range_of_readBE ha (by decide)

theorem decF_list_head {fuel : Nat} {bs : Bytes} {v : CVal} {vs : List CVal} {r : Bytes}
    (h : decF fuel bs = .ok (.list (v :: vs), r)) : ∃ f' bs' r', decF f' bs' = .ok (v, r') := by
  match fuel, bs, h with
  | 0, _, h => cases h
  | _ + 1, [], h => cases h
  | fuel + 1, b :: rest, h =>
    unfold decF at h
    split at h
    all_goals first | cases h | skip
    all_goals first
      | (split at h <;> first | cases h | (obtain ⟨a, ha, hb⟩ := mapV_ok h; cases hb))
      | (obtain ⟨a, ha, hb⟩ := mapV_ok h; cases hb)
    all_goals (obtain ⟨r', hf⟩ := decItems_head ha; exact ⟨_, _, _, hf⟩)

theorem dec_list_head_range {bs : Bytes} {i : Int} {l : List CVal} {rest : Bytes}
    (h : dec bs = .ok (.list (.int i :: l), rest)) : IntRange i := by
  obtain ⟨_, _, _, hv⟩ := decF_list_head h
  exact decF_int_range hv

end MsgPack

/-- The hypotheses of the three lemmas are met: `[33]` in each format. -/
example : Json.dec [0x5b, 0x33, 0x33, 0x5d] = .ok (.list [.int 33], [])
    ∧ CBOR.dec [0x81, 0x18, 0x21] = .ok (.list [.int 33], [])
    ∧ MsgPack.dec [0x91, 0x21] = .ok (.list [.int 33], []) :=
  ⟨rfl, rfl, by simp [MsgPack.dec, MsgPack.decF, MsgPack.classify, MsgPack.mapV, decItems]⟩

end Nexus.Codec
