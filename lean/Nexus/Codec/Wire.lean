/-
  Format dispatch: encode / decode a `CVal` in one of the three wire formats, and the model of
  `Serializer.Deserialize` = codec decode into `[]any` (`decTop`) followed by `fromList`.
-/
import Nexus.Codec.Msg
import Nexus.Codec.MsgPack
import Nexus.Codec.CBOR
import Nexus.Codec.Json

namespace Nexus.Codec.Wire

open Nexus.Codec

def encode : Format → CVal → Option Bytes
  | .msgpack, v => MsgPack.encode v
  | .cbor, v => CBOR.encode v
  | .json, v => Json.encode v

def decode : Format → Bytes → DRes (CVal × Bytes)
  | .msgpack, b => MsgPack.dec b
  | .cbor, b => CBOR.dec b
  | .json, b => Json.dec b

def decTop : Format → Bytes → DRes (List CVal)
  | .msgpack, b => MsgPack.decTop b
  | .cbor, b => CBOR.decTop b
  | .json, b => Json.decTop b

/-- `Deserialize(data)`: the outer `DRes` is the codec's verdict (`.error .malformed` = the codec
    returns an error), the inner `Res` what the repo's code does with the decoded list. -/
def deserialize (fmt : Format) (b : Bytes) : DRes (Res Msg) :=
  match decTop fmt b with
  | .ok l => .ok (fromList fmt l)
  | .error e => .error e

end Nexus.Codec.Wire
