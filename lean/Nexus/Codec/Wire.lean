/-
  Format dispatch: encode / decode a `CVal` in one of the three wire formats, and the model of
  `Serializer.Deserialize` = codec decode into `[]any` (`decTop`) followed by `fromList`.
-/
import Nexus.Codec.Msg
import Nexus.Codec.MsgPack
import Nexus.Codec.CBOR
import Nexus.Codec.Json

namespace Nexus.Codec.Wire

open Nexus.Codec

def encode : Format → CVal → Option Bytes
  | .msgpack, v => MsgPack.encode v
  | .cbor, v => CBOR.encode v
  | .json, v => Json.encode v

def decode : Format → Bytes → DRes (CVal × Bytes)
  | .msgpack, b => MsgPack.dec b
  | .cbor, b => CBOR.dec b
  | .json, b => Json.dec b

def serializerName : Format → String
  | .json => "JSONSerializer"
  | .msgpack => "MessagePackSerializer"
  | .cbor => "CBORSerializer"

/-- How `Deserialize` of this format gets its list (regenerated from the source). -/
def topDecodeOf (fmt : Format) : Gen.TopDecode :=
  (Gen.topLevelDecode.lookup (serializerName fmt)).getD .intoSlice

/-- `Deserialize(data)`: the outer `DRes` is the codec's verdict (`.error .malformed` = the codec
    returns an error), the inner `Res` what the repo's code does with the decoded value.

    `listChecked` (`decodeList`): the payload is decoded into an `any`; a `[]any` goes on to the
    head check and `listToMsg`, anything else (nil, map, scalar) is "invalid message: not a list".
    Bytes after the first value are ignored by the codec.

    `intoSlice` (decoding straight into `[]any`): lists alike; for any other top-level value the
    codec's behaviour (it flattens a map into its keys and values) is not modelled. -/
def deserialize (fmt : Format) (b : Bytes) : DRes (Res Msg) :=
  match decode fmt b with
  | .error e => .error e
  | .ok (.list l, _) => .ok (fromList fmt l)
  | .ok (_, _) =>
    match topDecodeOf fmt with
    | .listChecked => .ok (.error .notAList)
    | .intoSlice => .error .unsupported

end Nexus.Codec.Wire
