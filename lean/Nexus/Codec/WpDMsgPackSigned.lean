/-
  The bytes the codec really writes for Go's SIGNED integers and for `float32` (audit C14-c3).

  `CVal.int` erases the Go integer type, and `MsgPack.encInt` writes a non-negative integer the
  way ugorji/go/codec v1.3.1 writes a `uint64` (`EncodeUint`, msgpack.go:83-102: positive fixint,
  cc, cd, ce, cf).  A Go `int`/`int64`/`int32` (and `wamp.MessageType`, an `int`) goes through
  `EncodeInt` (msgpack.go:49-81) instead; the repo's handle leaves `PositiveIntUnsigned` and
  `NoFixedNum` false (transport/serialize/msgpackserializer.go:24-26 sets only `WriteExt` and
  `MapType`), so:

      i > 127 (math.MaxInt8)     d1 (≤ 32767) / d2 (≤ 2^31-1) / d3       msgpack.go:52-62
      -32 ≤ i ≤ 127              one byte `byte(i)`: positive / negative fixint   :63-68
      -128 ≤ i < -32             d0 byte(i)                              :69-70
      -32768 ≤ i < -128          d1 uint16(i)                            :71-73
      -2^31 ≤ i < -32768         d2 uint32(i)                            :74-76
      otherwise                  d3 uint64(i)                            :77-80

  i.e. never cc..cf, and never d0 for a non-negative value: 128 is `d1 00 80`, not `cc 80`.
  `encIntSigned` is that function; `dec_encIntSigned` shows `MsgPack.dec` reads it back;
  `encIntSigned_eq_encInt_iff` says where it coincides with the unsigned family (below 128).
  `encSigned` is `enc` with every integer of the int64 range written as a signed Go integer
  (what the codec emits for a payload built from `int`/`int64` values); `dec_encSigned` is its
  round trip, and `Nexus.C14.C14_msgpack_signed_roundtrip` the property-level statement.

  CBOR needs no second family: `EncodeInt` (cbor.go:89-95) writes a non-negative `int64` with
  `encUint(uint64(v), cborBaseUint)`, exactly what `EncodeUint` (cbor.go:97-99) writes
  (`CBOR.encIntSigned_eq`).

  `float32`: the MessagePack encoder writes `ca` + 4 bytes (msgpack.go:112-115), the CBOR encoder
  `fa` + 4 bytes (cbor.go:48-59, `OptimumSize` is false).  Both model decoders read these and
  widen to binary64 with `f32to64` (BytesLemmas.lean): `MsgPack.dec_float32`, `CBOR.dec_float32`;
  so a Go `float32` comes back as the `float64` of the same real value (`float64(f)`), with
  spot checks of `f32to64` on 1.0, -2.5, +Inf, the smallest subnormal and a NaN.
-/
import Nexus.Codec.MsgPackProofs
import Nexus.Codec.CBORProofs
import Nexus.Codec.Wire

namespace Nexus.Codec

namespace MsgPack

/-- What `msgpackEncDriver.EncodeInt(i)` writes (handle flags as in the repo).  Meaningful for
    -2^63 ≤ i < 2^63 (the argument is an `int64`). -/
def encIntSigned (i : Int) : Bytes :=
  if 127 < i then
    if i ≤ 32767 then UInt8.ofNat 0xd1 :: beBytes 2 i.toNat
    else if i ≤ 2147483647 then UInt8.ofNat 0xd2 :: beBytes 4 i.toNat
    else UInt8.ofNat 0xd3 :: beBytes 8 i.toNat
  else if 0 ≤ i then [UInt8.ofNat i.toNat]
  else if -32 ≤ i then [UInt8.ofNat (256 + i).toNat]
  else if -128 ≤ i then UInt8.ofNat 0xd0 :: beBytes 1 (256 + i).toNat
  else if -32768 ≤ i then UInt8.ofNat 0xd1 :: beBytes 2 (65536 + i).toNat
  else if -2147483648 ≤ i then UInt8.ofNat 0xd2 :: beBytes 4 (4294967296 + i).toNat
  else UInt8.ofNat 0xd3 :: beBytes 8 (18446744073709551616 + i).toNat

/-- 128 → `d1 00 80`, 255 → `d1 00 ff`, 65536 → `d2 00 01 00 00`, 2^31 → `d3 …`, 127 → `7f`,
    -1 → `ff`, -33 → `d0 df`. -/
example : encIntSigned 128 = [0xd1, 0x00, 0x80] ∧ encIntSigned 255 = [0xd1, 0x00, 0xff]
    ∧ encIntSigned 65536 = [0xd2, 0x00, 0x01, 0x00, 0x00]
    ∧ encIntSigned 2147483648 = [0xd3, 0, 0, 0, 0, 0x80, 0, 0, 0]
    ∧ encIntSigned 127 = [0x7f] ∧ encIntSigned (-1) = [0xff] ∧ encIntSigned (-33) = [0xd0, 0xdf] := by
  decide

theorem dec_intSigned (fuel : Nat) (i : Int) (rest : Bytes)
    (h0 : -(9223372036854775808 : Int) ≤ i) (h1 : i < (9223372036854775808 : Int)) :
    decF (fuel + 1) (encIntSigned i ++ rest) = .ok (.int i, rest) := by
  unfold encIntSigned
  split
  · rename_i hbig
    have hn : ((i.toNat : Nat) : Int) = i := Int.toNat_of_nonneg (by omega)
    split
    · have hlt : i.toNat < 256 ^ 2 := by omega
      simp [decF, classify, mapV, readBE_append hlt, toSigned]
      omega
    · split
      · have hlt : i.toNat < 256 ^ 4 := by omega
        simp [decF, classify, mapV, readBE_append hlt, toSigned]
        omega
      · have hlt : i.toNat < 256 ^ 8 := by omega
        simp [decF, classify, mapV, readBE_append hlt, toSigned]
        omega
  · split
    · rename_i hpos
      have hn : ((i.toNat : Nat) : Int) = i := Int.toNat_of_nonneg hpos
      have h : i.toNat < 128 := by omega
      simp [decF, u8_toNat (show i.toNat < 256 by omega), classify_posfix h, hn]
    · split
      · have e : (256 + i).toNat = 256 + i := Int.toNat_of_nonneg (by omega)
        have hlt : (256 + i).toNat < 256 := by omega
        have hge : 224 ≤ (256 + i).toNat := by omega
        simp [decF, u8_toNat hlt, classify_negfix hge]
        omega
      · split
        · have hlt : (256 + i).toNat < 256 ^ 1 := by omega
          simp [decF, classify, mapV, readBE_append hlt, toSigned]
          omega
        · split
          · have hlt : (65536 + i).toNat < 256 ^ 2 := by omega
            simp [decF, classify, mapV, readBE_append hlt, toSigned]
            omega
          · split
            · have hlt : (4294967296 + i).toNat < 256 ^ 4 := by omega
              simp [decF, classify, mapV, readBE_append hlt, toSigned]
              omega
            · have hlt : (18446744073709551616 + i).toNat < 256 ^ 8 := by omega
              simp [decF, classify, mapV, readBE_append hlt, toSigned]
              omega

/-- **The decoder reads the signed families back** (audit C14-c3): for every `int64` value, the
    bytes the codec writes for a Go `int`/`int64`, followed by anything, decode to that integer and
    leave the rest. -/
theorem dec_encIntSigned (i : Int) (rest : Bytes)
    (h0 : -(2:Int) ^ 63 ≤ i) (h1 : i < (2:Int) ^ 63) :
    dec (encIntSigned i ++ rest) = .ok (.int i, rest) := by
  unfold dec
  exact dec_intSigned _ i rest (by simpa using h0) (by simpa using h1)

/-- The hypotheses of `dec_encIntSigned` are satisfiable: 128, written `d1 00 80`. -/
example : dec ([0xd1, 0x00, 0x80] ++ [0x2a]) = .ok (.int 128, [0x2a]) :=
  dec_encIntSigned 128 [0x2a] (by decide) (by decide)

/-- Below 128 the signed and the unsigned writer agree (fixints and the negative families). -/
theorem encIntSigned_eq_encInt {i : Int} (h : i < 128) : encIntSigned i = encInt i := by
  unfold encIntSigned encInt
  have h127 : ¬ (127 < i) := by omega
  simp only [h127, if_false]
  split
  · rename_i hpos
    have : i.toNat < 128 := by omega
    simp [this]
  · rfl

/-- From 128 on they differ, in the first byte: d1/d2/d3 against cc/cd/ce/cf. -/
theorem encIntSigned_ne_encInt {i : Int} (h : 128 ≤ i) : encIntSigned i ≠ encInt i := by
  unfold encIntSigned encInt
  have h127 : 127 < i := by omega
  have hpos : 0 ≤ i := by omega
  have hn : ¬ (i.toNat < 128) := by omega
  simp only [h127, hpos, if_true, hn, if_false]
  repeat' split
  all_goals
    intro he
    have := (List.cons.inj he).1
    revert this
    decide

/-- The two writers coincide exactly below 128: the round trip proved for `enc` covers the
    codec's bytes for a signed Go integer only there. -/
theorem encIntSigned_eq_encInt_iff (i : Int) : encIntSigned i = encInt i ↔ i < 128 := by
  constructor
  · intro h
    by_cases hi : i < 128
    · exact hi
    · exact absurd h (encIntSigned_ne_encInt (by omega))
  · exact encIntSigned_eq_encInt

/-! ### Whole values -/

/-- `-2^63 ≤ i < 2^63`, as a `Bool`. -/
def inInt64 (i : Int) : Bool := decide (-(9223372036854775808 : Int) ≤ i) && decide (i < (9223372036854775808 : Int))

mutual
  /-- The codec's bytes for a value all of whose integers in the int64 range are Go `int`/`int64`
      (larger ones can only be `uint64`). -/
  def encSigned : CVal → Bytes
    | .null => [UInt8.ofNat 0xc0]
    | .bool false => [UInt8.ofNat 0xc2]
    | .bool true => [UInt8.ofNat 0xc3]
    | .int i => if inInt64 i then encIntSigned i else encInt i
    | .float b => UInt8.ofNat 0xcb :: beBytes 8 b.toNat
    | .str s => strHdr s.length ++ s
    | .bin b => binHdr b.length ++ b
    | .list l => arrHdr l.length ++ encSignedList l
    | .dict d => mapHdr d.length ++ encSignedDict d
  def encSignedList : List CVal → Bytes
    | [] => []
    | v :: vs => encSigned v ++ encSignedList vs
  def encSignedDict : List (Bytes × CVal) → Bytes
    | [] => []
    | (k, v) :: r => (strHdr k.length ++ k) ++ (encSigned v ++ encSignedDict r)
end

mutual
  theorem decF_encSigned : ∀ (v : CVal) (fuel : Nat) (rest : Bytes), validB maxLen v = true → depth v < fuel →
      decF fuel (encSigned v ++ rest) = .ok (v, rest)
    | .null, fuel, rest, _, hd => by
        cases fuel with
        | zero => simp [depth] at hd
        | succ fuel => simp [encSigned, decF, classify]
    | .bool b, fuel, rest, _, hd => by
        cases fuel with
        | zero => simp [depth] at hd
        | succ fuel => cases b <;> simp [encSigned, decF, classify]
    | .int i, fuel, rest, hv, hd => by
        cases fuel with
        | zero => simp [depth] at hd
        | succ fuel =>
          simp [validB] at hv
          unfold encSigned
          split
          · rename_i hin
            simp [inInt64] at hin
            exact dec_intSigned fuel i rest hin.1 hin.2
          · exact dec_int fuel i rest hv.1 hv.2
    | .float b, fuel, rest, _, hd => by
        cases fuel with
        | zero => simp [depth] at hd
        | succ fuel =>
          have hb : b.toNat < 256 ^ 8 := by have := b.toNat_lt; omega
          simp [encSigned, decF, classify, mapV, readBE_append hb]
    | .str s, fuel, rest, hv, hd => by
        cases fuel with
        | zero => simp [depth] at hd
        | succ fuel =>
          simp [validB] at hv
          simpa [encSigned] using dec_str fuel s rest hv
    | .bin s, fuel, rest, hv, hd => by
        cases fuel with
        | zero => simp [depth] at hd
        | succ fuel =>
          simp [validB] at hv
          simpa [encSigned] using dec_bin fuel s rest hv
    | .list l, fuel, rest, hv, hd => by
        cases fuel with
        | zero => simp [depth] at hd
        | succ fuel =>
          simp [validB] at hv
          simp [depth] at hd
          rw [encSigned, List.append_assoc, dec_arrHdr fuel _ _ hv.1, decItems_encSigned l fuel rest hv.2 hd]
          rfl
    | .dict d, fuel, rest, hv, hd => by
        cases fuel with
        | zero => simp [depth] at hd
        | succ fuel =>
          simp [validB] at hv
          simp [depth] at hd
          rw [encSigned, List.append_assoc, dec_mapHdr fuel _ _ hv.1.1,
            decPairs_encSigned d [] fuel rest hv.2 hv.1.2 hd]
          rfl
  theorem decItems_encSigned : ∀ (l : List CVal) (fuel : Nat) (rest : Bytes), validListB maxLen l = true →
      depthList l < fuel → decItems (decF fuel) l.length (encSignedList l ++ rest) = .ok (l, rest)
    | [], _, _, _, _ => by simp [encSignedList, decItems]
    | v :: vs, fuel, rest, hv, hd => by
        simp [validListB] at hv
        simp [depthList] at hd
        simp [encSignedList, decItems, List.append_assoc,
          decF_encSigned v fuel (encSignedList vs ++ rest) hv.1 (by omega),
          decItems_encSigned vs fuel rest hv.2 (by omega)]
  theorem decPairs_encSigned : ∀ (d : List (Bytes × CVal)) (seen : List Bytes) (fuel : Nat) (rest : Bytes),
      validDictB maxLen d = true → noDupFrom seen d = true →
      depthDict d < fuel →
      decPairs decKey (decF fuel) d.length seen (encSignedDict d ++ rest) = .ok (d, rest)
    | [], _, _, _, _, _, _ => by simp [encSignedDict, decPairs]
    | (k, v) :: r, seen, fuel, rest, hv, hn, hd => by
        simp [validDictB] at hv
        simp [noDupFrom] at hn
        simp [depthDict] at hd
        have hk := decKey_str k (encSigned v ++ (encSignedDict r ++ rest)) hv.1.1
        simp [encSignedDict, decPairs, List.append_assoc] at hk ⊢
        simp [hk, hn.1, decF_encSigned v fuel (encSignedDict r ++ rest) hv.1.2 (by omega),
          decPairs_encSigned r (k :: seen) fuel rest hv.2 hn.2 (by omega)]
end

mutual
  theorem depth_le_signed : ∀ (v : CVal), depth v ≤ (encSigned v).length
    | .null => by simp [depth]
    | .bool _ => by simp [depth]
    | .int _ => by simp [depth]
    | .float _ => by simp [depth]
    | .str _ => by simp [depth]
    | .bin _ => by simp [depth]
    | .list l => by
        have := depthList_le_signed l; have := arrHdr_pos l.length
        simp [depth, encSigned]; omega
    | .dict d => by
        have := depthDict_le_signed d; have := mapHdr_pos d.length
        simp [depth, encSigned]; omega
  theorem depthList_le_signed : ∀ (l : List CVal), depthList l ≤ (encSignedList l).length
    | [] => by simp [depthList]
    | v :: vs => by
        have := depth_le_signed v; have := depthList_le_signed vs
        simp [depthList, encSignedList]; omega
  theorem depthDict_le_signed : ∀ (d : List (Bytes × CVal)), depthDict d ≤ (encSignedDict d).length
    | [] => by simp [depthDict]
    | (k, v) :: r => by
        have := depth_le_signed v; have := depthDict_le_signed r
        simp [depthDict, encSignedDict]; omega
end

/-- **MessagePack round trip on the codec's bytes for signed Go integers**: as `dec_enc`, with
    every integer of the int64 range written by `EncodeInt`. -/
theorem dec_encSigned (v : CVal) (rest : Bytes) (hv : validB maxLen v = true) :
    dec (encSigned v ++ rest) = .ok (v, rest) := by
  unfold dec
  apply decF_encSigned v _ rest hv
  have := depth_le_signed v
  simp; omega

/-- The hypothesis is satisfiable, and the bytes differ from `enc`'s: `[200, {"a": 70000}]`. -/
example : validB maxLen (.list [.int 200, .dict [([0x61], .int 70000)]]) = true
    ∧ encSigned (.list [.int 200, .dict [([0x61], .int 70000)]])
        = [0x92, 0xd1, 0x00, 0xc8, 0x81, 0xa1, 0x61, 0xd2, 0x00, 0x01, 0x11, 0x70]
    ∧ enc (.list [.int 200, .dict [([0x61], .int 70000)]])
        = [0x92, 0xcc, 0xc8, 0x81, 0xa1, 0x61, 0xce, 0x00, 0x01, 0x11, 0x70] := by
  decide

/-! ### float32 -/

/-- What `EncodeFloat32` writes for the binary32 bit pattern `w` (msgpack.go:112-115). -/
def encFloat32 (w : Nat) : Bytes := UInt8.ofNat 0xca :: beBytes 4 w

/-- A Go `float32` on the wire (`ca`) is read as a float: the binary64 pattern of the same value,
    `f32to64 w` (Go: `float64(math.Float32frombits(w))`). -/
theorem dec_float32 (w : Nat) (hw : w < 4294967296) (rest : Bytes) :
    dec (encFloat32 w ++ rest) = .ok (.float (UInt64.ofNat (f32to64 w)), rest) := by
  have hlt : w < 256 ^ 4 := by omega
  simp [dec, encFloat32, decF, classify, mapV, readBE_append hlt]

/-- `ca 3f 80 00 00` = 1.0f → 1.0 (3ff0000000000000). -/
example : dec ([0xca, 0x3f, 0x80, 0x00, 0x00] ++ []) = .ok (.float 0x3ff0000000000000, []) :=
  dec_float32 0x3f800000 (by decide) []

end MsgPack

/-- Spot checks of the widening: 1.0, -2.5, +Inf, the smallest subnormal 2^-149, the largest
    subnormal, a signalling NaN (quieted), -0. -/
example : f32to64 0x3f800000 = 0x3ff0000000000000 ∧ f32to64 0xc0200000 = 0xc004000000000000
    ∧ f32to64 0x7f800000 = 0x7ff0000000000000 ∧ f32to64 0x00000001 = 0x36a0000000000000
    ∧ f32to64 0x007fffff = 0x380fffffc0000000 ∧ f32to64 0x7f800001 = 0x7ff8000020000000
    ∧ f32to64 0x80000000 = 0x8000000000000000 := by
  decide

namespace CBOR

/-- CBOR has one integer writer: `EncodeInt` (cbor.go:89-95) sends a non-negative `int64` through
    `encUint(uint64(v), cborBaseUint)`, which is all `EncodeUint` (cbor.go:97-99) does; a negative
    one through `encUint(uint64(-1-v), cborBaseNegInt)`.  This is `CBOR.encInt` verbatim. -/
def encIntSigned (i : Int) : Bytes :=
  if i < 0 then encHead 1 (-1 - i).toNat else encHead 0 i.toNat

theorem encIntSigned_eq (i : Int) : encIntSigned i = encInt i := by
  unfold encIntSigned encInt
  by_cases h : 0 ≤ i
  · have : ¬ i < 0 := by omega
    simp [h, this]
  · have : i < 0 := by omega
    simp [h, this]

/-- What `EncodeFloat32` writes with the repo's handle (`OptimumSize` false; cbor.go:48-59). -/
def encFloat32 (w : Nat) : Bytes := UInt8.ofNat 0xfa :: beBytes 4 w

/-- A Go `float32` on the wire (`fa`) is read as the binary64 pattern of the same value. -/
theorem dec_float32 (w : Nat) (hw : w < 4294967296) (rest : Bytes) :
    dec (encFloat32 w ++ rest) = .ok (.float (UInt64.ofNat (f32to64 w)), rest) := by
  have hlt : w < 256 ^ 4 := by omega
  simp [dec, encFloat32, decF, decSimple, mapV, readBE_append hlt]

/-- `fa c0 20 00 00` = -2.5f → -2.5. -/
example : dec ([0xfa, 0xc0, 0x20, 0x00, 0x00] ++ []) = .ok (.float 0xc004000000000000, []) :=
  dec_float32 0xc0200000 (by decide) []

end CBOR

end Nexus.Codec

namespace Nexus.C14

open Nexus.Codec

/-- **MessagePack round trip, signed Go integers** (audit C14-c3): `C14_msgpack_roundtrip` speaks
    of `MsgPack.enc`, which writes non-negative integers the way the codec writes a `uint64`.
    This is the same statement for the bytes the codec writes when the integers are Go
    `int`/`int64` values (d1..d3 from 128 on): every encodable value, at any depth, followed by
    arbitrary bytes, decodes to itself and leaves those bytes. -/
theorem C14_msgpack_signed_roundtrip (v : CVal) (rest : Bytes) (hv : validB MsgPack.maxLen v = true) :
    Wire.decode .msgpack (MsgPack.encSigned v ++ rest) = .ok (v, rest) :=
  MsgPack.dec_encSigned v rest hv

/-- Satisfiable, non-trivially: a PUBLISH-like list with a request id ≥ 128. -/
example : Wire.decode .msgpack (MsgPack.encSigned (.list [.int 16, .int 300, .dict [], .str [0x74]]) ++ [])
    = .ok (.list [.int 16, .int 300, .dict [], .str [0x74]], []) :=
  C14_msgpack_signed_roundtrip _ _ (by decide)

end Nexus.C14
