/-
  Values as the serializers see them: what `codec` hands to `listToMsg` after
  decoding into `[]any`, and what `msgToList` hands to `codec` for encoding,
  with Go's named types erased (`wamp.ID` → integer, `wamp.URI` → string, ...).

  Differences to `Nexus.WVal` (owner: lead), all needed by C14:
    * `str` carries a Go string = arbitrary byte string (MessagePack/CBOR
      strings are not validated by the codec), not a Lean `String`;
    * `float` (opaque IEEE-754 binary64 bit pattern) and `bin` (`[]byte`);
    * `int` stands for Go `int64`/`uint64`/`int`: the representable range is
      -2^63 ≤ i < 2^64 (`CVal.intInRange`).
  `ofWVal` embeds the lead's `WVal`; `toWVal?` is its partial inverse.
-/
import Nexus.Base.WVal

namespace Nexus.Codec

abbrev Bytes := List UInt8

inductive CVal where
  | null
  | bool (b : Bool)
  | int (i : Int)
  | float (bits : UInt64)
  | str (s : Bytes)
  | bin (b : Bytes)
  | list (l : List CVal)
  | dict (d : List (Bytes × CVal))
  deriving Repr, Inhabited

abbrev CDict := List (Bytes × CVal)

namespace CVal

def isNull : CVal → Bool
  | .null => true
  | _ => false

/-- Go `int64` ∪ `uint64`. -/
def intInRange (i : Int) : Prop := -(2:Int)^63 ≤ i ∧ i < (2:Int)^64

mutual
  def ofWVal : WVal → CVal
    | .null => .null
    | .bool b => .bool b
    | .int i => .int i
    | .str s => .str s.toUTF8.toList
    | .list l => .list (ofWList l)
    | .dict d => .dict (ofWDict d)
  def ofWList : List WVal → List CVal
    | [] => []
    | v :: vs => ofWVal v :: ofWList vs
  def ofWDict : List (String × WVal) → List (Bytes × CVal)
    | [] => []
    | (k, v) :: r => (k.toUTF8.toList, ofWVal v) :: ofWDict r
end

def utf8? (b : Bytes) : Option String := String.fromUTF8? (ByteArray.mk b.toArray)

mutual
  /-- Partial inverse of `ofWVal`: fails on floats, binaries and strings that are not UTF-8. -/
  def toWVal? : CVal → Option WVal
    | .null => some .null
    | .bool b => some (.bool b)
    | .int i => some (.int i)
    | .float _ => none
    | .str s => (utf8? s).map .str
    | .bin _ => none
    | .list l => (toWList? l).map .list
    | .dict d => (toWDict? d).map .dict
  def toWList? : List CVal → Option (List WVal)
    | [] => some []
    | v :: vs => do let a ← toWVal? v; let r ← toWList? vs; pure (a :: r)
  def toWDict? : List (Bytes × CVal) → Option (List (String × WVal))
    | [] => some []
    | (k, v) :: r => do let k' ← utf8? k; let a ← toWVal? v; let r' ← toWDict? r; pure ((k', a) :: r')
end

end CVal

end Nexus.Codec
