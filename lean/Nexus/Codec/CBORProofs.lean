/-
  Round-trip proofs for the CBOR model.
-/
import Nexus.Codec.CBOR

namespace Nexus.Codec.CBOR

open Nexus.Codec

theorem head_div {major info : Nat} (h1 : major < 8) (h2 : info < 32) :
    (major * 32 + info) % 256 / 32 = major ∧ (major * 32 + info) % 256 % 32 = info := by
  omega

/-- Reading back a head. -/
theorem readHead_enc (major n : Nat) (hm : major < 8) (hn : n < argMax) (body : Bytes) :
    ∃ b info rest, encHead major n ++ body = b :: rest ∧ b.toNat / 32 = major ∧ b.toNat % 32 = info ∧
      readArg info rest = .ok (n, body) := by
  unfold argMax at hn
  unfold encHead
  split
  · rename_i h
    refine ⟨_, n, body, rfl, ?_, ?_, ?_⟩
    · simp; omega
    · simp; omega
    · simp [readArg, h]
  · split
    · refine ⟨_, 24, _, rfl, ?_, ?_, ?_⟩
      · simp; omega
      · simp
      · simp [readArg, readBE_append (show n < 256 ^ 1 by omega)]
    · split
      · refine ⟨_, 25, _, rfl, ?_, ?_, ?_⟩
        · simp; omega
        · simp
        · simp [readArg, readBE_append (show n < 256 ^ 2 by omega)]
      · split
        · refine ⟨_, 26, _, rfl, ?_, ?_, ?_⟩
          · simp; omega
          · simp
          · simp [readArg, readBE_append (show n < 256 ^ 4 by omega)]
        · refine ⟨_, 27, _, rfl, ?_, ?_, ?_⟩
          · simp; omega
          · simp
          · simp [readArg, readBE_append (show n < 256 ^ 8 by omega)]

theorem decF_head (fuel major n : Nat) (hm : major < 7) (hn : n < argMax) (body : Bytes) :
    decF (fuel + 1) (encHead major n ++ body) = decBody (decF fuel) major n body := by
  obtain ⟨b, info, rest, he, h1, h2, h3⟩ := readHead_enc major n (by omega) hn body
  rw [he]
  simp only [decF]
  rw [if_neg (by omega), h2, h3, h1]

theorem decKey_enc (k rest : Bytes) (h : k.length < maxLen) :
    decKey ((encHead 3 k.length ++ k) ++ rest) = .ok (k, rest) := by
  have hnot : ¬ (maxLen ≤ k.length) := by omega
  obtain ⟨b, info, r, he, h1, h2, h3⟩ := readHead_enc 3 k.length (by omega) (by unfold maxLen at h; unfold argMax; omega) (k ++ rest)
  rw [List.append_assoc, he]
  simp [decKey, h1, h2, h3, takeN_append, hnot]

theorem dec_int (fuel : Nat) (i : Int) (rest : Bytes)
    (h0 : -(9223372036854775808 : Int) ≤ i) (h1 : i < (18446744073709551616 : Int)) :
    decF (fuel + 1) (encInt i ++ rest) = .ok (.int i, rest) := by
  unfold encInt
  split
  · rename_i hpos
    rw [decF_head fuel 0 _ (by omega) (by unfold argMax; omega)]
    simp [decBody, Int.toNat_of_nonneg hpos]
  · rename_i hneg
    rw [decF_head fuel 1 _ (by omega) (by unfold argMax; omega)]
    have e : (((-1 - i).toNat : Nat) : Int) = -1 - i := Int.toNat_of_nonneg (by omega)
    have hlt : (-1 - i).toNat < 9223372036854775808 := by omega
    simp [decBody, hlt, e]
    omega

mutual
  theorem decF_enc : ∀ (v : CVal) (fuel : Nat) (rest : Bytes), validB maxLen v = true → depth v < fuel →
      decF fuel (enc v ++ rest) = .ok (v, rest)
    | .null, fuel, rest, _, hd => by
        cases fuel with
        | zero => simp [depth] at hd
        | succ fuel => simp [enc, decF, decSimple]
    | .bool b, fuel, rest, _, hd => by
        cases fuel with
        | zero => simp [depth] at hd
        | succ fuel => cases b <;> simp [enc, decF, decSimple]
    | .int i, fuel, rest, hv, hd => by
        cases fuel with
        | zero => simp [depth] at hd
        | succ fuel =>
          simp [validB] at hv
          simpa [enc] using dec_int fuel i rest hv.1 hv.2
    | .float b, fuel, rest, _, hd => by
        cases fuel with
        | zero => simp [depth] at hd
        | succ fuel =>
          have hb : b.toNat < 256 ^ 8 := by have := b.toNat_lt; omega
          simp [enc, decF, decSimple, mapV, readBE_append hb]
    | .str s, fuel, rest, hv, hd => by
        cases fuel with
        | zero => simp [depth] at hd
        | succ fuel =>
          simp [validB] at hv
          have hnot : ¬ (maxLen ≤ s.length) := by omega
          rw [enc, List.append_assoc, decF_head fuel 3 _ (by omega) (by unfold maxLen at hv; unfold argMax; omega)]
          simp [decBody, mapV, takeN_append, hnot]
    | .bin s, fuel, rest, hv, hd => by
        cases fuel with
        | zero => simp [depth] at hd
        | succ fuel =>
          simp [validB] at hv
          have hnot : ¬ (maxLen ≤ s.length) := by omega
          rw [enc, List.append_assoc, decF_head fuel 2 _ (by omega) (by unfold maxLen at hv; unfold argMax; omega)]
          simp [decBody, mapV, takeN_append, hnot]
    | .list l, fuel, rest, hv, hd => by
        cases fuel with
        | zero => simp [depth] at hd
        | succ fuel =>
          simp [validB] at hv
          simp [depth] at hd
          have hnot : ¬ (maxLen ≤ l.length) := by omega
          rw [enc, List.append_assoc, decF_head fuel 4 _ (by omega) (by have := hv.1; unfold maxLen at this; unfold argMax; omega)]
          simp [decBody, mapV, decItems_enc l fuel rest hv.2 hd, hnot]
    | .dict d, fuel, rest, hv, hd => by
        cases fuel with
        | zero => simp [depth] at hd
        | succ fuel =>
          simp [validB] at hv
          simp [depth] at hd
          have hnot : ¬ (maxLen ≤ d.length) := by omega
          rw [enc, List.append_assoc, decF_head fuel 5 _ (by omega) (by have := hv.1.1; unfold maxLen at this; unfold argMax; omega)]
          simp [decBody, mapV, decPairs_enc d [] fuel rest hv.2 hv.1.2 hd, hnot]
  theorem decItems_enc : ∀ (l : List CVal) (fuel : Nat) (rest : Bytes), validListB maxLen l = true →
      depthList l < fuel → decItems (decF fuel) l.length (encList l ++ rest) = .ok (l, rest)
    | [], _, _, _, _ => by simp [encList, decItems]
    | v :: vs, fuel, rest, hv, hd => by
        simp [validListB] at hv
        simp [depthList] at hd
        simp [encList, decItems, List.append_assoc, decF_enc v fuel (encList vs ++ rest) hv.1 (by omega),
          decItems_enc vs fuel rest hv.2 (by omega)]
  theorem decPairs_enc : ∀ (d : List (Bytes × CVal)) (seen : List Bytes) (fuel : Nat) (rest : Bytes),
      validDictB maxLen d = true → noDupFrom seen d = true →
      depthDict d < fuel → decPairs decKey (decF fuel) d.length seen (encDict d ++ rest) = .ok (d, rest)
    | [], _, _, _, _, _, _ => by simp [encDict, decPairs]
    | (k, v) :: r, seen, fuel, rest, hv, hn, hd => by
        simp [validDictB] at hv
        simp [noDupFrom] at hn
        simp [depthDict] at hd
        have hk := decKey_enc k (enc v ++ (encDict r ++ rest)) hv.1.1
        simp [encDict, decPairs, List.append_assoc] at hk ⊢
        simp [hk, hn.1, decF_enc v fuel (encDict r ++ rest) hv.1.2 (by omega),
          decPairs_enc r (k :: seen) fuel rest hv.2 hn.2 (by omega)]
end


theorem encHead_pos (major n : Nat) : 0 < (encHead major n).length := by
  unfold encHead; split <;> (try split) <;> (try split) <;> (try split) <;> simp

mutual
  theorem depth_le : ∀ (v : CVal), depth v ≤ (enc v).length
    | .null => by simp [depth]
    | .bool _ => by simp [depth]
    | .int _ => by simp [depth]
    | .float _ => by simp [depth]
    | .str _ => by simp [depth]
    | .bin _ => by simp [depth]
    | .list l => by
        have := depthList_le l; have := encHead_pos 4 l.length
        simp [depth, enc]; omega
    | .dict d => by
        have := depthDict_le d; have := encHead_pos 5 d.length
        simp [depth, enc]; omega
  theorem depthList_le : ∀ (l : List CVal), depthList l ≤ (encList l).length
    | [] => by simp [depthList]
    | v :: vs => by
        have := depth_le v; have := depthList_le vs
        simp [depthList, encList]; omega
  theorem depthDict_le : ∀ (d : List (Bytes × CVal)), depthDict d ≤ (encDict d).length
    | [] => by simp [depthDict]
    | (k, v) :: r => by
        have := depth_le v; have := depthDict_le r
        simp [depthDict, encDict]; omega
end

/-- **CBOR round trip**: for every encodable value of any nesting depth, decoding its encoding
    followed by arbitrary bytes returns the value and exactly those bytes. -/
theorem dec_enc (v : CVal) (rest : Bytes) (hv : validB maxLen v = true) :
    dec (enc v ++ rest) = .ok (v, rest) := by
  unfold dec
  apply decF_enc v _ rest hv
  have := depth_le v
  simp; omega

end Nexus.Codec.CBOR
