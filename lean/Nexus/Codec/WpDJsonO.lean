/-
  JSON with floats and binaries (audit items C14-a2, a3).

  `Json.enc` / `Json.dec` stop at the fragment null / bool / integer / string / list / dict.
  This file adds what the real codec does with the two remaining kinds of value:

  * `[]byte` → `"` ++ base64 ++ `"` (ugorji json.go:278-323, `EncodeStringBytesRaw`;
    `Nexus/Codec/WpDBase64.lean`); a JSON string comes back as a Go string, so a binary does not
    round-trip: `.bin b ↦ .str (B64.enc b)` (`binView`).  (A nil `[]byte` is written `null`;
    `CVal` has `.null` for that.)

  * floats, through an ORACLE (`FloatOrc`).  Printing and parsing decimal floats is Go's
    `strconv` (plus ugorji's own fast path) and is not modelled:
      - `fmt bits` = what `EncodeFloat64` writes for a FINITE float (json.go:203-210 with
        `jsonFloatStrconvFmtPrec64`, json.base.go:473-486): `strconv.AppendFloat(f, 'f', 1, 64)`
        when f is 0, ±1 or has no fraction and |f| < 2^52 (`3.0`, `-0.0`), `'e', -1` when
        |f| < 1e-6 or |f| ≥ 1e21 (`1e-07`, `1e+21`), `'f', -1` otherwise (`0.5`,
        `100000000000000000000`).  NaN and ±Inf are written `null` by the model itself.
      - `parse tok` = ugorji's `parseFloat64_custom` (decimal.go:253-266; falls back to
        `strconv.ParseFloat`) on a number token that `parseNumber` (decimal.go:336-374) does not
        read as an integer; `none` = the decode error.
    What the real functions are assumed to satisfy is the predicate `FloatOrc.Faithful`, stated
    per float as the decidable `faithfulAt` so that the codec family can evaluate it on sampled
    floats (driver request `jorc`).

  The lossy cases, modelled faithfully:
      - NaN, ±Inf → `null` → nil;
      - an integral float with 2^52 ≤ |f| < 2^64 is printed by `'f', -1` WITHOUT a decimal point
        (`noFrac64` only looks below 2^52) as the shortest digits padded with zeros
        (2^63 → `9223372036854776000`), and comes back as an integer (uint64 / int64) — or, when
        negative and beyond -2^63, as a decode ERROR (`-1e19` → `-10000000000000000000`:
        "strconv.ParseInt ... invalid syntax"; known finding);
      - from 2^64 up (still without a point below 1e21) the integer path overflows and the
        token is parsed as a float again: lossless.

  `decVG num` is `Json.decV` with the number-token function as a parameter
  (`decV_eq_decVG`: `decV = decVG decNumTok`); `decO orc = decVG (decNumTokO orc)`.
-/
import Nexus.Codec.WpDJsonReal
import Nexus.Codec.WpDBase64

namespace Nexus.Codec.Json

open Nexus.Codec

/-! ### the oracle -/

/-- Decimal printing / parsing of binary64, as the codec calls Go's `strconv`. -/
structure FloatOrc where
  /-- bytes `EncodeFloat64` writes for a finite float (bit pattern) -/
  fmt : UInt64 → Bytes
  /-- `parseFloat64_custom` on a number token; `none` = error -/
  parse : Bytes → Option UInt64

/-- Neither NaN nor ±Inf: exponent field below 2047. -/
def isFinite (b : UInt64) : Bool := (b.toNat / 2 ^ 52) % 2048 != 2047

/-- Bit pattern of |f|. -/
def absBits (b : UInt64) : Nat := b.toNat % 2 ^ 63

/-- 2^52 ≤ |f| < 2^64 (for finite floats the bit patterns of |f| are ordered like the values;
    2^52 = 0x4330000000000000, 2^64 = 0x43F0000000000000): the floats that come back from JSON as
    integers. -/
def lossyIntegral (b : UInt64) : Bool :=
  decide (0x4330000000000000 ≤ absBits b) && decide (absBits b < 0x43F0000000000000)

/-- `-?(0|[1-9][0-9]*)` with magnitude below 2^64: the tokens `parseNumber` reads as an integer
    (`parseUint64_simple` succeeds). -/
def smallIntTok : Bytes → Bool
  | [] => false
  | b :: ds =>
    if b.toNat == 45 then plainDigits ds && decide (decNat ds < 18446744073709551616)
    else plainDigits (b :: ds) && decide (decNat (b :: ds) < 18446744073709551616)

/-- The oracle's answers for one float are what the real functions give: the printed form is a
    non-empty run of number characters with at least one digit (so the decoder's tokenizer reads
    it back whole), it is an integer token below 2^64 exactly for the floats in `lossyIntegral`,
    and for the others parsing it gives the float back.  (The real functions give the float back
    for every finite float; the family checks that too, the theorems do not need it.) -/
def FloatOrc.faithfulAt (orc : FloatOrc) (b : UInt64) : Bool :=
  (orc.fmt b).any isDigit && (orc.fmt b).all isNumChar
    && (lossyIntegral b || orc.parse (orc.fmt b) == some b)
    && (smallIntTok (orc.fmt b) == lossyIntegral b)

/-- What the codec's float printing and parsing are assumed to satisfy (sampled by the codec
    family on every run). -/
def FloatOrc.Faithful (orc : FloatOrc) : Prop := ∀ b, isFinite b = true → orc.faithfulAt b = true

/-! ### decoder -/

def parseTok (orc : FloatOrc) (tok : Bytes) : DRes CVal :=
  match orc.parse tok with
  | some f => .ok (.float f)
  | none => .error .malformed

/-- `decNumTok` with the float path: `parseNumber` (decimal.go:336-374).  Still outside the value
    model: `-` and `-0` (an int64 zero, which the head check of `Deserialize` tells from the
    uint64 zero of `0`). -/
def decNumTokO (orc : FloatOrc) (tok : Bytes) : DRes CVal :=
  match tok with
  | [] => .error .malformed
  | b :: ds =>
    if b.toNat == 45 then
      if ds.isEmpty then .error .unsupported             -- "-": `parseUint64_simple("")` is 0, ok
      else if plainDigits ds then
        (if decNat ds = 0 then .error .unsupported
         else if decNat ds ≤ 9223372036854775808 then .ok (.int (-(decNat ds : Int)))
         else if decNat ds < 18446744073709551616 then .error .malformed   -- ParseInt overflows
         else parseTok orc tok)
      else parseTok orc tok
    else if plainDigits (b :: ds) then
      (if decNat (b :: ds) < 18446744073709551616 then .ok (.int (decNat (b :: ds))) else parseTok orc tok)
    else parseTok orc tok

/-- `Json.decV` over an arbitrary reading `num` of number tokens. -/
def decVG (num : Bytes → DRes CVal) : Nat → Bytes → DRes (CVal × Bytes)
  | 0, _ => .error .malformed
  | fuel + 1, bs =>
    match skipWs bs with
    | [] => .error .malformed
    | b :: r =>
      let c := b.toNat
      if c = 0x5b then
        match skipWs r with
        | [] => .error .malformed
        | d :: r' =>
          if d.toNat = 0x5d then .ok (.list [], r')
          else
            match decVG num fuel (d :: r') with
            | .error e => .error e
            | .ok (v, r'') =>
              match decTail (decVG num fuel) r''.length.succ r'' with
              | .ok (vs, r3) => .ok (.list (v :: vs), r3)
              | .error e => .error e
      else if c = 0x7b then
        match skipWs r with
        | [] => .error .malformed
        | d :: r' =>
          if d.toNat = 0x7d then .ok (.dict [], r')
          else
            match decMember (decVG num fuel) [] (d :: r') with
            | .error e => .error e
            | .ok (kv, r'') =>
              match decMembers (decVG num fuel) r''.length.succ [kv.1] r'' with
              | .ok (ps, r3) => .ok (.dict (kv :: ps), r3)
              | .error e => .error e
      else if c = 0x22 then
        match strBody (r.length + 1) r with
        | .ok (s, r') => .ok (.str s, r')
        | .error e => .error e
      else if c = 0x6e then lit [0x75, 0x6c, 0x6c] .null r
      else if c = 0x74 then lit [0x72, 0x75, 0x65] (.bool true) r
      else if c = 0x66 then lit [0x61, 0x6c, 0x73, 0x65] (.bool false) r
      else
        let tok := (b :: r).takeWhile isNumChar
        match num tok with
        | .ok v => .ok (v, (b :: r).dropWhile isNumChar)
        | .error e => .error e

theorem decV_eq_decVG : ∀ (fuel : Nat), decV fuel = decVG decNumTok fuel
  | 0 => by funext bs; simp [decV, decVG]
  | fuel + 1 => by
      funext bs
      simp only [decV, decVG, decV_eq_decVG fuel]
      rfl

/-- The JSON decoder with floats: `Json.dec` with `decNumTokO orc` for `decNumTok`. -/
def decO (orc : FloatOrc) (bs : Bytes) : DRes (CVal × Bytes) := decVG (decNumTokO orc) (bs.length + 1) bs

theorem dec_eq_decVG (bs : Bytes) : dec bs = decVG decNumTok (bs.length + 1) bs := by
  unfold dec; rw [decV_eq_decVG]

/-! ### encoder -/

def nullLit : Bytes := [0x6e, 0x75, 0x6c, 0x6c]

/-- `EncodeFloat64`: NaN / ±Inf → `null`, everything else through `strconv`. -/
def encFloat (orc : FloatOrc) (b : UInt64) : Bytes := if isFinite b then orc.fmt b else nullLit

/-- `EncodeStringBytesRaw` for a non-nil `[]byte`. -/
def encBin (b : Bytes) : Bytes := 0x22 :: (B64.enc b ++ [0x22])

mutual
  /-- `Json.enc` with floats (oracle) and binaries (base64). -/
  def encO (orc : FloatOrc) : CVal → Bytes
    | .null => [0x6e, 0x75, 0x6c, 0x6c]
    | .bool true => [0x74, 0x72, 0x75, 0x65]
    | .bool false => [0x66, 0x61, 0x6c, 0x73, 0x65]
    | .int i => encInt i
    | .float b => encFloat orc b
    | .str s => encStr s
    | .bin b => encBin b
    | .list [] => [0x5b, 0x5d]
    | .list (v :: vs) => 0x5b :: (encO orc v ++ encTailO orc vs)
    | .dict [] => [0x7b, 0x7d]
    | .dict ((k, v) :: r) => 0x7b :: (encStr k ++ (0x3a :: (encO orc v ++ encMembersO orc r)))
  def encTailO (orc : FloatOrc) : List CVal → Bytes
    | [] => [0x5d]
    | v :: vs => 0x2c :: (encO orc v ++ encTailO orc vs)
  def encMembersO (orc : FloatOrc) : List (Bytes × CVal) → Bytes
    | [] => [0x7d]
    | (k, v) :: r => 0x2c :: (encStr k ++ (0x3a :: (encO orc v ++ encMembersO orc r)))
end

mutual
  /-- `okB` plus binaries (any) and the floats that come back as themselves: finite and not an
      integer of magnitude in [2^52, 2^64). -/
  def okFB : CVal → Bool
    | .null => true
    | .bool _ => true
    | .int i => decide (-(9223372036854775808 : Int) ≤ i) && decide (i < (18446744073709551616 : Int))
    | .float b => isFinite b && !lossyIntegral b
    | .str s => utf8OkB s
    | .bin _ => true
    | .list l => okFListB l
    | .dict d => noDupFrom [] d && okFDictB d
  def okFListB : List CVal → Bool
    | [] => true
    | v :: vs => okFB v && okFListB vs
  def okFDictB : List (Bytes × CVal) → Bool
    | [] => true
    | (k, v) :: r => utf8OkB k && okFB v && okFDictB r
end

mutual
  /-- No binary anywhere. -/
  def noBinB : CVal → Bool
    | .bin _ => false
    | .list l => noBinListB l
    | .dict d => noBinDictB d
    | _ => true
  def noBinListB : List CVal → Bool
    | [] => true
    | v :: vs => noBinB v && noBinListB vs
  def noBinDictB : List (Bytes × CVal) → Bool
    | [] => true
    | (_, v) :: r => noBinB v && noBinDictB r
end

mutual
  /-- What a value looks like after a JSON round trip, as far as binaries are concerned:
      `[]byte` has become the string of its base64 text. -/
  def binView : CVal → CVal
    | .bin b => .str (B64.enc b)
    | .list l => .list (binViewList l)
    | .dict d => .dict (binViewDict d)
    | v => v
  def binViewList : List CVal → List CVal
    | [] => []
    | v :: vs => binView v :: binViewList vs
  def binViewDict : List (Bytes × CVal) → List (Bytes × CVal)
    | [] => []
    | (k, v) :: r => (k, binView v) :: binViewDict r
end

end Nexus.Codec.Json
