/-
  Byte-level plumbing shared by the MessagePack and CBOR models: big-endian
  integers, taking `k` bytes, decoder result type, generic item loops, value
  validity (`validB`) and nesting depth.
-/
import Nexus.Codec.CVal

namespace Nexus.Codec

inductive DErr where
  /-- not a well-formed encoding (truncated, reserved byte, ...) -/
  | malformed
  /-- well-formed, but outside the value model (extension types, tags, non-string map keys, ...) -/
  | unsupported
  deriving DecidableEq, Repr, Inhabited

abbrev DRes (α : Type) := Except DErr α

/-- `k` bytes, big-endian, of `n` (mod 256^k). -/
def beBytes : Nat → Nat → Bytes
  | 0, _ => []
  | k + 1, n => beBytes k (n / 256) ++ [UInt8.ofNat (n % 256)]

def beNat (bs : Bytes) : Nat := bs.foldl (fun a b => a * 256 + b.toNat) 0

theorem u8_toNat {n : Nat} (h : n < 256) : (UInt8.ofNat n).toNat = n := by
  simp [UInt8.toNat_ofNat']
  omega

@[simp] theorem beBytes_length (k n : Nat) : (beBytes k n).length = k := by
  induction k generalizing n with
  | zero => rfl
  | succ k ih => simp [beBytes, ih]

theorem beNat_append_single (a : Bytes) (b : UInt8) : beNat (a ++ [b]) = beNat a * 256 + b.toNat := by
  simp [beNat, List.foldl_append]

theorem beNat_beBytes : ∀ (k n : Nat), n < 256 ^ k → beNat (beBytes k n) = n
  | 0, n, h => by simp at h; subst h; rfl
  | k + 1, n, h => by
      have h' : n / 256 < 256 ^ k := by
        rw [Nat.pow_succ] at h
        exact Nat.div_lt_of_lt_mul (by rw [Nat.mul_comm]; exact h)
      rw [beBytes, beNat_append_single, beNat_beBytes k _ h', u8_toNat (Nat.mod_lt _ (by decide))]
      omega

/-- The first `k` bytes and the rest; `malformed` when fewer are left. -/
def takeN (k : Nat) (bs : Bytes) : DRes (Bytes × Bytes) :=
  if k ≤ bs.length then .ok (bs.take k, bs.drop k) else .error .malformed

theorem takeN_append (a r : Bytes) : takeN a.length (a ++ r) = .ok (a, r) := by
  simp [takeN]

def readBE (k : Nat) (bs : Bytes) : DRes (Nat × Bytes) :=
  match takeN k bs with
  | .ok (a, r) => .ok (beNat a, r)
  | .error e => .error e

theorem readBE_append {k n : Nat} (h : n < 256 ^ k) (r : Bytes) :
    readBE k (beBytes k n ++ r) = .ok (n, r) := by
  have := takeN_append (beBytes k n) r
  rw [beBytes_length] at this
  simp [readBE, this, beNat_beBytes k n h]

/-- `n` items with the element decoder `f`. -/
def decItems (f : Bytes → DRes (CVal × Bytes)) : Nat → Bytes → DRes (List CVal × Bytes)
  | 0, bs => .ok ([], bs)
  | n + 1, bs =>
    match f bs with
    | .error e => .error e
    | .ok (v, r) =>
      match decItems f n r with
      | .error e => .error e
      | .ok (vs, r') => .ok (v :: vs, r')

/-- `n` key/value pairs; `k` decodes a key (a string), `f` a value.  A key that was already seen
    in this map is outside the value model: the codec then decodes the new value *into* the old
    one (lists are overwritten element-wise, maps merged, a number after a string becomes a
    string, ...). -/
def decPairs (k : Bytes → DRes (Bytes × Bytes)) (f : Bytes → DRes (CVal × Bytes)) :
    Nat → List Bytes → Bytes → DRes (List (Bytes × CVal) × Bytes)
  | 0, _, bs => .ok ([], bs)
  | n + 1, seen, bs =>
    match k bs with
    | .error e => .error e
    | .ok (key, r) =>
      if seen.contains key then .error .unsupported
      else
        match f r with
        | .error e => .error e
        | .ok (v, r') =>
          match decPairs k f n (key :: seen) r' with
          | .error e => .error e
          | .ok (ps, r'') => .ok ((key, v) :: ps, r'')

/-- No key of `d` occurs in `seen` or twice in `d`. -/
def noDupFrom : List Bytes → List (Bytes × CVal) → Bool
  | _, [] => true
  | seen, (k, _) :: r => !seen.contains k && noDupFrom (k :: seen) r

mutual
  /-- Encodable: integers in Go's int64 ∪ uint64, every length below `L`, dict keys distinct
      (as in any Go map). -/
  def validB (L : Nat) : CVal → Bool
    | .null => true
    | .bool _ => true
    | .float _ => true
    | .int i => decide (-(9223372036854775808 : Int) ≤ i) && decide (i < (18446744073709551616 : Int))
    | .str s => decide (s.length < L)
    | .bin b => decide (b.length < L)
    | .list l => decide (l.length < L) && validListB L l
    | .dict d => decide (d.length < L) && noDupFrom [] d && validDictB L d
  def validListB (L : Nat) : List CVal → Bool
    | [] => true
    | v :: vs => validB L v && validListB L vs
  def validDictB (L : Nat) : List (Bytes × CVal) → Bool
    | [] => true
    | (k, v) :: r => decide (k.length < L) && validB L v && validDictB L r
end

mutual
  def depth : CVal → Nat
    | .list l => depthList l + 1
    | .dict d => depthDict d + 1
    | _ => 0
  def depthList : List CVal → Nat
    | [] => 0
    | v :: vs => max (depth v) (depthList vs)
  def depthDict : List (Bytes × CVal) → Nat
    | [] => 0
    | (_, v) :: r => max (depth v) (depthDict r)
end

/-- Two's complement reading of a `k`-byte big-endian number. -/
def toSigned (k : Nat) (n : Nat) : Int :=
  if n < 256 ^ k / 2 then (n : Int) else (n : Int) - (256 ^ k : Nat)

/-! ### float widening (decoders only; the encoders emit binary64) -/

/-- binary32 bits → binary64 bits (exact; NaNs are quieted as the amd64 conversion does). -/
def f32to64 (w : Nat) : Nat :=
  let s := w / 2 ^ 31
  let e := (w / 2 ^ 23) % 256
  let m := w % 2 ^ 23
  if e == 255 then
    s * 2 ^ 63 + 2047 * 2 ^ 52 + (if m == 0 then 0 else m * 2 ^ 29 ||| 2 ^ 51)
  else if e == 0 then
    if m == 0 then s * 2 ^ 63
    else
      let k := Nat.log2 m + 1
      s * 2 ^ 63 + (k + 873) * 2 ^ 52 + (m - 2 ^ (k - 1)) * 2 ^ (53 - k)
  else s * 2 ^ 63 + (e + 896) * 2 ^ 52 + m * 2 ^ 29

/-- binary16 bits → binary32 bits. -/
def f16to32 (h : Nat) : Nat :=
  let s := h / 2 ^ 15
  let e := (h / 2 ^ 10) % 32
  let m := h % 2 ^ 10
  if e == 31 then s * 2 ^ 31 + 255 * 2 ^ 23 + m * 2 ^ 13
  else if e == 0 then
    if m == 0 then s * 2 ^ 31
    else
      let k := Nat.log2 m + 1
      s * 2 ^ 31 + (k + 102) * 2 ^ 23 + (m - 2 ^ (k - 1)) * 2 ^ (24 - k)
  else s * 2 ^ 31 + (e + 112) * 2 ^ 23 + m * 2 ^ 13

end Nexus.Codec
