/-
  JSON, the fragment null / bool / integer / string / list / dict.

  Encoder = what ugorji/go/codec v1.3.1 emits with the repo's handle (compact, no
  whitespace; integers in decimal; string escapes: \" \\ \b \f \n \r \t, \u00XX for the other
  control characters and for < > &,     for U+2028/U+2029, everything else raw).
  "Everything else raw" is what the codec does for VALID UTF-8 only: a byte ≥ 0x80 that does not
  start a valid encoding (`utf8.DecodeRuneInString` answers RuneError, 1) is written as the six
  characters \uFFFD (json.go:445-452).  `enc` copies it raw; such strings are outside the
  fragment (`okB` demands `utf8OkB` of every string and key, `encode` answers `none`), and the
  codec's real output is modelled separately as `encReal` (Nexus/Codec/WpDJsonReal.lean).
  Floats and binaries are not in the fragment (`encode` answers `none`): the codec prints
  floats with Go's shortest-decimal algorithm (trusted, and lossy: an integral float of
  magnitude ≥ 2^53.. comes back as an integer; NaN/±Inf are written as null), and `[]byte` as a
  base64 string that comes back as a string.

  Decoder: whitespace wherever JSON allows it — like the codec, every byte ≤ 0x20 counts; strings with raw bytes
  (control characters and bytes ≥ 0x80 are copied as they are, like the codec does) and the
  escapes \" \\ \/ \' \b \f \n \r \t \uXXXX (non-surrogate); integers `-?(0|[1-9][0-9]*)`.
  Reported as `unsupported` (outside the fragment, the family then only requires "no panic"):
  any other number token (fraction, exponent, leading zeros, lone '-', '+'), non-negative
  integers above MaxUint64 (the codec turns them into floats), \u escapes that are surrogates
  or have non-hex digits, objects with a repeated key (the codec merges the values).  Everything else that is not in the grammar is `malformed`.
-/
import Nexus.Codec.BytesLemmas
import Nexus.Codec.GoConv

namespace Nexus.Codec.Json

open Nexus.Codec

/-! ### numbers -/

/-- Decimal digits, least significant first. -/
def digitsRev : Nat → Nat → Bytes
  | 0, _ => []
  | f + 1, n => if n < 10 then [UInt8.ofNat (48 + n)] else UInt8.ofNat (48 + n % 10) :: digitsRev f (n / 10)

def natDigits (n : Nat) : Bytes := (digitsRev (n + 1) n).reverse

def isDigit (b : UInt8) : Bool := 48 ≤ b.toNat && b.toNat ≤ 57

/-- Value of a most-significant-first digit string. -/
def decNat (ds : Bytes) : Nat := ds.foldl (fun a d => a * 10 + (d.toNat - 48)) 0

/-- Bytes that continue a number token: digits + - . e E -/
def isNumChar (b : UInt8) : Bool :=
  isDigit b || b.toNat == 43 || b.toNat == 45 || b.toNat == 46 || b.toNat == 101 || b.toNat == 69

def encInt (i : Int) : Bytes :=
  if i < 0 then UInt8.ofNat 45 :: natDigits (-i).toNat else natDigits i.toNat

/-- A plain digit string: non-empty, digits only, no superfluous leading zero. -/
def plainDigits (ds : Bytes) : Bool := !ds.isEmpty && ds.all isDigit && natDigits (decNat ds) == ds

/-- Interpret a number token the way the codec's naked decode does. -/
def decNumTok (tok : Bytes) : DRes CVal :=
  match tok with
  | [] => .error .malformed                    -- "decode number from empty string"
  | b :: ds =>
    if b.toNat == 45 then
      if plainDigits ds then
        (if decNat ds = 0 then .error .unsupported       -- "-0": an int64 zero, which the head check
                                                         -- tells from the uint64 zero of "0"
         else if decNat ds ≤ 9223372036854775808 then .ok (.int (-(decNat ds : Int)))
         else if decNat ds < 18446744073709551616 then .error .malformed  -- fits uint64, then ParseInt overflows
         else .error .unsupported)                       -- beyond uint64: parsed as a float
      else .error .unsupported
    else if plainDigits (b :: ds) then
      (if decNat (b :: ds) < 18446744073709551616 then .ok (.int (decNat (b :: ds))) else .error .unsupported)
    else .error .unsupported

/-! ### strings -/

def hexDigit (n : Nat) : UInt8 := if n < 10 then UInt8.ofNat (48 + n) else UInt8.ofNat (87 + n)

def hexVal (b : UInt8) : Option Nat :=
  let c := b.toNat
  if 48 ≤ c ∧ c ≤ 57 then some (c - 48)
  else if 97 ≤ c ∧ c ≤ 102 then some (c - 87)
  else if 65 ≤ c ∧ c ≤ 70 then some (c - 55)
  else none

/-- How the codec writes one byte of a string. -/
def escByte (b : UInt8) : Bytes :=
  let c := b.toNat
  if c = 0x22 then [0x5c, 0x22]
  else if c = 0x5c then [0x5c, 0x5c]
  else if c = 0x08 then [0x5c, 0x62]
  else if c = 0x0c then [0x5c, 0x66]
  else if c = 0x0a then [0x5c, 0x6e]
  else if c = 0x0d then [0x5c, 0x72]
  else if c = 0x09 then [0x5c, 0x74]
  else if c < 0x20 ∨ c = 0x26 ∨ c = 0x3c ∨ c = 0x3e then
    [0x5c, 0x75, 0x30, 0x30, hexDigit (c / 16), hexDigit (c % 16)]
  else [b]

def encStrBody : Bytes → Bytes
  | [] => []
  | [b] => escByte b
  | [b, c] => escByte b ++ escByte c
  | b :: c :: d :: r' =>
    if b.toNat = 0xe2 ∧ c.toNat = 0x80 ∧ d.toNat = 0xa8 then
      [0x5c, 0x75, 0x32, 0x30, 0x32, 0x38] ++ encStrBody r'
    else if b.toNat = 0xe2 ∧ c.toNat = 0x80 ∧ d.toNat = 0xa9 then
      [0x5c, 0x75, 0x32, 0x30, 0x32, 0x39] ++ encStrBody r'
    else escByte b ++ encStrBody (c :: d :: r')

def encStr (s : Bytes) : Bytes := 0x22 :: (encStrBody s ++ [0x22])

inductive Step where
  | close (rest : Bytes)
  | chunk (out : Bytes) (rest : Bytes)
  | err (e : DErr)

/-- One unit of a string body: the closing quote, an escape sequence, or a raw byte. -/
def step : Bytes → Step
  | [] => .err .malformed
  | b :: r =>
    if b.toNat = 0x22 then .close r
    else if b.toNat = 0x5c then
      match r with
      | [] => .err .malformed
      | c :: r' =>
        let k := c.toNat
        if k = 0x22 then .chunk [0x22] r'
        else if k = 0x5c then .chunk [0x5c] r'
        else if k = 0x2f then .chunk [0x2f] r'
        else if k = 0x27 then .chunk [0x27] r'
        else if k = 0x62 then .chunk [0x08] r'
        else if k = 0x66 then .chunk [0x0c] r'
        else if k = 0x6e then .chunk [0x0a] r'
        else if k = 0x72 then .chunk [0x0d] r'
        else if k = 0x74 then .chunk [0x09] r'
        else if k = 0x75 then
          match r' with
          | h1 :: h2 :: h3 :: h4 :: r'' =>
            match hexVal h1, hexVal h2, hexVal h3, hexVal h4 with
            | some a, some b', some c', some d =>
              let cp := ((a * 16 + b') * 16 + c') * 16 + d
              if 0xD800 ≤ cp ∧ cp < 0xE000 then .err .unsupported
              else .chunk (utf8Enc cp) r''
            | _, _, _, _ => .err .unsupported
          | _ => .err .malformed
        else .err .malformed                  -- "unsupported escaped value"
    else .chunk [b] r

/-- String body after the opening quote (`fuel` > number of units). -/
def strBody : Nat → Bytes → DRes (Bytes × Bytes)
  | 0, _ => .error .malformed
  | f + 1, bs =>
    match step bs with
    | .close r => .ok ([], r)
    | .err e => .error e
    | .chunk o r =>
      match strBody f r with
      | .ok (s, r') => .ok (o ++ s, r')
      | .error e => .error e

/-! ### values -/

/-- The codec skips every byte ≤ 0x20 between tokens (not only JSON's four whitespace characters). -/
def isWs (b : UInt8) : Bool := b.toNat ≤ 0x20

def skipWs : Bytes → Bytes
  | [] => []
  | b :: r => if isWs b then skipWs r else b :: r

mutual
  def enc : CVal → Bytes
    | .null => [0x6e, 0x75, 0x6c, 0x6c]
    | .bool true => [0x74, 0x72, 0x75, 0x65]
    | .bool false => [0x66, 0x61, 0x6c, 0x73, 0x65]
    | .int i => encInt i
    | .float _ => [0x6e, 0x75, 0x6c, 0x6c]     -- not in the fragment (`encode` refuses)
    | .str s => encStr s
    | .bin _ => [0x6e, 0x75, 0x6c, 0x6c]       -- not in the fragment
    | .list [] => [0x5b, 0x5d]
    | .list (v :: vs) => 0x5b :: (enc v ++ encTail vs)
    | .dict [] => [0x7b, 0x7d]
    | .dict ((k, v) :: r) => 0x7b :: (encStr k ++ (0x3a :: (enc v ++ encMembers r)))
  /-- `,v,v...]` -/
  def encTail : List CVal → Bytes
    | [] => [0x5d]
    | v :: vs => 0x2c :: (enc v ++ encTail vs)
  /-- `,"k":v,...}` -/
  def encMembers : List (Bytes × CVal) → Bytes
    | [] => [0x7d]
    | (k, v) :: r => 0x2c :: (encStr k ++ (0x3a :: (enc v ++ encMembers r)))
end

/-! ### UTF-8 validity (Go's `utf8.DecodeRune`)

The codec's string writer (`quoteStr`, json.go:399-470 of ugorji/go/codec v1.3.1) runs
`utf8.DecodeRuneInString` on every byte ≥ 0x80 and writes the six characters `\uFFFD` for each
byte that does not start a valid encoding (json.go:445-452): a Go string that is not valid UTF-8
does NOT come back from JSON.  `enc` below copies such bytes raw, so the fragment (`okB`) is
restricted to valid UTF-8; what the codec really emits is `encReal` in
Nexus/Codec/WpDJsonReal.lean. -/

/-- Continuation byte, `locb`..`hicb` of unicode/utf8. -/
def isCont (b : UInt8) : Bool := 0x80 ≤ b.toNat && b.toNat ≤ 0xBF

/-- Lowest second byte `utf8.acceptRanges` admits after the lead byte `c` (excludes overlong
    3- and 4-byte forms: E0 needs A0.., F0 needs 90..). -/
def accLo (c : Nat) : Nat := if c = 0xE0 then 0xA0 else if c = 0xF0 then 0x90 else 0x80

/-- Highest second byte admitted after the lead byte `c` (ED ..9F excludes the surrogates
    U+D800..U+DFFF, F4 ..8F excludes everything above U+10FFFF). -/
def accHi (c : Nat) : Nat := if c = 0xED then 0x9F else if c = 0xF4 then 0x8F else 0xBF

/-- `size` of `utf8.DecodeRune(bs)` when the head of `bs` is a valid encoding, and `0` when Go
    answers `(RuneError, 1)` (or `(RuneError, 0)` for the empty input).  Transcribed from the
    tables `first`/`acceptRanges` of unicode/utf8: 00..7F one byte; 80..C1 and F5..FF invalid
    (C0, C1 would be overlong); C2..DF two bytes; E0..EF three; F0..F4 four; the second byte
    within `accLo..accHi`, the others continuation bytes; too few bytes left is invalid. -/
def runeLen : Bytes → Nat
  | [] => 0
  | b0 :: r =>
    let c := b0.toNat
    if c < 0x80 then 1
    else if c < 0xC2 then 0
    else if c < 0xE0 then
      match r with
      | b1 :: _ => if isCont b1 then 2 else 0
      | _ => 0
    else if c < 0xF0 then
      match r with
      | b1 :: b2 :: _ => if accLo c ≤ b1.toNat ∧ b1.toNat ≤ accHi c ∧ isCont b2 = true then 3 else 0
      | _ => 0
    else if c < 0xF5 then
      match r with
      | b1 :: b2 :: b3 :: _ =>
        if accLo c ≤ b1.toNat ∧ b1.toNat ≤ accHi c ∧ isCont b2 = true ∧ isCont b3 = true then 4 else 0
      | _ => 0
    else 0

/-- Valid UTF-8 (= Go's `utf8.Valid`): the byte string splits into encodings `utf8.DecodeRune`
    accepts — no overlong forms, no surrogates, nothing above U+10FFFF. -/
def utf8OkB : Bytes → Bool
  | [] => true
  | b0 :: r =>
    match runeLen (b0 :: r), r with
    | 1, r => utf8OkB r
    | 2, _ :: r' => utf8OkB r'
    | 3, _ :: _ :: r' => utf8OkB r'
    | 4, _ :: _ :: _ :: r' => utf8OkB r'
    | _, _ => false

mutual
  /-- In the fragment: no float, no binary, integers in Go's range, every string and every dict
      key valid UTF-8 (the codec replaces every other byte by U+FFFD, see `utf8OkB`). -/
  def okB : CVal → Bool
    | .null => true
    | .bool _ => true
    | .int i => decide (-(9223372036854775808 : Int) ≤ i) && decide (i < (18446744073709551616 : Int))
    | .float _ => false
    | .str s => utf8OkB s
    | .bin _ => false
    | .list l => okListB l
    | .dict d => noDupFrom [] d && okDictB d
  def okListB : List CVal → Bool
    | [] => true
    | v :: vs => okB v && okListB vs
  def okDictB : List (Bytes × CVal) → Bool
    | [] => true
    | (k, v) :: r => utf8OkB k && okB v && okDictB r
end

/-- After a value: `, v` repeated, then `]`.  `lf` bounds the number of elements. -/
def decTail (f : Bytes → DRes (CVal × Bytes)) : Nat → Bytes → DRes (List CVal × Bytes)
  | 0, _ => .error .malformed
  | lf + 1, bs =>
    match skipWs bs with
    | [] => .error .malformed
    | c :: r =>
      if c.toNat = 0x5d then .ok ([], r)
      else if c.toNat = 0x2c then
        match f r with
        | .error e => .error e
        | .ok (v, r') =>
          match decTail f lf r' with
          | .ok (vs, r'') => .ok (v :: vs, r'')
          | .error e => .error e
      else .error .malformed

/-- `"key" :` with surrounding whitespace; returns the key and what follows the colon. -/
def decMemberKey (bs : Bytes) : DRes (Bytes × Bytes) :=
  match skipWs bs with
  | [] => .error .malformed
  | q :: r =>
    if q.toNat = 0x22 then
      match strBody (r.length + 1) r with
      | .error e => .error e
      | .ok (k, r') =>
        match skipWs r' with
        | [] => .error .malformed
        | c :: r'' => if c.toNat = 0x3a then .ok (k, r'') else .error .malformed
    else .error .unsupported   -- the codec tolerates some non-string keys (a missing key is "", ...)

/-- One member; a key already seen in this object is outside the model (the codec merges). -/
def decMember (f : Bytes → DRes (CVal × Bytes)) (seen : List Bytes) (bs : Bytes) :
    DRes ((Bytes × CVal) × Bytes) :=
  match decMemberKey bs with
  | .error e => .error e
  | .ok (k, r) =>
    if seen.contains k then .error .unsupported
    else
      match f r with
      | .ok (v, r') => .ok ((k, v), r')
      | .error e => .error e

def decMembers (f : Bytes → DRes (CVal × Bytes)) : Nat → List Bytes → Bytes → DRes (List (Bytes × CVal) × Bytes)
  | 0, _, _ => .error .malformed
  | lf + 1, seen, bs =>
    match skipWs bs with
    | [] => .error .malformed
    | c :: r =>
      if c.toNat = 0x7d then .ok ([], r)
      else if c.toNat = 0x2c then
        match decMember f seen r with
        | .error e => .error e
        | .ok (kv, r') =>
          match decMembers f lf (kv.1 :: seen) r' with
          | .ok (ps, r'') => .ok (kv :: ps, r'')
          | .error e => .error e
      else .error .malformed

/-- A literal's remaining letters. -/
def lit (w : Bytes) (v : CVal) (r : Bytes) : DRes (CVal × Bytes) :=
  if r.length < w.length then .error .malformed
  else if r.take w.length == w then .ok (v, r.drop w.length)
  else .error .malformed

def decV : Nat → Bytes → DRes (CVal × Bytes)
  | 0, _ => .error .malformed
  | fuel + 1, bs =>
    match skipWs bs with
    | [] => .error .malformed
    | b :: r =>
      let c := b.toNat
      if c = 0x5b then
        match skipWs r with
        | [] => .error .malformed
        | d :: r' =>
          if d.toNat = 0x5d then .ok (.list [], r')
          else
            match decV fuel (d :: r') with
            | .error e => .error e
            | .ok (v, r'') =>
              match decTail (decV fuel) r''.length.succ r'' with
              | .ok (vs, r3) => .ok (.list (v :: vs), r3)
              | .error e => .error e
      else if c = 0x7b then
        match skipWs r with
        | [] => .error .malformed
        | d :: r' =>
          if d.toNat = 0x7d then .ok (.dict [], r')
          else
            match decMember (decV fuel) [] (d :: r') with
            | .error e => .error e
            | .ok (kv, r'') =>
              match decMembers (decV fuel) r''.length.succ [kv.1] r'' with
              | .ok (ps, r3) => .ok (.dict (kv :: ps), r3)
              | .error e => .error e
      else if c = 0x22 then
        match strBody (r.length + 1) r with
        | .ok (s, r') => .ok (.str s, r')
        | .error e => .error e
      else if c = 0x6e then lit [0x75, 0x6c, 0x6c] .null r
      else if c = 0x74 then lit [0x72, 0x75, 0x65] (.bool true) r
      else if c = 0x66 then lit [0x61, 0x6c, 0x73, 0x65] (.bool false) r
      else
        let tok := (b :: r).takeWhile isNumChar
        match decNumTok tok with
        | .ok v => .ok (v, (b :: r).dropWhile isNumChar)
        | .error e => .error e

def dec (bs : Bytes) : DRes (CVal × Bytes) := decV (bs.length + 1) bs

def encode (v : CVal) : Option Bytes := if okB v then some (enc v) else none

end Nexus.Codec.Json
