/-
  JSON fragment (placeholder until the model lands).
-/
import Nexus.Codec.BytesLemmas

namespace Nexus.Codec.Json

open Nexus.Codec

def encode (_v : CVal) : Option Bytes := none
def dec (_b : Bytes) : DRes (CVal × Bytes) := .error .unsupported
def decTop (_b : Bytes) : DRes (List CVal) := .error .unsupported

end Nexus.Codec.Json
