/-
  Base64 as `encoding/base64.StdEncoding` does it (audit items C14-a1, a3).

  The JSON side of the serializers uses it twice:
    * ugorji's `EncodeStringBytesRaw` (json.go:278-323) writes a `[]byte` as
      `"` ++ StdEncoding.Encode(v) ++ `"` (no escaping: the alphabet needs none);
    * `BinaryData.MarshalJSON` / `UnmarshalJSON` (transport/serialize/jsonserializer.go:70-89)
      call `StdEncoding.EncodeToString` / `StdEncoding.DecodeString`.

  `enc` = `EncodeToString`: 3 bytes → 4 symbols of `A-Za-z0-9+/`, the last quantum padded with `=`.

  `dec` = `DecodeString` (encoding/base64 `decodeQuantum`), NON-strict mode (`Strict()` is not
  called anywhere in the repo):
    * `\r` and `\n` are skipped wherever they stand (before, inside and after the padding);
    * symbols are read four at a time; a quantum may end in `==` (one byte) or `=` (two bytes)
      only if nothing but newlines follows; one, two or three symbols left over are an error
      (padding is mandatory), any other byte is an error;
    * the bits of the last symbol that do not belong to a byte are IGNORED (`"AR=="` decodes
      like `"AQ=="`): `dec` is not injective.
  On error Go returns the bytes decoded so far together with the error; `dec` keeps only the
  verdict (`none`).
-/
import Nexus.Codec.CVal

namespace Nexus.Codec.B64

open Nexus.Codec

/-- The alphabet `A-Za-z0-9+/`. -/
def ch (n : Nat) : UInt8 :=
  if n < 26 then UInt8.ofNat (65 + n)
  else if n < 52 then UInt8.ofNat (71 + n)
  else if n < 62 then UInt8.ofNat (n - 4)
  else if n = 62 then 43 else 47

/-- `decodeMap`: index of a symbol, `none` for every other byte (Go: 0xff). -/
def val (c : UInt8) : Option Nat :=
  let k := c.toNat
  if 65 ≤ k ∧ k ≤ 90 then some (k - 65)
  else if 97 ≤ k ∧ k ≤ 122 then some (k - 71)
  else if 48 ≤ k ∧ k ≤ 57 then some (k + 4)
  else if k = 43 then some 62
  else if k = 47 then some 63
  else none

/-- `StdEncoding.EncodeToString`. -/
def enc : Bytes → Bytes
  | [] => []
  | [a] => [ch (a.toNat / 4), ch (a.toNat % 4 * 16), 61, 61]
  | [a, b] => [ch (a.toNat / 4), ch (a.toNat % 4 * 16 + b.toNat / 16), ch (b.toNat % 16 * 4), 61]
  | a :: b :: c :: r =>
    ch (a.toNat / 4) :: ch (a.toNat % 4 * 16 + b.toNat / 16) :: ch (b.toNat % 16 * 4 + c.toNat / 64)
      :: ch (c.toNat % 64) :: enc r

/-- `decodeQuantum` repeated, on input without `\r` / `\n`. -/
def decQ : Bytes → Option Bytes
  | [] => some []
  | a :: b :: c :: d :: r =>
    match val a, val b with
    | some w, some x =>
      match val c with
      | some y =>
        match val d with
        | some z =>
          (decQ r).map fun t =>
            UInt8.ofNat (w * 4 + x / 16) :: UInt8.ofNat (x % 16 * 16 + y / 4) :: UInt8.ofNat (y % 4 * 64 + z) :: t
        | none =>
          -- `xxx=`: two bytes, then only the end of input
          if d.toNat = 61 ∧ r.isEmpty = true then
            some [UInt8.ofNat (w * 4 + x / 16), UInt8.ofNat (x % 16 * 16 + y / 4)]
          else none
      | none =>
        -- `xx==`: one byte, then only the end of input
        if c.toNat = 61 ∧ d.toNat = 61 ∧ r.isEmpty = true then some [UInt8.ofNat (w * 4 + x / 16)] else none
    | _, _ => none
  | _ => none

def isNl (c : UInt8) : Bool := c.toNat == 10 || c.toNat == 13

/-- `StdEncoding.DecodeString`: `none` = `CorruptInputError`. -/
def dec (s : Bytes) : Option Bytes := decQ (s.filter fun c => !isNl c)

/-! ### round trip -/

theorem val_ch : ∀ n < 64, val (ch n) = some n := by decide

theorem val_pad : val 61 = none := by decide

/-- What a JSON string writer copies unescaped and what `dec` does not skip: printable ASCII
    other than `"` `\` `&` `<` `>`. -/
def plainB (c : UInt8) : Bool :=
  0x20 ≤ c.toNat && c.toNat < 0x7f && c.toNat != 0x22 && c.toNat != 0x5c && c.toNat != 0x26 && c.toNat != 0x3c
    && c.toNat != 0x3e

theorem ch_plain : ∀ n < 64, plainB (ch n) = true := by decide

theorem enc_plain : ∀ (b : Bytes), ∀ c ∈ enc b, plainB c = true := by
  intro b
  induction b using enc.induct with
  | case1 => intro c hc; simp [enc] at hc
  | case2 a =>
    intro c hc
    have := a.toNat_lt
    simp only [enc, List.mem_cons, List.not_mem_nil, or_false] at hc
    rcases hc with h | h | h | h <;> subst h
    · exact ch_plain _ (by omega)
    · exact ch_plain _ (by omega)
    · decide
    · decide
  | case3 a b =>
    intro c hc
    have := a.toNat_lt; have := b.toNat_lt
    simp only [enc, List.mem_cons, List.not_mem_nil, or_false] at hc
    rcases hc with h | h | h | h <;> subst h
    · exact ch_plain _ (by omega)
    · exact ch_plain _ (by omega)
    · exact ch_plain _ (by omega)
    · decide
  | case4 a b c r ih =>
    intro x hx
    have := a.toNat_lt; have := b.toNat_lt; have := c.toNat_lt
    simp only [enc, List.mem_cons] at hx
    rcases hx with h | h | h | h | h
    · subst h; exact ch_plain _ (by omega)
    · subst h; exact ch_plain _ (by omega)
    · subst h; exact ch_plain _ (by omega)
    · subst h; exact ch_plain _ (by omega)
    · exact ih x h

theorem plain_not_nl {c : UInt8} (h : plainB c = true) : isNl c = false := by
  simp [plainB] at h
  simp [isNl]
  omega

theorem filter_enc (b : Bytes) : (enc b).filter (fun c => !isNl c) = enc b := by
  apply List.filter_eq_self.mpr
  intro c hc
  simp [plain_not_nl (enc_plain b c hc)]

theorem ofNat_toNat' (a : UInt8) (n : Nat) (h : n = a.toNat) : UInt8.ofNat n = a := by
  subst h; exact UInt8.ofNat_toNat

theorem decQ_enc : ∀ (b : Bytes), decQ (enc b) = some b := by
  intro b
  induction b using enc.induct with
  | case1 => simp [enc, decQ]
  | case2 a =>
    have := a.toNat_lt
    have h1 := val_ch (a.toNat / 4) (by omega)
    have h2 := val_ch (a.toNat % 4 * 16) (by omega)
    simp only [enc, decQ, h1, h2, val_pad]
    rw [if_pos (by decide), ofNat_toNat' a _ (by omega)]
  | case3 a b =>
    have := a.toNat_lt; have := b.toNat_lt
    have h1 := val_ch (a.toNat / 4) (by omega)
    have h2 := val_ch (a.toNat % 4 * 16 + b.toNat / 16) (by omega)
    have h3 := val_ch (b.toNat % 16 * 4) (by omega)
    simp only [enc, decQ, h1, h2, h3, val_pad]
    rw [if_pos (by decide), ofNat_toNat' a _ (by omega), ofNat_toNat' b _ (by omega)]
  | case4 a b c r ih =>
    have := a.toNat_lt; have := b.toNat_lt; have := c.toNat_lt
    have h1 := val_ch (a.toNat / 4) (by omega)
    have h2 := val_ch (a.toNat % 4 * 16 + b.toNat / 16) (by omega)
    have h3 := val_ch (b.toNat % 16 * 4 + c.toNat / 64) (by omega)
    have h4 := val_ch (c.toNat % 64) (by omega)
    simp only [enc, decQ, h1, h2, h3, h4, ih, Option.map_some]
    rw [ofNat_toNat' a _ (by omega), ofNat_toNat' b _ (by omega), ofNat_toNat' c _ (by omega)]

/-- **Base64 round trip**: `DecodeString(EncodeToString(b)) = b`. -/
theorem dec_enc (b : Bytes) : dec (enc b) = some b := by
  unfold dec
  rw [filter_enc, decQ_enc]

/-- The decoder is not injective: the unused bits of the last symbol are ignored (non-strict
    mode), and newlines are skipped. -/
theorem dec_lenient :
    dec [65, 82, 61, 61] = some [1] ∧ dec [65, 81, 61, 61] = some [1]
    ∧ dec [65, 10, 81, 61, 13, 61] = some [1] := by decide

/-- Padding is mandatory and final. -/
theorem dec_strict_padding :
    dec [65, 81] = none ∧ dec [65, 81, 61] = none ∧ dec [65, 81, 61, 61, 65] = none
    ∧ dec [65, 81, 73] = none ∧ dec [65] = none ∧ dec [65, 81, 73, 61, 61] = none := by decide

end Nexus.Codec.B64
