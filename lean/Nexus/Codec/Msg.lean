/-
  Model of `msgToList` / `listToMsg` (transport/serialize/serializer.go) and of
  the head check each `Deserialize` performs, GENERIC over the schema that
  `gen` extracts from wamp/message.go (`Nexus.Gen.structs`, `Nexus.Gen.newMessage`).

  A Go message value `*wamp.T` is a `Msg`: the struct's schema and one `CVal`
  per field, where a nil `Dict`/`List` is `.null` and an empty non-nil one is
  `.dict []` / `.list []`.

  Go panics are a separate outcome (`Res.panic`), never totalised away:
    * `reflect.Value.Len` on a field that is neither string, map nor slice
      (`msgToList`, reached only for an `omitempty` field of such a type);
    * the explicit `panic("internal message field %d not recognized")` at the
      end of the `listToMsg` loop;
    * an index out of range if field list and value list disagree in length
      (impossible for a Go struct; kept so that the model is total without a
      silent default).
  `Nexus.C14` proves all three unreachable for the generated schema.
-/
import Nexus.Gen.Schema
import Nexus.Codec.GoConv

namespace Nexus.Codec

open Nexus.Gen

inductive Err where
  /-- "invalid message": the decoded list is empty -/
  | invalidMessage
  /-- "unsupported message format": the head is not an acceptable integer -/
  | unsupportedFormat
  /-- "unsupported message type": `wamp.NewMessage` returned nil -/
  | unsupportedType
  /-- "field %d not recognized, has %s, want %s" (index in the list, 1-based for fields) -/
  | fieldNotRecognized (i : Nat)
  /-- "invalid message: not a list": `decodeList` got something that is not a `[]any` -/
  | notAList
  /-- the codec itself rejected the bytes -/
  | decode
  deriving DecidableEq, Repr, Inhabited

inductive Res (α : Type) where
  | ok (a : α)
  | error (e : Err)
  | panic (site : String)
  deriving Repr, Inhabited

namespace Res
def isPanic {α} : Res α → Bool
  | .panic _ => true
  | _ => false
def isOk {α} : Res α → Bool
  | .ok _ => true
  | _ => false
def map {α β} (f : α → β) : Res α → Res β
  | .ok a => .ok (f a)
  | .error e => .error e
  | .panic s => .panic s
end Res

structure Msg where
  schema : MsgSchema
  fields : List CVal
  deriving Repr, Inhabited

/-- Zero value of a field type. -/
def zeroOf : GoKind → CVal
  | .uint64 => .int 0
  | .int => .int 0
  | .string => .str []
  | .mapStringAny => .null
  | .sliceAny => .null

/-- Initial value of field `f` in the struct `NewMessage` allocates for case `c`. -/
def initOf (c : NewCase) (f : FieldSchema) : CVal :=
  match c.inits.lookup f.name with
  | some .code => .int c.code
  | some .emptyDict => .dict []
  | none => zeroOf f.kind

/-- `wamp.NewMessage(t)`: `none` is Go's `nil`. -/
def newMessage (t : Int) : Option Msg :=
  match Gen.newMessage.find? (fun c => (c.code : Int) == t) with
  | none => none
  | some c =>
    match Gen.structs.find? (fun s => s.name == c.struct) with
    | none => none  -- gen refuses such a table; `Nexus.C14.newMessage_total` re-checks
    | some s => some { schema := s, fields := s.fields.map (initOf c) }

/-! ### msgToList -/

/-- `val.Field(i).Len()`. -/
def fieldLen : GoKind → CVal → Res Nat
  | .string, .str s => .ok s.length
  | .mapStringAny, .dict d => .ok d.length
  | .mapStringAny, .null => .ok 0
  | .sliceAny, .list l => .ok l.length
  | .sliceAny, .null => .ok 0
  | .uint64, _ => .panic "reflect: call of reflect.Value.Len on uint64 Value"
  | .int, _ => .panic "reflect: call of reflect.Value.Len on int Value"
  | _, _ => .panic "field value does not have the field's static type"

/-- The backwards loop of `msgToList`:
    `for ; last > 0; last-- { if !omitempty(last) || Field(last).Len() > 0 { break } }`.
    Field 0 is never inspected. -/
def findLast (fs : List FieldSchema) (vals : List CVal) : Nat → Res Nat
  | 0 => .ok 0
  | last + 1 =>
    match fs[last + 1]?, vals[last + 1]? with
    | some f, some v =>
      if !f.omitempty then .ok (last + 1)
      else
        match fieldLen f.kind v with
        | .ok n => if n > 0 then .ok (last + 1) else findLast fs vals last
        | .error e => .error e
        | .panic s => .panic s
    | _, _ => .panic "index out of range"

/-- `msgToList(msg)`: the type code followed by fields `0..last`. -/
def msgToList (m : Msg) : Res (List CVal) :=
  match m.schema.fields.length with
  | 0 => .ok [.int m.schema.code]                -- last = -1: `make([]any, 1)`
  | n + 1 =>
    match findLast m.schema.fields m.fields n with
    | .ok last => .ok (.int m.schema.code :: m.fields.take (last + 1))
    | .error e => .error e
    | .panic s => .panic s

/-! ### listToMsg -/

/-- `AssignableTo`, or `ConvertibleTo` together with the guard the source puts on the conversion
    (`Gen.convertGuard`, regenerated from listToMsg), and the value stored, for a non-nil list item. -/
def convertTo : GoKind → CVal → Option CVal
  -- wamp.ID (uint64): integers wrap, floats truncate
  | .uint64, .int i => some (.int (wrapU64 i))
  | .uint64, .float b => some (.int (f2u b))
  -- wamp.MessageType (int)
  | .int, .int i => some (.int (wrapI64 i))
  | .int, .float b => some (.int (f2i b))
  -- string / wamp.URI: strings.  Go can also convert an integer (to a one-rune string) and a
  -- []byte: taken only when the conversion is not guarded by
  -- `f.Kind() != reflect.String || arg.Kind() == reflect.String`
  | .string, .str s => some (.str s)
  | .string, .int i =>
    (match Gen.convertGuard with
     | .unguarded => some (.str (intToString i))
     | .stringFromStringOnly => none)
  | .string, .bin b =>
    (match Gen.convertGuard with
     | .unguarded => some (.str b)
     | .stringFromStringOnly => none)
  -- wamp.Dict: map[string]any is assignable
  | .mapStringAny, .dict d => some (.dict d)
  -- wamp.List: []any is assignable
  | .sliceAny, .list l => some (.list l)
  | _, _ => none

/-- `arg.Type().Kind() == f.Type().Kind()` (over-approximated on integers, where
    `convertTo` has already succeeded). -/
def sameKind : GoKind → CVal → Bool
  | .uint64, .int _ => true
  | .int, .int _ => true
  | .string, .str _ => true
  | .mapStringAny, .dict _ => true
  | .sliceAny, .list _ => true
  | .sliceAny, .bin _ => true
  | _, _ => false

/-- One iteration of the `listToMsg` loop for a non-nil item (`i` = index in the list). -/
def assignField (i : Nat) (k : GoKind) (v : CVal) : Res CVal :=
  match convertTo k v with
  | some r => .ok r
  | none =>
    if !sameKind k v then .error (.fieldNotRecognized i)
    else
      match k, v with
      -- assignMap: only reachable with a map that is not map[string]any; `CVal` has none
      | .mapStringAny, .dict d => .ok (.dict d)
      -- assignSlice: []byte into wamp.List, element by element (uint8 is assignable to any)
      | .sliceAny, .bin b => .ok (.list (b.map fun x => .int x.toNat))
      | .sliceAny, .list l => .ok (.list l)
      | _, _ => .panic "internal message field not recognized"

/-- The loop `for i := 0; i < NumField && i < len(vlist)-1; i++`, walking field schemas,
    current field values and the list items (after the head) in parallel. -/
def fill : Nat → List FieldSchema → List CVal → List CVal → Res (List CVal)
  | _, [], _, _ => .ok []
  | _, _ :: _, [], _ => .panic "index out of range"
  | _, _ :: _, z :: zs, [] => .ok (z :: zs)
  | i, f :: fs, z :: zs, it :: its =>
    if it.isNull then (fill (i + 1) fs zs its).map (z :: ·)      -- `continue`: field keeps its value
    else
      match assignField i f.kind it with
      | .ok v => (fill (i + 1) fs zs its).map (v :: ·)
      | .error e => .error e
      | .panic s => .panic s

/-- `listToMsg(msgType, vlist)`; `vlist[0]` is not looked at. -/
def listToMsg (t : Int) (vlist : List CVal) : Res Msg :=
  match newMessage t with
  | none => .error .unsupportedType
  | some m => (fill 1 m.schema.fields m.fields vlist.tail).map fun fs => { m with fields := fs }

/-! ### The head check in `Deserialize` -/

inductive Format where
  | json | msgpack | cbor
  deriving DecidableEq, Repr, Inhabited

/-- `v[0].(uint64)` / `v[0].(int64)` and the conversion to `wamp.MessageType`.
    JSON and CBOR decode non-negative integers to `uint64` and negative ones to `int64`;
    MessagePack decodes the signed families and positive fixints to `int64`, the unsigned
    families to `uint64`: an integer above MaxInt64 is necessarily a `uint64`. -/
def headType (fmt : Format) (v0 : CVal) : Res Int :=
  match fmt, v0 with
  | .msgpack, .int i => if i < two63 then .ok i else .error .unsupportedFormat
  | _, .int i => if 0 ≤ i then .ok (wrapI64 i) else .error .unsupportedFormat
  | _, _ => .error .unsupportedFormat

/-- `Deserialize` after the codec has produced the `[]any`. -/
def fromList (fmt : Format) (v : List CVal) : Res Msg :=
  match v with
  | [] => .error .invalidMessage
  | v0 :: _ =>
    match headType fmt v0 with
    | .ok t => listToMsg t v
    | .error e => .error e
    | .panic s => .panic s

end Nexus.Codec
