/-
  Round-trip proofs for the JSON fragment: numbers, strings, then values.
-/
import Nexus.Codec.Json

namespace Nexus.Codec.Json

open Nexus.Codec

/-! ### numbers -/

/-- Value of a least-significant-first digit string. -/
def valLE : Bytes → Nat
  | [] => 0
  | d :: t => (d.toNat - 48) + 10 * valLE t

theorem digit_toNat {k : Nat} (h : k < 10) : (48 + k) % 256 = 48 + k := by omega

theorem valLE_digitsRev : ∀ (f n : Nat), n < f → valLE (digitsRev f n) = n
  | 0, _, h => by omega
  | f + 1, n, h => by
      unfold digitsRev
      split
      · rename_i h10
        simp [valLE, digit_toNat h10]
      · rename_i h10
        have ih := valLE_digitsRev f (n / 10) (by omega)
        simp [valLE, digit_toNat (Nat.mod_lt n (by decide : 0 < 10)), ih]
        omega

theorem digitsRev_all : ∀ (f n : Nat), ∀ d ∈ digitsRev f n, isDigit d = true
  | 0, _, d, h => by simp [digitsRev] at h
  | f + 1, n, d, h => by
      unfold digitsRev at h
      split at h
      · rename_i h10
        simp at h; subst h
        simp [isDigit, digit_toNat h10]; omega
      · simp at h
        rcases h with h | h
        · subst h
          have := Nat.mod_lt n (by decide : 0 < 10)
          simp [isDigit, digit_toNat this]; omega
        · exact digitsRev_all f (n / 10) d h

theorem digitsRev_ne_nil (f n : Nat) : digitsRev (f + 1) n ≠ [] := by
  unfold digitsRev; split <;> simp

theorem decNat_append_single (a : Bytes) (d : UInt8) : decNat (a ++ [d]) = decNat a * 10 + (d.toNat - 48) := by
  simp [decNat, List.foldl_append]

theorem decNat_reverse : ∀ (l : Bytes), decNat l.reverse = valLE l
  | [] => rfl
  | d :: t => by
      rw [List.reverse_cons, decNat_append_single, decNat_reverse t]
      simp [valLE]; omega

theorem decNat_natDigits (n : Nat) : decNat (natDigits n) = n := by
  unfold natDigits
  rw [decNat_reverse, valLE_digitsRev _ _ (by omega)]

theorem natDigits_all (n : Nat) : ∀ d ∈ natDigits n, isDigit d = true := by
  intro d hd
  unfold natDigits at hd
  exact digitsRev_all _ _ d (List.mem_reverse.mp hd)

theorem natDigits_ne_nil (n : Nat) : natDigits n ≠ [] := by
  unfold natDigits
  intro h
  exact digitsRev_ne_nil n n (List.reverse_eq_nil_iff.mp h)

theorem plainDigits_natDigits (n : Nat) : plainDigits (natDigits n) = true := by
  unfold plainDigits
  have h1 : (natDigits n).isEmpty = false := by
    cases h : natDigits n with
    | nil => exact absurd h (natDigits_ne_nil n)
    | cons _ _ => rfl
  have h2 : (natDigits n).all isDigit = true := List.all_eq_true.mpr (natDigits_all n)
  simp [h1, h2, decNat_natDigits]

theorem isNumChar_of_digit {d : UInt8} (h : isDigit d = true) : isNumChar d = true := by
  simp [isNumChar, h]

/-- `rest` does not continue a number token. -/
def NumSafe (rest : Bytes) : Prop := ∀ b r, rest = b :: r → isNumChar b = false

theorem takeWhile_tok (tok rest : Bytes) (ht : ∀ d ∈ tok, isNumChar d = true) (hr : NumSafe rest) :
    (tok ++ rest).takeWhile isNumChar = tok ∧ (tok ++ rest).dropWhile isNumChar = rest := by
  induction tok with
  | nil =>
    cases rest with
    | nil => simp
    | cons b r => simp [hr b r rfl]
  | cons d t ih =>
    have hd := ht d (List.mem_cons_self)
    have := ih (fun x hx => ht x (List.mem_cons_of_mem _ hx))
    simp [hd, this]

theorem dec_numTok_nat (n : Nat) (h : n < 18446744073709551616) :
    decNumTok (natDigits n) = .ok (.int n) := by
  have hp := plainDigits_natDigits n
  cases hnd : natDigits n with
  | nil => exact absurd hnd (natDigits_ne_nil n)
  | cons b ds =>
    have hb : isDigit b = true := natDigits_all n b (by rw [hnd]; exact List.mem_cons_self)
    have hb45 : ¬ (b.toNat = 45) := by simp [isDigit] at hb; omega
    rw [hnd] at hp
    have hv : decNat (b :: ds) = n := by rw [← hnd]; exact decNat_natDigits n
    simp [decNumTok, hb45, hp, hv, h]

theorem dec_numTok_neg (n : Nat) (h0 : 0 < n) (h : n ≤ 9223372036854775808) :
    decNumTok (UInt8.ofNat 45 :: natDigits n) = .ok (.int (-(n : Int))) := by
  have hne : ¬ (n = 0) := by omega
  simp [decNumTok, plainDigits_natDigits, decNat_natDigits, h, hne]


/-! ### strings -/

theorem hexVal_hexDigit : ∀ x < 16, hexVal (hexDigit x) = some x := by decide

/-- The escape the codec writes for one byte decodes to that byte. -/
theorem step_esc (b : UInt8) (tail : Bytes) : step (escByte b ++ tail) = .chunk [b] tail := by
  have hb := b.toNat_lt
  have hof : UInt8.ofNat b.toNat = b := UInt8.ofNat_toNat
  unfold escByte
  simp only []
  split
  · rename_i h; have : b = 0x22 := by rw [← hof, h]; rfl
    subst this; rfl
  · split
    · rename_i h; have : b = 0x5c := by rw [← hof, h]; rfl
      subst this; rfl
    · split
      · rename_i h; have : b = 0x08 := by rw [← hof, h]; rfl
        subst this; rfl
      · split
        · rename_i h; have : b = 0x0c := by rw [← hof, h]; rfl
          subst this; rfl
        · split
          · rename_i h; have : b = 0x0a := by rw [← hof, h]; rfl
            subst this; rfl
          · split
            · rename_i h; have : b = 0x0d := by rw [← hof, h]; rfl
              subst this; rfl
            · split
              · rename_i h; have : b = 0x09 := by rw [← hof, h]; rfl
                subst this; rfl
              · split
                · rename_i h
                  have hlt : b.toNat < 64 := by omega
                  have h1 := hexVal_hexDigit (b.toNat / 16) (by omega)
                  have h2 := hexVal_hexDigit (b.toNat % 16) (by omega)
                  have h0 : hexVal 0x30 = some 0 := by decide
                  have hcp : ((0 * 16 + 0) * 16 + b.toNat / 16) * 16 + b.toNat % 16 = b.toNat := by omega
                  have hns : ¬ (0xD800 ≤ b.toNat ∧ b.toNat < 0xE000) := by omega
                  have hu : utf8Enc b.toNat = [b] := by simp [utf8Enc, show b.toNat < 128 by omega]
                  have hcp' : b.toNat / 16 * 16 + b.toNat % 16 = b.toNat := by omega
                  simp [step, h0, h1, h2, hcp', hu]
                  omega
                · rename_i n1 n2 n3 n4 n5 n6 n7 n8
                  simp [step, n1, n2]

theorem step_2028 (tail : Bytes) :
    step ([0x5c, 0x75, 0x32, 0x30, 0x32, 0x38] ++ tail) = .chunk [0xe2, 0x80, 0xa8] tail := by
  simp [step, hexVal, utf8Enc]

theorem step_2029 (tail : Bytes) :
    step ([0x5c, 0x75, 0x32, 0x30, 0x32, 0x39] ++ tail) = .chunk [0xe2, 0x80, 0xa9] tail := by
  simp [step, hexVal, utf8Enc]

theorem step_close (rest : Bytes) : step (0x22 :: rest) = .close rest := by
  simp [step]

theorem escByte_pos (b : UInt8) : 0 < (escByte b).length := by
  unfold escByte
  simp only []
  repeat' split
  all_goals simp

/-- String bodies round-trip. -/
theorem strBody_enc : ∀ (n : Nat) (s : Bytes), s.length = n → ∀ (fuel : Nat) (rest : Bytes),
    (encStrBody s).length < fuel → strBody fuel (encStrBody s ++ 0x22 :: rest) = .ok (s, rest) := by
  intro n
  induction n using Nat.strongRecOn with
  | _ n ih =>
    intro s hs fuel rest hf
    cases fuel with
    | zero => omega
    | succ fuel =>
      match s, hs with
      | [], _ => simp [encStrBody, strBody, step_close]
      | [b], hs =>
        have hp := escByte_pos b
        have e0 : encStrBody [] = [] := rfl
        have e1 : encStrBody [b] = escByte b := rfl
        rw [e1] at hf ⊢
        have ih0 := ih 0 (by simp at hs; omega) [] rfl fuel rest (by rw [e0]; simp; omega)
        rw [e0] at ih0
        simp only [List.nil_append] at ih0
        simp only [strBody, step_esc, ih0]
        rfl
      | [b, c], hs =>
        have hp := escByte_pos b
        have e1 : encStrBody [c] = escByte c := rfl
        have e2 : encStrBody [b, c] = escByte b ++ escByte c := rfl
        rw [e2] at hf ⊢
        have ih1 := ih 1 (by simp at hs; omega) [c] rfl fuel rest (by rw [e1]; simp at hf; omega)
        rw [e1] at ih1
        rw [List.append_assoc]
        simp only [strBody, step_esc, ih1]
        rfl
      | b :: c :: d :: r', hs =>
        simp only [encStrBody] at hf ⊢
        split
        · rename_i h
          have hof : ∀ (x : UInt8) (k : Nat), x.toNat = k → x = UInt8.ofNat k := by
            intro x k hx; rw [← hx]; exact UInt8.ofNat_toNat.symm
          have hb := hof b _ h.1; have hc := hof c _ h.2.1; have hd := hof d _ h.2.2
          subst hb; subst hc; subst hd
          simp only [h] at hf
          have ih' := ih r'.length (by simp at hs; omega) r' rfl fuel rest (by simp at hf; omega)
          rw [List.append_assoc]
          simp only [strBody, step_2028, ih']
          rfl
        · split
          · rename_i h0 h
            have hof : ∀ (x : UInt8) (k : Nat), x.toNat = k → x = UInt8.ofNat k := by
              intro x k hx; rw [← hx]; exact UInt8.ofNat_toNat.symm
            have hb := hof b _ h.1; have hc := hof c _ h.2.1; have hd := hof d _ h.2.2
            subst hb; subst hc; subst hd
            simp only [h] at hf
            have ih' := ih r'.length (by simp at hs; omega) r' rfl fuel rest (by simp at hf; omega)
            rw [List.append_assoc]
            simp only [strBody, step_2029, ih']
            rfl
          · rename_i h0 h1
            simp only [h0, h1, if_false] at hf
            have hp := escByte_pos b
            have ih' := ih (r'.length + 2) (by simp at hs; omega) (c :: d :: r') (by simp) fuel rest
              (by simp at hf ⊢; omega)
            rw [List.append_assoc]
            simp only [strBody, step_esc, ih']
            rfl

theorem encStr_dec (s rest : Bytes) (fuel : Nat) (hf : (encStrBody s).length < fuel) :
    strBody fuel (encStrBody s ++ ([0x22] ++ rest)) = .ok (s, rest) := by
  simpa using strBody_enc s.length s rfl fuel rest hf


/-! ### values -/

theorem skipWs_cons {b : UInt8} (h : isWs b = false) (r : Bytes) : skipWs (b :: r) = b :: r := by
  simp [skipWs, h]

/-- The first byte of an encoded integer: `-` or a digit. -/
theorem encInt_head (i : Int) : ∃ b t, encInt i = b :: t ∧ (b.toNat = 45 ∨ isDigit b = true) := by
  unfold encInt
  split
  · exact ⟨_, _, rfl, Or.inl (by decide)⟩
  · cases h : natDigits i.toNat with
    | nil => exact absurd h (natDigits_ne_nil _)
    | cons b t => exact ⟨b, t, rfl, Or.inr (natDigits_all _ b (by rw [h]; exact List.mem_cons_self))⟩

/-- An encoded value starts with a byte that is neither whitespace nor a closing bracket. -/
theorem enc_head (v : CVal) : ∃ b t, enc v = b :: t ∧ b.toNat > 0x20 ∧ b.toNat ≠ 0x5d ∧ b.toNat ≠ 0x7d := by
  cases v with
  | null => exact ⟨_, _, rfl, by decide⟩
  | bool b => cases b <;> exact ⟨_, _, rfl, by decide⟩
  | int i =>
    obtain ⟨b, t, h, hb⟩ := encInt_head i
    refine ⟨b, t, by simp [enc, h], ?_⟩
    rcases hb with hb | hb
    · omega
    · simp [isDigit] at hb; omega
  | float _ => exact ⟨_, _, rfl, by decide⟩
  | str s => exact ⟨_, _, rfl, by decide⟩
  | bin _ => exact ⟨_, _, rfl, by decide⟩
  | list l => cases l <;> exact ⟨_, _, rfl, by decide⟩
  | dict d =>
    cases d with
    | nil => exact ⟨_, _, rfl, by decide⟩
    | cons kv r => obtain ⟨k, v⟩ := kv; exact ⟨_, _, rfl, by decide⟩

theorem isWs_false {b : UInt8} (h : b.toNat > 0x20) : isWs b = false := by
  simp [isWs]; omega

theorem numSafe_cons {b : UInt8} (h : isNumChar b = false) (r : Bytes) : NumSafe (b :: r) := by
  intro b' r' he; cases he; exact h

theorem numSafe_encTail (vs : List CVal) (rest : Bytes) : NumSafe (encTail vs ++ rest) := by
  cases vs <;> exact numSafe_cons (by decide) _

theorem numSafe_encMembers (d : List (Bytes × CVal)) (rest : Bytes) : NumSafe (encMembers d ++ rest) := by
  cases d with
  | nil => exact numSafe_cons (by decide) _
  | cons kv r => obtain ⟨k, v⟩ := kv; exact numSafe_cons (by decide) _

theorem encTail_length (vs : List CVal) : vs.length < (encTail vs).length := by
  induction vs with
  | nil => simp [encTail]
  | cons v vs ih => simp [encTail]; omega

theorem encMembers_length (d : List (Bytes × CVal)) : d.length < (encMembers d).length := by
  induction d with
  | nil => simp [encMembers]
  | cons kv r ih => obtain ⟨k, v⟩ := kv; simp [encMembers]; omega

theorem decV_int (fuel : Nat) (i : Int) (rest : Bytes)
    (h0 : -(9223372036854775808 : Int) ≤ i) (h1 : i < (18446744073709551616 : Int)) (hr : NumSafe rest) :
    decV (fuel + 1) (encInt i ++ rest) = .ok (.int i, rest) := by
  obtain ⟨b, t, hbt, hb⟩ := encInt_head i
  have hb32 : b.toNat > 0x20 := by
    rcases hb with hb | hb
    · omega
    · simp [isDigit] at hb; omega
  have hne : ∀ k ∈ [0x5b, 0x7b, 0x22, 0x6e, 0x74, 0x66], b.toNat ≠ k := by
    intro k hk
    rcases hb with hb | hb
    · simp at hk; omega
    · simp [isDigit] at hb; simp at hk; omega
  have hall : ∀ d ∈ encInt i, isNumChar d = true := by
    unfold encInt
    split
    · intro d hd
      simp at hd
      rcases hd with hd | hd
      · subst hd; decide
      · exact isNumChar_of_digit (natDigits_all _ d hd)
    · intro d hd; exact isNumChar_of_digit (natDigits_all _ d hd)
  obtain ⟨htk, hdr⟩ := takeWhile_tok (encInt i) rest hall hr
  have htok : decNumTok (encInt i) = .ok (.int i) := by
    unfold encInt
    split
    · rename_i hneg
      have := dec_numTok_neg (-i).toNat (by omega) (by omega)
      rw [this]
      congr 2
      omega
    · rename_i hpos
      have := dec_numTok_nat i.toNat (by omega)
      rw [this]
      congr 2
      omega
  rw [hbt] at htk hdr htok ⊢
  simp only [List.cons_append] at htk hdr ⊢
  simp only [decV, skipWs_cons (isWs_false hb32)]
  rw [if_neg (hne _ (by simp)), if_neg (hne _ (by simp)), if_neg (hne _ (by simp)),
    if_neg (hne _ (by simp)), if_neg (hne _ (by simp)), if_neg (hne _ (by simp))]
  simp only [htk, hdr, htok]

theorem strBody_key (s rest : Bytes) : ∀ fuel, (encStrBody s).length < fuel →
    strBody fuel (encStrBody s ++ 0x22 :: rest) = .ok (s, rest) :=
  fun fuel hf => strBody_enc s.length s rfl fuel rest hf

theorem decV_str (fuel : Nat) (s rest : Bytes) :
    decV (fuel + 1) (0x22 :: (encStrBody s ++ 0x22 :: rest)) = .ok (.str s, rest) := by
  simp only [decV, skipWs_cons (show isWs 0x22 = false by decide)]
  rw [if_neg (by decide), if_neg (by decide), if_pos (by decide)]
  rw [strBody_key s rest _ (by simp; omega)]

theorem decMember_enc (f : Bytes → DRes (CVal × Bytes)) (seen : List Bytes) (k : Bytes) (v : CVal) (more : Bytes)
    (hs : seen.contains k = false) (hf : f (enc v ++ more) = .ok (v, more)) :
    decMember f seen (0x22 :: (encStrBody k ++ 0x22 :: 0x3a :: (enc v ++ more))) = .ok ((k, v), more) := by
  have hk : decMemberKey (0x22 :: (encStrBody k ++ 0x22 :: 0x3a :: (enc v ++ more))) = .ok (k, enc v ++ more) := by
    simp only [decMemberKey, skipWs_cons (show isWs 0x22 = false by decide)]
    rw [if_pos (by decide)]
    rw [strBody_key k _ _ (by simp; omega)]
    simp only [skipWs_cons (show isWs 0x3a = false by decide)]
    rw [if_pos (by decide)]
  simp only [decMember, hk, hs, hf]
  rfl

mutual
  theorem decV_enc : ∀ (v : CVal) (fuel : Nat) (rest : Bytes), okB v = true → depth v < fuel → NumSafe rest →
      decV fuel (enc v ++ rest) = .ok (v, rest)
    | .null, fuel, rest, _, hd, _ => by
        cases fuel with
        | zero => simp [depth] at hd
        | succ fuel => simp [enc, decV, skipWs, isWs, lit]
    | .bool b, fuel, rest, _, hd, _ => by
        cases fuel with
        | zero => simp [depth] at hd
        | succ fuel => cases b <;> simp [enc, decV, skipWs, isWs, lit]
    | .int i, fuel, rest, hv, hd, hr => by
        cases fuel with
        | zero => simp [depth] at hd
        | succ fuel =>
          simp [okB] at hv
          simpa [enc] using decV_int fuel i rest hv.1 hv.2 hr
    | .float _, _, _, hv, _, _ => by simp [okB] at hv
    | .bin _, _, _, hv, _, _ => by simp [okB] at hv
    | .str s, fuel, rest, _, hd, _ => by
        cases fuel with
        | zero => simp [depth] at hd
        | succ fuel =>
          simp only [enc, encStr, List.cons_append, List.append_assoc, List.nil_append]
          exact decV_str fuel s rest
    | .list [], fuel, rest, _, hd, _ => by
        cases fuel with
        | zero => simp [depth] at hd
        | succ fuel => simp [enc, decV, skipWs, isWs]
    | .list (v :: vs), fuel, rest, hv, hd, _ => by
        cases fuel with
        | zero => simp [depth] at hd
        | succ fuel =>
          simp [okB, okListB] at hv
          simp [depth, depthList] at hd
          obtain ⟨b, t, hbt, hb32, hb5d, _⟩ := enc_head v
          have h1 := decV_enc v fuel (encTail vs ++ rest) hv.1 (by omega) (numSafe_encTail vs rest)
          have h2 := fun lf hl => decTail_enc vs fuel lf rest hv.2 (by omega) hl
          have hlen := encTail_length vs
          rw [hbt] at h1
          simp only [enc, List.cons_append, List.append_assoc, hbt]
          simp only [decV, skipWs_cons (show isWs 0x5b = false by decide), skipWs_cons (isWs_false hb32)]
          simp only [List.cons_append] at h1
          rw [if_pos (by decide), if_neg hb5d, h1]
          simp only []
          rw [h2 _ (by simp; omega)]
    | .dict [], fuel, rest, _, hd, _ => by
        cases fuel with
        | zero => simp [depth] at hd
        | succ fuel => simp [enc, decV, skipWs, isWs]
    | .dict ((k, v) :: r), fuel, rest, hv, hd, _ => by
        cases fuel with
        | zero => simp [depth] at hd
        | succ fuel =>
          simp [okB, okDictB, noDupFrom] at hv
          simp [depth, depthDict] at hd
          have h1 := decV_enc v fuel (encMembers r ++ rest) hv.2.1.2 (by omega) (numSafe_encMembers r rest)
          have hm := decMember_enc (decV fuel) [] k v (encMembers r ++ rest) (by simp) h1
          have h2 := fun lf hl => decMembers_enc r [k] fuel lf rest hv.2.2 hv.1 (by omega) hl
          have hlen := encMembers_length r
          simp only [enc, encStr, List.cons_append, List.append_assoc, List.nil_append]
          simp only [decV, skipWs_cons (show isWs 0x7b = false by decide), skipWs_cons (show isWs 0x22 = false by decide)]
          rw [if_neg (by decide), if_pos (by decide), if_neg (by decide), hm]
          simp only []
          rw [h2 _ (by simp; omega)]
  theorem decTail_enc : ∀ (vs : List CVal) (fuel lf : Nat) (rest : Bytes), okListB vs = true →
      depthList vs < fuel → vs.length < lf → decTail (decV fuel) lf (encTail vs ++ rest) = .ok (vs, rest)
    | [], _, lf, rest, _, _, hl => by
        cases lf with
        | zero => simp at hl
        | succ lf => simp [encTail, decTail, skipWs, isWs]
    | v :: vs, fuel, lf, rest, hv, hd, hl => by
        cases lf with
        | zero => simp at hl
        | succ lf =>
          simp [okListB] at hv
          simp [depthList] at hd
          have h1 := decV_enc v fuel (encTail vs ++ rest) hv.1 (by omega) (numSafe_encTail vs rest)
          have h2 := decTail_enc vs fuel lf rest hv.2 (by omega) (by simp at hl; omega)
          simp only [encTail, List.cons_append, List.append_assoc]
          simp only [decTail, skipWs_cons (show isWs 0x2c = false by decide)]
          simp [h1, h2]
  theorem decMembers_enc : ∀ (d : List (Bytes × CVal)) (seen : List Bytes) (fuel lf : Nat) (rest : Bytes),
      okDictB d = true → noDupFrom seen d = true →
      depthDict d < fuel → d.length < lf → decMembers (decV fuel) lf seen (encMembers d ++ rest) = .ok (d, rest)
    | [], _, _, lf, rest, _, _, _, hl => by
        cases lf with
        | zero => simp at hl
        | succ lf => simp [encMembers, decMembers, skipWs, isWs]
    | (k, v) :: r, seen, fuel, lf, rest, hv, hn, hd, hl => by
        cases lf with
        | zero => simp at hl
        | succ lf =>
          simp [okDictB] at hv
          simp [noDupFrom] at hn
          simp [depthDict] at hd
          have h1 := decV_enc v fuel (encMembers r ++ rest) hv.1.2 (by omega) (numSafe_encMembers r rest)
          have hm := decMember_enc (decV fuel) seen k v (encMembers r ++ rest) (by simpa using hn.1) h1
          have h2 := decMembers_enc r (k :: seen) fuel lf rest hv.2 hn.2 (by omega) (by simp at hl; omega)
          simp only [encMembers, encStr, List.cons_append, List.append_assoc, List.nil_append]
          simp only [decMembers, skipWs_cons (show isWs 0x2c = false by decide)]
          rw [if_neg (by decide), if_pos (by decide), hm]
          simp only []
          rw [h2]
end


mutual
  theorem depth_le : ∀ (v : CVal), depth v ≤ (enc v).length
    | .null => by simp [depth]
    | .bool _ => by simp [depth]
    | .int _ => by simp [depth]
    | .float _ => by simp [depth]
    | .str _ => by simp [depth]
    | .bin _ => by simp [depth]
    | .list [] => by simp [depth, depthList, enc]
    | .list (v :: vs) => by
        have := depth_le v; have := depthTail_le vs
        simp [depth, depthList, enc]; omega
    | .dict [] => by simp [depth, depthDict, enc]
    | .dict ((k, v) :: r) => by
        have := depth_le v; have := depthMembers_le r
        simp [depth, depthDict, enc]; omega
  theorem depthTail_le : ∀ (l : List CVal), depthList l ≤ (encTail l).length
    | [] => by simp [depthList]
    | v :: vs => by
        have := depth_le v; have := depthTail_le vs
        simp [depthList, encTail]; omega
  theorem depthMembers_le : ∀ (d : List (Bytes × CVal)), depthDict d ≤ (encMembers d).length
    | [] => by simp [depthDict]
    | (k, v) :: r => by
        have := depth_le v; have := depthMembers_le r
        simp [depthDict, encMembers]; omega
end

/-- **JSON round trip** (fragment null/bool/integer/string/list/dict): decoding the encoding of a
    value, followed by bytes that do not continue a number token, returns the value and those
    bytes. -/
theorem dec_enc (v : CVal) (rest : Bytes) (hv : okB v = true) (hr : NumSafe rest) :
    dec (enc v ++ rest) = .ok (v, rest) := by
  unfold dec
  apply decV_enc v _ rest hv _ hr
  have := depth_le v
  simp; omega

theorem numSafe_nil : NumSafe [] := by intro b r h; cases h

end Nexus.Codec.Json
