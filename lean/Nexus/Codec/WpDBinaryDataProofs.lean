/-
  Theorems about the `BinaryData` model (Nexus/Codec/WpDBinaryData.lean): wire form, round trip,
  no panic, regression for C14-F3.
-/
import Nexus.Codec.WpDBinaryData
import Nexus.Codec.WpDJsonOProofs

namespace Nexus.Codec.Json

open Nexus.Codec

/-- The wire form: `"\u0000` ++ base64 ++ `"`. -/
theorem marshalBD_bytes (b : Bytes) :
    marshalBD b = [0x22, 0x5c, 0x75, 0x30, 0x30, 0x30, 0x30] ++ B64.enc b ++ [0x22] := by
  unfold marshalBD encStr
  rw [WpD.encStrBody_cons_ne _ (by decide), encStrBody_plain _ (B64.enc_plain b)]
  rfl

/-- **BinaryData round trip**: `UnmarshalJSON(MarshalJSON(b)) = b`, whatever follows. -/
theorem unmarshalBD_marshalBD (b rest : Bytes) : unmarshalBD (marshalBD b ++ rest) = .ok b := by
  have h : decStringTyped (marshalBD b ++ rest) = .ok (0 :: B64.enc b) := by
    unfold decStringTyped marshalBD encStr
    simp only [List.cons_append, List.append_assoc, List.nil_append,
      skipWs_cons (show isWs 0x22 = false by decide)]
    rw [if_pos (by decide), strBody_key (0 :: B64.enc b) rest _ (by simp; omega)]
  unfold unmarshalBD
  rw [h]
  simp [B64.dec_enc]

/-- **`BinaryData.UnmarshalJSON` never panics** (the code as it is now). -/
theorem unmarshalBD_no_panic (v : Bytes) : (unmarshalBD v).isPanic = false := by
  unfold unmarshalBD
  repeat' split
  all_goals rfl

/-- Regression (C14-F3): the pre-fix code panics exactly on the inputs that decode to the empty
    string — `""`, `null`, `[1]`, `{}`, ... -/
theorem unmarshalBDPre_panics_iff (v : Bytes) :
    (unmarshalBDPre v).isPanic = true ↔ decStringTyped v = .ok [] := by
  unfold unmarshalBDPre
  constructor
  · intro h
    repeat' split at h
    all_goals first | (simp [BDRes.isPanic] at h; done) | skip
    rename_i hs
    exact hs
  · intro h
    rw [h]
    rfl

theorem unmarshalBDPre_witness :
    (unmarshalBDPre [0x22, 0x22]).isPanic = true ∧ (unmarshalBDPre [0x6e, 0x75, 0x6c, 0x6c]).isPanic = true
    ∧ (unmarshalBDPre [0x5b, 0x31, 0x5d]).isPanic = true
    ∧ unmarshalBD [0x22, 0x22] = .error ∧ unmarshalBD [0x6e, 0x75, 0x6c, 0x6c] = .error
    ∧ unmarshalBD [0x5b, 0x31, 0x5d] = .error := by decide

/-- Where the pre-fix code does not panic, the fix changed nothing. -/
theorem unmarshalBD_eq_pre (v : Bytes) (h : (unmarshalBDPre v).isPanic = false) :
    unmarshalBD v = unmarshalBDPre v := by
  unfold unmarshalBD unmarshalBDPre at *
  repeat' split at h
  all_goals first | rfl | (simp [BDRes.isPanic] at h; done) | skip
  all_goals simp_all

end Nexus.Codec.Json
