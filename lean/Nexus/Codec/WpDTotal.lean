/-
  What `unsupported` means (audit item C14-a4, binary formats).

  `MsgPack.dec` and `CBOR.dec` are total by typing (`DRes`): every byte string gets a value, or
  `malformed`, or `unsupported`.  The byte-level theorems of C14 speak about the first two; this
  file says where the third one comes from.  Whenever a decoder answers `unsupported` there is a
  position in the input (`b = pre ++ rest`) at which one of a short list of LOCAL causes sits:

    MessagePack (`MsgPack.UnsupportedAt`)      CBOR (`CBOR.UnsupportedAt`)
    -----------------------------------------  -------------------------------------------------
    ext 8/16/32 (c7..c9), fixext (d4..d8)      a tag (major type 6)
    a map key that is not a str                an indefinite-length item (info 31, major ≠ 7)
    a map key the same map already had         a negative integer below -2^63
                                               a length of 2^63 or more (major 2..5)
                                               a map key that is not a text string
                                               a map key the same map already had

  (`MsgPack.dec_unsupported_cause`, `CBOR.dec_unsupported_cause`).  The statements are necessary
  conditions: the decoder stopped AT `rest`, having consumed `pre`.  The converses at the top of
  the input (`…_top` lemmas) show that each cause does produce `unsupported` (or `malformed` when
  the item is cut short), with the concrete byte strings of the audit as `example`s.

  `Nexus.C14.C14_deserialize_total_bin` is the property-level corollary for the two binary
  formats: `Deserialize` of arbitrary bytes answers without a panic, or the codec reports an
  error, or the bytes carry one of the causes above.
-/
import Nexus.Codec.Wire
import Nexus.Codec.MsgLemmas
import Nexus.Codec.WpDRange
import Nexus.Codec.MsgPackProofs
import Nexus.Codec.CBORProofs

namespace Nexus.Codec

namespace WpD

/-! ### What a decoder consumed -/

/-- `f` returns, as the rest, a suffix of its input. -/
def Consumes {α} (f : Bytes → DRes (α × Bytes)) : Prop :=
  ∀ bs a r, f bs = .ok (a, r) → ∃ c, bs = c ++ r

/-- `f` returns, as the rest, a proper suffix of its input. -/
def ConsumesPos {α} (f : Bytes → DRes (α × Bytes)) : Prop :=
  ∀ bs a r, f bs = .ok (a, r) → ∃ c, c ≠ [] ∧ bs = c ++ r

theorem ConsumesPos.consumes {α} {f : Bytes → DRes (α × Bytes)} (h : ConsumesPos f) : Consumes f :=
  fun bs a r hf => let ⟨c, _, hc⟩ := h bs a r hf; ⟨c, hc⟩

theorem takeN_split {k : Nat} {bs a r : Bytes} (h : takeN k bs = .ok (a, r)) : bs = a ++ r := by
  unfold takeN at h
  split at h
  · cases h; exact (List.take_append_drop k bs).symm
  · cases h

theorem takeN_not_unsup {k : Nat} {bs : Bytes} : takeN k bs ≠ .error .unsupported := by
  unfold takeN; split <;> simp

theorem readBE_split {k : Nat} {bs : Bytes} {n : Nat} {r : Bytes} (h : readBE k bs = .ok (n, r)) :
    ∃ a, bs = a ++ r := by
  unfold readBE at h
  split at h
  · rename_i a r' ht; cases h; exact ⟨a, takeN_split ht⟩
  · cases h

theorem readBE_not_unsup {k : Nat} {bs : Bytes} : readBE k bs ≠ .error .unsupported := by
  unfold readBE
  split
  · simp
  · rename_i e he; intro h; cases h; exact takeN_not_unsup he

theorem decItems_split {f : Bytes → DRes (CVal × Bytes)} (hf : Consumes f) :
    ∀ (n : Nat) (bs : Bytes) (vs : List CVal) (r : Bytes), decItems f n bs = .ok (vs, r) → ∃ c, bs = c ++ r
  | 0, bs, vs, r, h => by simp [decItems] at h; exact ⟨[], by simp [h.2]⟩
  | n + 1, bs, vs, r, h => by
      unfold decItems at h
      split at h
      · cases h
      · rename_i v r1 h1
        split at h
        · cases h
        · rename_i vs' r2 h2
          cases h
          obtain ⟨c1, e1⟩ := hf _ _ _ h1
          obtain ⟨c2, e2⟩ := decItems_split hf n _ _ _ h2
          exact ⟨c1 ++ c2, by rw [e1, e2, List.append_assoc]⟩

theorem decPairs_split {k : Bytes → DRes (Bytes × Bytes)} {f : Bytes → DRes (CVal × Bytes)}
    (hk : Consumes k) (hf : Consumes f) :
    ∀ (n : Nat) (seen : List Bytes) (bs : Bytes) (ps : List (Bytes × CVal)) (r : Bytes),
      decPairs k f n seen bs = .ok (ps, r) → ∃ c, bs = c ++ r
  | 0, seen, bs, ps, r, h => by simp [decPairs] at h; exact ⟨[], by simp [h.2]⟩
  | n + 1, seen, bs, ps, r, h => by
      unfold decPairs at h
      split at h
      · cases h
      · rename_i key r0 h0
        split at h
        · cases h
        · split at h
          · cases h
          · rename_i v r1 h1
            split at h
            · cases h
            · rename_i ps' r2 h2
              cases h
              obtain ⟨c0, e0⟩ := hk _ _ _ h0
              obtain ⟨c1, e1⟩ := hf _ _ _ h1
              obtain ⟨c2, e2⟩ := decPairs_split hk hf n _ _ _ _ h2
              exact ⟨c0 ++ (c1 ++ c2), by rw [e0, e1, e2]; simp⟩

/-! ### Locating the cause of `unsupported` in item loops

  `P pre rest` is the format's list of causes ("having consumed `pre`, the decoder met one of the
  causes at the head of `rest`").  It must survive consuming more in front (`Mono`). -/

/-- `f` answers `unsupported` only where a cause sits. -/
def Locates {α} (P : Bytes → Bytes → Prop) (f : Bytes → DRes (α × Bytes)) : Prop :=
  ∀ bs, f bs = .error .unsupported → ∃ pre rest, bs = pre ++ rest ∧ P pre rest

def Mono (P : Bytes → Bytes → Prop) : Prop := ∀ x pre rest, P pre rest → P (x ++ pre) rest

/-- The repeated-key cause, for the key reader `k`: a key starts at `rest`, and the same key was
    read at an earlier position (`pre = p ++ q`, `q` non-empty: the earlier key starts at `q`). -/
def DupKeyAt (k : Bytes → DRes (Bytes × Bytes)) (pre rest : Bytes) : Prop :=
  ∃ key r, k rest = .ok (key, r) ∧ ∃ p q r', pre = p ++ q ∧ q ≠ [] ∧ k (q ++ rest) = .ok (key, r')

theorem DupKeyAt.mono {k : Bytes → DRes (Bytes × Bytes)} : Mono (DupKeyAt k) := by
  intro x pre rest ⟨key, r, h, p, q, r', hp, hq, h'⟩
  exact ⟨key, r, h, x ++ p, q, r', by rw [hp, List.append_assoc], hq, h'⟩

theorem lift_cause {P : Bytes → Bytes → Prop} (hP : Mono P) {bs c r : Bytes} (e : bs = c ++ r)
    (h : ∃ pre rest, r = pre ++ rest ∧ P pre rest) : ∃ pre rest, bs = pre ++ rest ∧ P pre rest := by
  obtain ⟨pre, rest, e', hp⟩ := h
  exact ⟨c ++ pre, rest, by rw [e, e', List.append_assoc], hP c pre rest hp⟩

theorem decItems_unsup {P : Bytes → Bytes → Prop} {f : Bytes → DRes (CVal × Bytes)}
    (hP : Mono P) (hc : Consumes f) (hf : Locates P f) :
    ∀ (n : Nat), Locates P (decItems f n)
  | 0, bs, h => by simp [decItems] at h
  | n + 1, bs, h => by
      unfold decItems at h
      split at h
      · rename_i e he; cases h; exact hf bs he
      · rename_i v r1 h1
        split at h
        · rename_i e he
          cases h
          obtain ⟨c, e1⟩ := hc _ _ _ h1
          exact lift_cause hP e1 (decItems_unsup hP hc hf n r1 he)
        · cases h

/-- The pair loop, with its bookkeeping made explicit: `done` is what this map's loop consumed so
    far, and every key in `seen` was read at a position inside `done`. -/
theorem decPairs_unsup_aux {P : Bytes → Bytes → Prop} {k : Bytes → DRes (Bytes × Bytes)}
    {f : Bytes → DRes (CVal × Bytes)}
    (hP : Mono P) (hck : ConsumesPos k) (hcf : Consumes f) (hk : Locates P k) (hf : Locates P f)
    (hdup : ∀ pre rest, DupKeyAt k pre rest → P pre rest) :
    ∀ (n : Nat) (seen : List Bytes) (done bs : Bytes),
      (∀ key ∈ seen, ∃ p q r', done = p ++ q ∧ q ≠ [] ∧ k (q ++ bs) = .ok (key, r')) →
      decPairs k f n seen bs = .error .unsupported →
      ∃ pre rest, done ++ bs = pre ++ rest ∧ P pre rest
  | 0, seen, done, bs, _, h => by simp [decPairs] at h
  | n + 1, seen, done, bs, hs, h => by
      unfold decPairs at h
      split at h
      · rename_i e he; cases h
        exact lift_cause hP rfl (hk bs he)
      · rename_i key r0 h0
        obtain ⟨c0, hc0, e0⟩ := hck _ _ _ h0
        split at h
        · rename_i hseen
          have hmem : key ∈ seen := by simpa using hseen
          obtain ⟨p, q, r', hp, hq, hk'⟩ := hs key hmem
          exact ⟨done, bs, rfl, hdup _ _ ⟨key, r0, h0, p, q, r', hp, hq, hk'⟩⟩
        · split at h
          · rename_i e he; cases h
            have := lift_cause hP e0 (hf r0 he)
            exact lift_cause hP rfl this
          · rename_i v r1 h1
            obtain ⟨c1, e1⟩ := hcf _ _ _ h1
            split at h
            · rename_i e he; cases h
              have hs' : ∀ key' ∈ key :: seen, ∃ p q r', done ++ (c0 ++ c1) = p ++ q ∧ q ≠ [] ∧
                  k (q ++ r1) = .ok (key', r') := by
                intro key' hm
                rcases List.mem_cons.mp hm with rfl | hm
                · refine ⟨done, c0 ++ c1, r0, rfl, ?_, ?_⟩
                  · intro hnil
                    exact hc0 (List.append_eq_nil_iff.mp hnil).1
                  · rw [List.append_assoc, ← e1, ← e0]; exact h0
                · obtain ⟨p, q, r', hp, hq, hk'⟩ := hs key' hm
                  refine ⟨p, q ++ (c0 ++ c1), r', by rw [hp, List.append_assoc], ?_, ?_⟩
                  · intro hnil; exact hq (List.append_eq_nil_iff.mp hnil).1
                  · rw [List.append_assoc, List.append_assoc, ← e1, ← e0]; exact hk'
              have := decPairs_unsup_aux hP hck hcf hk hf hdup n (key :: seen) (done ++ (c0 ++ c1)) r1 hs' he
              rw [e0, e1]
              simpa [List.append_assoc] using this
            · cases h

theorem decPairs_unsup {P : Bytes → Bytes → Prop} {k : Bytes → DRes (Bytes × Bytes)}
    {f : Bytes → DRes (CVal × Bytes)}
    (hP : Mono P) (hck : ConsumesPos k) (hcf : Consumes f) (hk : Locates P k) (hf : Locates P f)
    (hdup : ∀ pre rest, DupKeyAt k pre rest → P pre rest) (n : Nat) :
    Locates P (decPairs k f n []) := by
  intro bs h
  have := decPairs_unsup_aux hP hck hcf hk hf hdup n [] [] bs (by simp) h
  simpa using this

end WpD

/-! ### MessagePack -/

namespace MsgPack

open WpD

/-- The extension family: ext 8/16/32 and fixext 1/2/4/8/16. -/
def extBytes : List Nat := [0xc7, 0xc8, 0xc9, 0xd4, 0xd5, 0xd6, 0xd7, 0xd8]

/-- First bytes `decKey` reads as a string (fixstr, str 8/16/32), plus the reserved c1. -/
def keyByte (t : Nat) : Bool := (0xa0 ≤ t && t < 0xc0) || t == 0xd9 || t == 0xda || t == 0xdb || t == 0xc1

/-- The causes of `unsupported` in `MsgPack.dec`: having consumed `pre`, the decoder is at `rest`
    and finds an extension type where a value starts, or something other than a str where a map
    key starts, or a key that this map already had. -/
inductive UnsupportedAt (pre rest : Bytes) : Prop
  /-- ext 8/16/32 (c7 c8 c9) or fixext 1..16 (d4..d8) -/
  | ext (t : UInt8) (r : Bytes) (h : rest = t :: r) (ht : t.toNat ∈ extBytes)
  /-- a map key whose first byte is not one of the str family -/
  | nonStringKey (t : UInt8) (r : Bytes) (h : rest = t :: r) (ht : keyByte t.toNat = false)
  /-- a map key equal to an earlier key of the same map -/
  | dupKey (h : DupKeyAt decKey pre rest)

theorem UnsupportedAt.mono : Mono UnsupportedAt := by
  intro x pre rest h
  cases h with
  | ext t r h ht => exact .ext t r h ht
  | nonStringKey t r h ht => exact .nonStringKey t r h ht
  | dupKey h => exact .dupKey (DupKeyAt.mono x pre rest h)

theorem mapV_unsup {α β} {f : α → β} {x : DRes (α × Bytes)} (h : mapV f x = .error .unsupported) :
    x = .error .unsupported := by
  unfold mapV at h
  split at h
  · cases h
  · cases h; rfl

theorem mapV_split {α β} {f : α → β} {x : DRes (α × Bytes)} {b : β} {r : Bytes}
    (h : mapV f x = .ok (b, r)) : ∃ a, x = .ok (a, r) := by
  unfold mapV at h
  split at h
  · cases h; exact ⟨_, rfl⟩
  · cases h

theorem sized_split {k : Nat} {bs a r : Bytes} (h : sized k bs = .ok (a, r)) : ∃ c, bs = c ++ r := by
  unfold sized at h
  split at h
  · rename_i n r' hr
    obtain ⟨c, e⟩ := readBE_split hr
    exact ⟨c ++ a, by rw [e, takeN_split h, List.append_assoc]⟩
  · cases h

theorem sized_not_unsup {k : Nat} {bs : Bytes} : sized k bs ≠ .error .unsupported := by
  unfold sized
  split
  · exact takeN_not_unsup
  · rename_i e he; intro h; cases h; exact readBE_not_unsup he

theorem classify_tag_inv {t n : Nat} (h : classify t = .tag n) : n = t ∧ 0xc0 ≤ t ∧ t < 0xe0 := by
  unfold classify at h
  repeat' split at h
  all_goals first | cases h | skip
  all_goals (refine ⟨rfl, ?_, ?_⟩ <;> omega)

theorem classify_fixstr_inv {t n : Nat} (h : classify t = .fixstr n) : 0xa0 ≤ t ∧ t < 0xc0 := by
  unfold classify at h
  repeat' split at h
  all_goals first | (simp at h; done) | skip
  all_goals (constructor <;> omega)

theorem classify_fixmap_inv {t n : Nat} (h : classify t = .fixmap n) : 0x80 ≤ t ∧ t < 0x90 := by
  unfold classify at h
  repeat' split at h
  all_goals first | (simp at h; done) | skip
  all_goals (constructor <;> omega)

theorem classify_fixarr_inv {t n : Nat} (h : classify t = .fixarr n) : 0x90 ≤ t ∧ t < 0xa0 := by
  unfold classify at h
  repeat' split at h
  all_goals first | (simp at h; done) | skip
  all_goals (constructor <;> omega)

set_option maxRecDepth 8192 in
theorem tag_cases {t : Nat} (h1 : 0xc0 ≤ t) (h2 : t < 0xe0) :
    t = 0xc0 ∨ t = 0xc1 ∨ t = 0xc2 ∨ t = 0xc3 ∨ t = 0xc4 ∨ t = 0xc5 ∨ t = 0xc6 ∨ t = 0xc7 ∨
    t = 0xc8 ∨ t = 0xc9 ∨ t = 0xca ∨ t = 0xcb ∨ t = 0xcc ∨ t = 0xcd ∨ t = 0xce ∨ t = 0xcf ∨
    t = 0xd0 ∨ t = 0xd1 ∨ t = 0xd2 ∨ t = 0xd3 ∨ t = 0xd4 ∨ t = 0xd5 ∨ t = 0xd6 ∨ t = 0xd7 ∨
    t = 0xd8 ∨ t = 0xd9 ∨ t = 0xda ∨ t = 0xdb ∨ t = 0xdc ∨ t = 0xdd ∨ t = 0xde ∨ t = 0xdf := by
  omega

/-- The key reader consumes at least the head byte. -/
theorem decKey_consumes : ConsumesPos decKey := by
  intro bs a r h
  cases bs with
  | nil => cases h
  | cons b rest =>
    unfold decKey at h
    simp only [] at h
    split at h
    all_goals first | cases h | skip
    · exact ⟨b :: a, by simp, by rw [takeN_split h]; rfl⟩
    all_goals
      obtain ⟨c, e⟩ := sized_split h
      exact ⟨b :: c, by simp, by rw [e]; rfl⟩

/-- The key reader answers `unsupported` exactly on a first byte outside the str family. -/
theorem decKey_unsup_iff (b : UInt8) (rest : Bytes) :
    decKey (b :: rest) = .error .unsupported ↔ keyByte b.toNat = false := by
  cases hc : classify b.toNat with
  | posfix n =>
    have := classify_posfix_inv hc
    simp [decKey, hc, keyByte]; omega
  | fixmap n =>
    have := classify_fixmap_inv hc
    simp [decKey, hc, keyByte]; omega
  | fixarr n =>
    have := classify_fixarr_inv hc
    simp [decKey, hc, keyByte]; omega
  | fixstr n =>
    have := classify_fixstr_inv hc
    simp only [decKey, hc, keyByte]
    constructor
    · intro h; exact absurd h takeN_not_unsup
    · intro h; simp at h; omega
  | negfix n =>
    have := classify_negfix_inv hc
    simp [decKey, hc, keyByte]; omega
  | tag t =>
    obtain ⟨rfl, h1, h2⟩ := classify_tag_inv hc
    rcases tag_cases h1 h2 with h | h | h | h | h | h | h | h | h | h | h | h | h | h | h | h |
      h | h | h | h | h | h | h | h | h | h | h | h | h | h | h | h
    all_goals
      rw [h] at hc
      simp only [decKey, hc, keyByte, h]
      first
        | (constructor
           · intro h'; exact absurd h' sized_not_unsup
           · intro h'; simp at h')
        | simp

theorem cons_split {b : UInt8} {rest r : Bytes} (h : ∃ c, rest = c ++ r) : ∃ c, b :: rest = c ++ r := by
  obtain ⟨c, e⟩ := h; exact ⟨b :: c, by rw [e]; rfl⟩

theorem ts_takeN {β} {f : Bytes → β} {n : Nat} {rest r : Bytes} {a : β}
    (h : mapV f (takeN n rest) = .ok (a, r)) : ∃ c, rest = c ++ r := by
  obtain ⟨x, hx⟩ := mapV_split h; exact ⟨x, takeN_split hx⟩

theorem ts_sized {β} {f : Bytes → β} {k : Nat} {rest r : Bytes} {a : β}
    (h : mapV f (sized k rest) = .ok (a, r)) : ∃ c, rest = c ++ r := by
  obtain ⟨x, hx⟩ := mapV_split h; exact sized_split hx

theorem ts_readBE {β} {f : Nat → β} {k : Nat} {rest r : Bytes} {a : β}
    (h : mapV f (readBE k rest) = .ok (a, r)) : ∃ c, rest = c ++ r := by
  obtain ⟨x, hx⟩ := mapV_split h; exact readBE_split hx

theorem ts_items {β} {f : List CVal → β} {g : Bytes → DRes (CVal × Bytes)} (hg : Consumes g) {n : Nat}
    {rest r : Bytes} {a : β} (h : mapV f (decItems g n rest) = .ok (a, r)) : ∃ c, rest = c ++ r := by
  obtain ⟨x, hx⟩ := mapV_split h; exact decItems_split hg n _ _ _ hx

theorem ts_pairs {β} {f : List (Bytes × CVal) → β} {g : Bytes → DRes (CVal × Bytes)} (hg : Consumes g)
    {n : Nat} {rest r : Bytes} {a : β} (h : mapV f (decPairs decKey g n [] rest) = .ok (a, r)) :
    ∃ c, rest = c ++ r := by
  obtain ⟨x, hx⟩ := mapV_split h; exact decPairs_split decKey_consumes.consumes hg n _ _ _ _ hx

theorem split_trans {rest r1 r : Bytes} (h1 : ∃ c, rest = c ++ r1) (h2 : ∃ c, r1 = c ++ r) :
    ∃ c, rest = c ++ r := by
  obtain ⟨c1, e1⟩ := h1; obtain ⟨c2, e2⟩ := h2
  exact ⟨c1 ++ c2, by rw [e1, e2, List.append_assoc]⟩

/-- What the decoder hands back as "the rest" is a suffix of its input. -/
theorem decF_consumes : ∀ (fuel : Nat), Consumes (decF fuel)
  | 0 => by intro bs a r h; cases h
  | fuel + 1 => by
    have ih := decF_consumes fuel
    intro bs a r h
    cases bs with
    | nil => cases h
    | cons b rest =>
      cases hc : classify b.toNat with
      | posfix n => simp only [decF, hc] at h; cases h; exact ⟨[b], rfl⟩
      | negfix n => simp only [decF, hc] at h; cases h; exact ⟨[b], rfl⟩
      | fixstr n => simp only [decF, hc] at h; exact cons_split (ts_takeN h)
      | fixarr n => simp only [decF, hc] at h; exact cons_split (ts_items ih h)
      | fixmap n => simp only [decF, hc] at h; exact cons_split (ts_pairs ih h)
      | tag t =>
        obtain ⟨rfl, h1, h2⟩ := classify_tag_inv hc
        rcases tag_cases h1 h2 with hb | hb | hb | hb | hb | hb | hb | hb | hb | hb | hb | hb | hb |
          hb | hb | hb | hb | hb | hb | hb | hb | hb | hb | hb | hb | hb | hb | hb | hb | hb | hb | hb
        all_goals
          rw [hb] at hc
          simp only [decF, hb, hc] at h
          first
            | (cases h; exact ⟨[b], rfl⟩)
            | exact cons_split (ts_sized h)
            | exact cons_split (ts_readBE h)
            | (split at h
               · rename_i n r' hr
                 first
                   | exact cons_split (split_trans (readBE_split hr) (ts_items ih h))
                   | exact cons_split (split_trans (readBE_split hr) (ts_pairs ih h))
               · cases h)
            | cases h

theorem ul_takeN {β} {f : Bytes → β} {n : Nat} {rest : Bytes}
    (h : mapV f (takeN n rest) = .error .unsupported) : False := takeN_not_unsup (mapV_unsup h)

theorem ul_sized {β} {f : Bytes → β} {k : Nat} {rest : Bytes}
    (h : mapV f (sized k rest) = .error .unsupported) : False := sized_not_unsup (mapV_unsup h)

theorem ul_readBE {β} {f : Nat → β} {k : Nat} {rest : Bytes}
    (h : mapV f (readBE k rest) = .error .unsupported) : False := readBE_not_unsup (mapV_unsup h)

theorem decKey_locates : Locates UnsupportedAt decKey := by
  intro bs h
  cases bs with
  | nil => cases h
  | cons b rest => exact ⟨[], b :: rest, rfl, .nonStringKey b rest rfl ((decKey_unsup_iff b rest).mp h)⟩

/-- `decF` answers `unsupported` only where one of the causes sits. -/
theorem decF_locates : ∀ (fuel : Nat), Locates UnsupportedAt (decF fuel)
  | 0 => by intro bs h; cases h
  | fuel + 1 => by
    have ih := decF_locates fuel
    have hc' := decF_consumes fuel
    have items := fun n => decItems_unsup UnsupportedAt.mono hc' ih n
    have pairs := fun n => decPairs_unsup UnsupportedAt.mono decKey_consumes hc' decKey_locates ih
      (fun _ _ h => UnsupportedAt.dupKey h) n
    intro bs h
    cases bs with
    | nil => cases h
    | cons b rest =>
      have e1 : b :: rest = [b] ++ rest := rfl
      cases hc : classify b.toNat with
      | posfix n => simp only [decF, hc] at h; cases h
      | negfix n => simp only [decF, hc] at h; cases h
      | fixstr n => simp only [decF, hc] at h; exact (ul_takeN h).elim
      | fixarr n =>
        simp only [decF, hc] at h
        exact lift_cause UnsupportedAt.mono e1 (items n rest (mapV_unsup h))
      | fixmap n =>
        simp only [decF, hc] at h
        exact lift_cause UnsupportedAt.mono e1 (pairs n rest (mapV_unsup h))
      | tag t =>
        obtain ⟨rfl, h1, h2⟩ := classify_tag_inv hc
        rcases tag_cases h1 h2 with hb | hb | hb | hb | hb | hb | hb | hb | hb | hb | hb | hb | hb |
          hb | hb | hb | hb | hb | hb | hb | hb | hb | hb | hb | hb | hb | hb | hb | hb | hb | hb | hb
        all_goals
          rw [hb] at hc
          simp only [decF, hb, hc] at h
          first
            | exact (ul_sized h).elim
            | exact (ul_readBE h).elim
            | (split at h
               · rename_i n r' hr
                 obtain ⟨c, e⟩ := readBE_split hr
                 have e2 : b :: rest = (b :: c) ++ r' := by rw [e]; rfl
                 first
                   | exact lift_cause UnsupportedAt.mono e2 (items n r' (mapV_unsup h))
                   | exact lift_cause UnsupportedAt.mono e2 (pairs n r' (mapV_unsup h))
               · rename_i e' hr; cases h; exact (readBE_not_unsup hr).elim)
            | (refine ⟨[], b :: rest, rfl, .ext b rest rfl ?_⟩; simp [extBytes, hb]; done)
            | cases h

/-- **Where MessagePack `unsupported` comes from** (audit C14-a4).  If the decoder refuses a byte
    string as outside the value model, then at some position of it (`b = pre ++ rest`, the decoder
    having consumed `pre`) sits an extension type, or a map key that is not a str, or a map key
    that the same map already had. -/
theorem dec_unsupported_cause {b : Bytes} (h : dec b = .error .unsupported) :
    ∃ pre rest, b = pre ++ rest ∧ UnsupportedAt pre rest :=
  decF_locates _ b h

/-! Converses: each cause, at the top of the input, is refused. -/

/-- An extension type is refused whatever follows (even nothing: the type byte decides). -/
theorem dec_ext_top (t : UInt8) (r : Bytes) (ht : t.toNat ∈ extBytes) :
    dec (t :: r) = .error .unsupported := by
  simp only [extBytes, List.mem_cons, List.not_mem_nil, or_false] at ht
  unfold dec
  rcases ht with h | h | h | h | h | h | h | h <;> simp [decF, h, classify]

/-- A map whose first key does not start like a str is refused. -/
theorem dec_nonStringKey_top (n : Nat) (hn : n + 1 < maxLen) (t : UInt8) (r : Bytes)
    (ht : keyByte t.toNat = false) : dec (mapHdr (n + 1) ++ t :: r) = .error .unsupported := by
  unfold dec
  rw [dec_mapHdr _ _ _ hn]
  simp [decPairs, (decKey_unsup_iff t r).mpr ht, mapV]

/-- A map that repeats its first key right away is refused. -/
theorem dec_dupKey_top (n : Nat) (hn : n + 2 < maxLen) (k : Bytes) (hk : k.length < maxLen) (v : CVal)
    (hv : validB maxLen v = true) (r : Bytes) :
    dec (mapHdr (n + 2) ++ ((strHdr k.length ++ k) ++ (enc v ++ ((strHdr k.length ++ k) ++ r))))
      = .error .unsupported := by
  unfold dec
  rw [dec_mapHdr _ _ _ hn]
  have hfuel : depth v < (mapHdr (n + 2) ++ ((strHdr k.length ++ k) ++ (enc v ++ ((strHdr k.length ++ k) ++ r)))).length := by
    have := depth_le v
    have := mapHdr_pos (n + 2)
    simp only [List.length_append]; omega
  simp only [decPairs, decKey_str k _ hk, decF_enc v _ _ hv hfuel]
  simp [mapV]

/-- `c7 00 00` (ext 8, empty), `d4 01 00` (fixext 1), `c9` alone (ext 32, cut short: the type byte
    decides before the length is looked at). -/
example : dec [0xc7, 0x00, 0x00] = .error .unsupported ∧ dec [0xd4, 0x01, 0x00] = .error .unsupported
    ∧ dec [0xc9] = .error .unsupported :=
  ⟨dec_ext_top _ _ (by decide), dec_ext_top _ _ (by decide), dec_ext_top _ _ (by decide)⟩

/-- `81 01 01` = {1: 1}: integer key. -/
example : dec [0x81, 0x01, 0x01] = .error .unsupported :=
  dec_nonStringKey_top 0 (by decide) 0x01 [0x01] (by decide)

/-- `82 a1 61 01 a1 61 02` = {"a": 1, "a": 2}. -/
example : dec [0x82, 0xa1, 0x61, 0x01, 0xa1, 0x61, 0x02] = .error .unsupported :=
  dec_dupKey_top 0 (by decide) [0x61] (by decide) (.int 1) (by decide) [0x02]

/-- Cut short before the cause is reached, the answer is `malformed`: `82 a1 61 01 a1` stops
    inside the second key. -/
example : dec [0x82, 0xa1, 0x61, 0x01, 0xa1] = .error .malformed := by
  simp [dec, decF, classify, decPairs, decKey, mapV, takeN]

/-- The hypothesis of `dec_unsupported_cause` is satisfiable, and the cause found for
    `91 c7 00 00` ([ext]) is the ext byte at offset 1. -/
example : dec [0x91, 0xc7, 0x00, 0x00] = .error .unsupported
    ∧ UnsupportedAt [0x91] [0xc7, 0x00, 0x00] :=
  ⟨by simp [dec, decF, classify, decItems, mapV], .ext 0xc7 [0x00, 0x00] rfl (by decide)⟩

end MsgPack

/-! ### CBOR -/

namespace CBOR

open WpD

/-- The causes of `unsupported` in `CBOR.dec`: having consumed `pre`, the decoder is at `rest` and
    finds one of the items below where a value or a map key starts (the first four), or where a map
    key starts (the last two). -/
inductive UnsupportedAt (pre rest : Bytes) : Prop
  /-- additional information 31 on a major type other than 7: an indefinite-length string, array or
      map (for major types 0, 1, 6 the byte is not well-formed CBOR; the model files it here) -/
  | indefinite (t : UInt8) (r : Bytes) (h : rest = t :: r) (hm : t.toNat / 32 ≠ 7) (hi : t.toNat % 32 = 31)
  /-- a tag (major type 6) whose argument is complete -/
  | tag (t : UInt8) (r : Bytes) (h : rest = t :: r) (hm : t.toNat / 32 = 6) (n : Nat) (r' : Bytes)
      (ha : readArg (t.toNat % 32) r = .ok (n, r'))
  /-- a negative integer -1 - n with n ≥ 2^63, i.e. below -2^63: not an `int64` -/
  | negOverflow (t : UInt8) (r : Bytes) (h : rest = t :: r) (hm : t.toNat / 32 = 1) (n : Nat) (r' : Bytes)
      (ha : readArg (t.toNat % 32) r = .ok (n, r')) (hn : 9223372036854775808 ≤ n)
  /-- a byte string, text string, array or map whose length is 2^63 or more -/
  | hugeLength (t : UInt8) (r : Bytes) (h : rest = t :: r) (hm : 2 ≤ t.toNat / 32 ∧ t.toNat / 32 ≤ 5)
      (n : Nat) (r' : Bytes) (ha : readArg (t.toNat % 32) r = .ok (n, r')) (hn : maxLen ≤ n)
  /-- a map key that is not a text string (major type 3) -/
  | nonTextKey (t : UInt8) (r : Bytes) (h : rest = t :: r) (hm : t.toNat / 32 ≠ 3)
  /-- a map key equal to an earlier key of the same map -/
  | dupKey (h : DupKeyAt decKey pre rest)

theorem UnsupportedAt.mono : Mono UnsupportedAt := by
  intro x pre rest h
  cases h with
  | indefinite t r h hm hi => exact .indefinite t r h hm hi
  | tag t r h hm n r' ha => exact .tag t r h hm n r' ha
  | negOverflow t r h hm n r' ha hn => exact .negOverflow t r h hm n r' ha hn
  | hugeLength t r h hm n r' ha hn => exact .hugeLength t r h hm n r' ha hn
  | nonTextKey t r h hm => exact .nonTextKey t r h hm
  | dupKey h => exact .dupKey (DupKeyAt.mono x pre rest h)

theorem mapV_unsup {α β} {f : α → β} {x : DRes (α × Bytes)} (h : mapV f x = .error .unsupported) :
    x = .error .unsupported := by
  unfold mapV at h
  split at h
  · cases h
  · cases h; rfl

theorem mapV_split {α β} {f : α → β} {x : DRes (α × Bytes)} {b : β} {r : Bytes}
    (h : mapV f x = .ok (b, r)) : ∃ a, x = .ok (a, r) := by
  unfold mapV at h
  split at h
  · cases h; exact ⟨_, rfl⟩
  · cases h

theorem readArg_split {info : Nat} {rest : Bytes} {n : Nat} {r : Bytes}
    (h : readArg info rest = .ok (n, r)) : ∃ c, rest = c ++ r := by
  unfold readArg at h
  repeat' split at h
  all_goals first | (cases h; exact ⟨[], rfl⟩) | exact readBE_split h | cases h

theorem readArg_unsup {info : Nat} {rest : Bytes} (h : readArg info rest = .error .unsupported) :
    info = 31 := by
  unfold readArg at h
  repeat' split at h
  all_goals first | assumption | exact absurd h readBE_not_unsup | cases h

theorem decSimple_split {info : Nat} {rest : Bytes} {v : CVal} {r : Bytes}
    (h : decSimple info rest = .ok (v, r)) : ∃ c, rest = c ++ r := by
  unfold decSimple at h
  repeat' split at h
  all_goals first
    | (cases h; exact ⟨[], rfl⟩)
    | (obtain ⟨a, ha⟩ := mapV_split h; exact readBE_split ha)
    | cases h

theorem decSimple_not_unsup {info : Nat} {rest : Bytes} : decSimple info rest ≠ .error .unsupported := by
  intro h
  unfold decSimple at h
  repeat' split at h
  all_goals first
    | exact absurd (mapV_unsup h) readBE_not_unsup
    | cases h

theorem cons_split {b : UInt8} {rest r : Bytes} (h : ∃ c, rest = c ++ r) : ∃ c, b :: rest = c ++ r := by
  obtain ⟨c, e⟩ := h; exact ⟨b :: c, by rw [e]; rfl⟩

theorem split_trans {rest r1 r : Bytes} (h1 : ∃ c, rest = c ++ r1) (h2 : ∃ c, r1 = c ++ r) :
    ∃ c, rest = c ++ r := by
  obtain ⟨c1, e1⟩ := h1; obtain ⟨c2, e2⟩ := h2
  exact ⟨c1 ++ c2, by rw [e1, e2, List.append_assoc]⟩

/-- The key reader consumes at least the head byte. -/
theorem decKey_consumes : ConsumesPos decKey := by
  intro bs a r h
  cases bs with
  | nil => cases h
  | cons b rest =>
    have : ∃ c, rest = c ++ r := by
      simp only [decKey] at h
      split at h
      · split at h
        · rename_i n r' ha
          split at h
          · cases h
          · exact split_trans (readArg_split ha) ⟨a, takeN_split h⟩
        · cases h
      · cases h
    obtain ⟨c, e⟩ := this
    exact ⟨b :: c, by simp, by rw [e]; rfl⟩

theorem decKey_locates : Locates UnsupportedAt decKey := by
  intro bs h
  cases bs with
  | nil => cases h
  | cons b rest =>
    refine ⟨[], b :: rest, rfl, ?_⟩
    simp only [decKey] at h
    split at h
    · rename_i hm
      split at h
      · rename_i n r' ha
        split at h
        · rename_i hn
          exact .hugeLength b rest rfl (by omega) n r' ha hn
        · exact absurd h takeN_not_unsup
      · rename_i e he
        cases h
        exact .indefinite b rest rfl (by omega) (readArg_unsup he)
    · rename_i hm
      exact .nonTextKey b rest rfl hm

theorem decBody_split {f : Bytes → DRes (CVal × Bytes)} (hf : Consumes f) {major n : Nat} {r r' : Bytes}
    {v : CVal} (h : decBody f major n r = .ok (v, r')) : ∃ c, r = c ++ r' := by
  unfold decBody at h
  repeat' split at h
  all_goals first
    | (cases h; exact ⟨[], rfl⟩)
    | (obtain ⟨a, ha⟩ := mapV_split h; exact ⟨a, takeN_split ha⟩)
    | (obtain ⟨a, ha⟩ := mapV_split h; exact decItems_split hf _ _ _ _ ha)
    | (obtain ⟨a, ha⟩ := mapV_split h; exact decPairs_split decKey_consumes.consumes hf _ _ _ _ _ ha)
    | cases h

/-- What the decoder hands back as "the rest" is a suffix of its input. -/
theorem decF_consumes : ∀ (fuel : Nat), Consumes (decF fuel)
  | 0 => by intro bs a r h; cases h
  | fuel + 1 => by
    have ih := decF_consumes fuel
    intro bs a r h
    cases bs with
    | nil => cases h
    | cons b rest =>
      unfold decF at h
      split at h
      · exact cons_split (decSimple_split h)
      · split at h
        · cases h
        · rename_i n r' ha
          exact cons_split (split_trans (readArg_split ha) (decBody_split ih h))

/-- The causes `decBody` can meet, given how its head byte `t` was read. -/
theorem decBody_locates {f : Bytes → DRes (CVal × Bytes)} (hc : Consumes f) (hf : Locates UnsupportedAt f)
    (t : UInt8) (rest : Bytes) (hm : t.toNat / 32 ≠ 7) {n : Nat} {r : Bytes}
    (ha : readArg (t.toNat % 32) rest = .ok (n, r))
    (h : decBody f (t.toNat / 32) n r = .error .unsupported) :
    (UnsupportedAt [] (t :: rest)) ∨ ∃ pre rest', r = pre ++ rest' ∧ UnsupportedAt pre rest' := by
  have hlt : t.toNat / 32 < 8 := by have := t.toNat_lt; omega
  unfold decBody at h
  repeat' split at h
  all_goals first
    | cases h
    | exact absurd (mapV_unsup h) takeN_not_unsup
    | (right; exact decItems_unsup UnsupportedAt.mono hc hf _ _ (mapV_unsup h))
    | (right; exact decPairs_unsup UnsupportedAt.mono decKey_consumes hc decKey_locates hf
        (fun _ _ h => UnsupportedAt.dupKey h) _ _ (mapV_unsup h))
    | skip
  · left; exact .negOverflow t rest rfl (by assumption) n r ha (by omega)
  · left; exact .tag t rest rfl (by assumption) n r ha
  · left; exact .hugeLength t rest rfl (by omega) n r ha (by assumption)

/-- `decF` answers `unsupported` only where one of the causes sits. -/
theorem decF_locates : ∀ (fuel : Nat), Locates UnsupportedAt (decF fuel)
  | 0 => by intro bs h; cases h
  | fuel + 1 => by
    have ih := decF_locates fuel
    have hc' := decF_consumes fuel
    intro bs h
    cases bs with
    | nil => cases h
    | cons b rest =>
      unfold decF at h
      split at h
      · exact absurd h decSimple_not_unsup
      · rename_i hm
        split at h
        · rename_i e he
          cases h
          exact ⟨[], b :: rest, rfl, .indefinite b rest rfl hm (readArg_unsup he)⟩
        · rename_i n r ha
          rcases decBody_locates hc' ih b rest hm ha h with hcause | hcause
          · exact ⟨[], b :: rest, rfl, hcause⟩
          · obtain ⟨c, e⟩ := readArg_split ha
            have e2 : b :: rest = (b :: c) ++ r := by rw [e]; rfl
            exact lift_cause UnsupportedAt.mono e2 hcause

/-- **Where CBOR `unsupported` comes from** (audit C14-a4).  If the decoder refuses a byte string as
    outside the value model, then at some position of it (`b = pre ++ rest`, the decoder having
    consumed `pre`) sits a tag, an indefinite-length item, a negative integer below -2^63, a
    length of 2^63 or more, a map key that is not a text string, or a map key that the same map
    already had. -/
theorem dec_unsupported_cause {b : Bytes} (h : dec b = .error .unsupported) :
    ∃ pre rest, b = pre ++ rest ∧ UnsupportedAt pre rest :=
  decF_locates _ b h

/-! Converses: each cause, at the top of the input, is refused. -/

/-- Additional information 31 on a major type other than 7 is refused whatever follows. -/
theorem dec_indefinite_top (t : UInt8) (r : Bytes) (hm : t.toNat / 32 ≠ 7) (hi : t.toNat % 32 = 31) :
    dec (t :: r) = .error .unsupported := by
  simp [dec, decF, hm, hi, readArg]

/-- A tag whose argument is complete is refused (the tagged item is not looked at). -/
theorem dec_tag_top (t : UInt8) (r : Bytes) (hm : t.toNat / 32 = 6) (n : Nat) (r' : Bytes)
    (ha : readArg (t.toNat % 32) r = .ok (n, r')) : dec (t :: r) = .error .unsupported := by
  simp [dec, decF, hm, ha, decBody]

/-- A tag is never accepted: `unsupported`, or `malformed` when its argument is cut short or uses a
    reserved width. -/
theorem dec_tag_never_ok (t : UInt8) (r : Bytes) (hm : t.toNat / 32 = 6) :
    dec (t :: r) = .error .unsupported ∨ dec (t :: r) = .error .malformed := by
  cases ha : readArg (t.toNat % 32) r with
  | ok x => left; exact dec_tag_top t r hm x.1 x.2 ha
  | error e =>
    cases e with
    | unsupported => left; simp [dec, decF, hm, ha]
    | malformed => right; simp [dec, decF, hm, ha]

/-- A negative integer below -2^63 is refused. -/
theorem dec_negOverflow_top (t : UInt8) (r : Bytes) (hm : t.toNat / 32 = 1) (n : Nat) (r' : Bytes)
    (ha : readArg (t.toNat % 32) r = .ok (n, r')) (hn : 9223372036854775808 ≤ n) :
    dec (t :: r) = .error .unsupported := by
  have : ¬ n < 9223372036854775808 := by omega
  simp [dec, decF, hm, ha, decBody, this]

/-- A string, array or map of length 2^63 or more is refused. -/
theorem dec_hugeLength_top (t : UInt8) (r : Bytes) (hm : 2 ≤ t.toNat / 32 ∧ t.toNat / 32 ≤ 5) (n : Nat)
    (r' : Bytes) (ha : readArg (t.toNat % 32) r = .ok (n, r')) (hn : maxLen ≤ n) :
    dec (t :: r) = .error .unsupported := by
  have h7 : t.toNat / 32 ≠ 7 := by omega
  have h0 : t.toNat / 32 ≠ 0 := by omega
  have h1 : t.toNat / 32 ≠ 1 := by omega
  have h6 : t.toNat / 32 ≠ 6 := by omega
  simp [dec, decF, h7, h0, h1, h6, ha, decBody, hn]

/-- The key reader answers `unsupported` on anything that is not a text string. -/
theorem decKey_nonText (t : UInt8) (r : Bytes) (hm : t.toNat / 32 ≠ 3) :
    decKey (t :: r) = .error .unsupported := by
  simp [decKey, hm]

/-- A map whose first key is not a text string is refused. -/
theorem dec_nonTextKey_top (n : Nat) (hn : n + 1 < maxLen) (t : UInt8) (r : Bytes)
    (hm : t.toNat / 32 ≠ 3) : dec (encHead 5 (n + 1) ++ t :: r) = .error .unsupported := by
  unfold dec
  have hnot : ¬ (maxLen ≤ n + 1) := by omega
  rw [decF_head _ 5 _ (by omega) (by unfold maxLen at hn; unfold argMax; omega)]
  simp [decBody, hnot, decPairs, decKey_nonText t r hm, mapV]

/-- A map that repeats its first key right away is refused. -/
theorem dec_dupKey_top (n : Nat) (hn : n + 2 < maxLen) (k : Bytes) (hk : k.length < maxLen) (v : CVal)
    (hv : validB maxLen v = true) (r : Bytes) :
    dec (encHead 5 (n + 2) ++ ((encHead 3 k.length ++ k) ++ (enc v ++ ((encHead 3 k.length ++ k) ++ r))))
      = .error .unsupported := by
  unfold dec
  have hnot : ¬ (maxLen ≤ n + 2) := by omega
  rw [decF_head _ 5 _ (by omega) (by unfold maxLen at hn; unfold argMax; omega)]
  have hfuel : depth v < (encHead 5 (n + 2) ++ ((encHead 3 k.length ++ k) ++ (enc v ++ ((encHead 3 k.length ++ k) ++ r)))).length := by
    have := depth_le v
    have := encHead_pos 5 (n + 2)
    simp only [List.length_append]; omega
  simp only [decBody, decPairs, decKey_enc k _ hk, decF_enc v _ _ hv hfuel]
  simp [mapV, hnot]

/-- `c0 00` (tag 0 on the integer 0), `c0` alone (the tag byte decides), `d8` alone (tag with a
    one-byte number that is missing: `malformed`). -/
example : dec [0xc0, 0x00] = .error .unsupported ∧ dec [0xc0] = .error .unsupported
    ∧ dec [0xd8] = .error .malformed :=
  ⟨dec_tag_top _ _ (by decide) 0 [0x00] rfl, dec_tag_top _ _ (by decide) 0 [] rfl, rfl⟩

/-- `9f ff` (indefinite-length array, empty), `5f` (indefinite-length byte string), `bf`. -/
example : dec [0x9f, 0xff] = .error .unsupported ∧ dec [0x5f] = .error .unsupported
    ∧ dec [0xbf, 0xff] = .error .unsupported :=
  ⟨dec_indefinite_top _ _ (by decide) (by decide), dec_indefinite_top _ _ (by decide) (by decide),
   dec_indefinite_top _ _ (by decide) (by decide)⟩

/-- `a1 01 01` = {1: 1}: integer key. -/
example : dec [0xa1, 0x01, 0x01] = .error .unsupported :=
  dec_nonTextKey_top 0 (by decide) 0x01 [0x01] (by decide)

/-- `a2 61 61 01 61 61 02` = {"a": 1, "a": 2}. -/
example : dec [0xa2, 0x61, 0x61, 0x01, 0x61, 0x61, 0x02] = .error .unsupported :=
  dec_dupKey_top 0 (by decide) [0x61] (by decide) (.int 1) (by decide) [0x02]

/-- `3b 80 00 00 00 00 00 00 00` = -1 - 2^63, one below `int64`; `3b 7f ff ff ff ff ff ff ff` = -2^63
    is still a value. -/
example : dec [0x3b, 0x80, 0, 0, 0, 0, 0, 0, 0] = .error .unsupported
    ∧ dec [0x3b, 0x7f, 0xff, 0xff, 0xff, 0xff, 0xff, 0xff, 0xff] = .ok (.int (-9223372036854775808), []) :=
  ⟨dec_negOverflow_top _ _ (by decide) 9223372036854775808 [] rfl (Nat.le_refl _),
   by simp [dec, decF, readArg, readBE, takeN, beNat, decBody]⟩

/-- `5b 80 00 00 00 00 00 00 00`: a byte string of 2^63 bytes. -/
example : dec [0x5b, 0x80, 0, 0, 0, 0, 0, 0, 0] = .error .unsupported :=
  dec_hugeLength_top _ _ (by decide) 9223372036854775808 [] rfl (Nat.le_refl _)

/-- The hypothesis of `dec_unsupported_cause` is satisfiable, and the cause found for `81 c0 00`
    ([tag 0 (0)]) is the tag byte at offset 1. -/
example : dec [0x81, 0xc0, 0x00] = .error .unsupported ∧ UnsupportedAt [0x81] [0xc0, 0x00] :=
  ⟨rfl, .tag 0xc0 [0x00] rfl (by decide) 0 [0x00] rfl⟩

end CBOR

/-! ### After the codec: no panic (local copies, so that `Nexus/Props/C14.lean` can import this file) -/

namespace WpD

theorem listToMsg_no_panic (t : Int) (vlist : List CVal) : (listToMsg t vlist).isPanic = false := by
  unfold listToMsg
  cases hn : newMessage t with
  | none => simp [Res.isPanic]
  | some m =>
    have hlen : m.fields.length = m.schema.fields.length := by
      rw [newMessage_eq] at hn
      split at hn
      · cases hn
      · split at hn
        · cases hn
        · cases hn; simp
    have := fill_no_panic m.schema.fields m.fields vlist.tail 1 hlen
    cases hr : fill 1 m.schema.fields m.fields vlist.tail <;> simp_all [Res.map, Res.isPanic]

theorem fromList_no_panic (fmt : Format) (v : List CVal) : (fromList fmt v).isPanic = false := by
  unfold fromList
  cases v with
  | nil => simp [Res.isPanic]
  | cons v0 vs =>
    have : ∀ r, headType fmt v0 ≠ .panic r := by
      intro r; unfold headType; split <;> (try split) <;> simp
    cases hh : headType fmt v0 with
    | ok t => simpa [hh] using listToMsg_no_panic t (v0 :: vs)
    | error e => simp [hh, Res.isPanic]
    | panic r => exact absurd hh (this r)

end WpD

end Nexus.Codec

/-! ### Property level -/

namespace Nexus.C14

open Nexus.Gen Nexus.Codec

/-- The causes of `unsupported`, per binary format (`MsgPack.UnsupportedAt`, `CBOR.UnsupportedAt`).
    JSON has its own list (numbers outside the plain-integer fragment, ...): not covered here. -/
def BinUnsupportedAt : Format → Bytes → Bytes → Prop
  | .msgpack, pre, rest => MsgPack.UnsupportedAt pre rest
  | .cbor, pre, rest => CBOR.UnsupportedAt pre rest
  | .json, _, _ => False

/-- The codec's verdict `unsupported` on MessagePack or CBOR bytes points at a cause in the bytes. -/
theorem C14_decode_unsupported_cause_bin (fmt : Format) (hf : fmt ∈ [Format.msgpack, Format.cbor])
    (b : Bytes) (h : Wire.decode fmt b = .error .unsupported) :
    ∃ pre rest, b = pre ++ rest ∧ BinUnsupportedAt fmt pre rest := by
  cases fmt with
  | json => simp at hf
  | msgpack => exact MsgPack.dec_unsupported_cause h
  | cbor => exact CBOR.dec_unsupported_cause h

/-- **`Deserialize` is total on arbitrary MessagePack / CBOR bytes, and what the model leaves open
    is located** (audit C14-a4).  For every byte string: either the repo's code answers — with a
    message or an error, never a panic; or the codec reports an error (`malformed`); or the model
    has no opinion (`unsupported`), and then the bytes contain, at a position the decoder reached,
    one of the constructs listed in `MsgPack.UnsupportedAt` / `CBOR.UnsupportedAt` — or the
    top-level value is not a list and `Deserialize` decodes straight into a `[]any` (a mode no
    serializer uses any more: `C14_deserialize_total_bin_listChecked`). -/
theorem C14_deserialize_total_bin (fmt : Format) (hf : fmt ∈ [Format.msgpack, Format.cbor]) (b : Bytes) :
    (∃ r, Wire.deserialize fmt b = .ok r ∧ r.isPanic = false)
    ∨ Wire.deserialize fmt b = .error .malformed
    ∨ (Wire.deserialize fmt b = .error .unsupported ∧
        ((∃ pre rest, b = pre ++ rest ∧ BinUnsupportedAt fmt pre rest)
         ∨ (Wire.topDecodeOf fmt = .intoSlice ∧
            ∃ v rest, Wire.decode fmt b = .ok (v, rest) ∧ ∀ l, v ≠ .list l))) := by
  unfold Wire.deserialize
  split
  · rename_i e he
    cases e with
    | malformed => right; left; rfl
    | unsupported =>
      right; right
      exact ⟨rfl, Or.inl (C14_decode_unsupported_cause_bin fmt hf b he)⟩
  · left; exact ⟨_, rfl, WpD.fromList_no_panic fmt _⟩
  · rename_i v rest hnl hd
    split
    · left; exact ⟨_, rfl, rfl⟩
    · rename_i hts
      right; right
      refine ⟨rfl, Or.inr ⟨hts, v, rest, hd, ?_⟩⟩
      intro l hl
      exact hnl l hl

/-- The same with the regenerated fact that all three `Deserialize` functions go through
    `decodeList`: `unsupported` always points at a cause in the bytes. -/
theorem C14_deserialize_total_bin_listChecked (fmt : Format) (hf : fmt ∈ [Format.msgpack, Format.cbor])
    (b : Bytes) :
    (∃ r, Wire.deserialize fmt b = .ok r ∧ r.isPanic = false)
    ∨ Wire.deserialize fmt b = .error .malformed
    ∨ (Wire.deserialize fmt b = .error .unsupported ∧
        ∃ pre rest, b = pre ++ rest ∧ BinUnsupportedAt fmt pre rest) := by
  rcases C14_deserialize_total_bin fmt hf b with h | h | ⟨h, hc | ⟨hts, _⟩⟩
  · exact Or.inl h
  · exact Or.inr (Or.inl h)
  · exact Or.inr (Or.inr ⟨h, hc⟩)
  · have : Wire.topDecodeOf fmt = .listChecked := by cases fmt <;> decide
    rw [this] at hts; cases hts

/-- All three outcomes occur, in both formats: `[1]` is answered by the repo's code (HELLO with
    both fields left at their zero values), a lone array header is `malformed`, an array holding an
    extension type / a tag is `unsupported`. -/
example :
    (∃ r, Wire.deserialize .msgpack [0x91, 0x01] = .ok r) ∧ (∃ r, Wire.deserialize .cbor [0x81, 0x01] = .ok r)
    ∧ Wire.deserialize .msgpack [0x91] = .error .malformed ∧ Wire.deserialize .cbor [0x81] = .error .malformed
    ∧ Wire.deserialize .msgpack [0x91, 0xc7, 0x00, 0x00] = .error .unsupported
    ∧ Wire.deserialize .cbor [0x81, 0xc0, 0x00] = .error .unsupported := by
  refine ⟨⟨_, rfl⟩, ⟨_, rfl⟩, ?_, rfl, ?_, rfl⟩
  · simp [Wire.deserialize, Wire.decode, MsgPack.dec, MsgPack.decF, MsgPack.classify, MsgPack.mapV, decItems]
  · simp [Wire.deserialize, Wire.decode, MsgPack.dec, MsgPack.decF, MsgPack.classify, MsgPack.mapV, decItems]

end Nexus.C14
