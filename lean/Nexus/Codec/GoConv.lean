/-
  Go value conversions that `reflect.Value.Convert` performs inside
  `listToMsg` (transport/serialize/serializer.go) when a decoded list item is
  not directly assignable to the message field.

  * integer → `wamp.ID` (uint64) / `wamp.MessageType` (int): two's-complement wrap.
  * float64 → uint64 / int: truncation toward zero when the result is
    representable; otherwise the Go spec leaves the result implementation-
    dependent.  `f2u`/`f2i` record what go1.25 on amd64 produces (measured by
    the `codec` family on every run): the "integer indefinite" value 2^63.
  * integer → string: `string(rune(i))`, the UTF-8 encoding of the code point,
    U+FFFD for anything that is not a Unicode scalar value.
  * []byte → string: the same bytes.
-/
import Nexus.Codec.CVal

namespace Nexus.Codec

def two63 : Int := 9223372036854775808
def two64 : Int := 18446744073709551616

/-- Conversion of an integer value to `uint64` (`wamp.ID`). -/
def wrapU64 (i : Int) : Int := i % two64

/-- Conversion of an integer value to `int` (64-bit `wamp.MessageType`). -/
def wrapI64 (i : Int) : Int := (i + two63) % two64 - two63

/-- Truncation toward zero of a finite binary64; `none` for NaN and ±Inf. -/
def f64Trunc (bits : UInt64) : Option Int :=
  let b := bits.toNat
  let neg := b / 2^63 == 1
  let e := (b / 2^52) % 2048
  let m := b % 2^52
  if e == 2047 then none
  else
    let mag : Nat :=
      if e == 0 then 0
      else if e ≥ 1075 then (m + 2^52) * 2^(e - 1075) else (m + 2^52) / 2^(1075 - e)
    some (if neg then -(mag : Int) else (mag : Int))

/-- `uint64(f)` as compiled by go1.25/amd64. -/
def f2u (bits : UInt64) : Int :=
  match f64Trunc bits with
  | none => two63
  | some t =>
    if -two63 ≤ t ∧ t < two63 then wrapU64 t
    else if two63 ≤ t ∧ t < two64 then t
    else two63

/-- `int(f)` as compiled by go1.25/amd64. -/
def f2i (bits : UInt64) : Int :=
  match f64Trunc bits with
  | none => -two63
  | some t => if -two63 ≤ t ∧ t < two63 then t else -two63

/-- UTF-8 encoding of a Unicode scalar value (caller guarantees validity). -/
def utf8Enc (c : Nat) : Bytes :=
  if c < 0x80 then [UInt8.ofNat c]
  else if c < 0x800 then [UInt8.ofNat (0xC0 + c / 64), UInt8.ofNat (0x80 + c % 64)]
  else if c < 0x10000 then
    [UInt8.ofNat (0xE0 + c / 4096), UInt8.ofNat (0x80 + (c / 64) % 64), UInt8.ofNat (0x80 + c % 64)]
  else
    [UInt8.ofNat (0xF0 + c / 262144), UInt8.ofNat (0x80 + (c / 4096) % 64),
     UInt8.ofNat (0x80 + (c / 64) % 64), UInt8.ofNat (0x80 + c % 64)]

def isScalar (i : Int) : Bool :=
  (0 ≤ i && i < 0xD800) || (0xE000 ≤ i && i ≤ 0x10FFFF)

/-- `string(rune(i))` for an `int64`/`uint64` value (reflect.cvtIntString / cvtUintString). -/
def intToString (i : Int) : Bytes :=
  if isScalar i then utf8Enc i.toNat else [0xEF, 0xBF, 0xBD]

end Nexus.Codec
