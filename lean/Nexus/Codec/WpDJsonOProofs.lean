/-
  Proofs for `Nexus/Codec/WpDJsonO.lean`: what comes back from JSON for values with floats (under
  the oracle hypotheses `FloatOrc.Faithful`) and binaries.
-/
import Nexus.Codec.WpDJsonO

namespace Nexus.Codec.Json

open Nexus.Codec

/-! ### number tokens -/

theorem isNumChar_head {b : UInt8} (h : isNumChar b = true) :
    b.toNat > 0x20 ∧ b.toNat ≠ 0x5b ∧ b.toNat ≠ 0x7b ∧ b.toNat ≠ 0x22 ∧ b.toNat ≠ 0x6e ∧ b.toNat ≠ 0x74
      ∧ b.toNat ≠ 0x66 ∧ b.toNat ≠ 0x5d ∧ b.toNat ≠ 0x7d := by
  simp [isNumChar, isDigit] at h
  omega

theorem decVG_tok_aux (num : Bytes → DRes CVal) (fuel : Nat) (tok rest : Bytes) (hne : tok ≠ [])
    (hall : ∀ d ∈ tok, isNumChar d = true) (hr : NumSafe rest) (res : DRes CVal) (hn : num tok = res) :
    decVG num (fuel + 1) (tok ++ rest) =
      (match res with
       | .ok v => .ok (v, rest)
       | .error e => .error e) := by
  obtain ⟨htk, hdr⟩ := takeWhile_tok tok rest hall hr
  cases tok with
  | nil => exact absurd rfl hne
  | cons b t =>
    obtain ⟨h20, h1, h2, h3, h4, h5, h6, _, _⟩ := isNumChar_head (hall b List.mem_cons_self)
    simp only [List.cons_append] at htk hdr ⊢
    simp only [decVG, skipWs_cons (isWs_false h20)]
    rw [if_neg h1, if_neg h2, if_neg h3, if_neg h4, if_neg h5, if_neg h6]
    simp only [htk, hdr, hn]
    cases res <;> rfl

/-- A number token followed by something that does not continue it is read whole and handed to
    `num`. -/
theorem decVG_tok_ok (num : Bytes → DRes CVal) (fuel : Nat) (tok rest : Bytes) (hne : tok ≠ [])
    (hall : ∀ d ∈ tok, isNumChar d = true) (hr : NumSafe rest) (v : CVal) (hn : num tok = .ok v) :
    decVG num (fuel + 1) (tok ++ rest) = .ok (v, rest) :=
  decVG_tok_aux num fuel tok rest hne hall hr _ hn

theorem decVG_tok_err (num : Bytes → DRes CVal) (fuel : Nat) (tok rest : Bytes) (hne : tok ≠ [])
    (hall : ∀ d ∈ tok, isNumChar d = true) (hr : NumSafe rest) (e : DErr) (hn : num tok = .error e) :
    decVG num (fuel + 1) (tok ++ rest) = .error e :=
  decVG_tok_aux num fuel tok rest hne hall hr _ hn

theorem decNumTokO_nat (orc : FloatOrc) (n : Nat) (h : n < 18446744073709551616) :
    decNumTokO orc (natDigits n) = .ok (.int n) := by
  have hp := plainDigits_natDigits n
  cases hnd : natDigits n with
  | nil => exact absurd hnd (natDigits_ne_nil n)
  | cons b ds =>
    have hb : isDigit b = true := natDigits_all n b (by rw [hnd]; exact List.mem_cons_self)
    have hb45 : ¬ (b.toNat = 45) := by simp [isDigit] at hb; omega
    rw [hnd] at hp
    have hv : decNat (b :: ds) = n := by rw [← hnd]; exact decNat_natDigits n
    simp [decNumTokO, hb45, hp, hv, h]

theorem decNumTokO_neg (orc : FloatOrc) (n : Nat) (h0 : 0 < n) (h : n ≤ 9223372036854775808) :
    decNumTokO orc (UInt8.ofNat 45 :: natDigits n) = .ok (.int (-(n : Int))) := by
  have hne : ¬ (n = 0) := by omega
  have hemp : (natDigits n).isEmpty = false := by
    cases hnd : natDigits n with
    | nil => exact absurd hnd (natDigits_ne_nil n)
    | cons _ _ => rfl
  simp [decNumTokO, plainDigits_natDigits, decNat_natDigits, h, hne, hemp]

theorem decNumTokO_int (orc : FloatOrc) (i : Int)
    (h0 : -(9223372036854775808 : Int) ≤ i) (h1 : i < (18446744073709551616 : Int)) :
    decNumTokO orc (encInt i) = .ok (.int i) := by
  unfold encInt
  split
  · have := decNumTokO_neg orc (-i).toNat (by omega) (by omega)
    rw [this]; congr 2; omega
  · have := decNumTokO_nat orc i.toNat (by omega)
    rw [this]; congr 2; omega

theorem encInt_numChars (i : Int) : ∀ d ∈ encInt i, isNumChar d = true := by
  unfold encInt
  split
  · intro d hd
    simp at hd
    rcases hd with hd | hd
    · subst hd; decide
    · exact isNumChar_of_digit (natDigits_all _ d hd)
  · intro d hd; exact isNumChar_of_digit (natDigits_all _ d hd)

theorem encInt_ne_nil (i : Int) : encInt i ≠ [] := by
  obtain ⟨b, t, h, _⟩ := encInt_head i
  rw [h]; simp

/-- A token that is not an integer below 2^64 (and has a digit) goes to the float parser. -/
theorem decNumTokO_nonInt (orc : FloatOrc) (tok : Bytes) (h1 : smallIntTok tok = false)
    (h2 : tok.any isDigit = true) : decNumTokO orc tok = parseTok orc tok := by
  cases tok with
  | nil => simp at h2
  | cons b ds =>
    unfold decNumTokO
    by_cases hb : b.toNat = 45
    · have hbd : isDigit b = false := by simp [isDigit, hb]
      have he : ds.isEmpty = false := by
        cases ds with
        | nil => simp [hbd] at h2
        | cons _ _ => rfl
      by_cases hp : plainDigits ds = true
      · have h64 : ¬ decNat ds < 18446744073709551616 := by
          simpa [smallIntTok, hb, hp] using h1
        have e0 : ¬ decNat ds = 0 := by omega
        have e1 : ¬ decNat ds ≤ 9223372036854775808 := by omega
        simp [hb, he, hp, e0, e1, h64]
      · simp [hb, he, hp]
    · by_cases hp : plainDigits (b :: ds) = true
      · have h64 : ¬ decNat (b :: ds) < 18446744073709551616 := by
          simpa [smallIntTok, hb, hp] using h1
        simp [hb, hp, h64]
      · simp [hb, hp]

/-- An integer token below 2^64 never comes back as a float. -/
theorem decNumTokO_smallInt (orc : FloatOrc) (tok : Bytes) (h : smallIntTok tok = true) :
    (∃ i, decNumTokO orc tok = .ok (.int i)) ∨ (∃ e, decNumTokO orc tok = .error e) := by
  cases tok with
  | nil => simp [smallIntTok] at h
  | cons b ds =>
    unfold decNumTokO
    by_cases hb : b.toNat = 45
    · have h' : plainDigits ds = true ∧ decNat ds < 18446744073709551616 := by
        simpa [smallIntTok, hb] using h
      by_cases he : ds.isEmpty = true
      · right; exact ⟨.unsupported, by simp [hb, he]⟩
      · by_cases h0 : decNat ds = 0
        · right; exact ⟨.unsupported, by simp [hb, he, h'.1, h0]⟩
        · by_cases h63 : decNat ds ≤ 9223372036854775808
          · left; exact ⟨-(decNat ds : Int), by simp [hb, he, h'.1, h0, h63]⟩
          · right; exact ⟨.malformed, by simp [hb, he, h'.1, h0, h63, h'.2]⟩
    · have h' : plainDigits (b :: ds) = true ∧ decNat (b :: ds) < 18446744073709551616 := by
        simpa [smallIntTok, hb] using h
      left
      exact ⟨(decNat (b :: ds) : Int), by simp [hb, h'.1, h'.2]⟩

theorem faithfulAt_parts {orc : FloatOrc} {b : UInt64} (h : orc.faithfulAt b = true) :
    (orc.fmt b).any isDigit = true ∧ (∀ d ∈ orc.fmt b, isNumChar d = true)
      ∧ (lossyIntegral b = false → orc.parse (orc.fmt b) = some b)
      ∧ smallIntTok (orc.fmt b) = lossyIntegral b := by
  simp only [FloatOrc.faithfulAt, Bool.and_eq_true, Bool.or_eq_true, beq_iff_eq, List.all_eq_true] at h
  refine ⟨h.1.1.1, h.1.1.2, ?_, h.2⟩
  intro hl
  rcases h.1.2 with h' | h'
  · rw [hl] at h'; cases h'
  · exact h'

theorem fmt_ne_nil {orc : FloatOrc} {b : UInt64} (h : orc.faithfulAt b = true) : orc.fmt b ≠ [] := by
  intro he
  have := (faithfulAt_parts h).1
  rw [he] at this
  simp at this

/-- A float outside `lossyIntegral` is read back as itself. -/
theorem decNumTokO_float (orc : FloatOrc) (b : UInt64) (h : orc.faithfulAt b = true)
    (hl : lossyIntegral b = false) : decNumTokO orc (orc.fmt b) = .ok (.float b) := by
  obtain ⟨h1, _, h3, h4⟩ := faithfulAt_parts h
  rw [decNumTokO_nonInt orc _ (by rw [h4, hl]) h1]
  simp [parseTok, h3 hl]

/-! ### strings, binaries -/

theorem encStrBody_plain : ∀ (s : Bytes), (∀ c ∈ s, B64.plainB c = true) → encStrBody s = s
  | [], _ => rfl
  | c :: r, h => by
      have hc := h c List.mem_cons_self
      have ih := encStrBody_plain r (fun x hx => h x (List.mem_cons_of_mem _ hx))
      have hc' : 0x20 ≤ c.toNat ∧ c.toNat < 0x7f ∧ c.toNat ≠ 0x22 ∧ c.toNat ≠ 0x5c ∧ c.toNat ≠ 0x26
          ∧ c.toNat ≠ 0x3c ∧ c.toNat ≠ 0x3e := by
        simp [B64.plainB] at hc; omega
      have he : escByte c = [c] := by
        unfold escByte
        simp only []
        repeat' split
        all_goals first | rfl | omega
      rw [WpD.encStrBody_cons_ne r (by omega), he, ih]
      rfl

/-- A `[]byte` is written like the string of its base64 text (which needs no escaping). -/
theorem encBin_eq (b : Bytes) : encBin b = encStr (B64.enc b) := by
  unfold encBin encStr
  rw [encStrBody_plain _ (B64.enc_plain b)]

theorem decVG_str (num : Bytes → DRes CVal) (fuel : Nat) (s rest : Bytes) :
    decVG num (fuel + 1) (0x22 :: (encStrBody s ++ 0x22 :: rest)) = .ok (.str s, rest) := by
  simp only [decVG, skipWs_cons (show isWs 0x22 = false by decide)]
  rw [if_neg (by decide), if_neg (by decide), if_pos (by decide)]
  rw [strBody_key s rest _ (by simp; omega)]

theorem decMember_bytes (f : Bytes → DRes (CVal × Bytes)) (seen : List Bytes) (k : Bytes) (vb more : Bytes)
    (v' : CVal) (hs : seen.contains k = false) (hf : f (vb ++ more) = .ok (v', more)) :
    decMember f seen (0x22 :: (encStrBody k ++ 0x22 :: 0x3a :: (vb ++ more))) = .ok ((k, v'), more) := by
  have hk : decMemberKey (0x22 :: (encStrBody k ++ 0x22 :: 0x3a :: (vb ++ more))) = .ok (k, vb ++ more) := by
    simp only [decMemberKey, skipWs_cons (show isWs 0x22 = false by decide)]
    rw [if_pos (by decide)]
    rw [strBody_key k _ _ (by simp; omega)]
    simp only [skipWs_cons (show isWs 0x3a = false by decide)]
    rw [if_pos (by decide)]
  simp only [decMember, hk, hs, hf]
  rfl

/-! ### values -/

/-- An encoded value starts with a byte that is neither whitespace nor a closing bracket. -/
theorem encO_head (orc : FloatOrc) (hF : orc.Faithful) (v : CVal) :
    ∃ b t, encO orc v = b :: t ∧ b.toNat > 0x20 ∧ b.toNat ≠ 0x5d ∧ b.toNat ≠ 0x7d := by
  cases v with
  | null => exact ⟨_, _, rfl, by decide⟩
  | bool b => cases b <;> exact ⟨_, _, rfl, by decide⟩
  | int i =>
    obtain ⟨b, t, h, hb⟩ := encInt_head i
    refine ⟨b, t, by simp [encO, h], ?_⟩
    rcases hb with hb | hb
    · omega
    · simp [isDigit] at hb; omega
  | float f =>
    by_cases hf : isFinite f = true
    · have hfa := hF f hf
      cases hm : orc.fmt f with
      | nil => exact absurd hm (fmt_ne_nil hfa)
      | cons b t =>
        have hb := (faithfulAt_parts hfa).2.1 b (by rw [hm]; exact List.mem_cons_self)
        obtain ⟨h20, _, _, _, _, _, _, h5d, h7d⟩ := isNumChar_head hb
        exact ⟨b, t, by simp [encO, encFloat, hf, hm], h20, h5d, h7d⟩
    · exact ⟨_, _, by simp [encO, encFloat, hf, nullLit]; exact ⟨rfl, rfl⟩, by decide⟩
  | str s => exact ⟨_, _, rfl, by decide⟩
  | bin _ => exact ⟨_, _, rfl, by decide⟩
  | list l => cases l <;> exact ⟨_, _, rfl, by decide⟩
  | dict d =>
    cases d with
    | nil => exact ⟨_, _, rfl, by decide⟩
    | cons kv r => obtain ⟨k, v⟩ := kv; exact ⟨_, _, rfl, by decide⟩

theorem numSafe_encTailO (orc : FloatOrc) (vs : List CVal) (rest : Bytes) : NumSafe (encTailO orc vs ++ rest) := by
  cases vs <;> exact numSafe_cons (by decide) _

theorem numSafe_encMembersO (orc : FloatOrc) (d : List (Bytes × CVal)) (rest : Bytes) :
    NumSafe (encMembersO orc d ++ rest) := by
  cases d with
  | nil => exact numSafe_cons (by decide) _
  | cons kv r => obtain ⟨k, v⟩ := kv; exact numSafe_cons (by decide) _

theorem encTailO_length (orc : FloatOrc) (vs : List CVal) : vs.length < (encTailO orc vs).length := by
  induction vs with
  | nil => simp [encTailO]
  | cons v vs ih => simp [encTailO]; omega

theorem encMembersO_length (orc : FloatOrc) (d : List (Bytes × CVal)) : d.length < (encMembersO orc d).length := by
  induction d with
  | nil => simp [encMembersO]
  | cons kv r ih => obtain ⟨k, v⟩ := kv; simp [encMembersO]; omega

mutual
  /-- Decoding what `encO` wrote gives the value back, binaries as base64 strings. -/
  theorem decVG_encO (orc : FloatOrc) (hF : orc.Faithful) : ∀ (v : CVal) (fuel : Nat) (rest : Bytes),
      okFB v = true → depth v < fuel → NumSafe rest →
      decVG (decNumTokO orc) fuel (encO orc v ++ rest) = .ok (binView v, rest)
    | .null, fuel, rest, _, hd, _ => by
        cases fuel with
        | zero => simp [depth] at hd
        | succ fuel => simp [encO, decVG, skipWs, isWs, lit, binView]
    | .bool b, fuel, rest, _, hd, _ => by
        cases fuel with
        | zero => simp [depth] at hd
        | succ fuel => cases b <;> simp [encO, decVG, skipWs, isWs, lit, binView]
    | .int i, fuel, rest, hv, hd, hr => by
        cases fuel with
        | zero => simp [depth] at hd
        | succ fuel =>
          simp [okFB] at hv
          simp only [encO, binView]
          exact decVG_tok_ok _ fuel _ rest (encInt_ne_nil i) (encInt_numChars i) hr _
            (decNumTokO_int orc i hv.1 hv.2)
    | .float b, fuel, rest, hv, hd, hr => by
        cases fuel with
        | zero => simp [depth] at hd
        | succ fuel =>
          simp [okFB] at hv
          have hfa := hF b hv.1
          simp only [encO, encFloat, hv.1, if_true, binView]
          exact decVG_tok_ok _ fuel _ rest (fmt_ne_nil hfa) (faithfulAt_parts hfa).2.1 hr _
            (decNumTokO_float orc b hfa hv.2)
    | .bin b, fuel, rest, _, hd, _ => by
        cases fuel with
        | zero => simp [depth] at hd
        | succ fuel =>
          simp only [encO, encBin_eq, encStr, binView, List.cons_append, List.append_assoc, List.nil_append]
          exact decVG_str _ fuel _ rest
    | .str s, fuel, rest, _, hd, _ => by
        cases fuel with
        | zero => simp [depth] at hd
        | succ fuel =>
          simp only [encO, encStr, binView, List.cons_append, List.append_assoc, List.nil_append]
          exact decVG_str _ fuel s rest
    | .list [], fuel, rest, _, hd, _ => by
        cases fuel with
        | zero => simp [depth] at hd
        | succ fuel => simp [encO, decVG, skipWs, isWs, binView, binViewList]
    | .list (v :: vs), fuel, rest, hv, hd, _ => by
        cases fuel with
        | zero => simp [depth] at hd
        | succ fuel =>
          simp [okFB, okFListB] at hv
          simp [depth, depthList] at hd
          obtain ⟨b, t, hbt, hb32, hb5d, _⟩ := encO_head orc hF v
          have h1 := decVG_encO orc hF v fuel (encTailO orc vs ++ rest) hv.1 (by omega) (numSafe_encTailO orc vs rest)
          have h2 := fun lf hl => decTail_encO orc hF vs fuel lf rest hv.2 (by omega) hl
          have hlen := encTailO_length orc vs
          rw [hbt] at h1
          simp only [encO, List.cons_append, List.append_assoc, hbt, binView, binViewList]
          simp only [decVG, skipWs_cons (show isWs 0x5b = false by decide), skipWs_cons (isWs_false hb32)]
          simp only [List.cons_append] at h1
          rw [if_pos (by decide), if_neg hb5d, h1]
          simp only []
          rw [h2 _ (by simp; omega)]
    | .dict [], fuel, rest, _, hd, _ => by
        cases fuel with
        | zero => simp [depth] at hd
        | succ fuel => simp [encO, decVG, skipWs, isWs, binView, binViewDict]
    | .dict ((k, v) :: r), fuel, rest, hv, hd, _ => by
        cases fuel with
        | zero => simp [depth] at hd
        | succ fuel =>
          simp [okFB, okFDictB, noDupFrom] at hv
          simp [depth, depthDict] at hd
          have h1 := decVG_encO orc hF v fuel (encMembersO orc r ++ rest) hv.2.1.2 (by omega)
            (numSafe_encMembersO orc r rest)
          have hm := decMember_bytes (decVG (decNumTokO orc) fuel) [] k (encO orc v) (encMembersO orc r ++ rest) _
            (by simp) h1
          have h2 := fun lf hl => decMembers_encO orc hF r [k] fuel lf rest hv.2.2 hv.1 (by omega) hl
          have hlen := encMembersO_length orc r
          simp only [encO, encStr, List.cons_append, List.append_assoc, List.nil_append, binView, binViewDict]
          simp only [decVG, skipWs_cons (show isWs 0x7b = false by decide), skipWs_cons (show isWs 0x22 = false by decide)]
          rw [if_neg (by decide), if_pos (by decide), if_neg (by decide), hm]
          simp only []
          rw [h2 _ (by simp; omega)]
  theorem decTail_encO (orc : FloatOrc) (hF : orc.Faithful) : ∀ (vs : List CVal) (fuel lf : Nat) (rest : Bytes),
      okFListB vs = true → depthList vs < fuel → vs.length < lf →
      decTail (decVG (decNumTokO orc) fuel) lf (encTailO orc vs ++ rest) = .ok (binViewList vs, rest)
    | [], _, lf, rest, _, _, hl => by
        cases lf with
        | zero => simp at hl
        | succ lf => simp [encTailO, decTail, skipWs, isWs, binViewList]
    | v :: vs, fuel, lf, rest, hv, hd, hl => by
        cases lf with
        | zero => simp at hl
        | succ lf =>
          simp [okFListB] at hv
          simp [depthList] at hd
          have h1 := decVG_encO orc hF v fuel (encTailO orc vs ++ rest) hv.1 (by omega) (numSafe_encTailO orc vs rest)
          have h2 := decTail_encO orc hF vs fuel lf rest hv.2 (by omega) (by simp at hl; omega)
          simp only [encTailO, List.cons_append, List.append_assoc, binViewList]
          simp only [decTail, skipWs_cons (show isWs 0x2c = false by decide)]
          simp [h1, h2]
  theorem decMembers_encO (orc : FloatOrc) (hF : orc.Faithful) : ∀ (d : List (Bytes × CVal)) (seen : List Bytes)
      (fuel lf : Nat) (rest : Bytes), okFDictB d = true → noDupFrom seen d = true →
      depthDict d < fuel → d.length < lf →
      decMembers (decVG (decNumTokO orc) fuel) lf seen (encMembersO orc d ++ rest) = .ok (binViewDict d, rest)
    | [], _, _, lf, rest, _, _, _, hl => by
        cases lf with
        | zero => simp at hl
        | succ lf => simp [encMembersO, decMembers, skipWs, isWs, binViewDict]
    | (k, v) :: r, seen, fuel, lf, rest, hv, hn, hd, hl => by
        cases lf with
        | zero => simp at hl
        | succ lf =>
          simp [okFDictB] at hv
          simp [noDupFrom] at hn
          simp [depthDict] at hd
          have h1 := decVG_encO orc hF v fuel (encMembersO orc r ++ rest) hv.1.2 (by omega)
            (numSafe_encMembersO orc r rest)
          have hm := decMember_bytes (decVG (decNumTokO orc) fuel) seen k (encO orc v) (encMembersO orc r ++ rest) _
            (by simpa using hn.1) h1
          have h2 := decMembers_encO orc hF r (k :: seen) fuel lf rest hv.2 hn.2 (by omega) (by simp at hl; omega)
          simp only [encMembersO, encStr, List.cons_append, List.append_assoc, List.nil_append, binViewDict]
          simp only [decMembers, skipWs_cons (show isWs 0x2c = false by decide)]
          rw [if_neg (by decide), if_pos (by decide), hm]
          simp only []
          rw [h2]
end

mutual
  theorem depth_leO (orc : FloatOrc) : ∀ (v : CVal), depth v ≤ (encO orc v).length
    | .null => by simp [depth]
    | .bool _ => by simp [depth]
    | .int _ => by simp [depth]
    | .float _ => by simp [depth]
    | .str _ => by simp [depth]
    | .bin _ => by simp [depth]
    | .list [] => by simp [depth, depthList, encO]
    | .list (v :: vs) => by
        have := depth_leO orc v; have := depthTail_leO orc vs
        simp [depth, depthList, encO]; omega
    | .dict [] => by simp [depth, depthDict, encO]
    | .dict ((k, v) :: r) => by
        have := depth_leO orc v; have := depthMembers_leO orc r
        simp [depth, depthDict, encO]; omega
  theorem depthTail_leO (orc : FloatOrc) : ∀ (l : List CVal), depthList l ≤ (encTailO orc l).length
    | [] => by simp [depthList]
    | v :: vs => by
        have := depth_leO orc v; have := depthTail_leO orc vs
        simp [depthList, encTailO]; omega
  theorem depthMembers_leO (orc : FloatOrc) : ∀ (d : List (Bytes × CVal)), depthDict d ≤ (encMembersO orc d).length
    | [] => by simp [depthDict]
    | (k, v) :: r => by
        have := depth_leO orc v; have := depthMembers_leO orc r
        simp [depthDict, encMembersO]; omega
end

/-- **JSON round trip with floats and binaries** under the oracle hypotheses: what comes back is
    the value with every `[]byte` replaced by the string of its base64 text. -/
theorem decO_encO (orc : FloatOrc) (hF : orc.Faithful) (v : CVal) (rest : Bytes) (hv : okFB v = true)
    (hr : NumSafe rest) : decO orc (encO orc v ++ rest) = .ok (binView v, rest) := by
  unfold decO
  apply decVG_encO orc hF v _ rest hv _ hr
  have := depth_leO orc v
  simp; omega

mutual
  theorem binView_noBin : ∀ (v : CVal), noBinB v = true → binView v = v
    | .null, _ => rfl
    | .bool _, _ => rfl
    | .int _, _ => rfl
    | .float _, _ => rfl
    | .str _, _ => rfl
    | .bin _, h => by simp [noBinB] at h
    | .list l, h => by simp [noBinB] at h; simp [binView, binViewList_noBin l h]
    | .dict d, h => by simp [noBinB] at h; simp [binView, binViewDict_noBin d h]
  theorem binViewList_noBin : ∀ (l : List CVal), noBinListB l = true → binViewList l = l
    | [], _ => rfl
    | v :: vs, h => by
        simp [noBinListB] at h
        simp [binViewList, binView_noBin v h.1, binViewList_noBin vs h.2]
  theorem binViewDict_noBin : ∀ (d : List (Bytes × CVal)), noBinDictB d = true → binViewDict d = d
    | [], _ => rfl
    | (k, v) :: r, h => by
        simp [noBinDictB] at h
        simp [binViewDict, binView_noBin v h.1, binViewDict_noBin r h.2]
end

/-! ### the lossy floats -/

/-- NaN and ±Inf are written `null` and come back as nil, whatever the oracle. -/
theorem decO_encO_nonFinite (orc : FloatOrc) (b : UInt64) (hb : isFinite b = false) (rest : Bytes) :
    encO orc (.float b) = nullLit ∧ decO orc (encO orc (.float b) ++ rest) = .ok (.null, rest) := by
  have h : encO orc (.float b) = nullLit := by simp [encO, encFloat, hb]
  refine ⟨h, ?_⟩
  rw [h]
  simp [decO, nullLit, decVG, skipWs, isWs, lit]

/-- An integral float with 2^52 ≤ |f| < 2^64 never comes back as a float: it is printed as an
    integer token, which is read as an integer, or refused (negative beyond -2^63). -/
theorem decO_encO_lossyIntegral (orc : FloatOrc) (hF : orc.Faithful) (b : UInt64) (hb : isFinite b = true)
    (hl : lossyIntegral b = true) (rest : Bytes) (hr : NumSafe rest) :
    (∃ i, decO orc (encO orc (.float b) ++ rest) = .ok (.int i, rest))
      ∨ (∃ e, decO orc (encO orc (.float b) ++ rest) = .error e) := by
  have hfa := hF b hb
  obtain ⟨_, hall, _, h4⟩ := faithfulAt_parts hfa
  have henc : encO orc (.float b) = orc.fmt b := by simp [encO, encFloat, hb]
  rw [henc]
  unfold decO
  rcases decNumTokO_smallInt orc (orc.fmt b) (by rw [h4, hl]) with ⟨i, hi⟩ | ⟨e, he⟩
  · left; exact ⟨i, decVG_tok_ok _ _ _ rest (fmt_ne_nil hfa) hall hr _ hi⟩
  · right; exact ⟨e, decVG_tok_err _ _ _ rest (fmt_ne_nil hfa) hall hr _ he⟩

/-! ### `encO` extends `enc` -/

mutual
  /-- On the old fragment (no float, no binary) the oracle plays no role: `encO` is `enc`. -/
  theorem encO_eq_enc_of_okB (orc : FloatOrc) : ∀ (v : CVal), okB v = true → encO orc v = enc v
    | .null, _ => rfl
    | .bool true, _ => rfl
    | .bool false, _ => rfl
    | .int _, _ => rfl
    | .float _, h => by simp [okB] at h
    | .str _, _ => rfl
    | .bin _, h => by simp [okB] at h
    | .list [], _ => rfl
    | .list (v :: vs), h => by
        simp [okB, okListB] at h
        simp [encO, enc, encO_eq_enc_of_okB orc v h.1, encTailO_eq orc vs h.2]
    | .dict [], _ => rfl
    | .dict ((k, v) :: r), h => by
        simp [okB, okDictB] at h
        simp [encO, enc, encO_eq_enc_of_okB orc v h.2.1.2, encMembersO_eq orc r h.2.2]
  theorem encTailO_eq (orc : FloatOrc) : ∀ (vs : List CVal), okListB vs = true → encTailO orc vs = encTail vs
    | [], _ => rfl
    | v :: vs, h => by
        simp [okListB] at h
        simp [encTailO, encTail, encO_eq_enc_of_okB orc v h.1, encTailO_eq orc vs h.2]
  theorem encMembersO_eq (orc : FloatOrc) : ∀ (d : List (Bytes × CVal)), okDictB d = true →
      encMembersO orc d = encMembers d
    | [], _ => rfl
    | (k, v) :: r, h => by
        simp [okDictB] at h
        simp [encMembersO, encMembers, encO_eq_enc_of_okB orc v h.1.2, encMembersO_eq orc r h.2]
end

/-! ### the hypotheses are satisfiable -/

/-- A toy oracle that satisfies `Faithful` (not Go's printing: `0.<bit pattern in decimal>` for
    the floats that must come back, the truncated integer value for the `lossyIntegral` ones). -/
def toyOrc : FloatOrc where
  fmt b :=
    if lossyIntegral b then
      (if b.toNat < 2 ^ 63 then [] else [UInt8.ofNat 45]) ++ natDigits (((f64Trunc b).getD 0).natAbs % 2 ^ 64)
    else 48 :: 46 :: natDigits b.toNat
  parse tok :=
    match tok with
    | 48 :: 46 :: ds => some (UInt64.ofNat (decNat ds))
    | _ => none

theorem natDigits_any (n : Nat) : (natDigits n).any isDigit = true := by
  cases h : natDigits n with
  | nil => exact absurd h (natDigits_ne_nil n)
  | cons d t =>
    have := natDigits_all n d (by rw [h]; exact List.mem_cons_self)
    simp [this]

theorem toyOrc_faithful : toyOrc.Faithful := by
  intro b _
  unfold FloatOrc.faithfulAt
  by_cases hl : lossyIntegral b = true
  · have hfmt : toyOrc.fmt b = (if b.toNat < 2 ^ 63 then [] else [UInt8.ofNat 45])
        ++ natDigits (((f64Trunc b).getD 0).natAbs % 2 ^ 64) := by simp [toyOrc, hl]
    have hlt : ((f64Trunc b).getD 0).natAbs % 2 ^ 64 < 18446744073709551616 := Nat.mod_lt _ (by decide)
    rw [hfmt, hl]
    by_cases hs : b.toNat < 2 ^ 63
    · simp only [hs, if_true, List.nil_append, Bool.true_or, Bool.and_true]
      have hall : (natDigits (((f64Trunc b).getD 0).natAbs % 2 ^ 64)).all isNumChar = true :=
        List.all_eq_true.mpr fun d hd => isNumChar_of_digit (natDigits_all _ d hd)
      have hsm : smallIntTok (natDigits (((f64Trunc b).getD 0).natAbs % 2 ^ 64)) = true := by
        cases hnd : natDigits (((f64Trunc b).getD 0).natAbs % 2 ^ 64) with
        | nil => exact absurd hnd (natDigits_ne_nil _)
        | cons d t =>
          have hd : isDigit d = true := natDigits_all _ d (by rw [hnd]; exact List.mem_cons_self)
          have hd45 : (d.toNat == 45) = false := by simp [isDigit] at hd; simp; omega
          have hp := plainDigits_natDigits (((f64Trunc b).getD 0).natAbs % 2 ^ 64)
          have hv := decNat_natDigits (((f64Trunc b).getD 0).natAbs % 2 ^ 64)
          rw [hnd] at hp hv
          simp [smallIntTok, hd45, hp, hv, hlt]
      simp [natDigits_any, hall, hsm]
    · simp only [hs, if_false, Bool.true_or, Bool.and_true]
      have hall : ([UInt8.ofNat 45] ++ natDigits (((f64Trunc b).getD 0).natAbs % 2 ^ 64)).all isNumChar = true := by
        apply List.all_eq_true.mpr
        intro d hd
        simp at hd
        rcases hd with hd | hd
        · subst hd; decide
        · exact isNumChar_of_digit (natDigits_all _ d hd)
      have hsm : smallIntTok ([UInt8.ofNat 45] ++ natDigits (((f64Trunc b).getD 0).natAbs % 2 ^ 64)) = true := by
        simp [smallIntTok, plainDigits_natDigits, decNat_natDigits, hlt]
      have hany : ([UInt8.ofNat 45] ++ natDigits (((f64Trunc b).getD 0).natAbs % 2 ^ 64)).any isDigit = true := by
        rw [List.any_append, natDigits_any]; simp
      rw [hany, hall, hsm]
      rfl
  · have hl' : lossyIntegral b = false := by simpa using hl
    have hfmt : toyOrc.fmt b = 48 :: 46 :: natDigits b.toNat := by simp [toyOrc, hl']
    have hparse : toyOrc.parse (48 :: 46 :: natDigits b.toNat) = some b := by
      simp [toyOrc, decNat_natDigits]
    have hall : (48 :: 46 :: natDigits b.toNat).all isNumChar = true := by
      apply List.all_eq_true.mpr
      intro d hd
      simp at hd
      rcases hd with hd | hd | hd
      · subst hd; decide
      · subst hd; decide
      · exact isNumChar_of_digit (natDigits_all _ d hd)
    have hsm : smallIntTok (48 :: 46 :: natDigits b.toNat) = false := by
      simp [smallIntTok, plainDigits, isDigit]
    rw [hfmt, hl', hparse, hsm]
    simp [hall, isDigit]

end Nexus.Codec.Json
