/-
  Nesting depth (audit D, C14 c2).

  ugorji/go/codec v1.3.1 counts the containers (arrays and maps) it is inside of while DECODING and
  gives up with "maximum decoding depth exceeded" when the counter reaches `decDefMaxDepth = 1024`
  (decode.base.go:92, `depthIncr` :729-733: `d.depth++; if d.depth >= d.maxdepth { halt… }`; the
  repo's handles leave `MaxDepth` at 0, so the default applies; the error is returned by
  `Deserialize`, it is not a panic).  The ENCODER has no such limit.  Replayed on the real
  serializers: a PUBLISH whose `Arguments` hold 1021 nested lists (1023 containers with the message
  list and the argument list) comes back from all three formats; with 1022 (1024 containers) all
  three serialize it and none deserializes it.

  The decoders of the model (`MsgPack.dec`, `CBOR.dec`, `Json.dec`) have no depth limit.
  `Wire.deserializeCapped` puts the codec's limit on top of them, and the round-trip theorems are
  restated for it: they hold exactly for values nested less than 1024 deep.
-/
import Nexus.Props.C14

namespace Nexus.Codec

-- `Nexus.Codec.depth` (BytesLemmas.lean): number of containers (lists, dicts) on the deepest path

/-- `decDefMaxDepth` of ugorji/go/codec (decode.base.go:92) -/
def maxDepth : Nat := 1024

/-- `n` lists around `v` -/
def nest : Nat → CVal → CVal
  | 0, v => v
  | n + 1, v => .list [nest n v]

theorem depth_nest (n : Nat) (v : CVal) : depth (nest n v) = n + depth v := by
  induction n with
  | zero => simp [nest]
  | succ n ih =>
    simp only [nest, depth, depthList, ih]
    omega

namespace Wire

/-- `Deserialize` with the codec's depth limit: a value whose decoding would enter 1024 nested
    containers is refused with the codec's error. -/
def deserializeCapped (fmt : Format) (b : Bytes) : DRes (Res Msg) :=
  match decode fmt b with
  | .ok (v, _) => if depth v < maxDepth then deserialize fmt b else .error .malformed
  | .error e => .error e

end Wire
end Nexus.Codec

namespace Nexus.C14
open Nexus.Codec

/-- Below the limit the capped `Deserialize` is the `Deserialize` of the other theorems. -/
theorem C14_deserialize_capped_eq (fmt : Format) (b : Bytes) (v : CVal) (rest : Bytes)
    (hd : Wire.decode fmt b = .ok (v, rest)) (h : depth v < maxDepth) :
    Wire.deserializeCapped fmt b = Wire.deserialize fmt b := by
  unfold Wire.deserializeCapped
  rw [hd]
  simp [h]

/-- At or above it the codec's error is the answer, whatever the value is. -/
theorem C14_deserialize_capped_deep (fmt : Format) (b : Bytes) (v : CVal) (rest : Bytes)
    (hd : Wire.decode fmt b = .ok (v, rest)) (h : maxDepth ≤ depth v) :
    Wire.deserializeCapped fmt b = .error .malformed := by
  unfold Wire.deserializeCapped
  rw [hd]
  simp [Nat.not_lt.mpr h]

/-- The capped `Deserialize` never panics either. -/
theorem C14_deserialize_capped_no_panic (fmt : Format) (b : Bytes) (r : Res Msg)
    (h : Wire.deserializeCapped fmt b = .ok r) : r.isPanic = false := by
  unfold Wire.deserializeCapped at h
  split at h
  · split at h
    · exact C14_deserialize_no_panic fmt b r h
    · cases h
  · cases h

/-- **Message round trip with the codec's depth limit** (`C14_wire_roundtrip` restated for
    `deserializeCapped`): for every well-typed message whose emitted list is encodable and nested
    LESS THAN 1024 containers deep (the message list and the `Arguments` / `ArgumentsKw` / details
    containers count), `Deserialize(Serialize(m)) = norm m` in all three formats. -/
theorem C14_wire_roundtrip_capped (m : Msg) (h : WellTyped m) :
    ∃ l, msgToList m = .ok l
      ∧ (validB MsgPack.maxLen (.list l) = true → depth (CVal.list l) < maxDepth →
          Wire.deserializeCapped .msgpack (MsgPack.enc (.list l)) = .ok (.ok (norm m)))
      ∧ (validB CBOR.maxLen (.list l) = true → depth (CVal.list l) < maxDepth →
          Wire.deserializeCapped .cbor (CBOR.enc (.list l)) = .ok (.ok (norm m)))
      ∧ (Json.okB (.list l) = true → depth (CVal.list l) < maxDepth →
          Wire.deserializeCapped .json (Json.enc (.list l)) = .ok (.ok (norm m))) := by
  obtain ⟨l, h1, hm, hc, hj⟩ := C14_wire_roundtrip m h
  refine ⟨l, h1, fun hv hd => ?_, fun hv hd => ?_, fun hv hd => ?_⟩
  · have := MsgPack.dec_enc (.list l) [] hv
    simp only [List.append_nil] at this
    rw [C14_deserialize_capped_eq .msgpack _ (.list l) [] this hd]
    exact hm hv
  · have := CBOR.dec_enc (.list l) [] hv
    simp only [List.append_nil] at this
    rw [C14_deserialize_capped_eq .cbor _ (.list l) [] this hd]
    exact hc hv
  · have := Json.dec_enc (.list l) [] hv Json.numSafe_nil
    simp only [List.append_nil] at this
    rw [C14_deserialize_capped_eq .json _ (.list l) [] this hd]
    exact hj hv

/-- the literal reading of "serializers round-trip" for the capped (= real) decoder, without the
    depth condition -/
def C14_wire_roundtrip_anydepth : Prop :=
  ∀ (l : List CVal), validB MsgPack.maxLen (.list l) = true →
    ∃ r, Wire.deserializeCapped .msgpack (MsgPack.enc (.list l)) = .ok r

/-- **… and it FAILS at depth 1024** (true of the Go code: FINDING-grade observation, all three
    serializers): every encodable list nested 1024 or more containers deep is serialized — the
    encoder has no limit — and then refused by `Deserialize` of the same serializer with "maximum
    decoding depth exceeded".  Concretely `[16,1,{},"t",[ [[…1022 lists…]] ]]`. -/
theorem C14_deep_value_not_deserialized (l : List CVal) (hd : maxDepth ≤ depth (CVal.list l)) :
    (validB MsgPack.maxLen (.list l) = true →
      Wire.deserializeCapped .msgpack (MsgPack.enc (.list l)) = .error .malformed) ∧
    (validB CBOR.maxLen (.list l) = true →
      Wire.deserializeCapped .cbor (CBOR.enc (.list l)) = .error .malformed) ∧
    (Json.okB (.list l) = true →
      Wire.deserializeCapped .json (Json.enc (.list l)) = .error .malformed) := by
  refine ⟨fun hv => ?_, fun hv => ?_, fun hv => ?_⟩
  · have := MsgPack.dec_enc (.list l) [] hv
    simp only [List.append_nil] at this
    exact C14_deserialize_capped_deep .msgpack _ _ _ this hd
  · have := CBOR.dec_enc (.list l) [] hv
    simp only [List.append_nil] at this
    exact C14_deserialize_capped_deep .cbor _ _ _ this hd
  · have := Json.dec_enc (.list l) [] hv Json.numSafe_nil
    simp only [List.append_nil] at this
    exact C14_deserialize_capped_deep .json _ _ _ this hd

/-- the deep PUBLISH of the replay: `[16, 1, {}, "t", [nest 1022 []]]` -/
def deepPublish : List CVal := [.int 16, .int 1, .dict [], .str [0x74], .list [nest 1022 (.list [])]]

-- non-vacuity of `C14_deep_value_not_deserialized`: the deep PUBLISH is 1025 containers deep
theorem deepPublish_depth : depth (CVal.list deepPublish) = 1025 := by
  simp only [deepPublish, depth, depthList, depthDict, depth_nest]
  decide


theorem validB_nest (L : Nat) (hL : 1 < L) (n : Nat) (v : CVal) : validB L (nest n v) = validB L v := by
  induction n with
  | zero => rfl
  | succ n ih => simp [nest, validB, validListB, ih, hL]

/-- `_fails`: the deep PUBLISH is encodable and is not deserialized. -/
theorem C14_wire_roundtrip_anydepth_fails : ¬ C14_wire_roundtrip_anydepth := by
  intro h
  have hv : validB MsgPack.maxLen (.list deepPublish) = true := by
    simp only [deepPublish, validB, validListB, validDictB, validB_nest MsgPack.maxLen (by decide)]
    decide
  obtain ⟨r, hr⟩ := h deepPublish hv
  have hd : maxDepth ≤ depth (CVal.list deepPublish) := by rw [deepPublish_depth]; decide
  rw [(C14_deep_value_not_deserialized deepPublish hd).1 hv] at hr
  cases hr

end Nexus.C14
