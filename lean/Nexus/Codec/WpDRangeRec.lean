/-
  Decoder range lemma, recursive version (audit item C14-a6, finishing `WpDRange.lean`): every
  integer ANYWHERE inside a value returned by `MsgPack.dec` or `CBOR.dec` — at any nesting depth,
  in lists and as dict values — is one Go can hold, `int64 ∪ uint64` (`IntRange`).  So no decoded
  payload contains a `CVal.int` outside `CVal.intInRange`, whatever the bytes were: the
  conversions of `Msg.lean` that wrap (`wrapI64`) never see an out-of-range input that came off
  the wire in a binary format.

  `CVal.ints v` lists the integers of `v`; `MsgPack.dec_ints_range`, `CBOR.dec_ints_range`.
-/
import Nexus.Codec.WpDTotal

namespace Nexus.Codec

mutual
  /-- All integers occurring in a value, left to right. -/
  def CVal.ints : CVal → List Int
    | .int i => [i]
    | .list l => CVal.intsList l
    | .dict d => CVal.intsDict d
    | _ => []
  def CVal.intsList : List CVal → List Int
    | [] => []
    | v :: vs => CVal.ints v ++ CVal.intsList vs
  def CVal.intsDict : List (Bytes × CVal) → List Int
    | [] => []
    | (_, v) :: r => CVal.ints v ++ CVal.intsDict r
end

/-- Every integer inside `v` is in `int64 ∪ uint64`. -/
def IntsInRange (v : CVal) : Prop := ∀ i ∈ v.ints, IntRange i

namespace WpD

theorem ints_null : CVal.ints .null = [] := by simp [CVal.ints]
theorem ints_bool (b : Bool) : CVal.ints (.bool b) = [] := by simp [CVal.ints]
theorem ints_float (b : UInt64) : CVal.ints (.float b) = [] := by simp [CVal.ints]
theorem ints_str (s : Bytes) : CVal.ints (.str s) = [] := by simp [CVal.ints]
theorem ints_bin (s : Bytes) : CVal.ints (.bin s) = [] := by simp [CVal.ints]

theorem inRange_of_nil {v : CVal} (h : v.ints = []) : IntsInRange v := by
  intro i hi; rw [h] at hi; cases hi

theorem inRange_int {i : Int} (h : IntRange i) : IntsInRange (.int i) := by
  intro j hj
  simp [CVal.ints] at hj
  subst hj; exact h

/-- `f` returns only values whose integers are all in range. -/
def RangeOk (f : Bytes → DRes (CVal × Bytes)) : Prop := ∀ bs v r, f bs = .ok (v, r) → IntsInRange v

theorem decItems_ints {f : Bytes → DRes (CVal × Bytes)} (hf : RangeOk f) :
    ∀ (n : Nat) (bs : Bytes) (vs : List CVal) (r : Bytes), decItems f n bs = .ok (vs, r) →
      IntsInRange (.list vs)
  | 0, bs, vs, r, h => by
      simp [decItems] at h
      rw [h.1]; exact inRange_of_nil (by simp [CVal.ints, CVal.intsList])
  | n + 1, bs, vs, r, h => by
      unfold decItems at h
      split at h
      · cases h
      · rename_i v r1 h1
        split at h
        · cases h
        · rename_i vs' r2 h2
          cases h
          have a := hf _ _ _ h1
          have b := decItems_ints hf n _ _ _ h2
          intro i hi
          simp only [CVal.ints, CVal.intsList, List.mem_append] at hi
          rcases hi with hi | hi
          · exact a i hi
          · exact b i (by simpa [CVal.ints] using hi)

theorem decPairs_ints {k : Bytes → DRes (Bytes × Bytes)} {f : Bytes → DRes (CVal × Bytes)} (hf : RangeOk f) :
    ∀ (n : Nat) (seen : List Bytes) (bs : Bytes) (ps : List (Bytes × CVal)) (r : Bytes),
      decPairs k f n seen bs = .ok (ps, r) → IntsInRange (.dict ps)
  | 0, seen, bs, ps, r, h => by
      simp [decPairs] at h
      rw [h.1]; exact inRange_of_nil (by simp [CVal.ints, CVal.intsDict])
  | n + 1, seen, bs, ps, r, h => by
      unfold decPairs at h
      split at h
      · cases h
      · rename_i key r0 h0
        split at h
        · cases h
        · split at h
          · cases h
          · rename_i v r1 h1
            split at h
            · cases h
            · rename_i ps' r2 h2
              cases h
              have a := hf _ _ _ h1
              have b := decPairs_ints hf n _ _ _ _ h2
              intro i hi
              simp only [CVal.ints, CVal.intsDict, List.mem_append] at hi
              rcases hi with hi | hi
              · exact a i hi
              · exact b i (by simpa [CVal.ints] using hi)

end WpD

/-! ### MessagePack -/

namespace MsgPack

open WpD

theorem mapV_ints_of {α} {f : α → CVal} {x : DRes (α × Bytes)} {v : CVal} {r : Bytes}
    (h : mapV f x = .ok (v, r)) (hf : ∀ a, x = .ok (a, r) → IntsInRange (f a)) : IntsInRange v := by
  obtain ⟨a, ha, hb⟩ := mapV_ok h
  rw [hb]; exact hf a ha

theorem hdr_ints {k : Nat} {rest : Bytes} {g : Nat → Bytes → DRes (CVal × Bytes)} {v : CVal} {r : Bytes}
    (h : (match readBE k rest with
          | .ok (n, r) => g n r
          | .error e => .error e) = .ok (v, r))
    (hg : ∀ n r', g n r' = .ok (v, r) → IntsInRange v) : IntsInRange v := by
  split at h
  · exact hg _ _ h
  · cases h

/-- Every value `decF` returns has all its integers in range. -/
theorem decF_ints : ∀ (fuel : Nat), RangeOk (decF fuel)
  | 0 => by intro bs v r h; cases h
  | fuel + 1 => by
    have ih := decF_ints fuel
    intro bs v r h
    cases bs with
    | nil => cases h
    | cons b rest =>
      cases hc : classify b.toNat with
      | posfix n =>
        simp only [decF, hc] at h; cases h
        have := classify_posfix_inv hc
        exact inRange_int (by unfold IntRange; omega)
      | negfix n =>
        simp only [decF, hc] at h; cases h
        have := classify_negfix_inv hc
        have := b.toNat_lt
        exact inRange_int (by unfold IntRange; omega)
      | fixstr n =>
        simp only [decF, hc] at h
        exact mapV_ints_of h (fun a _ => inRange_of_nil (ints_str a))
      | fixarr n =>
        simp only [decF, hc] at h
        exact mapV_ints_of h (fun a ha => decItems_ints ih _ _ _ _ ha)
      | fixmap n =>
        simp only [decF, hc] at h
        exact mapV_ints_of h (fun a ha => decPairs_ints ih _ _ _ _ _ ha)
      | tag t =>
        obtain ⟨rfl, h1, h2⟩ := classify_tag_inv hc
        rcases tag_cases h1 h2 with hb | hb | hb | hb | hb | hb | hb | hb | hb | hb | hb | hb | hb |
          hb | hb | hb | hb | hb | hb | hb | hb | hb | hb | hb | hb | hb | hb | hb | hb | hb | hb | hb
        all_goals
          rw [hb] at hc
          simp only [decF, hb, hc] at h
          first
            | (cases h; first
                | exact inRange_of_nil ints_null
                | exact inRange_of_nil (ints_bool _))
            | exact mapV_ints_of h (fun a _ => inRange_of_nil (ints_str a))
            | exact mapV_ints_of h (fun a _ => inRange_of_nil (ints_bin a))
            | exact mapV_ints_of h (fun a _ => inRange_of_nil (ints_float _))
            | exact mapV_ints_of h (fun a ha => inRange_int (nat_range_of_readBE ha (by decide)))
            | exact mapV_ints_of h (fun a ha => inRange_int (toSigned_range_of_readBE ha (by decide)))
            | exact hdr_ints h (fun n r' h' =>
                mapV_ints_of h' (fun a ha => decItems_ints ih _ _ _ _ ha))
            | exact hdr_ints h (fun n r' h' =>
                mapV_ints_of h' (fun a ha => decPairs_ints ih _ _ _ _ _ ha))
            | cases h

/-- **Every integer inside a MessagePack-decoded value is an `int64` or a `uint64`**, at any
    depth, whatever the bytes. -/
theorem dec_ints_range {bs : Bytes} {v : CVal} {rest : Bytes} (h : dec bs = .ok (v, rest)) :
    IntsInRange v :=
  decF_ints _ bs v rest h

/-- Satisfiable: `92 cf ff×8 81 a1 61 d3 80 00×7` = [2^64-1, {"a": -2^63}], both extremes, nested. -/
example : dec [0x92, 0xcf, 0xff, 0xff, 0xff, 0xff, 0xff, 0xff, 0xff, 0xff,
               0x81, 0xa1, 0x61, 0xd3, 0x80, 0, 0, 0, 0, 0, 0, 0]
    = .ok (.list [.int 18446744073709551615, .dict [([0x61], .int (-9223372036854775808))]], []) := by
  simp [dec, decF, classify, mapV, decItems, decPairs, decKey, readBE, takeN, beNat, toSigned]

end MsgPack

/-! ### CBOR -/

namespace CBOR

open WpD

theorem mapV_ints_of {α} {f : α → CVal} {x : DRes (α × Bytes)} {v : CVal} {r : Bytes}
    (h : mapV f x = .ok (v, r)) (hf : ∀ a, x = .ok (a, r) → IntsInRange (f a)) : IntsInRange v := by
  obtain ⟨a, ha, hb⟩ := mapV_ok h
  rw [hb]; exact hf a ha

theorem decSimple_ints {info : Nat} {rest : Bytes} {v : CVal} {r : Bytes}
    (h : decSimple info rest = .ok (v, r)) : IntsInRange v := by
  unfold decSimple at h
  repeat' split at h
  all_goals first
    | (cases h; first
        | exact inRange_of_nil ints_null
        | exact inRange_of_nil (ints_bool _))
    | exact mapV_ints_of h (fun a _ => inRange_of_nil (ints_float _))
    | cases h

theorem decBody_ints {f : Bytes → DRes (CVal × Bytes)} (hf : RangeOk f) {major n : Nat} {r r' : Bytes}
    {v : CVal} (hn : n < 18446744073709551616) (h : decBody f major n r = .ok (v, r')) :
    IntsInRange v := by
  unfold decBody at h
  repeat' split at h
  all_goals first
    | (cases h; exact inRange_int (by unfold IntRange; omega))
    | exact mapV_ints_of h (fun a _ => inRange_of_nil (ints_str a))
    | exact mapV_ints_of h (fun a _ => inRange_of_nil (ints_bin a))
    | exact mapV_ints_of h (fun a ha => decItems_ints hf _ _ _ _ ha)
    | exact mapV_ints_of h (fun a ha => decPairs_ints hf _ _ _ _ _ ha)
    | cases h

/-- Every value `decF` returns has all its integers in range. -/
theorem decF_ints : ∀ (fuel : Nat), RangeOk (decF fuel)
  | 0 => by intro bs v r h; cases h
  | fuel + 1 => by
    have ih := decF_ints fuel
    intro bs v r h
    cases bs with
    | nil => cases h
    | cons b rest =>
      unfold decF at h
      split at h
      · exact decSimple_ints h
      · split at h
        · cases h
        · rename_i n r' ha
          exact decBody_ints ih (readArg_lt (Nat.mod_lt _ (by decide)) ha) h

/-- **Every integer inside a CBOR-decoded value is an `int64` or a `uint64`**, at any depth,
    whatever the bytes. -/
theorem dec_ints_range {bs : Bytes} {v : CVal} {rest : Bytes} (h : dec bs = .ok (v, rest)) :
    IntsInRange v :=
  decF_ints _ bs v rest h

/-- Satisfiable: `82 1b ff×8 a1 61 61 3b 7f ff×7` = [2^64-1, {"a": -2^63}]. -/
example : dec [0x82, 0x1b, 0xff, 0xff, 0xff, 0xff, 0xff, 0xff, 0xff, 0xff,
               0xa1, 0x61, 0x61, 0x3b, 0x7f, 0xff, 0xff, 0xff, 0xff, 0xff, 0xff, 0xff]
    = .ok (.list [.int 18446744073709551615, .dict [([0x61], .int (-9223372036854775808))]], []) := by
  simp [dec, decF, readArg, decBody, maxLen, mapV, decItems, decPairs, decKey, readBE, takeN, beNat]

end CBOR

end Nexus.Codec

namespace Nexus.C14

open Nexus.Codec

/-- **No out-of-range integer comes off the wire in a binary format** (audit C14-a6, recursive):
    whatever the bytes, every integer anywhere inside the value the MessagePack or CBOR decoder
    hands to `listToMsg` is an `int64` or a `uint64`. -/
theorem C14_decoded_ints_in_range_bin (fmt : Format) (hf : fmt ∈ [Format.msgpack, Format.cbor])
    (b : Bytes) (v : CVal) (rest : Bytes) (h : Wire.decode fmt b = .ok (v, rest)) : IntsInRange v := by
  cases fmt with
  | json => simp at hf
  | msgpack => exact MsgPack.dec_ints_range h
  | cbor => exact CBOR.dec_ints_range h

end Nexus.C14
