/-
  `serialize.BinaryData` (transport/serialize/jsonserializer.go:62-89; audit items C14-a1, a3, the
  panic site of finding C14-F3), statement by statement.

    func (b BinaryData) MarshalJSON() ([]byte, error) {
        s := base64.StdEncoding.EncodeToString([]byte(b))
        var out []byte
        return out, codec.NewEncoderBytes(&out, jh).Encode("\x00" + s)
    }
    func (b *BinaryData) UnmarshalJSON(v []byte) error {
        var s string
        err := codec.NewDecoderBytes(v, jh).Decode(&s)
        if err != nil { return err }
        if len(s) == 0 || s[0] != '\x00' { return errors.New("binary string does not start with NUL") }
        *b, err = base64.StdEncoding.DecodeString(s[1:])
        return err
    }

  `Encode(string)` is `quoteStr`: the NUL is written as the six characters `\u0000`
  (`marshalBD_bytes`; replayed: `"\u0000AQID"` for {1,2,3}).  ugorji calls `MarshalJSON` for a
  `BinaryData` inside any value it encodes as JSON.

  `Decode(&s)` with a string target is `DecodeStringAsBytes` (json.go:935-965): a JSON string is
  unescaped; `null` gives "", `true` / `false` their text, and anything else is read as a number
  token and taken as text (`[1]`, `{}` give "").  Bytes after the value are ignored.

  Before the fix of C14-F3 (commit 80d0460) the condition was `s[0] != '\x00'` alone: an index
  out of range for every input that decodes to the empty string (`unmarshalBDPre`).

  Not modelled: on a base64 error Go still assigns the bytes decoded so far to `*b`; strings with
  surrogate or non-hex `\u` escapes (`unsupported`, as in `Json.dec`).
-/
import Nexus.Codec.WpDJsonO

namespace Nexus.Codec.Json

open Nexus.Codec

/-- `BinaryData.MarshalJSON`. -/
def marshalBD (b : Bytes) : Bytes := encStr (0 :: B64.enc b)

/-- `codec.NewDecoderBytes(v, jh).Decode(&s)` for `var s string`. -/
def decStringTyped (v : Bytes) : DRes Bytes :=
  match skipWs v with
  | [] => .error .malformed                                 -- EOF
  | q :: r =>
    if q.toNat = 0x22 then
      match strBody (r.length + 1) r with
      | .ok (s, _) => .ok s
      | .error e => .error e
    else if q.toNat = 0x6e then
      match lit [0x75, 0x6c, 0x6c] .null r with
      | .ok _ => .ok []
      | .error e => .error e
    else if q.toNat = 0x66 then
      match lit [0x61, 0x6c, 0x73, 0x65] .null r with
      | .ok _ => .ok [0x66, 0x61, 0x6c, 0x73, 0x65]
      | .error e => .error e
    else if q.toNat = 0x74 then
      match lit [0x72, 0x75, 0x65] .null r with
      | .ok _ => .ok [0x74, 0x72, 0x75, 0x65]
      | .error e => .error e
    else .ok ((q :: r).takeWhile isNumChar)                  -- `jsonReadNum`, possibly empty

inductive BDRes where
  | ok (b : Bytes)
  /-- `UnmarshalJSON` returns an error -/
  | error
  /-- outside the string model -/
  | unsupported
  | panic (site : String)
  deriving Repr, DecidableEq, Inhabited

def BDRes.isPanic : BDRes → Bool
  | .panic _ => true
  | _ => false

/-- `BinaryData.UnmarshalJSON` as it is now. -/
def unmarshalBD (v : Bytes) : BDRes :=
  match decStringTyped v with
  | .error .malformed => .error                    -- `if err != nil { return err }`
  | .error .unsupported => .unsupported
  | .ok s =>
    match s with
    | [] => .error                                 -- `len(s) == 0`
    | c :: t =>
      if c.toNat ≠ 0 then .error                   -- `s[0] != '\x00'`
      else
        match B64.dec t with                       -- `DecodeString(s[1:])`
        | some b => .ok b
        | none => .error

/-- `BinaryData.UnmarshalJSON` before commit 80d0460: `if s[0] != '\x00'`. -/
def unmarshalBDPre (v : Bytes) : BDRes :=
  match decStringTyped v with
  | .error .malformed => .error
  | .error .unsupported => .unsupported
  | .ok s =>
    match s with
    | [] => .panic "BinaryData.UnmarshalJSON: s[0]: index out of range [0] with length 0"
    | c :: t =>
      if c.toNat ≠ 0 then .error
      else
        match B64.dec t with
        | some b => .ok b
        | none => .error

end Nexus.Codec.Json
