/-
  CBOR (RFC 8949): the encoder emits what ugorji/go/codec v1.3.1 emits with the repo's handle
  (definite lengths, shortest argument width, floats always as binary64, `[]byte` as major
  type 2, strings as major type 3).

  The decoder accepts every argument width.  Outside the value model and reported as
  `unsupported`: tags (major 6), indefinite-length items (info 31), map keys that are not text
  strings, maps with a repeated key, lengths ≥ 2^63, negative integers below -2^63 (not
  representable in Go's int64).  `undefined` (f7)
  decodes to null, as the codec does.  Reserved info values 28..30, unassigned/1-byte simple
  values and a stray break are `malformed`.
-/
import Nexus.Codec.BytesLemmas

namespace Nexus.Codec.CBOR

open Nexus.Codec

/-- Initial byte (major type, argument) with the shortest argument encoding. -/
def encHead (major n : Nat) : Bytes :=
  if n < 24 then [UInt8.ofNat (major * 32 + n)]
  else if n < 256 then UInt8.ofNat (major * 32 + 24) :: beBytes 1 n
  else if n < 65536 then UInt8.ofNat (major * 32 + 25) :: beBytes 2 n
  else if n < 4294967296 then UInt8.ofNat (major * 32 + 26) :: beBytes 4 n
  else UInt8.ofNat (major * 32 + 27) :: beBytes 8 n

def encInt (i : Int) : Bytes :=
  if 0 ≤ i then encHead 0 i.toNat else encHead 1 (-1 - i).toNat

mutual
  def enc : CVal → Bytes
    | .null => [UInt8.ofNat 0xf6]
    | .bool false => [UInt8.ofNat 0xf4]
    | .bool true => [UInt8.ofNat 0xf5]
    | .int i => encInt i
    | .float b => UInt8.ofNat 0xfb :: beBytes 8 b.toNat
    | .str s => encHead 3 s.length ++ s
    | .bin b => encHead 2 b.length ++ b
    | .list l => encHead 4 l.length ++ encList l
    | .dict d => encHead 5 d.length ++ encDict d
  def encList : List CVal → Bytes
    | [] => []
    | v :: vs => enc v ++ encList vs
  def encDict : List (Bytes × CVal) → Bytes
    | [] => []
    | (k, v) :: r => (encHead 3 k.length ++ k) ++ (enc v ++ encDict r)
end

/-- Arguments are at most 64 bits wide. -/
def argMax : Nat := 18446744073709551616

/-- Lengths the codec handles as such: a length of 2^63 or more turns negative in Go's `int`
    and the codec then treats the item as indefinite-length. -/
def maxLen : Nat := 9223372036854775808

/-- The argument following an initial byte with additional information `info`. -/
def readArg (info : Nat) (rest : Bytes) : DRes (Nat × Bytes) :=
  if info < 24 then .ok (info, rest)
  else if info = 24 then readBE 1 rest
  else if info = 25 then readBE 2 rest
  else if info = 26 then readBE 4 rest
  else if info = 27 then readBE 8 rest
  else if info = 31 then .error .unsupported
  else .error .malformed

def mapV {α β} (f : α → β) : DRes (α × Bytes) → DRes (β × Bytes)
  | .ok (a, r) => .ok (f a, r)
  | .error e => .error e

/-- A map key: a definite-length text string. -/
def decKey : Bytes → DRes (Bytes × Bytes)
  | [] => .error .malformed
  | b :: rest =>
    if b.toNat / 32 = 3 then
      match readArg (b.toNat % 32) rest with
      | .ok (n, r) => if maxLen ≤ n then .error .unsupported else takeN n r
      | .error e => .error e
    else .error .unsupported

/-- Major type 7. -/
def decSimple (info : Nat) (rest : Bytes) : DRes (CVal × Bytes) :=
  if info = 20 then .ok (.bool false, rest)
  else if info = 21 then .ok (.bool true, rest)
  else if info = 22 then .ok (.null, rest)
  else if info = 23 then .ok (.null, rest)
  else if info = 25 then mapV (fun (n : Nat) => .float (UInt64.ofNat (f32to64 (f16to32 n)))) (readBE 2 rest)
  else if info = 26 then mapV (fun (n : Nat) => .float (UInt64.ofNat (f32to64 n))) (readBE 4 rest)
  else if info = 27 then mapV (fun (n : Nat) => .float (UInt64.ofNat n)) (readBE 8 rest)
  else .error .malformed

/-- What follows the head of major type `major` < 7 with argument `n`. -/
def decBody (f : Bytes → DRes (CVal × Bytes)) (major n : Nat) (r : Bytes) : DRes (CVal × Bytes) :=
  if major = 0 then .ok (.int n, r)
  else if major = 1 then
    (if n < 9223372036854775808 then .ok (.int (-1 - (n : Int)), r) else .error .unsupported)
  else if major = 6 then .error .unsupported                 -- tags
  else if maxLen ≤ n then .error .unsupported                -- see `maxLen`
  else if major = 2 then mapV .bin (takeN n r)
  else if major = 3 then mapV .str (takeN n r)
  else if major = 4 then mapV .list (decItems f n r)
  else mapV .dict (decPairs decKey f n [] r)

def decF : Nat → Bytes → DRes (CVal × Bytes)
  | 0, _ => .error .malformed
  | _ + 1, [] => .error .malformed
  | fuel + 1, b :: rest =>
    if b.toNat / 32 = 7 then decSimple (b.toNat % 32) rest
    else
      match readArg (b.toNat % 32) rest with
      | .error e => .error e
      | .ok (n, r) => decBody (decF fuel) (b.toNat / 32) n r

def dec (bs : Bytes) : DRes (CVal × Bytes) := decF (bs.length + 1) bs

def encode (v : CVal) : Option Bytes := if validB maxLen v then some (enc v) else none

end Nexus.Codec.CBOR
