/-
  Helper definitions and lemmas for the layer-a theorems of C14
  (`Nexus/Props/C14.lean`): typing of message values, the normal form reached
  by a list round trip, and the loop lemmas for `findLast` and `fill`.
-/
import Nexus.Codec.Msg

namespace Nexus.Codec

open Nexus.Gen

/-- A field value has the Go static type of its field. -/
def Typed : GoKind → CVal → Prop
  | .uint64, .int i => 0 ≤ i ∧ i < two64
  | .int, .int i => -two63 ≤ i ∧ i < two63
  | .string, .str _ => True
  | .mapStringAny, .null => True
  | .mapStringAny, .dict _ => True
  | .sliceAny, .null => True
  | .sliceAny, .list _ => True
  | _, _ => False

def TypedFields : List FieldSchema → List CVal → Prop
  | [], [] => True
  | f :: fs, v :: vs => Typed f.kind v ∧ TypedFields fs vs
  | _, _ => False

/-- `Len() == 0` for a Dict/List/string field value. -/
def emptyVal : CVal → Bool
  | .null => true
  | .list [] => true
  | .dict [] => true
  | .str [] => true
  | _ => false

/-- The `NewMessage` case that allocates struct `s` for its own code. -/
def newCase? (t : Int) : Option NewCase := Gen.newMessage.find? (fun c => (c.code : Int) == t)
def structOf? (c : NewCase) : Option MsgSchema := Gen.structs.find? (fun s => s.name == c.struct)

theorem newMessage_eq (t : Int) :
    newMessage t = (match newCase? t with
      | none => none
      | some c => match structOf? c with
        | none => none
        | some s => some { schema := s, fields := s.fields.map (initOf c) }) := rfl

/-- Initial field values of the struct `NewMessage(s.code)` returns (zero values when
    there is no such case). -/
def initFields (s : MsgSchema) : List CVal :=
  match newCase? s.code with
  | some c => s.fields.map (initOf c)
  | none => s.fields.map (fun f => zeroOf f.kind)

theorem initFields_length (s : MsgSchema) : (initFields s).length = s.fields.length := by
  unfold initFields; split <;> simp

/-- What `fill` computes from the first `keep` field values: a nil (or dropped) item leaves
    the initial value, anything else is stored. -/
def normAux : Nat → List CVal → List CVal → List CVal
  | _, [], _ => []
  | _, z :: zs, [] => z :: zs
  | 0, z :: zs, _ :: _ => z :: zs
  | k + 1, z :: zs, v :: vs => (if v.isNull then z else v) :: normAux k zs vs

/-- Index of the last field `msgToList` emits (0 when the loop panics, which `WellTyped`
    excludes). -/
def lastIdx (m : Msg) : Nat :=
  match findLast m.schema.fields m.fields (m.schema.fields.length - 1) with
  | .ok l => l
  | _ => 0

/-- The message a list round trip yields. -/
def norm (m : Msg) : Msg :=
  { m with fields := normAux (lastIdx m + 1) (initFields m.schema) m.fields }

theorem TypedFields.length_eq : ∀ {fs : List FieldSchema} {vs : List CVal}, TypedFields fs vs → fs.length = vs.length
  | [], [], _ => rfl
  | _ :: fs, _ :: vs, h => by simp [TypedFields.length_eq (fs := fs) (vs := vs) h.2]
  | [], _ :: _, h => h.elim
  | _ :: _, [], h => h.elim

theorem TypedFields.get : ∀ {fs : List FieldSchema} {vs : List CVal}, TypedFields fs vs →
    ∀ (i : Nat) (f : FieldSchema) (v : CVal), fs[i]? = some f → vs[i]? = some v → Typed f.kind v
  | _ :: _, _ :: _, h, 0, f, v, hf, hv => by
      simp at hf hv; subst hf; subst hv; exact h.1
  | _ :: fs, _ :: vs, h, i + 1, f, v, hf, hv => by
      simp at hf hv; exact TypedFields.get (fs := fs) (vs := vs) h.2 i f v hf hv
  | [], [], _, _, _, _, hf, _ => by simp at hf
  | [], _ :: _, h, _, _, _, _, _ => h.elim
  | _ :: _, [], h, _, _, _, _, _ => h.elim

theorem wrapU64_id {i : Int} (h0 : 0 ≤ i) (h1 : i < two64) : wrapU64 i = i := by
  unfold wrapU64 two64 at *; omega

theorem wrapI64_id {i : Int} (h0 : -two63 ≤ i) (h1 : i < two63) : wrapI64 i = i := by
  unfold wrapI64 two63 two64 at *; omega

/-- A typed, non-nil value is stored unchanged. -/
theorem assignField_typed {k : GoKind} {v : CVal} (i : Nat) (h : Typed k v) (hn : v.isNull = false) :
    assignField i k v = .ok v := by
  cases k <;> cases v <;> simp [Typed] at h <;> simp [CVal.isNull] at hn <;>
    simp [assignField, convertTo, wrapU64_id, wrapI64_id, h]

/-- `fill` over the emitted prefix of a typed message computes `normAux`. -/
theorem fill_take : ∀ (fs : List FieldSchema) (zs vals : List CVal) (keep i : Nat),
    TypedFields fs vals → zs.length = fs.length →
    fill i fs zs (vals.take keep) = .ok (normAux keep zs vals)
  | [], zs, vals, keep, i, _, hz => by
      cases zs with
      | nil => simp [fill, normAux]
      | cons _ _ => simp at hz
  | f :: fs, [], _, _, _, _, hz => by simp at hz
  | f :: fs, z :: zs, [], _, _, ht, _ => ht.elim
  | f :: fs, z :: zs, v :: vs, 0, i, _, _ => by simp [fill, normAux]
  | f :: fs, z :: zs, v :: vs, k + 1, i, ht, hz => by
      have ih := fill_take fs zs vs k (i + 1) ht.2 (by simpa using hz)
      cases hv : v.isNull with
      | true => simp [fill, normAux, hv, ih, Res.map]
      | false => simp [fill, normAux, hv, ih, Res.map, assignField_typed i ht.1 hv]

/-- `Field(i).Len()` does not panic on a typed value of a string/map/slice field. -/
theorem fieldLen_typed {k : GoKind} {v : CVal} (h : Typed k v)
    (hk : k = .mapStringAny ∨ k = .sliceAny ∨ k = .string) :
    ∃ n, fieldLen k v = .ok n ∧ (n > 0 ↔ emptyVal v = false) := by
  rcases hk with rfl | rfl | rfl <;> cases v <;> simp [Typed] at h <;>
    simp [fieldLen, emptyVal] <;> (rename_i x; cases x <;> simp)

/-- Every `omitempty` field of `fs` has a kind on which `Len()` is defined. -/
def OmitKindsOk (fs : List FieldSchema) : Prop :=
  ∀ f ∈ fs, f.omitempty = true → (f.kind = .mapStringAny ∨ f.kind = .sliceAny ∨ f.kind = .string)

/-- Specification of the backwards loop. -/
theorem findLast_spec (fs : List FieldSchema) (vals : List CVal) (ht : TypedFields fs vals)
    (hk : OmitKindsOk fs) : ∀ n, n < fs.length →
    ∃ last, findLast fs vals n = .ok last ∧ last ≤ n ∧
      (∀ i f v, last < i → i ≤ n → fs[i]? = some f → vals[i]? = some v →
          f.omitempty = true ∧ emptyVal v = true) ∧
      (last = 0 ∨ ∃ f v, fs[last]? = some f ∧ vals[last]? = some v ∧
          (f.omitempty = false ∨ emptyVal v = false))
  | 0, _ => ⟨0, rfl, Nat.le_refl _, by intro i f v h1 h2; omega, Or.inl rfl⟩
  | n + 1, hn => by
      have hlen := ht.length_eq
      have hf : fs[n + 1]? = some fs[n + 1] := List.getElem?_eq_getElem hn
      have hv : vals[n + 1]? = some (vals[n + 1]'(by omega)) := List.getElem?_eq_getElem (by omega)
      cases ho : (fs[n + 1]).omitempty with
      | false =>
        refine ⟨n + 1, ?_, Nat.le_refl _, ?_, Or.inr ⟨_, _, hf, hv, Or.inl ho⟩⟩
        · rw [findLast, hf, hv]; simp [ho]
        · intro i f v h1 h2; omega
      | true =>
        have hty := ht.get (n + 1) _ _ hf hv
        obtain ⟨len, hl, hpos⟩ := fieldLen_typed hty (hk _ (List.getElem_mem hn) ho)
        cases he : emptyVal (vals[n + 1]'(by omega)) with
        | false =>
          refine ⟨n + 1, ?_, Nat.le_refl _, ?_, Or.inr ⟨_, _, hf, hv, Or.inr he⟩⟩
          · have : len > 0 := hpos.mpr he
            rw [findLast, hf, hv]; simp [ho, hl, this]
          · intro i f v h1 h2; omega
        | true =>
          have hz : ¬ len > 0 := by
            intro h; have := hpos.mp h; simp [he] at this
          obtain ⟨last, h1, h2, h3, h4⟩ := findLast_spec fs vals ht hk n (by omega)
          refine ⟨last, ?_, by omega, ?_, h4⟩
          · rw [findLast, hf, hv]; simp [ho, hl, hz, h1]
          · intro i f v hi1 hi2 hfi hvi
            by_cases hin : i ≤ n
            · exact h3 i f v hi1 hin hfi hvi
            · have : i = n + 1 := by omega
              subst this
              rw [hf] at hfi; rw [hv] at hvi
              cases hfi; cases hvi
              exact ⟨ho, he⟩

/-- `assignField` never reaches the explicit `panic`. -/
theorem assignField_no_panic (i : Nat) (k : GoKind) (v : CVal) : (assignField i k v).isPanic = false := by
  cases k <;> cases v <;> simp [assignField, convertTo, sameKind, Res.isPanic] <;>
    cases Gen.convertGuard <;> simp

/-- `fill` cannot panic when the initial values cover the fields. -/
theorem fill_no_panic : ∀ (fs : List FieldSchema) (zs its : List CVal) (i : Nat),
    zs.length = fs.length → (fill i fs zs its).isPanic = false
  | [], _, _, _, _ => by simp [fill, Res.isPanic]
  | _ :: _, [], _, _, h => by simp at h
  | _ :: _, _ :: _, [], _, _ => by simp [fill, Res.isPanic]
  | f :: fs, z :: zs, it :: its, i, h => by
      have ih := fill_no_panic fs zs its (i + 1) (by simpa using h)
      have ha := assignField_no_panic i f.kind it
      unfold fill
      split
      · cases hr : fill (i + 1) fs zs its <;> simp_all [Res.map, Res.isPanic]
      · cases hq : assignField i f.kind it with
        | ok v => cases hr : fill (i + 1) fs zs its <;> simp_all [Res.map, Res.isPanic]
        | error e => simp [Res.isPanic]
        | panic s => simp [hq, Res.isPanic] at ha

end Nexus.Codec
