/-
  `JSONSerializer.Deserialize` over the JSON decoder with floats (`Json.decO`): `Wire.deserialize
  .json` with `Json.decO orc` in the place of `Json.dec`.  Kept apart from Wire.lean so that the
  oracle-free `Wire.deserialize` and its theorems stay as they are.
-/
import Nexus.Codec.Wire
import Nexus.Codec.WpDJsonO

namespace Nexus.Codec.Wire

open Nexus.Codec

/-- `JSONSerializer.Deserialize(data)` with number tokens read through the oracle. -/
def deserializeJsonO (orc : Json.FloatOrc) (b : Bytes) : DRes (Res Msg) :=
  match Json.decO orc b with
  | .error e => .error e
  | .ok (.list l, _) => .ok (fromList .json l)
  | .ok (_, _) =>
    match topDecodeOf .json with
    | .listChecked => .ok (.error .notAList)
    | .intoSlice => .error .unsupported

end Nexus.Codec.Wire
