/-
  Helper lemmas tying the format round trips to the message layer.
-/
import Nexus.Codec.Wire
import Nexus.Codec.MsgPackProofs
import Nexus.Codec.CBORProofs
import Nexus.Codec.JsonProofs
import Nexus.Codec.MsgLemmas

namespace Nexus.Codec

mutual
  theorem validB_mono {L L' : Nat} (h : L ≤ L') : ∀ (v : CVal), validB L v = true → validB L' v = true
    | .null, _ => rfl
    | .bool _, _ => rfl
    | .float _, _ => rfl
    | .int _, hv => by simpa [validB] using hv
    | .str s, hv => by simp [validB] at hv ⊢; omega
    | .bin s, hv => by simp [validB] at hv ⊢; omega
    | .list l, hv => by
        simp [validB] at hv ⊢
        exact ⟨by omega, validListB_mono h l hv.2⟩
    | .dict d, hv => by
        simp [validB] at hv ⊢
        exact ⟨⟨by omega, hv.1.2⟩, validDictB_mono h d hv.2⟩
  theorem validListB_mono {L L' : Nat} (h : L ≤ L') : ∀ (l : List CVal), validListB L l = true → validListB L' l = true
    | [], _ => rfl
    | v :: vs, hv => by
        simp [validListB] at hv ⊢
        exact ⟨validB_mono h v hv.1, validListB_mono h vs hv.2⟩
  theorem validDictB_mono {L L' : Nat} (h : L ≤ L') : ∀ (d : List (Bytes × CVal)), validDictB L d = true → validDictB L' d = true
    | [], _ => rfl
    | (k, v) :: r, hv => by
        simp [validDictB] at hv ⊢
        exact ⟨⟨by omega, validB_mono h v hv.1.2⟩, validDictB_mono h r hv.2⟩
end

theorem maxLen_le : MsgPack.maxLen ≤ CBOR.maxLen := by decide

end Nexus.Codec
