/-
  MessagePack: the encoder emits what ugorji/go/codec v1.3.1 emits with the repo's handle
  (`WriteExt = true`: str8 and bin families in use) for `uint64` non-negative and `int64`
  negative integers, `float64`, `string`, `[]byte`, `[]any`, `map[string]any` — the shortest
  form of each.  (A non-negative Go `int`/`int64` is emitted by the codec in the *signed*
  families d0..d3, e.g. 128 → d1 00 80; the decoder here accepts those too.)

  The decoder accepts every length/width variant of the format.  Outside the value model and
  reported as `unsupported`: extension types (c7..c9, d4..d8; -1 is a timestamp for the codec),
  map keys that are not strings, maps with a repeated key.  0xc1 is `malformed`.
-/
import Nexus.Codec.BytesLemmas

namespace Nexus.Codec.MsgPack

open Nexus.Codec

def encInt (i : Int) : Bytes :=
  if 0 ≤ i then
    let n := i.toNat
    if n < 128 then [UInt8.ofNat n]
    else if n < 256 then UInt8.ofNat 0xcc :: beBytes 1 n
    else if n < 65536 then UInt8.ofNat 0xcd :: beBytes 2 n
    else if n < 4294967296 then UInt8.ofNat 0xce :: beBytes 4 n
    else UInt8.ofNat 0xcf :: beBytes 8 n
  else if -32 ≤ i then [UInt8.ofNat (256 + i).toNat]
  else if -128 ≤ i then UInt8.ofNat 0xd0 :: beBytes 1 (256 + i).toNat
  else if -32768 ≤ i then UInt8.ofNat 0xd1 :: beBytes 2 (65536 + i).toNat
  else if -2147483648 ≤ i then UInt8.ofNat 0xd2 :: beBytes 4 (4294967296 + i).toNat
  else UInt8.ofNat 0xd3 :: beBytes 8 (18446744073709551616 + i).toNat

def strHdr (n : Nat) : Bytes :=
  if n < 32 then [UInt8.ofNat (0xa0 + n)]
  else if n < 256 then UInt8.ofNat 0xd9 :: beBytes 1 n
  else if n < 65536 then UInt8.ofNat 0xda :: beBytes 2 n
  else UInt8.ofNat 0xdb :: beBytes 4 n

def binHdr (n : Nat) : Bytes :=
  if n < 256 then UInt8.ofNat 0xc4 :: beBytes 1 n
  else if n < 65536 then UInt8.ofNat 0xc5 :: beBytes 2 n
  else UInt8.ofNat 0xc6 :: beBytes 4 n

def arrHdr (n : Nat) : Bytes :=
  if n < 16 then [UInt8.ofNat (0x90 + n)]
  else if n < 65536 then UInt8.ofNat 0xdc :: beBytes 2 n
  else UInt8.ofNat 0xdd :: beBytes 4 n

def mapHdr (n : Nat) : Bytes :=
  if n < 16 then [UInt8.ofNat (0x80 + n)]
  else if n < 65536 then UInt8.ofNat 0xde :: beBytes 2 n
  else UInt8.ofNat 0xdf :: beBytes 4 n

mutual
  def enc : CVal → Bytes
    | .null => [UInt8.ofNat 0xc0]
    | .bool false => [UInt8.ofNat 0xc2]
    | .bool true => [UInt8.ofNat 0xc3]
    | .int i => encInt i
    | .float b => UInt8.ofNat 0xcb :: beBytes 8 b.toNat
    | .str s => strHdr s.length ++ s
    | .bin b => binHdr b.length ++ b
    | .list l => arrHdr l.length ++ encList l
    | .dict d => mapHdr d.length ++ encDict d
  def encList : List CVal → Bytes
    | [] => []
    | v :: vs => enc v ++ encList vs
  def encDict : List (Bytes × CVal) → Bytes
    | [] => []
    | (k, v) :: r => (strHdr k.length ++ k) ++ (enc v ++ encDict r)
end

/-- Lengths are at most 32 bits wide. -/
def maxLen : Nat := 4294967296

/-- First-byte classes. -/
inductive Head where
  | posfix (n : Nat)
  | fixmap (n : Nat)
  | fixarr (n : Nat)
  | fixstr (n : Nat)
  | negfix (t : Nat)
  | tag (t : Nat)

def classify (t : Nat) : Head :=
  if t < 0x80 then .posfix t
  else if t < 0x90 then .fixmap (t - 0x80)
  else if t < 0xa0 then .fixarr (t - 0x90)
  else if t < 0xc0 then .fixstr (t - 0xa0)
  else if 0xe0 ≤ t then .negfix t
  else .tag t

def sized (k : Nat) (bs : Bytes) : DRes (Bytes × Bytes) :=
  match readBE k bs with
  | .ok (n, r) => takeN n r
  | .error e => .error e

/-- A map key: any of the str forms.  Anything else is outside the model. -/
def decKey : Bytes → DRes (Bytes × Bytes)
  | [] => .error .malformed
  | b :: rest =>
    match classify b.toNat with
    | .fixstr n => takeN n rest
    | .tag 0xd9 => sized 1 rest
    | .tag 0xda => sized 2 rest
    | .tag 0xdb => sized 4 rest
    | .tag 0xc1 => .error .malformed
    | _ => .error .unsupported

def mapV {α β} (f : α → β) : DRes (α × Bytes) → DRes (β × Bytes)
  | .ok (a, r) => .ok (f a, r)
  | .error e => .error e

/-- Decoder with a nesting budget (`fuel` > nesting depth suffices). -/
def decF : Nat → Bytes → DRes (CVal × Bytes)
  | 0, _ => .error .malformed
  | _ + 1, [] => .error .malformed
  | fuel + 1, b :: rest =>
    match classify b.toNat with
    | .posfix n => .ok (.int n, rest)
    | .negfix t => .ok (.int ((t : Int) - 256), rest)
    | .fixstr n => mapV .str (takeN n rest)
    | .fixarr n => mapV .list (decItems (decF fuel) n rest)
    | .fixmap n => mapV .dict (decPairs decKey (decF fuel) n [] rest)
    | .tag 0xc0 => .ok (.null, rest)
    | .tag 0xc2 => .ok (.bool false, rest)
    | .tag 0xc3 => .ok (.bool true, rest)
    | .tag 0xc4 => mapV .bin (sized 1 rest)
    | .tag 0xc5 => mapV .bin (sized 2 rest)
    | .tag 0xc6 => mapV .bin (sized 4 rest)
    | .tag 0xca => mapV (fun (n : Nat) => .float (UInt64.ofNat (f32to64 n))) (readBE 4 rest)
    | .tag 0xcb => mapV (fun (n : Nat) => .float (UInt64.ofNat n)) (readBE 8 rest)
    | .tag 0xcc => mapV (fun (n : Nat) => .int (n : Int)) (readBE 1 rest)
    | .tag 0xcd => mapV (fun (n : Nat) => .int (n : Int)) (readBE 2 rest)
    | .tag 0xce => mapV (fun (n : Nat) => .int (n : Int)) (readBE 4 rest)
    | .tag 0xcf => mapV (fun (n : Nat) => .int (n : Int)) (readBE 8 rest)
    | .tag 0xd0 => mapV (fun (n : Nat) => .int (toSigned 1 n)) (readBE 1 rest)
    | .tag 0xd1 => mapV (fun (n : Nat) => .int (toSigned 2 n)) (readBE 2 rest)
    | .tag 0xd2 => mapV (fun (n : Nat) => .int (toSigned 4 n)) (readBE 4 rest)
    | .tag 0xd3 => mapV (fun (n : Nat) => .int (toSigned 8 n)) (readBE 8 rest)
    | .tag 0xd9 => mapV .str (sized 1 rest)
    | .tag 0xda => mapV .str (sized 2 rest)
    | .tag 0xdb => mapV .str (sized 4 rest)
    | .tag 0xdc =>
      match readBE 2 rest with
      | .ok (n, r) => mapV .list (decItems (decF fuel) n r)
      | .error e => .error e
    | .tag 0xdd =>
      match readBE 4 rest with
      | .ok (n, r) => mapV .list (decItems (decF fuel) n r)
      | .error e => .error e
    | .tag 0xde =>
      match readBE 2 rest with
      | .ok (n, r) => mapV .dict (decPairs decKey (decF fuel) n [] r)
      | .error e => .error e
    | .tag 0xdf =>
      match readBE 4 rest with
      | .ok (n, r) => mapV .dict (decPairs decKey (decF fuel) n [] r)
      | .error e => .error e
    | .tag 0xc1 => .error .malformed
    | .tag _ => .error .unsupported      -- ext 8/16/32, fixext 1..16

/-- Decode one value from the front of `bs`. -/
def dec (bs : Bytes) : DRes (CVal × Bytes) := decF (bs.length + 1) bs

def encode (v : CVal) : Option Bytes := if validB maxLen v then some (enc v) else none

end Nexus.Codec.MsgPack
