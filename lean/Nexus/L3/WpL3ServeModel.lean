/-
Instantiation of "servers keep serving" (Nexus/L3/WpL3Serve.lean) with the regenerated tables.

Every served channel of `CloseModel` gets its server role (`serverOf`), and the *guard* of a server
role is computed from table (i) `loopExits` — every way out of the role's serving loop:

  role  loop function                     stop signal (issued by)                       closer's statement
  D     dealer.run                        close(dealer.closing)   (dealer.close)         → closeChan dealerChan
  B     broker.run                        close(broker.actionChan) (broker.close)        → closeChan brokerChan
  R     realm.run                         close(realm.actionChan)  (realm.close)         → closeChan realmChan
  HM    handleInboundMessages(metaSess)   realm.metaSess.EndRecv(shutdownGoodbye) (realm.close) → closeChan metaChan
  Rtr   router.run                        close(router.closing)    (router.Close)        (router level, `rtr…`)
  MP    metaProcedureHandler              every exit is after the meta session's handler left (HM)

`exitWhy` says, for each exit and each role that runs it, *why* the role takes it: `stop` — the
closer's stop signal; `after q` — only after role `q` left; `never a` — not for this role, by the
named assumption `a`. Nothing rests on the entry alone: `stopOk` checks a `stop` entry against the
tables (shape of the exit, nobody sends on the signal channel, every site that issues the signal is
in the closer function, the closer's statement is translated to `closeChan` of this very channel),
`afterOk` an `after` entry (the signal is closed only by the go literal of role `q`, or is that role's
last message), `neverOk` the table half of an assumption. A new `return` in a serving loop has no
entry: `guardOf` becomes `none` for the role and `C06.servers_guarded` fails.

Assumptions (`Assumption`), used only for the meta session's handler HM, whose loop function is the
session handlers' (a client can make *its own* handler leave in many ways; the question is whether
anything makes the meta session's handler leave):
  * `C04_meta_never_ends`   L2 theorem of that name (Props/C04): broker and dealer abort only the sender of
                             a violating message and the meta session never sends one — no
                             `EndRecv(abortedGoodbye)` on the meta session. Table half: `abortedGoodbye` is
                             passed to EndRecv only in `abortSession`.
  * `metaNotInClients`      kill goodbyes are passed to EndRecv only on values taken from `realm.clients`
                             (table (l)); only `onJoin` stores there, `onJoin` is called only by
                             `handleSession`, `handleSession` only by `AttachClient`; the meta session's
                             handler is started by `createMetaSession` directly.
  * `metaPeerNeverClosed`   the meta session's inbound channel is closed only by `Close()` on the meta
                             peer; every Close of a peer or session is in `handleSession` (its client
                             session) or `AttachClient` (table (b)).
  * `metaMessageKinds`      through the meta peer travel PUBLISH, REGISTER and what `metaProcedureHandler`
                             sends (table (f)): meta procedure results, YIELD or ERROR of type INVOCATION
                             (table (m)) — never GOODBYE, an ERROR of another type or an unknown message.
                             Residue not in any table: the `default:` branch re-sends the previous result,
                             which is a meta procedure's result (never nil: audit C04 (a)6).
-/
import Nexus.L3.CloseModel
import Nexus.L3.WpL3Tables
import Nexus.L3.WpL3Serve

namespace Nexus.L3.WpL3.ServeModel
open Nexus.Gen.Sites Nexus.L3 Nexus.L3.Shutdown Nexus.L3.CloseModel Nexus.L3.WpL3Tables
open Nexus.L3.WpL3.Serve

/-- The server of each served channel. -/
def serverOf : SChan → Role
  | .dealerChan => .D
  | .brokerChan => .B
  | .realmChan => .R
  | .metaChan => .HM

inductive Assumption
  | C04_meta_never_ends | metaNotInClients | metaPeerNeverClosed | metaMessageKinds
  deriving DecidableEq, Repr

inductive Why
  | stop
  | after (q : Role)
  | never (a : Assumption)
  deriving DecidableEq, Repr

/-- How a server is stopped. -/
structure ServerSpec where
  role : Role
  loopFn : Nat
  /-- the served channel in the realm's shutdown system (`none`: the router goroutine) -/
  chan : Option SChan
  /-- the channel whose closing is the stop signal; 0 for the meta session (EndRecv) -/
  signal : Nat
  /-- the closer's statement that issues it, and the function containing it -/
  stopStmt : Nat
  closerFn : Nat

def specD : ServerSpec := ⟨.D, key! "router.dealer.run", some .dealerChan, key! "dealer.closing",
  key! "close(dealer.closing)", key! "router.dealer.close"⟩
def specB : ServerSpec := ⟨.B, key! "router.broker.run", some .brokerChan, key! "broker.actionChan",
  key! "close(broker.actionChan)", key! "router.broker.close"⟩
def specR : ServerSpec := ⟨.R, key! "router.realm.run", some .realmChan, key! "realm.actionChan",
  key! "close(realm.actionChan)", key! "router.realm.close"⟩
def specHM : ServerSpec := ⟨.HM, key! "router.realm.handleInboundMessages", some .metaChan, 0,
  key! "realm.metaSess.EndRecv(shutdownGoodbye)", key! "router.realm.close"⟩
def specRtr : ServerSpec := ⟨.Rtr, key! "router.router.run", none, key! "router.closing",
  key! "close(router.closing)", key! "router.router.Close"⟩

def serverSpecs : List ServerSpec := [specD, specB, specR, specHM, specRtr]

def mpLoopFn : Nat := key! "router.realm.metaProcedureHandler"

/-- exit key, role → why that role takes this exit. -/
def exitWhy : List (Nat × Role × Why) := [
  (key! "router.dealer.run|exit|ret|case <-dealer.closing:", .D, .stop),
  (key! "router.broker.run|exit|rangeEnd|", .B, .stop),
  (key! "router.realm.run|exit|rangeEnd|", .R, .stop),
  (key! "router.router.run|exit|ret|case <-router.closing:", .Rtr, .stop),
  -- the meta session's handler
  (key! "router.realm.handleInboundMessages|exit|ret|case <-recvDone: > switch goodbye { > case shutdownGoodbye, wamp.NoGoodbye:",
    .HM, .stop),
  (key! "router.realm.handleInboundMessages|exit|ret|case <-recvDone: > switch goodbye { > case abortedGoodbye:",
    .HM, .never .C04_meta_never_ends),
  (key! "router.realm.handleInboundMessages|exit|ret|case <-recvDone:", .HM, .never .metaNotInClients),
  (key! "router.realm.handleInboundMessages|exit|ret|case msg, open = <-recv: > if !open {",
    .HM, .never .metaPeerNeverClosed),
  (key! "router.realm.handleInboundMessages|exit|ret|switch msg := msg.(type) { > case *wamp.Error: > if msg.Type != wamp.INVOCATION {",
    .HM, .never .metaMessageKinds),
  (key! "router.realm.handleInboundMessages|exit|ret|switch msg := msg.(type) { > case *wamp.Goodbye:",
    .HM, .never .metaMessageKinds),
  (key! "router.realm.handleInboundMessages|exit|ret|switch msg := msg.(type) { > default:",
    .HM, .never .metaMessageKinds),
  -- the meta-procedure handler: every exit follows the meta session's handler
  (key! "router.realm.metaProcedureHandler|exit|ret|case <-realm.metaSessDone:", .MP, .after .HM),
  (key! "router.realm.metaProcedureHandler|exit|ret|case msg, open = <-realm.metaPeer.Recv(): > if !open {",
    .MP, .never .metaPeerNeverClosed),
  (key! "router.realm.metaProcedureHandler|exit|ret|if !send(rsp) {", .MP, .after .HM),
  (key! "router.realm.metaProcedureHandler|exit|ret|switch msg := msg.(type) { > case *wamp.Invocation: > if !ok { > if !send(&wamp.Error{ Type: msg.MessageType(), Request: msg.Request, Details: wamp.Dict{}, Error: wamp.ErrNoSuchProcedure, }) {",
    .MP, .after .HM),
  (key! "router.realm.metaProcedureHandler|exit|ret|switch msg := msg.(type) { > case *wamp.Goodbye:", .MP, .after .HM)]

def whyOf (k : Nat) (r : Role) : Option Why :=
  (exitWhy.find? fun e => Nat.beq e.1 k && decide (e.2.1 = r)).map (·.2.2)

/-- The exits of a function itself (not of the closures it holds in local variables). -/
def exitsOf (fn : Nat) : List LoopExit := loopExits.filter fun e => Nat.beq e.fn fn

/-! ### Checking a `stop` entry -/

/-- Nobody sends on the channel (so a receive from it succeeds only when it is closed). -/
def noSendsOn (sig : Nat) : Bool :=
  chanOps.all fun o => !(decide (o.op = .send) && (Nat.beq o.owner sig || Nat.beq o.chan sig))

/-- Every `close(sig)` is in `fn`, and there is one. -/
def closedOnlyIn (sig fn : Nat) : Bool :=
  let cs := closeSites.filter fun c => c.isChanClose && Nat.beq c.target sig
  !cs.isEmpty && cs.all fun c => Nat.beq c.fn fn

/-- The statements of the closer functions. -/
def closerStmts (fn : Nat) : List Nat :=
  if Nat.beq fn (key! "router.dealer.close") then order_dealer_close
  else if Nat.beq fn (key! "router.broker.close") then order_broker_close
  else if Nat.beq fn (key! "router.realm.close") then order_realm_close
  else if Nat.beq fn (key! "router.router.Close") then order_router_Close
  else []

/-- The closer's statement is in the closer function, and (realm level) the shutdown model
    translates it to `closeChan` of this channel and to nothing else. -/
def stmtOk (s : ServerSpec) : Bool :=
  memN s.stopStmt (closerStmts s.closerFn) &&
  match s.chan with
  | some ch => decide (lookup s.stopStmt stmtInstr = some [.closeChan ch]) && memN s.stopStmt realmCloseStmts
  | none => true

/-- The shape of a channel-closed exit: the end of `range sig`, or `case <-sig: return` at the top of
    the loop's select on a channel nobody sends on. -/
def chanStopShape (s : ServerSpec) (e : LoopExit) : Bool :=
  (decide (e.kind = .rangeEnd) && Nat.beq e.chan s.signal) ||
  (decide (e.kind = .ret) && decide (e.cls = .field) && Nat.beq e.owner s.signal &&
    decide (e.guards.length = 1) && !e.openTest && noSendsOn s.signal)

/-- The meta session's stop: EndRecv on the field `realm.metaSess` occurs only in realm.close, with
    `shutdownGoodbye`; `shutdownGoodbye` and `nil` (→ NoGoodbye) are passed to EndRecv nowhere else
    outside realm.close. -/
def metaStopShape (e : LoopExit) : Bool :=
  decide (e.cls = .recvDone) &&
  (let own := endRecvSites.filter fun x => Nat.beq x.origin (key! "field realm.metaSess")
   !own.isEmpty && own.all fun x => Nat.beq x.fn (key! "router.realm.close") &&
     Nat.beq x.arg (key! "shutdownGoodbye") && decide (x.gctx = .body)) &&
  (endRecvSites.all fun x => !(Nat.beq x.arg (key! "shutdownGoodbye") || Nat.beq x.arg (key! "nil")) ||
     Nat.beq x.fn (key! "router.realm.close"))

def stopOk (s : ServerSpec) (e : LoopExit) : Bool :=
  stmtOk s &&
  (if Nat.beq s.signal 0 then metaStopShape e
   else chanStopShape s e && closedOnlyIn s.signal s.closerFn)

/-! ### Checking an `after` entry (the meta-procedure handler) -/

/-- `realm.metaSessDone` is closed only by the go literal of the meta session's handler. -/
def metaSessDoneByHM : Bool :=
  let cs := closeSites.filter fun c => c.isChanClose && Nat.beq c.target (key! "realm.metaSessDone")
  !cs.isEmpty && cs.all fun c => decide (c.gctx = .golit) &&
    decide (goLitRole c.garg = some .HM)

/-- The closure `send` of metaProcedureHandler returns false only in `case <-realm.metaSessDone`. -/
def sendFailsOnlyOnDone : Bool :=
  let es := exitsOf (key! "router.realm.metaProcedureHandler$send")
  !es.isEmpty && es.all fun e =>
    (Nat.beq e.result (key! "true") && decide (e.cls = .peerSendMeta)) ||
    (Nat.beq e.result (key! "false") && Nat.beq e.owner (key! "realm.metaSessDone"))

/-- GOODBYE reaches the meta-procedure handler only from the meta session's handler, whose exits
    are the only sends of a Goodbye by role HM (table (f): all in handleInboundMessages). -/
def goodbyeOnlyFromHandlerExit : Bool :=
  msgSends.all fun m => !(Nat.beq m.msgType (key! "Goodbye")) ||
    Nat.beq m.fn (key! "router.realm.handleInboundMessages")

def afterOk (q : Role) (e : LoopExit) : Bool :=
  decide (q = .HM) && metaSessDoneByHM &&
  ((decide (e.cls = .field) && Nat.beq e.owner (key! "realm.metaSessDone") && noSendsOn (key! "realm.metaSessDone")) ||
   ((e.guards.getLast?.any fun g => memN g [key! "if !send(rsp) {",
       key! "if !send(&wamp.Error{ Type: msg.MessageType(), Request: msg.Request, Details: wamp.Dict{}, Error: wamp.ErrNoSuchProcedure, }) {"])
      && sendFailsOnlyOnDone) ||
   ((e.guards.getLast?.any fun g => Nat.beq g (key! "case *wamp.Goodbye:")) && goodbyeOnlyFromHandlerExit))

/-! ### The table half of the assumptions -/

def neverOk : Assumption → Bool
  | .C04_meta_never_ends =>
    -- abortedGoodbye is handed to EndRecv only by abortSession
    endRecvSites.all fun x => !Nat.beq x.arg (key! "abortedGoodbye") || Nat.beq x.fn (key! "router.abortSession")
  | .metaNotInClients =>
    -- every other goodbye goes to a value of realm.clients …
    (endRecvSites.all fun x =>
      memN x.arg [key! "shutdownGoodbye", key! "abortedGoodbye"] ||
      memN x.origin [key! "range realm.clients", key! "index realm.clients"]) &&
    -- … and only handleSession ← AttachClient reaches onJoin
    (calls.all fun c => !Nat.beq c.callee (key! "router.realm.onJoin") || Nat.beq c.fn (key! "router.realm.handleSession")) &&
    (calls.all fun c => !Nat.beq c.callee (key! "router.realm.handleSession") || Nat.beq c.fn (key! "router.router.AttachClient"))
  | .metaPeerNeverClosed =>
    (closeSites ++ extraCloseSites).all fun c => c.isChanClose ||
      !memN c.recvType [key! "*wamp.Session", key! "wamp.Peer"] ||
      memN c.fn [key! "router.realm.handleSession", key! "router.router.AttachClient"]
  | .metaMessageKinds =>
    ((msgSends ++ extraMsgSends).all fun m => !m.toMeta ||
      memN m.msgType [key! "Publish", key! "Register"] ||
      (Nat.beq m.msgType (key! "Message") && Nat.beq m.fn (key! "router.realm.metaProcedureHandler"))) &&
    (msgReturns.all fun r =>
      (Nat.beq r.msgType (key! "Yield")) ||
      (Nat.beq r.msgType (key! "Error") &&
        memN r.errType [key! "INVOCATION", key! "call:router.makeError"]))

/-! ### The guard -/

def exitOk (s : ServerSpec) (e : LoopExit) : Bool :=
  match whyOf e.key s.role with
  | some .stop => stopOk s e
  | some (.never a) => neverOk a
  | some (.after _) => false
  | none => false

/-- All exits of the role's loop function are the closer's stop signal (or excluded). -/
def specOk (s : ServerSpec) : Bool :=
  let es := exitsOf s.loopFn
  !es.isEmpty && es.all (exitOk s) && es.any fun e => decide (whyOf e.key s.role = some .stop)

/-- **The guard, computed from the tables.** -/
def guardOf (r : Role) : Option SChan :=
  match serverSpecs.find? fun s => decide (s.role = r) with
  | some s => if specOk s then s.chan else none
  | none => none

/-- The meta-procedure handler leaves only after the meta session's handler (`CloseModel.exitNeeds`,
    there by prose): every exit is `after HM` or excluded. -/
def mpExitsAfterHM : Bool :=
  let es := exitsOf mpLoopFn
  !es.isEmpty && es.all fun e =>
    match whyOf e.key .MP with
    | some (.after q) => afterOk q e
    | some (.never a) => neverOk a
    | _ => false

def servers : Servers Role SChan := { server := serverOf, guard := guardOf }

/-- The pairs (role, channel) with a guard, for `Serve.gexec`. -/
def guardedPairs : List (Role × SChan) :=
  allRoles.filterMap fun r => (guardOf r).map fun ch => (r, ch)

/-! ### The served edges of the wait-for relation -/

/-- Roles blocked in a post to a served channel, without the attribution of the realm goroutine's
    posts to the session handler on whose behalf it acts (`CloseModel.shutdownRole`). -/
def rawPostPairs : List (Role × SChan) :=
  (chanOps.flatMap fun o =>
    match servedChan o with
    | none => []
    | some ch =>
      if unsafePost o && !(exemptPosts.any fun e => Nat.beq e.1 o.key) then
        (feasibleRoles o).map fun r => (r, ch)
      else []).eraseDups

/-- The wait edge of a blocked post: poster → server. -/
def serveEdges : List (Role × Role) := (rawPostPairs.map fun p => (p.1, serverOf p.2)).eraseDups



/-! ### Every wait for a server role is accounted for

The roles that other goroutines wait for as *servers*: the targets of posts, of the replies to
posts, and of the closers' waits for termination. -/

def serverRoles : List Role := [.HM, .R, .D, .B, .Rtr, .MP]

inductive EdgeClass
  /-- a post that can hang: covered by `servers_keep_serving` (poster quiesced, server guarded) -/
  | servedPost
  /-- a post with the server's stop signal (or `stopped`) as select alternative: released when the server stops -/
  | guardedPost
  /-- the closer's own post before it stops the server, or a post during realm construction -/
  | exemptPost
  /-- waiting for the answer of a closure the waiter has posted: same server, and the waiter is a poster -/
  | replyWait
  /-- waiting for the server to terminate (its `stopped`/`done` channel is closed by the server's own exit) -/
  | awaitEnd
  /-- the meta-procedure handler beside its inbox: `metaSessDone` as alternative of a send -/
  | stopAlt
  deriving DecidableEq, Repr

/-- The served channel behind the local reply channel of a posted closure. -/
def postedChan (owner : Nat) : Option (Option SChan) :=
  if Nat.beq owner (key! "posted:dealer.actionChan") then some (some .dealerChan)
  else if Nat.beq owner (key! "posted:broker.actionChan") then some (some .brokerChan)
  else if Nat.beq owner (key! "posted:realm.actionChan") then some (some .realmChan)
  else if Nat.beq owner (key! "posted:router.actionChan") then some none
  else none

/-- `stopped`/`done` channels and the function whose exit closes them. -/
def endChans : List (Nat × Nat) := [
  (key! "dealer.stopped", key! "router.dealer.run"),
  (key! "broker.stopped", key! "router.broker.run"),
  (key! "realm.stopped", key! "router.realm.run"),
  (key! "router.stopped", key! "router.router.run"),
  (key! "realm.metaDone", key! "router.realm.metaProcedureHandler"),
  (key! "realm.metaSessDone", key! "router.realm.createMetaSession")]

/-- The channel is closed only in the function given (the server's loop function, after the loop or
    deferred; for `metaSessDone` the go literal of the meta session's handler). -/
def endChanOk (owner : Nat) : Bool :=
  match lookup owner endChans with
  | some fn => closedOnlyIn owner fn && noSendsOn owner
  | none => false

def exemptFns : List Nat := [key! "router.realm.close", key! "router.dealer.setMetaPeer",
  key! "router.realm.registerMetaProcedure", key! "router.router.Close"]

def classifyServerOp (o : ChanOp) : Option EdgeClass :=
  match o.cls with
  | .action | .peerSendMeta =>
    if decide (o.op = .send) then
      if decide (o.sel = .selMulti) &&
          o.alts.any (fun a => memN a [key! "dealer.closing", key! "realm.metaSessDone", key! "router.stopped"]) then
        some .guardedPost
      else if memN o.fn exemptFns then some .exemptPost
      else match servedChan o with
        | some ch =>
          if (feasibleRoles o).all fun r => rawPostPairs.contains (r, ch) then some .servedPost else none
        | none => none
    else none
  | .peerRecvMeta => if memN o.fn exemptFns then some .exemptPost else none
  | .loc =>
    match postedChan o.owner with
    | some (some ch) =>
      if memN o.fn exemptFns then some .exemptPost
      else if (feasibleRoles o).all fun r => rawPostPairs.contains (r, ch) then some .replyWait else none
    | some none => some .replyWait
    | none => none
  | .field =>
    if decide (o.sel = .selMulti) && Nat.beq o.owner (key! "realm.metaSessDone") then some .stopAlt
    else if decide (o.sel = .selMulti) && Nat.beq o.owner (key! "router.stopped") then some .guardedPost
    else if endChanOk o.owner then some .awaitEnd else none
  | _ => none

/-- The operation makes its goroutine wait for a server role. -/
def waitsForServer (o : ChanOp) : Bool :=
  (opEdges o).any fun e => serverRoles.contains e.2

end Nexus.L3.WpL3.ServeModel
