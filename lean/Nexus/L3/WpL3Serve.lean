/-
L3 (ii′): servers keep serving.

`Shutdown.Step.exit` lets an actor of any role leave at any moment; a channel is marked `closed` (its
server stopped) only by the closer's `closeChan` instruction. Nothing ties the two: in that system
the meta session's handler may leave while session handlers are alive and post to its channel — the
wedge of audit C §0 is a reachable configuration of the old model (`Props/C06: old_model_admits_wedge`).

Here every served channel gets its *server role*, and a role may carry a *guard*: `guard r = some ch`
says that an actor of role `r` leaves only after the stop signal of `ch` has been issued — i.e. only
after the closer executed `closeChan ch`. `GStep` is `Shutdown.Step` restricted accordingly. The
instantiation (Nexus/L3/WpL3ServeModel.lean) *computes* the guard of each server role from the
regenerated table of the exits of its serving loop: a role is guarded only if every way out of its
loop is behind the stop signal and only the closer issues that signal.

Theorems, for every configuration reachable by guarded steps:
  * `guarded_alive`: while `ch` is not stopped, every role guarded by `ch` has a live actor;
  * `poster_finds_server`: with `Shutdown.no_post_after_close` — a live actor of a role that posts to
    `ch` and is quiesced for it finds the server of `ch` alive;
  * `dependent_alive`: a fixed goroutine that leaves only after another one (`exitNeeds`) is alive
    while that one is.
-/
import Nexus.L3.Shutdown

namespace Nexus.L3.WpL3.Serve
open Nexus.L3.Shutdown

variable {Role Chan Flag : Type} [DecidableEq Role] [DecidableEq Chan] [DecidableEq Flag]

/-- Who serves a channel, and which roles leave only behind which stop signal. -/
structure Servers (Role Chan : Type) where
  server : Chan → Role
  guard : Role → Option Chan

/-- A step of the shutdown system in which no guarded role loses an actor before its stop signal. -/
def GStep (S : Sys Role Chan Flag) (G : Servers Role Chan) (c c' : Cfg Role Chan Flag) : Prop :=
  Step S c c' ∧ ∀ r ch, G.guard r = some ch → c'.alive r < c.alive r → c.closed ch = true

/-- Start: as `Shutdown.Init`, and every guarded role has an actor (the fixed goroutines run). -/
structure GInit (S : Sys Role Chan Flag) (G : Servers Role Chan) (c : Cfg Role Chan Flag) : Prop where
  init : Init S c
  up : ∀ r ch, G.guard r = some ch → 0 < c.alive r

inductive GReach (S : Sys Role Chan Flag) (G : Servers Role Chan) : Cfg Role Chan Flag → Prop
  | init {c : Cfg Role Chan Flag} : GInit S G c → GReach S G c
  | step {c c' : Cfg Role Chan Flag} : GReach S G c → GStep S G c c' → GReach S G c'

theorem reach_of_greach {S : Sys Role Chan Flag} {G : Servers Role Chan} {c : Cfg Role Chan Flag}
    (h : GReach S G c) : Reach S c := by
  induction h with
  | init hi => exact .init hi.init
  | step _ hs ih => exact .step ih hs.1

/-- A step never reopens a channel. -/
theorem closed_mono {S : Sys Role Chan Flag} {c c' : Cfg Role Chan Flag} (hs : Step S c c')
    (ch : Chan) (h : c.closed ch = true) : c'.closed ch = true := by
  cases hs with
  | @closeChan ch0 hp =>
    show upd c.closed ch0 true ch = true
    by_cases e : ch = ch0
    · subst e; simp
    · rw [upd_other _ _ e]; exact h
  | setFlag _ => exact h
  | await _ _ => exact h
  | skip _ => exact h
  | exit _ _ _ => exact h
  | spawnEnv _ _ _ _ => exact h
  | spawnChild _ _ _ _ => exact h
  | post _ _ _ _ => exact h

omit [DecidableEq Role] [DecidableEq Chan] [DecidableEq Flag] in
/-- A step that does not make `alive r` smaller keeps it positive. -/
theorem alive_pos_of_not_lt {c c' : Cfg Role Chan Flag} {r : Role} (hpos : 0 < c.alive r)
    (h : ¬ c'.alive r < c.alive r) : 0 < c'.alive r :=
  Nat.lt_of_lt_of_le hpos (Nat.le_of_not_lt h)

/-- **Servers keep serving.** While the stop signal of `ch` has not been issued, every role guarded
    by `ch` has a live actor. -/
theorem guarded_alive {S : Sys Role Chan Flag} {G : Servers Role Chan} {c : Cfg Role Chan Flag}
    (h : GReach S G c) (r : Role) (ch : Chan) (hg : G.guard r = some ch)
    (hopen : c.closed ch = false) : 0 < c.alive r := by
  induction h with
  | init hi => exact hi.up r ch hg
  | @step c c' _ hs ih =>
    have hopen0 : c.closed ch = false := by
      cases hc : c.closed ch with
      | false => rfl
      | true => rw [closed_mono hs.1 ch hc] at hopen; cases hopen
    have hpos := ih hopen0
    apply alive_pos_of_not_lt hpos
    intro hlt
    have := hs.2 r ch hg hlt
    rw [hopen0] at this
    cases this

/-- With `no_post_after_close`: a live actor of a role that posts to `ch` (and is quiesced for it)
    finds the server of `ch` alive — it is never left hanging on a channel nobody reads. -/
theorem poster_finds_server (S : Sys Role Chan Flag) (G : Servers Role Chan) (roles : List Role)
    (n : Nat) {c : Cfg Role Chan Flag} (h : GReach S G c) (r : Role) (ch : Chan)
    (hq : quiesced S roles n r ch = true) (halive : 0 < c.alive r) (hposts : S.posts r ch = true)
    (hg : G.guard (G.server ch) = some ch) : 0 < c.alive (G.server ch) :=
  guarded_alive h (G.server ch) ch hg
    (no_live_poster_on_closed S roles n (reach_of_greach h) r ch hq halive hposts)

/-- A fixed goroutine `r` that leaves only after the fixed goroutine `q` is alive while `q` is. -/
theorem dependent_alive {S : Sys Role Chan Flag} {c : Cfg Role Chan Flag} (h : Reach S c)
    {r q : Role} (hdep : S.exitNeeds r = some q) (hr : S.rule r = .initial) (hq : S.rule q = .initial)
    (halive : 0 < c.alive q) : 0 < c.alive r := by
  cases h0 : c.alive r with
  | zero =>
    have := (inv_reach h).dep r q hdep hr hq h0
    rw [this] at halive
    exact absurd halive (Nat.lt_irrefl _)
  | succ n => exact Nat.succ_pos n

/-- Lifting a concrete run of `Shutdown.exec` to guarded reachability: every step of the run must
    respect the guards. `guardOk` is the executable check for one step over finite lists of the
    guarded roles. -/
def guardOk (guarded : List (Role × Chan)) (c c' : Cfg Role Chan Flag) : Bool :=
  guarded.all fun p => !decide (c'.alive p.1 < c.alive p.1) || c.closed p.2

def gexec (S : Sys Role Chan Flag) (G : Servers Role Chan) (guarded : List (Role × Chan))
    (c : Cfg Role Chan Flag) : List (Act Role Chan) → Option (Cfg Role Chan Flag)
  | [] => some c
  | a :: as =>
    match act S c a with
    | some c' => if guardOk guarded c c' then gexec S G guarded c' as else none
    | none => none

theorem greach_of_gexec {S : Sys Role Chan Flag} {G : Servers Role Chan} {guarded : List (Role × Chan)}
    (hall : ∀ r ch, G.guard r = some ch → (r, ch) ∈ guarded) :
    ∀ (as : List (Act Role Chan)) {c c' : Cfg Role Chan Flag},
      GReach S G c → gexec S G guarded c as = some c' → GReach S G c'
  | [], c, c', hr, h => by
    simp only [gexec] at h
    injection h with h; subst h; exact hr
  | a :: as, c, c', hr, h => by
    simp only [gexec] at h
    split at h
    · rename_i c1 h1
      split at h
      · rename_i hok
        refine greach_of_gexec hall as (GReach.step hr ⟨step_of_act h1, ?_⟩) h
        intro r ch hg hlt
        have := List.all_eq_true.mp hok (r, ch) (hall r ch hg)
        simpa [hlt] using this
      · cases h
    · cases h

end Nexus.L3.WpL3.Serve
