/-
L3 (iii), (iv): a bounded FIFO channel fed by non-blocking sends.

`offer m` is `select { case ch <- m: default: }` (the message is dropped when the buffer is
full), `take` is a receive by the consumer. For every schedule of offers and takes:
* `bounded_queue`: the buffer never holds more than `cap` messages;
* `fifo_lossy`: what was delivered, followed by what is still buffered, is a subsequence of what
  was offered, in order;
* `fifo_lossy_filter`: the same for the messages selected by any predicate — with the table fact
  that the messages of one kind for one receiver are offered by one goroutine, this is that
  goroutine's program order (per sender, per message type, per subscription …);
* `delivered_order`: two delivered messages were offered in the same relative order.
-/
namespace Nexus.L3.Fifo

variable {μ : Type}

inductive Ev (μ : Type)
  | offer (m : μ)
  | take

structure St (μ : Type) where
  queue : List μ
  delivered : List μ

def step (cap : Nat) (s : St μ) : Ev μ → St μ
  | .offer m => if s.queue.length < cap then { s with queue := s.queue ++ [m] } else s
  | .take =>
    match s.queue with
    | [] => s
    | m :: q => { queue := q, delivered := s.delivered ++ [m] }

def run (cap : Nat) (s : St μ) (evs : List (Ev μ)) : St μ := evs.foldl (step cap) s

def offered : List (Ev μ) → List μ
  | [] => []
  | .offer m :: r => m :: offered r
  | .take :: r => offered r

def empty : St μ := ⟨[], []⟩

theorem run_cons (cap : Nat) (s : St μ) (e : Ev μ) (r : List (Ev μ)) :
    run cap s (e :: r) = run cap (step cap s e) r := rfl

/-- (iv) The buffer never exceeds its capacity. -/
theorem bounded_queue_from (cap : Nat) : ∀ (evs : List (Ev μ)) (s : St μ),
    s.queue.length ≤ cap → (run cap s evs).queue.length ≤ cap
  | [], _, h => h
  | e :: r, s, h => by
    rw [run_cons]
    apply bounded_queue_from cap r
    cases e with
    | offer m =>
      simp only [step]
      split
      · rename_i hlt
        simp only [List.length_append, List.length_cons, List.length_nil]
        omega
      · exact h
    | take =>
      simp only [step]
      split
      · exact h
      · rename_i m q hq
        rw [hq] at h
        simp only [List.length_cons] at h
        show q.length ≤ cap
        omega

theorem bounded_queue (cap : Nat) (evs : List (Ev μ)) :
    (run cap empty evs).queue.length ≤ cap :=
  bounded_queue_from cap evs empty (Nat.zero_le _)

/-- (iii) general form, from any state. -/
theorem fifo_lossy_from (cap : Nat) : ∀ (evs : List (Ev μ)) (s : St μ) (base : List μ),
    (s.delivered ++ s.queue).Sublist base →
    ((run cap s evs).delivered ++ (run cap s evs).queue).Sublist (base ++ offered evs)
  | [], s, base, h => by simpa [run, offered] using h
  | .offer m :: r, s, base, h => by
    rw [run_cons]
    have key : ((step cap s (.offer m)).delivered ++ (step cap s (.offer m)).queue).Sublist
        (base ++ [m]) := by
      simp only [step]
      split
      · have : s.delivered ++ (s.queue ++ [m]) = (s.delivered ++ s.queue) ++ [m] := by
          simp [List.append_assoc]
        rw [this]
        exact List.Sublist.append h (List.Sublist.refl _)
      · exact List.Sublist.trans h (List.sublist_append_left _ _)
    have := fifo_lossy_from cap r _ _ key
    simpa [offered, List.append_assoc] using this
  | .take :: r, s, base, h => by
    rw [run_cons]
    have key : ((step cap s .take).delivered ++ (step cap s .take).queue).Sublist base := by
      simp only [step]
      split
      · exact h
      · rename_i m q hq
        rw [hq] at h
        simpa [List.append_assoc] using h
    have := fifo_lossy_from cap r _ _ key
    simpa [offered] using this

/-- (iii) Messages offered with non-blocking sends arrive as a subsequence, in order. -/
theorem fifo_lossy (cap : Nat) (evs : List (Ev μ)) :
    ((run cap empty evs).delivered ++ (run cap empty evs).queue).Sublist (offered evs) := by
  have := fifo_lossy_from cap evs empty [] (by simp [empty])
  simpa using this

theorem delivered_sublist (cap : Nat) (evs : List (Ev μ)) :
    (run cap empty evs).delivered.Sublist (offered evs) :=
  List.Sublist.trans (List.sublist_append_left _ _) (fifo_lossy cap evs)

/-- Corollary: the order is kept per sender / per message kind / per subscription, whatever
    the other senders into the same queue do. -/
theorem fifo_lossy_filter (cap : Nat) (evs : List (Ev μ)) (p : μ → Bool) :
    ((run cap empty evs).delivered.filter p).Sublist ((offered evs).filter p) :=
  List.Sublist.filter p (delivered_sublist cap evs)

/-- If `x` is delivered before `y` then `x` was offered before `y`. -/
theorem sublist_pair {l₁ l₂ : List μ} (h : l₁.Sublist l₂) {a b c : List μ} {x y : μ}
    (e : l₁ = a ++ x :: b ++ y :: c) : [x, y].Sublist l₂ := by
  have h2 : [x, y].Sublist l₁ := by
    rw [e]
    have : [x, y] = [] ++ [x] ++ [] ++ [y] ++ [] := rfl
    have e2 : a ++ x :: b ++ y :: c = a ++ [x] ++ b ++ [y] ++ c := by simp [List.append_assoc]
    rw [e2, this]
    refine List.Sublist.append (List.Sublist.append (List.Sublist.append (List.Sublist.append ?_ ?_) ?_) ?_) ?_
    · exact List.nil_sublist _
    · exact List.Sublist.refl _
    · exact List.nil_sublist _
    · exact List.Sublist.refl _
    · exact List.nil_sublist _
  exact List.Sublist.trans h2 h

theorem delivered_order (cap : Nat) (evs : List (Ev μ)) {a b c : List μ} {x y : μ}
    (e : (run cap empty evs).delivered = a ++ x :: b ++ y :: c) :
    [x, y].Sublist (offered evs) :=
  sublist_pair (delivered_sublist cap evs) e

end Nexus.L3.Fifo
