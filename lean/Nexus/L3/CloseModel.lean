/-
Instantiation of the shutdown system (Nexus/L3/Shutdown.lean) with the regenerated tables.

* The closer's program is the regenerated statement order of `realm.close` (table (g)), with
  `r.dealer.close()` and `r.broker.close()` replaced by the regenerated bodies of those functions,
  each statement translated by the hand-written `stmtInstr`. A statement that `stmtInstr` does not
  know makes `realmCloseProg` `none` (and `close_order` fail).
* `posts` is derived from the channel-operation table (c): role `r` posts to a served channel if
  some send on it is executed by `r` and can be left hanging or panic when the channel's server
  has stopped (`unsafePost`): a plain send, or any send if the channel is really `close`d.
  A send inside a select whose alternative is the server's stop signal, on a channel that is never
  closed, cannot hang or panic and is not a post in this sense (the call timers' post to the
  dealer, the meta-procedure handler's replies to the meta session).
* Served channels: the dealer's, broker's and realm's action channels, and the meta session's
  inbound channel (`metaChan`), whose server — the meta session's handler — may be gone any time
  after `r.metaSess.EndRecv(shutdownGoodbye)`.
-/
import Nexus.L3.Wait
import Nexus.L3.Shutdown

namespace Nexus.L3.CloseModel
open Nexus.Gen.Sites Nexus.L3 Nexus.L3.Shutdown

inductive SChan | dealerChan | brokerChan | realmChan | metaChan
  deriving DecidableEq, Repr

inductive SFlag | closing
  deriving DecidableEq, Repr

abbrev I := Instr Role SChan SFlag

/-- Translation of the statements of realm.close / dealer.close / broker.close. -/
def stmtInstr : List (Nat × List I) := [
  -- taking the close lock: from here on no attach enters handleSession's critical section (it
  -- would find the lock held, and after the unlock `realm.closed` set); wait for one inside it
  (key! "realm.closeLock.Lock()", [.setFlag .closing, .await .A2]),
  (key! "defer realm.closeLock.Unlock()", [.skip]),
  (key! "if realm.closed {", [.skip]),
  (key! "return", [.skip]),
  (key! "}", [.skip]),
  (key! "realm.closed = true", [.skip]),
  (key! "ch := make(chan struct{})", [.skip]),
  -- kick every client: the closer's own post to the realm goroutine, and the wait for it
  (key! "realm.actionChan <- func() {", [.skip]),
  (key! "for _, c := range realm.clients {", [.skip]),
  (key! "c.EndRecv(shutdownGoodbye)", [.skip]),
  (key! "close(ch)", [.skip]),
  (key! "<-ch", [.skip]),
  (key! "realm.waitHandlers.Wait()", [.await .H]),
  -- the meta session's handler may leave any time from here: its inbound channel loses its reader
  (key! "realm.metaSess.EndRecv(shutdownGoodbye)", [.closeChan .metaChan]),
  (key! "<-realm.metaDone", [.await .MP]),
  -- dealer.close: the dealer stops serving its channel
  (key! "close(dealer.closing)", [.closeChan .dealerChan]),
  (key! "<-dealer.stopped", [.skip]),
  (key! "if dealer.debug {", [.skip]),
  (key! "dealer.log.Print(\"Dealer stopped\")", [.skip]),
  -- broker.close
  (key! "close(broker.actionChan)", [.closeChan .brokerChan]),
  (key! "<-broker.stopped", [.skip]),
  (key! "if broker.debug {", [.skip]),
  (key! "broker.log.Print(\"Broker stopped\")", [.skip]),
  (key! "close(realm.actionChan)", [.closeChan .realmChan]),
  (key! "<-realm.stopped", [.skip])]

def translate (stmts : List Nat) : Option (List I) :=
  stmts.foldr (fun s acc =>
    match lookup s stmtInstr, acc with
    | some is, some r => some (is ++ r)
    | _, _ => none) (some [])

/-- realm.close with the two calls inlined. -/
def realmCloseStmts : List Nat :=
  order_realm_close.flatMap fun s =>
    if Nat.beq s (key! "realm.dealer.close()") then order_dealer_close
    else if Nat.beq s (key! "realm.broker.close()") then order_broker_close
    else [s]

def realmCloseProg : Option (List I) := translate realmCloseStmts

/-- The protocol of the design: kick clients → wait handlers → end meta session → wait metaDone →
    dealer.close → broker.close → close realm channel (skips removed). -/
def expectedProtocol : List I := [
  .setFlag .closing, .await .A2,
  .await .H,
  .closeChan .metaChan,
  .await .MP,
  .closeChan .dealerChan,
  .closeChan .brokerChan,
  .closeChan .realmChan]

def essential (p : List I) : List I := p.filter fun i => decide (i ≠ .skip)

/-! ### Posters, derived from table (c) -/

/-- The served channel an operation sends on, if any. -/
def servedChan (o : ChanOp) : Option SChan :=
  if decide (o.op = .send) then
    match o.cls with
    | .action =>
      if Nat.beq o.chan (key! "dealer.actionChan") then some .dealerChan
      else if Nat.beq o.chan (key! "broker.actionChan") then some .brokerChan
      else if Nat.beq o.chan (key! "realm.actionChan") then some .realmChan
      else none
    | .peerSendMeta => some .metaChan
    | _ => none
  else none

/-- Channel texts that some `close(…)` statement closes (table (b)). -/
def reallyClosed (chanText : Nat) : Bool :=
  closeSites.any fun c => c.isChanClose && Nat.beq c.target chanText

/-- Stop signals of the servers, as they appear as select alternatives. -/
def stopSignals : List Nat := [key! "dealer.closing", key! "realm.metaSessDone"]

/-- The send can hang for ever or panic once the server has stopped. -/
def unsafePost (o : ChanOp) : Bool :=
  reallyClosed o.chan || !(decide (o.sel = .selMulti) && o.alts.any fun a => memN a stopSignals)

/-- Sends that are no concern of the shutdown protocol, each with its reason. -/
def exemptPosts : List (Nat × String) := [
  (key! "router.realm.close|send|realm.actionChan",
    "the closer's own post, in program order before it closes the channel"),
  (key! "router.dealer.setMetaPeer|send|dealer.actionChan",
    "realm construction (createMetaSession): the realm is not yet in router.realms, nothing can close it"),
  (key! "router.realm.registerMetaProcedure|send|realm.metaPeer.Send()",
    "realm construction (setupMetaProcedures): the realm is not yet in router.realms")]

/-- The realm goroutine posts to dealer, broker and meta session only while it executes the
    onLeave action of a session handler that waits for it (`r_posts_on_behalf_of_h`): for the
    shutdown protocol these posts belong to that handler's lifetime. The meta session's handler
    never runs the meta-event sends of dealer.register/unregister (`hm_meta_sends_infeasible`). -/
def shutdownRole (r : Role) : Role :=
  match r with
  | .R => .H
  | r => r

def postPairs : List (Role × SChan) :=
  (chanOps.flatMap fun o =>
    match servedChan o with
    | none => []
    | some ch =>
      if unsafePost o && !(exemptPosts.any fun e => Nat.beq e.1 o.key) then
        ((siteRoles o.fn o.gctx o.garg).filter fun r =>
          !(infeasibleFor.any fun e => Nat.beq e.1 o.key && decide (e.2.1 = r))).map
          fun r => (shutdownRole r, ch)
      else []).eraseDups

def posts (r : Role) (ch : SChan) : Bool := postPairs.contains (r, ch)

/-- Spawn rules. A session handler is registered in the wait group inside handleSession's critical
    section, i.e. by a live `A2`; an attach enters that section only while the close lock is free
    and `realm.closed` unset (`closing`); a call timer is started by the dealer executing a CALL
    that a live session handler posted (the handler's exit is ordered after all its posts by the
    dealer's removeSession action); the realm's fixed goroutines are never respawned; everything
    else can appear at any time. -/
def rule : Role → SpawnRule Role SFlag
  | .A2 => .env (some .closing)
  | .H => .child .A2
  | .T => .child .H
  | .HM => .initial
  | .MP => .initial
  | .R => .initial
  | .D => .initial
  | .B => .initial
  | _ => .env none

/-- The meta-procedure handler leaves only after the meta session's handler: on its GOODBYE (the
    last thing that handler does) or on `metaSessDone` (closed when that goroutine returns). -/
def exitNeeds : Role → Option Role
  | .MP => some .HM
  | _ => none

def sys (prog : List I) : Sys Role SChan SFlag :=
  { prog := prog, posts := posts, rule := rule, exitNeeds := exitNeeds }

def allRoles : List Role :=
  [.Ext1, .A1, .Rtr, .Ext2, .A2, .H, .MP, .R, .HM, .T, .D, .B, .Mem, .Srv, .Rd, .W, .Cli, .C, .Net]

def fuel : Nat := 4

/-- Every derived poster is quiesced for its channel. -/
def checkPosters (prog : List I) : Bool :=
  postPairs.all fun p => quiesced (sys prog) allRoles fuel p.1 p.2

end Nexus.L3.CloseModel
