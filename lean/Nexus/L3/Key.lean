/-
Keys of the generated site tables (Nexus/Gen/Sites.lean).

Every textual attribute of a site (function, normalised expression, channel) is carried as the
64-bit FNV-1a hash of its UTF-8 text: the kernel decides `Nat` equality quickly and `String`
equality far too slowly for `decide` over a few hundred sites. `key! "text"` is the same hash,
computed when the file is elaborated, so hand-written expectations stay readable and cannot
drift from the text they name. `/verif/gen/sites.go` uses the same function and fails on a
collision among the keys it emits.
-/
import Lean

namespace Nexus.L3

/-- FNV-1a, 64 bit, over the UTF-8 bytes. -/
def fnv1a (s : String) : Nat :=
  s.toUTF8.foldl (fun a c => ((a ^^^ c.toNat) * 1099511628211) % 18446744073709551616)
    14695981039346656037

/-- `key! "text"` is the numeral `fnv1a "text"`. -/
macro "key! " s:str : term =>
  pure (Lean.Syntax.mkNumLit (toString (fnv1a s.getString)))

/-- Membership test on `Nat` lists written with `Nat.beq` so that it evaluates fast. -/
def memN (k : Nat) : List Nat → Bool
  | [] => false
  | x :: xs => Nat.beq k x || memN k xs

theorem memN_iff {k : Nat} {l : List Nat} : memN k l = true ↔ k ∈ l := by
  induction l with
  | nil => simp [memN]
  | cons x xs ih =>
    simp only [memN, Bool.or_eq_true, ih, List.mem_cons]
    constructor
    · rintro (h | h)
      · exact Or.inl (Nat.eq_of_beq_eq_true h)
      · exact Or.inr h
    · rintro (h | h)
      · exact Or.inl (by subst h; exact Nat.beq_refl k)
      · exact Or.inr h

/-- Lifting a Boolean table check to the quantified statement. -/
theorem forall_of_all {α : Type} {l : List α} {p : α → Bool} (h : l.all p = true) :
    ∀ x ∈ l, p x = true := fun x hx => List.all_eq_true.mp h x hx

end Nexus.L3
