/-
L3 (iii′): the pipeline  session handlers → one worker → per-recipient lossy FIFOs.

The L2 model proves in which order the broker and the dealer *produce* messages, as atomic actions in
the order they take them. Props/C08 proved table facts (one submitter per session, one worker per
table, one emitting role per ordered message kind) and a single-queue FIFO theorem; the reduction of
a concurrent execution to "a sequence of atomic actions, and the client receives a subsequence of
their outputs" was prose (audit B: C08 A1/D1). This file is that reduction as a theorem about a small
transition system.

  * Every session `s` has a program `progs s : List Req`, the requests it submits to *this* worker, in
    the order its handler goroutine reads them.
  * `handoff s`: the handler hands its next request to the worker. The hand-off is a rendezvous
    (a plain send on an unbuffered channel whose only reader is the worker's loop): it happens only
    when the worker is idle, the worker appends the request to its `log` and computes, atomically on
    its own state `σ`, the messages the action emits (`act : σ → Sess → Req → σ × List (Rcpt × Msg)` —
    for the broker and the dealer this is the L2 step function).
  * `emit`: the worker offers the next of those messages to its recipient's queue with a
    non-blocking send (`Fifo.step … (.offer m)`: dropped when the queue is full).
  * `take k`: recipient `k` takes a message from its queue.
  * `other k m`: some *other* goroutine (another worker, a session handler) offers `m` to `k`'s queue.

A schedule is any list of these events, in any order; an event that is not enabled does nothing.
For every schedule:

  * `worker_order_is_program_order`: the worker's log restricted to a session, followed by what the
    session has not submitted yet, is that session's program — the worker takes each session's
    requests in program order, whatever the other sessions do;
  * `delivered_sublist_of_emissions`: if the other goroutines offer no message of the kinds `p`
    (the table fact `C08.emitters`: each ordered kind has one emitting role), then for every recipient
    the delivered messages of kind `p` are a subsequence, in order, of the messages of kind `p` that
    the worker's actions emit for that recipient in log order — i.e. of the L2 output stream;
  * `delivered_pair_in_action_order`: two delivered messages of kind `p` were emitted in that order.
-/
import Nexus.L3.Fifo

namespace Nexus.L3.WpL3.Pipeline
open Nexus.L3

inductive Ev (Sess Rcpt Msg : Type)
  | handoff (s : Sess)
  | emit
  | take (k : Rcpt)
  | other (k : Rcpt) (m : Msg)

structure Sys (σ Sess Req Rcpt Msg : Type) where
  /-- each session's requests for this worker, in program order -/
  progs : Sess → List Req
  /-- one atomic action of the worker -/
  act : σ → Sess → Req → σ × List (Rcpt × Msg)
  init : σ
  /-- capacity of each recipient's queue -/
  cap : Rcpt → Nat

structure St (σ Sess Req Rcpt Msg : Type) where
  /-- what each session has not handed over yet -/
  rest : Sess → List Req
  /-- the actions the worker has taken, in the order it took them -/
  log : List (Sess × Req)
  wstate : σ
  /-- messages of the current action not yet offered -/
  pending : List (Rcpt × Msg)
  /-- messages the worker has offered so far -/
  offered : List (Rcpt × Msg)
  /-- messages offered by other goroutines so far -/
  foreign : List (Rcpt × Msg)
  fifo : Rcpt → Fifo.St Msg

variable {σ Sess Req Rcpt Msg : Type} [DecidableEq Sess] [DecidableEq Rcpt]

def start (S : Sys σ Sess Req Rcpt Msg) : St σ Sess Req Rcpt Msg :=
  { rest := S.progs, log := [], wstate := S.init, pending := [], offered := [], foreign := [],
    fifo := fun _ => Fifo.empty }

def setFifo (f : Rcpt → Fifo.St Msg) (k : Rcpt) (v : Fifo.St Msg) : Rcpt → Fifo.St Msg :=
  fun x => if x = k then v else f x

def step (S : Sys σ Sess Req Rcpt Msg) (st : St σ Sess Req Rcpt Msg) :
    Ev Sess Rcpt Msg → St σ Sess Req Rcpt Msg
  | .handoff s =>
    match st.pending, st.rest s with
    | [], r :: rs =>
      let o := S.act st.wstate s r
      { st with rest := fun x => if x = s then rs else st.rest x,
                log := st.log ++ [(s, r)], wstate := o.1, pending := o.2 }
    | _, _ => st
  | .emit =>
    match st.pending with
    | [] => st
    | (k, m) :: ps =>
      { st with pending := ps, offered := st.offered ++ [(k, m)],
                fifo := setFifo st.fifo k (Fifo.step (S.cap k) (st.fifo k) (.offer m)) }
  | .take k => { st with fifo := setFifo st.fifo k (Fifo.step (S.cap k) (st.fifo k) .take) }
  | .other k m =>
    { st with foreign := st.foreign ++ [(k, m)],
              fifo := setFifo st.fifo k (Fifo.step (S.cap k) (st.fifo k) (.offer m)) }

def run (S : Sys σ Sess Req Rcpt Msg) (st : St σ Sess Req Rcpt Msg) (evs : List (Ev Sess Rcpt Msg)) :
    St σ Sess Req Rcpt Msg := evs.foldl (step S) st

/-- The worker's output for a sequence of actions: fold `act` over the log. -/
def runLog (S : Sys σ Sess Req Rcpt Msg) : σ → List (Sess × Req) → σ × List (Rcpt × Msg)
  | w, [] => (w, [])
  | w, (s, r) :: l =>
    let o := S.act w s r
    let o2 := runLog S o.1 l
    (o2.1, o.2 ++ o2.2)

/-- The messages the worker's actions emit for recipient `k`, in log order. -/
def emissionsFor (S : Sys σ Sess Req Rcpt Msg) (log : List (Sess × Req)) (k : Rcpt) : List Msg :=
  ((runLog S S.init log).2.filter fun p => decide (p.1 = k)).map (·.2)

def toRcpt (l : List (Rcpt × Msg)) (k : Rcpt) : List Msg :=
  (l.filter fun p => decide (p.1 = k)).map (·.2)

theorem toRcpt_append (a b : List (Rcpt × Msg)) (k : Rcpt) :
    toRcpt (a ++ b) k = toRcpt a k ++ toRcpt b k := by
  simp [toRcpt, List.filter_append]

omit [DecidableEq Sess] [DecidableEq Rcpt] in
theorem runLog_append (S : Sys σ Sess Req Rcpt Msg) (w : σ) (l : List (Sess × Req)) (s : Sess) (r : Req) :
    runLog S w (l ++ [(s, r)]) =
      ((S.act (runLog S w l).1 s r).1, (runLog S w l).2 ++ (S.act (runLog S w l).1 s r).2) := by
  induction l generalizing w with
  | nil => simp [runLog]
  | cons x l ih =>
    obtain ⟨s', r'⟩ := x
    simp only [List.cons_append, runLog, ih, List.append_assoc]

/-- What has been said about a state. -/
structure Inv (S : Sys σ Sess Req Rcpt Msg) (p : Msg → Bool) (st : St σ Sess Req Rcpt Msg) : Prop where
  /-- the log restricted to a session, then what that session still holds, is its program -/
  order : ∀ s, ((st.log.filter fun a => decide (a.1 = s)).map (·.2)) ++ st.rest s = S.progs s
  /-- the worker's state and output are those of its log -/
  out : runLog S S.init st.log = (st.wstate, st.offered ++ st.pending)
  /-- per recipient: delivered then queued messages of kind `p` are a subsequence of the offered ones -/
  fifo : ∀ k, (((st.fifo k).delivered ++ (st.fifo k).queue).filter p).Sublist ((toRcpt st.offered k).filter p)

theorem inv_start (S : Sys σ Sess Req Rcpt Msg) (p : Msg → Bool) : Inv S p (start S) where
  order := by intro s; simp [start]
  out := by simp [start, runLog]
  fifo := by intro k; simp [start, Fifo.empty, toRcpt]

theorem setFifo_same (f : Rcpt → Fifo.St Msg) (k : Rcpt) (v : Fifo.St Msg) : setFifo f k v k = v := by
  simp [setFifo]

theorem setFifo_other (f : Rcpt → Fifo.St Msg) {k x : Rcpt} (v : Fifo.St Msg) (h : x ≠ k) :
    setFifo f k v x = f x := by
  simp [setFifo, h]

/-- An offer keeps `delivered ++ queue`, or appends the message. -/
theorem offer_shape (cap : Nat) (q : Fifo.St Msg) (m : Msg) :
    (Fifo.step cap q (.offer m)).delivered ++ (Fifo.step cap q (.offer m)).queue = q.delivered ++ q.queue ∨
    (Fifo.step cap q (.offer m)).delivered ++ (Fifo.step cap q (.offer m)).queue =
      (q.delivered ++ q.queue) ++ [m] := by
  simp only [Fifo.step]
  split
  · right; simp [List.append_assoc]
  · left; rfl

/-- A take keeps `delivered ++ queue`. -/
theorem take_shape (cap : Nat) (q : Fifo.St Msg) :
    (Fifo.step cap q .take).delivered ++ (Fifo.step cap q .take).queue = q.delivered ++ q.queue := by
  simp only [Fifo.step]
  split
  · rfl
  · rename_i m r hq
    simp [hq, List.append_assoc]

theorem inv_step (S : Sys σ Sess Req Rcpt Msg) (p : Msg → Bool) {st : St σ Sess Req Rcpt Msg}
    (hi : Inv S p st) (e : Ev Sess Rcpt Msg)
    (hother : ∀ k m, e = .other k m → p m = false) : Inv S p (step S st e) := by
  cases e with
  | handoff s =>
    simp only [step]
    split
    · rename_i r rs hpend hrest
      refine ⟨?_, ?_, ?_⟩
      · intro x
        by_cases hx : x = s
        · subst hx
          have := hi.order x
          rw [hrest] at this
          simp only [List.filter_append, List.map_append, List.filter_cons, List.filter_nil,
            decide_true, List.map_cons, List.map_nil, if_pos]
          rw [← this]
          simp [List.append_assoc]
        · have := hi.order x
          have hne : ¬ (s = x) := fun h => hx h.symm
          simp only [List.filter_append, List.map_append, List.filter_cons, List.filter_nil, hne,
            decide_false, if_neg hx]
          simpa using this
      · have ho := hi.out
        rw [hpend, List.append_nil] at ho
        rw [runLog_append, ho]
      · exact hi.fifo
    · exact hi
  | emit =>
    simp only [step]
    split
    · exact hi
    · rename_i k m ps hpend
      refine ⟨hi.order, ?_, ?_⟩
      · have := hi.out
        rw [hpend] at this
        simpa [List.append_assoc] using this
      · intro x
        dsimp only
        by_cases hx : x = k
        · subst hx
          rw [setFifo_same, toRcpt_append]
          have hk : toRcpt [(x, m)] x = [m] := by simp [toRcpt]
          rw [hk]
          rcases offer_shape (S.cap x) (st.fifo x) m with h | h
          · rw [h]
            refine List.Sublist.trans (hi.fifo x) ?_
            rw [List.filter_append]
            exact List.sublist_append_left _ _
          · rw [h]
            have := List.Sublist.append (hi.fifo x) (List.Sublist.refl ([m].filter p))
            simpa [List.filter_append, List.append_assoc] using this
        · rw [setFifo_other _ _ hx, toRcpt_append]
          have hk : toRcpt [(k, m)] x = [] := by
            have : ¬ (k = x) := fun h => hx h.symm
            simp [toRcpt, this]
          rw [hk, List.append_nil]
          exact hi.fifo x
  | take k =>
    simp only [step]
    refine ⟨hi.order, hi.out, ?_⟩
    intro x
    dsimp only
    by_cases hx : x = k
    · subst hx
      rw [setFifo_same, take_shape]
      exact hi.fifo x
    · rw [setFifo_other _ _ hx]
      exact hi.fifo x
  | other k m =>
    simp only [step]
    refine ⟨hi.order, hi.out, ?_⟩
    intro x
    dsimp only
    by_cases hx : x = k
    · subst hx
      rw [setFifo_same]
      have hpm := hother x m rfl
      rcases offer_shape (S.cap x) (st.fifo x) m with h | h
      · rw [h]
        exact hi.fifo x
      · rw [h]
        have hm : [m].filter p = [] := by simp [hpm]
        have := hi.fifo x
        rw [List.filter_append (l₁ := (st.fifo x).delivered ++ (st.fifo x).queue), hm, List.append_nil]
        exact this
    · rw [setFifo_other _ _ hx]
      exact hi.fifo x

/-- A schedule in which the other goroutines offer no message of kind `p`. -/
def Foreign (p : Msg → Bool) (evs : List (Ev Sess Rcpt Msg)) : Prop :=
  ∀ e ∈ evs, ∀ k m, e = .other k m → p m = false

theorem inv_run (S : Sys σ Sess Req Rcpt Msg) (p : Msg → Bool) :
    ∀ (evs : List (Ev Sess Rcpt Msg)) (st : St σ Sess Req Rcpt Msg), Inv S p st → Foreign p evs →
      Inv S p (run S st evs)
  | [], _, hi, _ => hi
  | e :: r, st, hi, hf => by
    have h1 := inv_step S p hi e (hf e List.mem_cons_self)
    exact inv_run S p r _ h1 (fun e' he' => hf e' (List.mem_cons_of_mem _ he'))

/-- **Worker order restricted to one session is that session's program order**: for every
    schedule, the requests of session `s` in the worker's log, in log order, followed by those `s` has
    not handed over yet, are `progs s`. In particular they form a prefix of it. -/
theorem worker_order_is_program_order (S : Sys σ Sess Req Rcpt Msg) (evs : List (Ev Sess Rcpt Msg))
    (s : Sess) :
    (((run S (start S) evs).log.filter fun a => decide (a.1 = s)).map (·.2)) ++ (run S (start S) evs).rest s
      = S.progs s :=
  (inv_run S (fun _ => false) evs _ (inv_start S _) (fun _ _ _ _ _ => rfl)).order s

theorem worker_order_prefix (S : Sys σ Sess Req Rcpt Msg) (evs : List (Ev Sess Rcpt Msg)) (s : Sess) :
    (((run S (start S) evs).log.filter fun a => decide (a.1 = s)).map (·.2)) <+: S.progs s :=
  ⟨_, worker_order_is_program_order S evs s⟩

/-- **For every schedule and recipient, the delivered sequence is a subsequence of the worker-order
    emissions for that recipient** (for the message kinds `p` that only this worker emits; with
    `p := fun _ => true` and no `other` events: for everything). -/
theorem delivered_sublist_of_emissions (S : Sys σ Sess Req Rcpt Msg) (p : Msg → Bool)
    (evs : List (Ev Sess Rcpt Msg)) (hf : Foreign p evs) (k : Rcpt) :
    (((run S (start S) evs).fifo k).delivered.filter p).Sublist
      ((emissionsFor S (run S (start S) evs).log k).filter p) := by
  have hi := inv_run S p evs _ (inv_start S p) hf
  have h1 := hi.fifo k
  have h2 : (((run S (start S) evs).fifo k).delivered.filter p).Sublist
      ((((run S (start S) evs).fifo k).delivered ++ ((run S (start S) evs).fifo k).queue).filter p) := by
    rw [List.filter_append]; exact List.sublist_append_left _ _
  have h3 : ((toRcpt (run S (start S) evs).offered k).filter p).Sublist
      ((emissionsFor S (run S (start S) evs).log k).filter p) := by
    unfold emissionsFor
    rw [hi.out]
    show ((toRcpt (run S (start S) evs).offered k).filter p).Sublist
      ((toRcpt ((run S (start S) evs).offered ++ (run S (start S) evs).pending) k).filter p)
    rw [toRcpt_append, List.filter_append]
    exact List.sublist_append_left _ _
  exact List.Sublist.trans h2 (List.Sublist.trans h1 h3)

/-- Without foreign offers: everything delivered, in order. -/
theorem delivered_sublist_all (S : Sys σ Sess Req Rcpt Msg) (evs : List (Ev Sess Rcpt Msg))
    (hno : ∀ e ∈ evs, ∀ k m, e ≠ .other k m) (k : Rcpt) :
    ((run S (start S) evs).fifo k).delivered.Sublist (emissionsFor S (run S (start S) evs).log k) := by
  have := delivered_sublist_of_emissions S (fun _ => true) evs
    (fun e he k m h => absurd h (hno e he k m)) k
  have e : ∀ l : List Msg, l.filter (fun _ => true) = l := fun l => by
    induction l with
    | nil => rfl
    | cons a r ih => simp [ih]
  rwa [e, e] at this

/-- If `x` is delivered before `y` (both of kind `p`) then the worker emitted `x` before `y`: an
    earlier action, or earlier within the same action (SUBSCRIBED before the first EVENT, progressive
    results before the final one, INVOCATIONs in call order …). -/
theorem delivered_pair_in_action_order (S : Sys σ Sess Req Rcpt Msg) (p : Msg → Bool)
    (evs : List (Ev Sess Rcpt Msg)) (hf : Foreign p evs) (k : Rcpt) {a b c : List Msg} {x y : Msg}
    (e : ((run S (start S) evs).fifo k).delivered.filter p = a ++ x :: b ++ y :: c) :
    [x, y].Sublist ((emissionsFor S (run S (start S) evs).log k).filter p) :=
  Fifo.sublist_pair (delivered_sublist_of_emissions S p evs hf k) e

/-- The queue bound survives the composition. -/
theorem queue_bounded (S : Sys σ Sess Req Rcpt Msg) (evs : List (Ev Sess Rcpt Msg)) (k : Rcpt) :
    ((run S (start S) evs).fifo k).queue.length ≤ S.cap k := by
  suffices h : ∀ (evs : List (Ev Sess Rcpt Msg)) (st : St σ Sess Req Rcpt Msg),
      (∀ k, (st.fifo k).queue.length ≤ S.cap k) → ∀ k, ((run S st evs).fifo k).queue.length ≤ S.cap k by
    exact h evs (start S) (fun k => by simp [start, Fifo.empty]) k
  intro evs
  induction evs with
  | nil => intro st h; exact h
  | cons e r ih =>
    intro st h
    apply ih
    intro x
    have hb : ∀ ev, (Fifo.step (S.cap x) (st.fifo x) ev).queue.length ≤ S.cap x := fun ev =>
      Fifo.bounded_queue_from (S.cap x) [ev] (st.fifo x) (h x)
    cases e with
    | handoff s =>
      simp only [step]
      split <;> exact h x
    | emit =>
      simp only [step]
      split
      · exact h x
      · rename_i k m ps _
        dsimp only
        by_cases hx : x = k
        · subst hx; rw [setFifo_same]; exact hb _
        · rw [setFifo_other _ _ hx]; exact h x
    | take k =>
      simp only [step]
      by_cases hx : x = k
      · subst hx; rw [setFifo_same]; exact hb _
      · rw [setFifo_other _ _ hx]; exact h x
    | other k m =>
      simp only [step]
      by_cases hx : x = k
      · subst hx; rw [setFifo_same]; exact hb _
      · rw [setFifo_other _ _ hx]; exact h x

end Nexus.L3.WpL3.Pipeline
