/- After the gen patch: tables (i)–(m) are regenerated in Nexus.Gen.Sites; nothing extra. -/
import Nexus.Gen.Sites

namespace Nexus.L3.WpL3Tables
open Nexus.Gen.Sites

export Nexus.Gen.Sites (ExitKind LoopExit FieldAssign EndRecvSite MsgReturn loopExits durationConsts
  fieldAssigns endRecvSites msgReturns)

def extraCloseSites : List CloseSite := []
def extraChanOps : List ChanOp := []
def extraMsgSends : List MsgSend := []

end Nexus.L3.WpL3Tables
